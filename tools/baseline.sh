#!/bin/bash
# Runs the repository's pinned test suite (guard OFF: no build tag) and compares with BASELINE.json stable_pass.
# usage: tools/baseline.sh [repo-dir]   -> exit 0 iff every stable_pass test passes
REPO=${1:-/repo}
export GOTOOLCHAIN=local  # GOFLAGS/GOPROXY are deliberately NOT exported: cl.TestErrImportPkg pins go-command error text that changes under them
unset GOWORK
OUT=$(mktemp /tmp/baseline.XXXXXX.json)
(cd "$REPO" && go test -mod=mod -json -vet=off -count=1 -timeout 25m ./... > "$OUT" 2>/dev/null)
python3 - "$OUT" <<'PY'
import json,sys
base=json.load(open('/root/.vp/BASELINE.json'))
want=set(base['stable_pass'])
res={}
for l in open(sys.argv[1]):
    try: e=json.loads(l)
    except: continue
    if e.get('Action') in ('pass','fail','skip') and e.get('Test'):
        res[e['Package']+'::'+e['Test']]=e['Action']
missing=[t for t in sorted(want) if res.get(t)!='pass']
print('stable_pass=%d passed_now=%d not_passing=%d'%(len(want),sum(1 for t in want if res.get(t)=='pass'),len(missing)))
for t in missing[:40]: print('  NOT PASSING:',t,res.get(t))
sys.exit(1 if missing else 0)
PY
rc=$?
rm -f "$OUT"
exit $rc
