#!/usr/bin/env python3
"""Prints the sub-agent prompt for one property (only the property's text and a scratch worktree path)."""
import json,sys
pid=sys.argv[1]
suffix=sys.argv[2] if len(sys.argv)>2 else ""   # e.g. "r2" for a second, independent round
wt=f"/tmp/wt_{pid}{suffix}"
out=f"/tmp/seed_out/{pid}{suffix}"
for l in open('/verif/properties.jsonl'):
    p=json.loads(l)
    if p['id']==pid: break
else: sys.exit("no such property")
anch=p.get('anchors',{})
print(f"""You are helping evaluate a verification effort by writing realistic *breaking changes* (seeded defects) for an open-source Go project, goplus/gop (module path github.com/goplus/xgo: the Go+ / XGo language toolchain).

You have your own scratch git worktree of the repository at {wt} (detached HEAD). Work ONLY inside {wt} and {out}. Do NOT read or touch /repo, /verif or /root/.vp — they are off limits.

The property that must hold for the project:

  Title: {p['title']}
  Statement: {p['statement']}
  Quantified over: {p['quantifier']['text']}
  Code it is anchored in: {json.dumps(anch.get('mechanism',[]))} (files: {anch.get('files')})

Your task: produce TWO independent changes to the project's source (non-test .go files) — call them A and B, using different mechanisms / different sites — each of which BREAKS this property while
  (1) the project still compiles (`go build ./...`), and
  (2) the project's existing test suite still passes, unedited (at minimum run the tests of every package you touched and of packages that import it; use `cd {wt} && go test -mod=mod -vet=off -count=1 ./<pkg>/...`. Do NOT export GOFLAGS or GOPROXY in the environment — one pinned test compares go-command error text; the sandbox has no network but everything needed is in the module cache).
The changes should look like plausible maintainer edits (a refactor, an "optimisation", a small behaviour tweak, a merge slip) — not sabotage comments, not dead code. Prefer changes that need something specific to manifest — a particular interleaving, a crash/fault at a particular point, a multi-step sequence of operations, an unusual input, or two cooperating sites that each look fine alone — rather than ones ordinary use would expose at once. Do not edit existing tests. Keep each change small (typically 1-15 lines).

For each change X in {{A,B}} write into {out}/X/ :
  - patch.diff : `git diff` of the change relative to the worktree's HEAD (must apply with `git apply` on a clean checkout). Only the source change, not the demonstration.
  - a demonstration: a Go test file (say demo_test.go, with a comment at the top saying which package directory it must be copied into) or a small standalone program + instructions, that FAILS with the change applied and PASSES on the unmodified tree. It must be deterministic enough to show the failure reliably (for schedule-dependent bugs, loop/stress until it shows, with a timeout).
  - meta.json : {{"property": "{pid}", "summary": "...what the change does...", "needs_to_manifest": "...what specific input/schedule/crash point/sequence is needed...", "files_touched": [...], "commands_run": ["..."], "demo_how_to_run": "..."}}

Procedure per change: make the edit in {wt}; build; run the relevant existing tests (must pass); run your demonstration (must fail); save `git diff` (excluding the demo file) to patch.diff; then `git -C {wt} checkout -- . && git -C {wt} clean -fdq` to restore the tree and verify the demonstration passes on the clean tree; then do the next change. Leave the worktree clean at the end. Go toolchain: `go` (1.23.5) is on PATH; commands print a harmless conda WARNING line you can ignore.

Finish with a short report: for each change, one paragraph on what it is, why existing tests do not notice, and the exact commands you ran with their outcomes.""")
