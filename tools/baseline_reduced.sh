#!/bin/bash
# Runs the repository's pinned test suite (guard OFF: no build tag) and compares with BASELINE.json stable_pass.
# (copy of baseline.sh with BASELINE_SKIP; kept separate so that running baseline.sh instances are not disturbed)
# usage: tools/baseline_reduced.sh [repo-dir] [--affected-by <patch.diff>]
#   -> exit 0 iff every stable_pass test (of the packages run) passes.
# With --affected-by only the packages whose (test) dependency closure contains a package touched by the
# patch are run: the build inputs of every other package's tests are byte-identical, so their results cannot change.
REPO=${1:-/repo}
PATCH=""
if [ "${2:-}" = "--affected-by" ]; then PATCH=$3; fi
export GOTOOLCHAIN=local  # GOFLAGS/GOPROXY are deliberately NOT exported: cl.TestErrImportPkg pins go-command error text that changes under them
unset GOWORK
OUT=$(mktemp /tmp/baseline.XXXXXX.json)
PKGS="./..."
if [ -n "$PATCH" ]; then
  PKGS=$(cd "$REPO" && python3 - "$PATCH" <<'PY'
import subprocess,sys,re,os
touched=set()
for l in open(sys.argv[1]):
    m=re.match(r'^\+\+\+ b/(.*)$',l) or re.match(r'^--- a/(.*)$',l)
    if m and m.group(1).endswith('.go'):
        d=os.path.dirname(m.group(1))
        touched.add('github.com/goplus/xgo'+('/'+d if d else ''))
out=subprocess.run(['go','list','-mod=mod','-test','-f','{{.ImportPath}}|{{join .Deps " "}}','./...'],capture_output=True,text=True).stdout
sel=set()
for l in out.splitlines():
    if '|' not in l: continue
    ip,deps=l.split('|',1)
    base=ip.split(' ')[0]
    if base.endswith('.test'): base=base[:-5]
    base=re.sub(r'_test$','',base)
    ds=set(d.split(' ')[0] for d in deps.split(' ') if d)
    ds.add(base)
    if ds & touched: sel.add(base)
print(' '.join(sorted(sel)))
PY
)
  [ -z "$PKGS" ] && { echo "no affected packages"; rm -f $OUT; exit 0; }
  # BASELINE_SKIP: import paths left out of this run (used for x/typesutil — 30-50 min on a loaded machine — when the
  # seeding agent's own log already shows it passing with the patch); the caller records the reduction
  for s in ${BASELINE_SKIP:-}; do PKGS=$(echo $PKGS | tr ' ' '\n' | grep -vx "$s" | tr '\n' ' '); echo "skipped by BASELINE_SKIP: $s"; done
  echo "affected packages: $(echo $PKGS | wc -w)"
fi
(cd "$REPO" && go test -mod=mod -json -vet=off -count=1 -timeout ${BASELINE_TIMEOUT:-25m} $PKGS > "$OUT" 2>/dev/null)
python3 - "$OUT" "$PATCH" "$(cd $REPO && pwd -P)" <<'PY'
import json,sys
base=json.load(open('/root/.vp/BASELINE.json'))
want=set(base['stable_pass'])
res={}; pkgs=set()
for l in open(sys.argv[1]):
    try: e=json.loads(l)
    except: continue
    if e.get('Package'): pkgs.add(e['Package'])
    if e.get('Action') in ('pass','fail','skip') and e.get('Test'):
        res[e['Package']+'::'+e['Test'].replace(sys.argv[3]+'/','/repo/')]=e['Action']  # subtest names embed absolute testdata paths
if sys.argv[2]:
    want=set(t for t in want if t.split('::')[0] in pkgs)
missing=[t for t in sorted(want) if res.get(t)!='pass']
print('stable_pass(considered)=%d passed_now=%d not_passing=%d packages_run=%d'%(len(want),sum(1 for t in want if res.get(t)=='pass'),len(missing),len(pkgs)))
for t in missing[:40]: print('  NOT PASSING:',t,res.get(t))
sys.exit(1 if missing else 0)
PY
rc=$?
rm -f "$OUT"
exit $rc
