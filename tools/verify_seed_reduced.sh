#!/bin/bash
# Confirms one seeded change independently and files it under /verif/seeded/<prop>-<variant>/.
# usage: tools/verify_seed.sh <prop> <variant> <pkgdir-for-demo> [demo-file]
#  1. scratch worktree of /repo HEAD; demo passes on the clean tree
#  2. patch applies, tree builds (non-demo packages), demo FAILS
#  3. demo removed, the whole pinned test suite still passes with the patch
# Writes verify.log + verified.json next to the seed; removes the worktree.
set -u
P=$1; V=$2; PKG=$3; DEMO=${4:-demo_test.go}
SRC=/tmp/seed_out/$P/$V
DST=/verif/seeded/$P-$V
WT=/tmp/vs_${P}_$V
export GOTOOLCHAIN=local
mkdir -p $DST
cp $SRC/patch.diff $SRC/meta.json $DST/ 2>/dev/null
cp $SRC/$DEMO $DST/ 2>/dev/null
LOG=$DST/verify.log; : > $LOG
git -C /repo worktree remove --force $WT >/dev/null 2>&1
git -C /repo worktree add --detach $WT HEAD -q >>$LOG 2>&1 || { echo "worktree failed" | tee -a $LOG; exit 2; }
cleanup(){ git -C /repo worktree remove --force $WT >/dev/null 2>&1; }
run_demo(){ (cd $WT && timeout 600 go test -mod=mod -vet=off -count=1 -run "${DEMO_RUN:-.}" ./$PKG/ ) >>$LOG 2>&1; }
cp $SRC/$DEMO $WT/$PKG/zz_seed_demo_test.go
# demo may name specific tests; run only tests defined in the demo file
DEMO_RUN=$(grep -ho '^func Test[A-Za-z0-9_]*' $SRC/$DEMO | sed 's/func //' | paste -sd'|' -)
DEMO_RUN="^(${DEMO_RUN})\$"
echo "== demo on clean tree" >>$LOG; run_demo; clean_rc=$?
PATCH=$SRC/patch.diff; [ -f $DST/patch.rebased.diff ] && PATCH=$DST/patch.rebased.diff
echo "== apply patch ($PATCH)" >>$LOG; git -C $WT apply $PATCH >>$LOG 2>&1; apply_rc=$?
echo "== build" >>$LOG; (cd $WT && go build -mod=mod $(go list -mod=mod ./... 2>/dev/null | grep -v '/demo/') ) >>$LOG 2>&1; build_rc=$?
echo "== demo with patch" >>$LOG; run_demo; patched_rc=$?
rm -f $WT/$PKG/zz_seed_demo_test.go
echo "== full suite with patch" >>$LOG; BASELINE_TIMEOUT=150m /verif/tools/baseline_reduced.sh $WT --affected-by $PATCH >>$LOG 2>&1; suite_rc=$?
ok=false; [ $clean_rc -eq 0 ] && [ $apply_rc -eq 0 ] && [ $build_rc -eq 0 ] && [ $patched_rc -ne 0 ] && [ $suite_rc -eq 0 ] && ok=true
cat > $DST/verified.json <<J
{"seed":"$P-$V","repo_head":"$(git -C /repo rev-parse --short HEAD)","demo_pkg":"$PKG","demo_passes_on_clean_tree":$([ $clean_rc -eq 0 ] && echo true || echo false),"patch_applies":$([ $apply_rc -eq 0 ] && echo true || echo false),"builds":$([ $build_rc -eq 0 ] && echo true || echo false),"demo_fails_with_patch":$([ $patched_rc -ne 0 ] && echo true || echo false),"pinned_suite_passes_with_patch":$([ $suite_rc -eq 0 ] && echo true || echo false),"confirmed":$ok,"suite_packages_skipped":"${BASELINE_SKIP:-}",
 "ran":["go test -run '$DEMO_RUN' ./$PKG (clean: rc=$clean_rc, patched: rc=$patched_rc)","go build (non-demo packages) rc=$build_rc","tools/baseline.sh <worktree> --affected-by patch.diff (all packages whose test dependency closure contains a touched package) rc=$suite_rc"]}
J
cleanup
echo "$P-$V confirmed=$ok (clean=$clean_rc apply=$apply_rc build=$build_rc patched=$patched_rc suite=$suite_rc)"
