package core

import (
	"fmt"
	"go/ast"
	"go/token"
	"go/types"
	"os"
	"path/filepath"
	"sort"
	"strings"

	"golang.org/x/tools/go/packages"
)

const Mod = "github.com/goplus/xgo"

// Prog is the type-checked program a check works on.
type Prog struct {
	C    *Check
	Pkgs map[string]*packages.Package // by package path (whole dependency closure)
	Root []*packages.Package
}

// Load type-checks the named packages of the analysed tree from source
// (no export data, no build cache dependence). Any error is a failed check.
func (c *Check) Load(patterns ...string) *Prog {
	env := append(os.Environ(), "GOFLAGS=-mod=mod", "GOPROXY=off", "GOSUMDB=off", "GOWORK=off", "GOTOOLCHAIN=local")
	cfg := &packages.Config{
		Mode:    packages.LoadAllSyntax,
		Dir:     c.Repo,
		Env:     env,
		Fset:    c.Fset,
		Tests:   false,
		Overlay: c.Overlay,
	}
	pkgs, err := packages.Load(cfg, patterns...)
	p := &Prog{C: c, Pkgs: map[string]*packages.Package{}, Root: pkgs}
	if err != nil {
		c.Bad("load", strings.Join(patterns, " "), token.NoPos, "go/packages: "+err.Error())
		return p
	}
	if len(pkgs) == 0 {
		c.Bad("load", strings.Join(patterns, " "), token.NoPos, "zero packages loaded")
		return p
	}
	nerr := 0
	packages.Visit(pkgs, nil, func(pk *packages.Package) {
		p.Pkgs[pk.PkgPath] = pk
		for _, e := range pk.Errors {
			nerr++
			if nerr <= 5 {
				c.Bad("load", pk.PkgPath, token.NoPos, "type/parse error: "+e.Error())
			}
		}
	})
	names := []string{}
	nfiles := 0
	for _, pk := range pkgs {
		names = append(names, pk.PkgPath)
		nfiles += len(pk.Syntax)
		if len(pk.Syntax) == 0 {
			c.Bad("load", pk.PkgPath, token.NoPos, "package loaded without syntax")
		}
	}
	sort.Strings(names)
	c.Analysed("packages", names)
	c.Analysed("files", nfiles)
	c.Analysed("dependency_closure_packages", len(p.Pkgs))
	return p
}

// Pkg returns a loaded package by path; a path starting with "./" is relative to the module.
func (p *Prog) Pkg(path string) *packages.Package {
	if strings.HasPrefix(path, "./") {
		path = Mod + path[1:]
	} else if path == "." {
		path = Mod
	}
	pk := p.Pkgs[path]
	if pk == nil || pk.Types == nil {
		p.C.Bad("anchor", "package "+path, token.NoPos, "package not loaded")
		return nil
	}
	return pk
}

// FuncDecl finds a function or method declaration. name is "F" or "T.M" (pointer or value receiver).
func (p *Prog) FuncDecl(pkgPath, name string) *ast.FuncDecl {
	pk := p.Pkg(pkgPath)
	if pk == nil {
		return nil
	}
	fd := FindFuncDecl(pk, name)
	if fd == nil {
		p.C.Bad("anchor", pkgPath+"."+name, token.NoPos, "anchor function not found (renamed or removed): the rule cannot be evaluated")
	}
	return fd
}

// FindFuncDecl is FuncDecl without the failure obligation.
func FindFuncDecl(pk *packages.Package, name string) *ast.FuncDecl {
	recv, fn := "", name
	if i := strings.Index(name, "."); i >= 0 {
		recv, fn = name[:i], name[i+1:]
	}
	for _, f := range pk.Syntax {
		for _, d := range f.Decls {
			fd, ok := d.(*ast.FuncDecl)
			if !ok || fd.Name.Name != fn {
				continue
			}
			if recv == "" && fd.Recv == nil {
				return fd
			}
			if recv != "" && fd.Recv != nil && len(fd.Recv.List) == 1 && RecvName(fd) == recv {
				return fd
			}
		}
	}
	return nil
}

// RecvName is the receiver's type name without pointer/type parameters.
func RecvName(fd *ast.FuncDecl) string {
	if fd.Recv == nil || len(fd.Recv.List) == 0 {
		return ""
	}
	t := fd.Recv.List[0].Type
	for {
		switch x := t.(type) {
		case *ast.StarExpr:
			t = x.X
		case *ast.ParenExpr:
			t = x.X
		case *ast.IndexExpr:
			t = x.X
		case *ast.IndexListExpr:
			t = x.X
		case *ast.Ident:
			return x.Name
		default:
			return ""
		}
	}
}

// FuncName renders "T.M" or "F" for a declaration.
func FuncName(fd *ast.FuncDecl) string {
	if r := RecvName(fd); r != "" {
		return r + "." + fd.Name.Name
	}
	return fd.Name.Name
}

// AllFuncDecls lists every function declaration with a body in a package.
func AllFuncDecls(pk *packages.Package) []*ast.FuncDecl {
	var out []*ast.FuncDecl
	for _, f := range pk.Syntax {
		for _, d := range f.Decls {
			if fd, ok := d.(*ast.FuncDecl); ok && fd.Body != nil {
				out = append(out, fd)
			}
		}
	}
	return out
}

// NamedType looks up a named type of a package.
func (p *Prog) NamedType(pkgPath, name string) *types.Named {
	pk := p.Pkg(pkgPath)
	if pk == nil {
		return nil
	}
	o := pk.Types.Scope().Lookup(name)
	if o == nil {
		p.C.Bad("anchor", pkgPath+"."+name, token.NoPos, "anchor type not found")
		return nil
	}
	n, _ := types.Unalias(o.Type()).(*types.Named)
	if n == nil {
		p.C.Bad("anchor", pkgPath+"."+name, token.NoPos, "anchor is not a named type")
	}
	return n
}

// Lookup finds a package-level object.
func (p *Prog) Lookup(pkgPath, name string) types.Object {
	pk := p.Pkg(pkgPath)
	if pk == nil {
		return nil
	}
	o := pk.Types.Scope().Lookup(name)
	if o == nil {
		p.C.Bad("anchor", pkgPath+"."+name, token.NoPos, "anchor object not found")
	}
	return o
}

// Callee resolves the statically known callee of a call, or nil.
func Callee(info *types.Info, call *ast.CallExpr) types.Object {
	fun := ast.Unparen(call.Fun)
	switch f := fun.(type) {
	case *ast.IndexExpr:
		fun = f.X
	case *ast.IndexListExpr:
		fun = f.X
	}
	switch f := fun.(type) {
	case *ast.Ident:
		return info.Uses[f]
	case *ast.SelectorExpr:
		if sel, ok := info.Selections[f]; ok {
			return sel.Obj()
		}
		return info.Uses[f.Sel]
	}
	return nil
}

// IsFunc reports whether obj is the function pkgPath.name (name may be "T.M").
func IsFunc(obj types.Object, pkgPath, name string) bool {
	fn, ok := obj.(*types.Func)
	if !ok || fn.Pkg() == nil || fn.Pkg().Path() != pkgPath {
		return false
	}
	return FuncObjName(fn) == name
}

// FuncObjName renders "T.M" or "F" for a function object.
func FuncObjName(fn *types.Func) string {
	sig, _ := fn.Type().(*types.Signature)
	if sig != nil && sig.Recv() != nil {
		t := sig.Recv().Type()
		if pt, ok := t.(*types.Pointer); ok {
			t = pt.Elem()
		}
		if n, ok := types.Unalias(t).(*types.Named); ok {
			return n.Obj().Name() + "." + fn.Name()
		}
		return "?." + fn.Name()
	}
	return fn.Name()
}

// ExprStr is types.ExprString.
func ExprStr(e ast.Expr) string { return types.ExprString(e) }

// RepoFile makes an absolute file name inside the analysed tree.
func (c *Check) RepoFile(rel string) string { return filepath.Join(c.Repo, rel) }

// FileOf returns the repo-relative file name of a position.
func (c *Check) FileOf(pos token.Pos) string {
	f := c.Fset.Position(pos).Filename
	if r, err := filepath.Rel(c.Repo, f); err == nil {
		return r
	}
	return f
}

func Sprintf(f string, a ...any) string { return fmt.Sprintf(f, a...) }
