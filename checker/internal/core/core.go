// Package core holds what every property check shares: the obligation
// ledger, floors, known findings, the evidence writer and the output contract.
package core

import (
	"encoding/json"
	"fmt"
	"go/token"
	"os"
	"path/filepath"
	"sort"
	"strings"
	"time"
)

const (
	OK        = "ok"
	Violated  = "violated"
	Known     = "known"
	Undecided = "undecided"
	Info      = "info" // triage-only observation, never a violation
)

// Obligation is one rule instantiated on one construct.
type Obligation struct {
	Key     string `json:"key"` // rule/construct — never a line number
	Rule    string `json:"rule"`
	Pos     string `json:"pos,omitempty"`
	Verdict string `json:"verdict"`
	Detail  string `json:"detail,omitempty"`
}

// ControlResult is the outcome of one positive control (thorough tier).
type ControlResult struct {
	Name    string `json:"name"`
	Expect  string `json:"expect_key"`
	Outcome string `json:"outcome"` // detected | missed | skipped
	Detail  string `json:"detail,omitempty"`
}

// Check is the ledger of one property run.
type Check struct {
	ID          string
	Tier        string
	Seed        int
	Repo        string // root of the tree being analysed
	VerifDir    string
	Overlay     map[string][]byte // absolute file name -> replacement source (controls)
	Quiet       bool              // control run: no evidence, no stdout contract
	Explanation string
	NotCovered  string
	Technique   string
	Fset        *token.FileSet

	obls     []*Obligation
	index    map[string]*Obligation
	floors   map[string]int
	analysed map[string]any
	trusted  []string
	assume   []string
	exhaust  bool
	controls []ControlResult
	start    time.Time
}

func New(id, tier, repo, verif string, seed int) *Check {
	return &Check{
		ID: id, Tier: tier, Seed: seed, Repo: repo, VerifDir: verif,
		index: map[string]*Obligation{}, floors: map[string]int{},
		analysed: map[string]any{}, start: time.Now(),
		Fset: token.NewFileSet(),
	}
}

// Rel renders a position relative to the analysed tree.
func (c *Check) Rel(pos token.Pos) string {
	if !pos.IsValid() || c.Fset == nil {
		return ""
	}
	p := c.Fset.Position(pos)
	f := p.Filename
	if r, err := filepath.Rel(c.Repo, f); err == nil && !strings.HasPrefix(r, "..") {
		f = r
	}
	return fmt.Sprintf("%s:%d", f, p.Line)
}

var rank = map[string]int{Info: 0, OK: 1, Known: 2, Undecided: 3, Violated: 4}

func (c *Check) add(rule, construct, verdict string, pos token.Pos, detail string) *Obligation {
	key := rule + "/" + construct
	if o, ok := c.index[key]; ok {
		if rank[verdict] > rank[o.Verdict] {
			o.Verdict = verdict
			o.Pos = c.Rel(pos)
			o.Detail = detail
		}
		return o
	}
	o := &Obligation{Key: key, Rule: rule, Pos: c.Rel(pos), Verdict: verdict, Detail: detail}
	c.index[key] = o
	c.obls = append(c.obls, o)
	return o
}

func (c *Check) Ok(rule, construct string, pos token.Pos, detail string) {
	c.add(rule, construct, OK, pos, detail)
}
func (c *Check) Bad(rule, construct string, pos token.Pos, detail string) {
	c.add(rule, construct, Violated, pos, detail)
}
func (c *Check) Undecided(rule, construct string, pos token.Pos, detail string) {
	c.add(rule, construct, Undecided, pos, detail)
}
func (c *Check) Note(rule, construct string, pos token.Pos, detail string) {
	c.add(rule, construct, Info, pos, detail)
}

// Decide records ok when cond holds and a violation otherwise.
func (c *Check) Decide(cond bool, rule, construct string, pos token.Pos, okDetail, badDetail string) bool {
	if cond {
		c.Ok(rule, construct, pos, okDetail)
	} else {
		c.Bad(rule, construct, pos, badDetail)
	}
	return cond
}

// Floor demands at least n obligations of a rule: a rule that matches nothing passes forever.
func (c *Check) Floor(rule string, n int) { c.floors[rule] = n }

func (c *Check) Analysed(k string, v any) { c.analysed[k] = v }
func (c *Check) AddAnalysed(k string, n int) {
	if v, ok := c.analysed[k].(int); ok {
		c.analysed[k] = v + n
	} else {
		c.analysed[k] = n
	}
}
func (c *Check) Trust(s ...string)          { c.trusted = append(c.trusted, s...) }
func (c *Check) Assume(s ...string)         { c.assume = append(c.assume, s...) }
func (c *Check) Exhaustive()                { c.exhaust = true }
func (c *Check) AddControl(r ControlResult) { c.controls = append(c.controls, r) }

// Obligations returns the ledger (used by control runs).
func (c *Check) Obligations() []*Obligation { return c.obls }

// CountRule returns how many obligations a rule produced.
func (c *Check) CountRule(rule string) int {
	n := 0
	for _, o := range c.obls {
		if o.Rule == rule {
			n++
		}
	}
	return n
}

type knownEntry struct {
	Status   string `json:"status"` // known | fixed
	Property string `json:"property"`
	Key      string `json:"key"`
	What     string `json:"what"`
	Witness  string `json:"witness,omitempty"`
	Commit   string `json:"commit,omitempty"`
}

func (c *Check) loadKnown() map[string]knownEntry {
	out := map[string]knownEntry{}
	data, err := os.ReadFile(filepath.Join(c.VerifDir, "known_findings.jsonl"))
	if err != nil {
		return out
	}
	for _, ln := range strings.Split(string(data), "\n") {
		ln = strings.TrimSpace(ln)
		if ln == "" || strings.HasPrefix(ln, "#") {
			continue
		}
		var e knownEntry
		if json.Unmarshal([]byte(ln), &e) != nil {
			continue
		}
		if e.Status == "known" && e.Property == c.ID {
			out[e.Key] = e
		}
	}
	return out
}

// ApplyFloors turns floor shortfalls into violations. Called by Finish and by control runs.
func (c *Check) ApplyFloors() {
	rules := make([]string, 0, len(c.floors))
	for r := range c.floors {
		rules = append(rules, r)
	}
	sort.Strings(rules)
	for _, r := range rules {
		n := c.CountRule(r)
		if n < c.floors[r] {
			c.Bad("floor", r, token.NoPos, fmt.Sprintf("rule %q matched %d constructs, fewer than the %d confirmed by reading: the rule no longer sees the code it was written for", r, n, c.floors[r]))
		}
	}
}

// Finish applies floors and known findings, writes evidence and replay files,
// prints the contract lines and returns the process exit code.
func (c *Check) Finish() int {
	c.ApplyFloors()
	known := c.loadKnown()
	evDir := filepath.Join(c.VerifDir, "evidence")
	replayDir := filepath.Join(evDir, c.ID+".replay")
	os.RemoveAll(replayDir)
	os.MkdirAll(evDir, 0o755)

	sort.SliceStable(c.obls, func(i, j int) bool { return c.obls[i].Key < c.obls[j].Key })
	var nOK, nKnown, nUndec, nViol, nInfo int
	var lines []string
	for _, o := range c.obls {
		if o.Verdict == Violated {
			if k, ok := known[o.Key]; ok {
				o.Verdict = Known
				lines = append(lines, fmt.Sprintf("KNOWN-FINDING: property=%s %s %s", c.ID, o.Key, k.What))
			}
		}
	}
	for _, r := range c.controls {
		if r.Outcome == "missed" {
			c.obls = append(c.obls, &Obligation{Key: "checker-broken/" + r.Name, Rule: "checker-broken", Verdict: Violated,
				Detail: "positive control applied but the rule did not report " + r.Expect + ": " + r.Detail})
		}
	}
	n := 0
	for _, o := range c.obls {
		switch o.Verdict {
		case OK:
			nOK++
		case Known:
			nKnown++
		case Info:
			nInfo++
		case Undecided, Violated:
			if o.Verdict == Undecided {
				nUndec++
			} else {
				nViol++
			}
			n++
			os.MkdirAll(replayDir, 0o755)
			p := filepath.Join(replayDir, fmt.Sprintf("%d.json", n))
			rec := map[string]any{"property": c.ID, "kind": o.Verdict, "key": o.Key, "rule": o.Rule, "pos": o.Pos, "detail": o.Detail, "repo": c.Repo}
			b, _ := json.MarshalIndent(rec, "", " ")
			os.WriteFile(p, append(b, '\n'), 0o644)
			lines = append(lines, fmt.Sprintf("VIOLATION property=%s replay=%s", c.ID, p))
			lines = append(lines, fmt.Sprintf("  %s %s [%s] %s", o.Verdict, o.Key, o.Pos, o.Detail))
		}
	}

	total := nOK + nKnown + nUndec + nViol
	samples := []any{}
	// a few of every verdict, violations first
	pick := func(v string, max int) {
		k := 0
		for _, o := range c.obls {
			if o.Verdict == v && k < max {
				samples = append(samples, o)
				k++
			}
		}
	}
	pick(Violated, 20)
	pick(Undecided, 20)
	pick(Known, 20)
	pick(OK, 12)
	pick(Info, 6)
	perRule := map[string]int{}
	for _, o := range c.obls {
		perRule[o.Rule]++
	}
	expl := c.Explanation
	if c.NotCovered != "" {
		expl += " NOT COVERED: " + c.NotCovered
	}
	cov := map[string]any{
		"explanation":         expl,
		"obligations":         total,
		"discharged":          nOK,
		"known":               nKnown,
		"undecided":           nUndec,
		"violated":            nViol,
		"observations":        nInfo,
		"evaluations":         total,
		"distinct_nontrivial": len(c.index),
		"rule":                "one obligation per (rule, construct) found in the current tree; distinct by key; all are non-trivial in that the construct exists in the analysed source",
		"samples":             samples,
		"per_rule":            perRule,
		"floors":              c.floors,
		"analysed":            c.analysed,
		"checker_cmd":         fmt.Sprintf("bin/xgoverif check %s --tier %s", c.ID, c.Tier),
		"trusted_base":        append([]string{"go/types", "go/parser", "golang.org/x/tools@v0.29.0 go/packages"}, c.trusted...),
		"exhaustive":          c.exhaust,
		"all_obligations":     c.obls,
	}
	if len(c.controls) > 0 {
		cov["positive_controls"] = c.controls
	}
	ev := map[string]any{
		"property_id": c.ID,
		"tier":        c.Tier,
		"seed":        c.Seed,
		"level":       "other",
		"coverage":    cov,
		"assumptions": append([]string{"static analysis of the source tree at " + c.Repo + "; no goplus/gop code is executed", "the Go type checker and the loaded standard-library sources are correct"}, c.assume...),
		"wall_s":      time.Since(c.start).Seconds(),
		"violations":  nViol + nUndec,
		"technique":   c.Technique,
	}
	b, _ := json.MarshalIndent(ev, "", " ")
	if err := os.WriteFile(filepath.Join(evDir, c.ID+".json"), append(b, '\n'), 0o644); err != nil {
		fmt.Println("cannot write evidence:", err)
		return 2
	}
	for _, l := range lines {
		fmt.Println(l)
	}
	fmt.Printf("%s tier=%s obligations=%d ok=%d known=%d undecided=%d violated=%d observations=%d wall=%.1fs\n",
		c.ID, c.Tier, total, nOK, nKnown, nUndec, nViol, nInfo, time.Since(c.start).Seconds())
	if nViol+nUndec > 0 {
		return 1
	}
	return 0
}
