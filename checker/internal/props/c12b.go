package props

import (
	"go/ast"
	"go/types"
	"strings"

	"golang.org/x/tools/go/packages"

	"verif/checker/internal/core"
)

// c12ShortVarDecl: `a, err := f()` may redeclare names of the same scope; only the NEW names are definitions (go/types
// records the others in Uses). In compileAssignStmt the identifier list handed to defNames must therefore be built by
// appends guarded by `scope.Lookup(name) == nil`, evaluated before the statement is compiled.
func c12ShortVarDecl(c *core.Check, pk *packages.Package) {
	info := pk.TypesInfo
	fd := core.FindFuncDecl(pk, "compileAssignStmt")
	if fd == nil {
		c.Bad("anchor", "cl.compileAssignStmt", 0, "not found")
		return
	}
	var list types.Object
	var callPos ast.Node
	ast.Inspect(fd.Body, func(n ast.Node) bool {
		call, ok := n.(*ast.CallExpr)
		if !ok || len(call.Args) < 2 {
			return true
		}
		if fn, ok := calleeObj(info, call).(*types.Func); ok && fn.Name() == "defNames" {
			list, callPos = identObj(info, call.Args[1]), call
		}
		return true
	})
	if callPos == nil {
		c.Bad("def-only-new", "compileAssignStmt", fd.Pos(), "compileAssignStmt no longer records the names a `:=` defines (no call of defNames)")
		return
	}
	if list == nil {
		c.Bad("def-only-new", "compileAssignStmt", callPos.Pos(), "the identifiers handed to defNames are not a local list whose construction can be followed: it cannot be established that only NEW names are recorded as definitions")
		return
	}
	guarded, unguarded := 0, 0
	var stack []ast.Node
	ast.Inspect(fd.Body, func(n ast.Node) bool {
		if n == nil {
			stack = stack[:len(stack)-1]
			return true
		}
		stack = append(stack, n)
		as, ok := n.(*ast.AssignStmt)
		if !ok || len(as.Lhs) != 1 || len(as.Rhs) != 1 || identObj(info, as.Lhs[0]) != list {
			return true
		}
		rhs := nows(core.ExprStr(as.Rhs[0]))
		if strings.HasPrefix(rhs, "make(") {
			// a list made with a length is filled by index: every slot is a recorded name
			if call, ok := as.Rhs[0].(*ast.CallExpr); ok && len(call.Args) == 2 {
				unguarded++
			}
			return true
		}
		if !strings.HasPrefix(rhs, "append(") {
			unguarded++
			return true
		}
		ok2 := false
		for i := len(stack) - 2; i >= 0; i-- {
			if is, isIf := stack[i].(*ast.IfStmt); isIf && i+1 < len(stack) && stack[i+1] == ast.Node(is.Body) {
				cond := nows(core.ExprStr(is.Cond))
				if strings.Contains(cond, ".Lookup(") && strings.HasSuffix(cond, "==nil") {
					ok2 = true
				}
			}
		}
		if ok2 {
			guarded++
		} else {
			unguarded++
		}
		return true
	})
	// index stores into the list (idents[i] = v) are unguarded too
	ast.Inspect(fd.Body, func(n ast.Node) bool {
		if as, ok := n.(*ast.AssignStmt); ok {
			for _, l := range as.Lhs {
				if ix, ok := ast.Unparen(l).(*ast.IndexExpr); ok && identObj(info, ix.X) == list {
					unguarded++
				}
			}
		}
		return true
	})
	c.Decide(guarded > 0 && unguarded == 0, "def-only-new", "compileAssignStmt", callPos.Pos(), "only names not yet in the scope are handed to defNames", "compileAssignStmt hands defNames identifiers that were not filtered by `scope.Lookup(name) == nil`: a name that `:=` merely re-assigns (`v, err := g()` with err already declared in the scope) is recorded in Defs with the OLD object, whose position is not the identifier's — go/types records it in Uses")
}

// c12GoIdentGuard: gogen reports member events also for the declarations of a mixed package's Go files, whose nodes were
// converted from go/ast and belong to none of the checked files. In goxRecorder.Member every recording for a selector
// (Use, Type) stays inside the guard that excludes converted identifiers (fromgo.CheckIdent).
func c12GoIdentGuard(c *core.Check, pk *packages.Package) {
	info := pk.TypesInfo
	fd := core.FindFuncDecl(pk, "goxRecorder.Member")
	if fd == nil {
		c.Bad("anchor", "cl.goxRecorder.Member", 0, "not found")
		return
	}
	recv := recvOf(fd, info)
	n, bad := 0, ast.Node(nil)
	ast.Inspect(fd.Body, func(nd ast.Node) bool {
		cc, ok := nd.(*ast.CaseClause)
		if !ok || len(cc.List) != 1 || nows(core.ExprStr(cc.List[0])) != "*ast.SelectorExpr" {
			return true
		}
		var stack []ast.Node
		ast.Inspect(&ast.BlockStmt{List: cc.Body}, func(m ast.Node) bool {
			if m == nil {
				stack = stack[:len(stack)-1]
				return true
			}
			stack = append(stack, m)
			call, ok := m.(*ast.CallExpr)
			if !ok {
				return true
			}
			sel, ok := call.Fun.(*ast.SelectorExpr)
			if !ok || identObj(info, sel.X) != recv || !(sel.Sel.Name == "Use" || sel.Sel.Name == "Type" || sel.Sel.Name == "Def" || sel.Sel.Name == "Select") {
				return true
			}
			n++
			guarded := false
			for i := len(stack) - 2; i >= 0; i-- {
				if is, isIf := stack[i].(*ast.IfStmt); isIf && i+1 < len(stack) && stack[i+1] == ast.Node(is.Body) {
					txt := nows(core.ExprStr(is.Cond))
					if is.Init != nil {
						txt += nows(stmtStr(is.Init))
					}
					if strings.Contains(txt, "CheckIdent(") && strings.Contains(txt, "!ok") {
						guarded = true
					}
				}
			}
			if !guarded {
				bad = call
			}
			return true
		})
		return false
	})
	if n == 0 {
		c.Undecided("go-node-guard", "goxRecorder.Member", fd.Pos(), "no recording call found in the *ast.SelectorExpr case")
		return
	}
	pos := fd.Pos()
	if bad != nil {
		pos = bad.Pos()
	}
	c.Decide(bad == nil, "go-node-guard", "goxRecorder.Member", pos, "every recording for a selector is inside the CheckIdent guard", "goxRecorder.Member records a selector outside the guard that excludes identifiers converted from Go files (fromgo.CheckIdent): for a mixed package, nodes that belong to none of the checked files end up in Info.Types/Uses")
}

// c12TypesKeys: (a) a recorder call keyed on a node field documented as optional ("…; or nil") is guarded by a nil test
// of that field — an elided composite-literal type otherwise puts a nil key into Info.Types; (b) the for statement that
// toForStmt synthesizes for `for i <- a:b` is compiled by compileForStmt, which records scopes (and, through its
// condition, types) for the nodes it is given: nodes that belong to no checked file (known finding).
func c12TypesKeys(c *core.Check, prog *core.Prog, pk *packages.Package) {
	info := pk.TypesInfo
	var docs map[*types.Var]string
	for _, dep := range pk.Imports {
		if strings.HasSuffix(dep.PkgPath, "xgo/ast") {
			docs = fieldDocs(dep)
		}
	}
	n := 0
	for _, fd := range core.AllFuncDecls(pk) {
		if fd.Body == nil {
			continue
		}
		var stack []ast.Node
		ast.Inspect(fd.Body, func(nd ast.Node) bool {
			if nd == nil {
				stack = stack[:len(stack)-1]
				return true
			}
			stack = append(stack, nd)
			call, ok := nd.(*ast.CallExpr)
			if !ok || len(call.Args) < 1 {
				return true
			}
			fsel, ok := call.Fun.(*ast.SelectorExpr)
			if !ok || !(fsel.Sel.Name == "Type" || fsel.Sel.Name == "Scope" || fsel.Sel.Name == "recordType") {
				return true
			}
			if t := info.TypeOf(fsel.X); t == nil || !strings.Contains(t.String(), "ecorder") {
				return true
			}
			key, ok := ast.Unparen(call.Args[0]).(*ast.SelectorExpr)
			if !ok {
				return true
			}
			s := info.Selections[key]
			if s == nil || s.Kind() != types.FieldVal {
				return true
			}
			fv, _ := s.Obj().(*types.Var)
			if fv == nil || !strings.Contains(docs[fv], "or nil") {
				return true
			}
			n++
			want := nows(core.ExprStr(key)) + "!=nil"
			guarded := false
			for i := len(stack) - 2; i >= 0; i-- {
				if is, isIf := stack[i].(*ast.IfStmt); isIf && i+1 < len(stack) && stack[i+1] == ast.Node(is.Body) {
					for _, cj := range conjuncts(is.Cond) {
						if nows(core.ExprStr(cj)) == want {
							guarded = true
						}
					}
				}
			}
			k := core.FuncName(fd) + ":" + nows(core.ExprStr(key))
			c.Decide(guarded, "types-key-guard", k, call.Pos(), "recorded only when present", core.FuncName(fd)+" records "+core.ExprStr(key)+" — a field documented as optional — without testing it for nil: when it is absent (the elided type of `{1, 2}` in `[]P{{1, 2}}`) a nil key is stored in Info.Types")
			return true
		})
	}
	c.Analysed("recorder_calls_keyed_on_optional_fields", n)
	c.Floor("types-key-guard", 1)
	// (b)
	tfs := pk.Types.Scope().Lookup("toForStmt")
	cfs := core.FindFuncDecl(pk, "compileForStmt")
	if tfs == nil || cfs == nil {
		return
	}
	records := false
	ast.Inspect(cfs.Body, func(nd ast.Node) bool {
		if call, ok := nd.(*ast.CallExpr); ok {
			if sel, ok := call.Fun.(*ast.SelectorExpr); ok && sel.Sel.Name == "Scope" && len(call.Args) == 2 {
				if identObj(info, call.Args[0]) == paramObj(cfs, info, 1) {
					records = true
				}
			}
		}
		return true
	})
	for _, fd := range core.AllFuncDecls(pk) {
		if fd.Body == nil {
			continue
		}
		ast.Inspect(fd.Body, func(nd ast.Node) bool {
			call, ok := nd.(*ast.CallExpr)
			if !ok || len(call.Args) < 2 || core.FuncName(fd) == "compileForStmt" {
				return true
			}
			if fn, ok := calleeObj(info, call).(*types.Func); !ok || fn.Name() != "compileForStmt" {
				return true
			}
			inner, ok := ast.Unparen(call.Args[1]).(*ast.CallExpr)
			if !ok || calleeObj(info, inner) != tfs {
				return true
			}
			c.Decide(!records, "synth-node-recorded", core.FuncName(fd)+":toForStmt", call.Pos(), "the synthesized loop is not recorded", core.FuncName(fd)+" compiles the for statement that toForStmt synthesizes for a range expression with compileForStmt, which records a scope for the statement it is given (rec.Scope(v, …)) and types for its synthesized condition: Info.Scopes and Info.Types get nodes that belong to none of the checked files")
			return true
		})
	}
}
