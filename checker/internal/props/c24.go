package props

import (
	"go/ast"
	"go/token"
	"go/types"
	"strings"

	"verif/checker/internal/core"
)

func init() {
	f := "format/formatutil/format_gop.go"
	register(&Prop{
		ID:        "C24",
		Title:     "Function hoisting only reorders top-level chunks",
		Technique: "complementary-partition and chunk-tiling shape analysis of formatutil.RearrangeFuncs/codeOf over the type-checked AST",
		Explanation: "Decides for every source that RearrangeFuncs' output is src[:off] followed by two ascending passes over the SAME chunk slice whose predicates are each other's negation (isFuncDecl first), each pass appending codeOf(src, base, i, rest) for its chunks and nothing else — every chunk exactly once, functions first, relative order kept; " +
			"and that the chunks tile the source: codeOf's start of chunk i, its end (= start of chunk i+1, or len(src) for the last) and the untouched prefix length `off` are the same position expression applied to rest[i], rest[i+1] and the first chunk — no byte added or lost. Classifier agreement (rule classifier): isFuncDecl's own statements after the receiver `func (…)` are evaluated once per token on which the parser (parseFuncDeclOrCall) continues a declaration — IDENT, `.` and every key of parser.overloadOps — and must yield true, and for `{` must yield false.",
		NotCovered: "whether splitStmts puts statement boundaries at the right tokens, whether isFuncDecl classifies heads other than `func (…) <token>` like the parser does (e.g. `func (a) (b) {…}()` with a parenthesised result list is hoisted although the parser reads a function literal — the classifier only looks one token past the receiver), and the SourceEx success clause.",
		Run:        runC24,
		Controls: []Control{
			{Name: "method-needs-identifier-name", File: f, Old: "\t\tif startWith(words, token.LBRACE) {                      // func (...) {\n\t\t\treturn false\n\t\t}\n", New: "\t\treturn startWith(words, token.IDENT)\n", Expect: "classifier/after-receiver:ADD"},
			{Name: "prefix-from-other-token", File: f, Old: "off := int(stmts[first].words[0].pos) - base", New: "off := int(stmts[first].words[stmts[first].at].pos) - base", Expect: "tiling/prefix"},
			{Name: "chunk-end-off-by-one", File: f, Old: "to = int(rest[i+1].words[0].pos) - base", New: "to = int(rest[i+1].words[0].pos) - base - 1", Expect: "tiling/chunk-end"},
			{Name: "last-chunk-truncated", File: f, Old: "\t\tto = len(src)\n", New: "\t\tto = len(src) - 1\n", Expect: "tiling/last-chunk"},
			{Name: "second-pass-not-negation", File: f, Old: "\t\tif !s.isFuncDecl() {", New: "\t\tif !s.isDecl() {", Expect: "partition/complementary"},
			{Name: "second-pass-other-slice", File: f, Old: "\tfor i, s := range rest {\n\t\tif !s.isFuncDecl() {", New: "\tfor i, s := range stmts {\n\t\tif !s.isFuncDecl() {", Expect: "partition/same-slice"},
			{Name: "statements-first", File: f, Old: "\tfor i, s := range rest {\n\t\tif s.isFuncDecl() {\n\t\t\tret = append(ret, codeOf(src, base, i, rest)...)\n\t\t}\n\t}\n\tfor i, s := range rest {\n\t\tif !s.isFuncDecl() {", New: "\tfor i, s := range rest {\n\t\tif !s.isFuncDecl() {\n\t\t\tret = append(ret, codeOf(src, base, i, rest)...)\n\t\t}\n\t}\n\tfor i, s := range rest {\n\t\tif s.isFuncDecl() {", Expect: "partition/functions-first"},
			{Name: "wrong-index", File: f, Old: "\t\tif s.isFuncDecl() {\n\t\t\tret = append(ret, codeOf(src, base, i, rest)...)", New: "\t\tif s.isFuncDecl() {\n\t\t\tret = append(ret, codeOf(src, base, 0, rest)...)", Expect: "partition/append-own-chunk"},
			{Name: "extra-newline", File: f, Old: "\tret = append(ret, src[:off]...)\n", New: "\tret = append(ret, src[:off]...)\n\tret = append(ret, '\\n')\n", Expect: "partition/no-other-bytes"},
		},
	})
}

func runC24(c *core.Check) {
	prog := c.Load("./format/formatutil", "./parser")
	pk := prog.Pkg("./format/formatutil")
	if pk == nil {
		return
	}
	if xpk := prog.Pkg("./parser"); xpk != nil {
		c24Classifier(c, prog, pk, xpk)
		c.Floor("classifier", 30)
	}
	info := pk.TypesInfo
	rf := prog.FuncDecl("./format/formatutil", "RearrangeFuncs")
	cf := prog.FuncDecl("./format/formatutil", "codeOf")
	if rf == nil || cf == nil {
		return
	}
	codeOfObj := pk.Types.Scope().Lookup("codeOf")
	astmt := prog.NamedType("./format/formatutil", "aStmt")
	var isFuncDeclM types.Object
	if astmt != nil {
		isFuncDeclM = findMethod(astmt, "isFuncDecl")
	}
	if isFuncDeclM == nil {
		c.Bad("anchor", "aStmt.isFuncDecl", rf.Pos(), "classifier method not found")
		return
	}
	src := paramObj(rf, info, 0)
	defs := defsOf(info, rf.Body)

	// variables: stmts (splitStmts result), first, rest = stmts[first:], off, ret, base
	var restVar, stmtsVar, firstVar, offVar, retVar, baseVar types.Object
	var offExpr ast.Expr
	for o, ds := range defs {
		if len(ds) == 0 {
			continue
		}
		d := ast.Unparen(ds[0])
		if se, ok := d.(*ast.SliceExpr); ok && se.High == nil && se.Low != nil && len(ds) == 1 {
			if so := identObj(info, se.X); so != nil {
				if _, isSlice := types.Unalias(so.Type()).Underlying().(*types.Slice); isSlice && namedOf(types.Unalias(so.Type()).Underlying().(*types.Slice).Elem()) == astmt {
					restVar, stmtsVar, firstVar = o, so, identObj(info, se.Low)
				}
			}
		}
	}
	if restVar == nil || firstVar == nil {
		c.Undecided("shape", "RearrangeFuncs", rf.Pos(), "cannot find `rest := stmts[first:]`")
		return
	}
	// ret: the variable returned on the main path, initialised by make([]byte, 0, …)
	ast.Inspect(rf.Body, func(n ast.Node) bool {
		if r, ok := n.(*ast.ReturnStmt); ok && len(r.Results) == 2 {
			if o := identObj(info, r.Results[0]); o != nil && o != src {
				retVar = o
			}
		}
		return true
	})
	if retVar == nil {
		c.Undecided("shape", "RearrangeFuncs", rf.Pos(), "cannot find the result buffer")
		return
	}
	// appends to ret, in order
	type app struct {
		stmt *ast.AssignStmt
		call *ast.CallExpr
	}
	var apps []app
	otherWrites := 0
	ast.Inspect(rf.Body, func(n ast.Node) bool {
		as, ok := n.(*ast.AssignStmt)
		if !ok {
			return true
		}
		for i, l := range as.Lhs {
			if identObj(info, l) != retVar {
				continue
			}
			if i < len(as.Rhs) {
				if call, ok := ast.Unparen(as.Rhs[i]).(*ast.CallExpr); ok {
					if id, ok := call.Fun.(*ast.Ident); ok && id.Name == "append" && len(call.Args) == 2 && identObj(info, call.Args[0]) == retVar && call.Ellipsis.IsValid() {
						apps = append(apps, app{as, call})
						continue
					}
					if id, ok := call.Fun.(*ast.Ident); ok && id.Name == "make" {
						// must be empty: make([]byte, 0, cap)
						if len(call.Args) >= 2 {
							if tv := info.Types[call.Args[1]]; tv.Value != nil && tv.Value.String() == "0" {
								continue
							}
						}
					}
				}
			}
			otherWrites++
		}
		return true
	})
	// first append: src[:off]
	prefixOK := false
	if len(apps) >= 1 {
		if se, ok := ast.Unparen(apps[0].call.Args[1]).(*ast.SliceExpr); ok && identObj(info, se.X) == src && se.Low == nil && se.High != nil && se.Max == nil {
			offVar = identObj(info, se.High)
			if offVar != nil && len(defs[offVar]) == 1 {
				offExpr = defs[offVar][0]
				prefixOK = true
			}
		}
	}
	c.Decide(prefixOK, "partition", "prefix-first", rf.Pos(), "the output starts with src[:off]", "the output does not start with the untouched prefix src[:off]")

	// the two passes
	type pass struct {
		rng     *ast.RangeStmt
		cond    ast.Expr
		negated bool
		ok      bool
		whyNot  string
	}
	var passes []pass
	ast.Inspect(rf.Body, func(n ast.Node) bool {
		r, ok := n.(*ast.RangeStmt)
		if !ok {
			return true
		}
		ps := pass{rng: r}
		key, val := identObj(info, r.Key), identObj(info, r.Value)
		if len(r.Body.List) == 1 {
			if ifs, ok := r.Body.List[0].(*ast.IfStmt); ok && ifs.Init == nil && ifs.Else == nil && len(ifs.Body.List) == 1 {
				cond := ast.Unparen(ifs.Cond)
				if u, ok := cond.(*ast.UnaryExpr); ok && u.Op == token.NOT {
					ps.negated = true
					cond = ast.Unparen(u.X)
				}
				ps.cond = cond
				// the body: ret = append(ret, codeOf(src, base, key, X)...)
				if as, ok := ifs.Body.List[0].(*ast.AssignStmt); ok && len(as.Rhs) == 1 {
					if call, ok := ast.Unparen(as.Rhs[0]).(*ast.CallExpr); ok && len(call.Args) == 2 {
						if inner, ok := ast.Unparen(call.Args[1]).(*ast.CallExpr); ok && calleeObj(info, inner) == codeOfObj && len(inner.Args) == 4 {
							if identObj(info, inner.Args[0]) == src && identObj(info, inner.Args[2]) == key && key != nil && identObj(info, inner.Args[3]) == identObj(info, r.X) {
								ps.ok = true
								baseVar = identObj(info, inner.Args[1])
							} else {
								ps.whyNot = "the chunk appended is not codeOf(src, base, <this loop's index>, <this loop's slice>)"
							}
						}
					}
				}
				// predicate must be a call on the loop value
				if call, ok := cond.(*ast.CallExpr); ok {
					if sel, ok := call.Fun.(*ast.SelectorExpr); !ok || identObj(info, sel.X) != val {
						ps.ok = false
						ps.whyNot = "the predicate is not evaluated on the loop's own element"
					}
				}
			}
		}
		passes = append(passes, ps)
		return true
	})
	if len(passes) != 2 {
		c.Bad("partition", "two-passes", rf.Pos(), core.Sprintf("expected exactly two passes over the chunk list, found %d range loops", len(passes)))
		return
	}
	p1, p2 := passes[0], passes[1]
	c.Decide(p1.ok && p2.ok, "partition", "append-own-chunk", p1.rng.Pos(), "each pass appends codeOf(src, base, i, rest) for its own index", "a pass does not append exactly its own chunk: "+p1.whyNot+p2.whyNot)
	c.Decide(identObj(info, p1.rng.X) == restVar && identObj(info, p2.rng.X) == restVar, "partition", "same-slice", p2.rng.Pos(), "both passes range over rest", "the two passes do not range over the same chunk slice `rest`: chunks are duplicated or dropped")
	same := p1.cond != nil && p2.cond != nil && normExpr(p1.cond, info, identObj(info, p1.rng.Value)) == normExpr(p2.cond, info, identObj(info, p2.rng.Value))
	c.Decide(same && p1.negated != p2.negated, "partition", "complementary", p2.rng.Pos(), "the second predicate is the negation of the first", "the predicates of the two passes are not each other's negation: some chunk is emitted twice or not at all")
	firstIsFunc := false
	if call, ok := p1.cond.(*ast.CallExpr); ok && calleeObj(info, call) == isFuncDeclM && !p1.negated {
		firstIsFunc = true
	}
	c.Decide(firstIsFunc, "partition", "functions-first", p1.rng.Pos(), "the first pass selects isFuncDecl() chunks", "the first pass does not select the function declarations: functions are not hoisted before the other statements")
	// no bytes other than the prefix and the two passes' chunks
	c.Decide(len(apps) == 3 && otherWrites == 0, "partition", "no-other-bytes", rf.Pos(), "exactly three append sites feed the result: prefix, functions, others",
		core.Sprintf("the result buffer is written by %d append sites and %d other assignments (expected 3 and 0): bytes are added or lost", len(apps), otherWrites))
	// early exit returns src unchanged
	earlyOK := false
	ast.Inspect(rf.Body, func(n ast.Node) bool {
		if ifs, ok := n.(*ast.IfStmt); ok {
			if be, ok := ast.Unparen(ifs.Cond).(*ast.BinaryExpr); ok && identObj(info, be.X) == firstVar && be.Op == token.LSS {
				if len(ifs.Body.List) == 1 {
					if r, ok := ifs.Body.List[0].(*ast.ReturnStmt); ok && len(r.Results) == 2 && identObj(info, r.Results[0]) == src {
						earlyOK = true
					}
				}
			}
		}
		return true
	})
	c.Decide(earlyOK, "partition", "nothing-to-hoist", rf.Pos(), "without a non-declaration statement src is returned unchanged", "when there is no non-declaration statement the source is not returned unchanged")

	// ---------- tiling
	cinfo := info
	csrc, cbase, ci, crest := paramObj(cf, cinfo, 0), paramObj(cf, cinfo, 1), paramObj(cf, cinfo, 2), paramObj(cf, cinfo, 3)
	cdefs := defsOf(cinfo, cf.Body)
	var fromVar, toVar types.Object
	ast.Inspect(cf.Body, func(n ast.Node) bool {
		if r, ok := n.(*ast.ReturnStmt); ok && len(r.Results) == 1 {
			if se, ok := ast.Unparen(r.Results[0]).(*ast.SliceExpr); ok && identObj(cinfo, se.X) == csrc && se.Max == nil && se.Low != nil && se.High != nil {
				fromVar, toVar = identObj(cinfo, se.Low), identObj(cinfo, se.High)
			}
		}
		return true
	})
	if fromVar == nil || toVar == nil || len(cdefs[fromVar]) != 1 {
		c.Undecided("tiling", "codeOf", cf.Pos(), "codeOf does not return src[from:to] with single-assignment from")
		return
	}
	subst := func(e ast.Expr, elem string, baseName types.Object) string {
		s := core.ExprStr(e)
		s = strings.ReplaceAll(s, " ", "")
		s = strings.ReplaceAll(s, elem, "§")
		if baseName != nil {
			s = replaceIdent(s, baseName.Name(), "β")
		}
		return s
	}
	restName, iName := crest.Name(), ci.Name()
	fromS := subst(cdefs[fromVar][0], restName+"["+iName+"]", cbase)
	var toNext, toLast string
	var lastCondOK bool
	for _, d := range cdefs[toVar] {
		s := subst(d, restName+"["+iName+"+1]", cbase)
		switch {
		case s == "0":
		case strings.Contains(s, "§"):
			toNext = s
		default:
			toLast = s
		}
	}
	ast.Inspect(cf.Body, func(n ast.Node) bool {
		if ifs, ok := n.(*ast.IfStmt); ok {
			cs := strings.ReplaceAll(core.ExprStr(ifs.Cond), " ", "")
			if cs == iName+"==len("+restName+")-1" {
				// then-branch assigns the last-chunk end
				for _, s := range ifs.Body.List {
					if as, ok := s.(*ast.AssignStmt); ok && len(as.Lhs) == 1 && identObj(cinfo, as.Lhs[0]) == toVar {
						if strings.ReplaceAll(core.ExprStr(as.Rhs[0]), " ", "") == "len("+csrc.Name()+")" {
							lastCondOK = true
						}
					}
				}
			}
		}
		return true
	})
	c.Decide(toNext == fromS && toNext != "", "tiling", "chunk-end", cf.Pos(), "end of chunk i = start of chunk i+1 (same position expression)", core.Sprintf("the end of chunk i (%s) is not the start expression (%s) applied to chunk i+1: consecutive chunks overlap or leave a gap", toNext, fromS))
	c.Decide(lastCondOK && toLast == "len("+csrc.Name()+")", "tiling", "last-chunk", cf.Pos(), "the last chunk ends at len(src)", "the last chunk does not end exactly at len(src) (under i == len(rest)-1): trailing bytes are lost or duplicated")
	if offExpr != nil {
		offS := subst(offExpr, stmtsVar.Name()+"["+firstVar.Name()+"]", baseVar)
		c.Decide(offS == fromS, "tiling", "prefix", offExpr.Pos(), "off is the start expression applied to the first hoistable chunk", core.Sprintf("the untouched prefix ends at %s but chunk 0 starts at %s applied to rest[0]: the bytes in between are emitted twice or dropped", offS, fromS))
	}
}

// normExpr renders an expression with the loop variable replaced by a placeholder.
func normExpr(e ast.Expr, info *types.Info, v types.Object) string {
	s := core.ExprStr(e)
	if v != nil {
		s = replaceIdent(s, v.Name(), "§")
	}
	return strings.ReplaceAll(s, " ", "")
}

// replaceIdent replaces whole-identifier occurrences.
func replaceIdent(s, name, with string) string {
	var b strings.Builder
	isId := func(r byte) bool {
		return r == '_' || r >= '0' && r <= '9' || r >= 'a' && r <= 'z' || r >= 'A' && r <= 'Z'
	}
	for i := 0; i < len(s); {
		if strings.HasPrefix(s[i:], name) && (i == 0 || !isId(s[i-1])) && (i+len(name) == len(s) || !isId(s[i+len(name)])) {
			b.WriteString(with)
			i += len(name)
			continue
		}
		b.WriteByte(s[i])
		i++
	}
	return b.String()
}
