package props

import (
	"go/ast"
	"go/types"

	"golang.org/x/tools/go/packages"

	"verif/checker/internal/core"
)

// ownBufferRule: bytes handed to the caller (returned, or assigned to a named result) as `<buf>.Bytes()` come from a
// buffer that belongs to this call — declared in the function (`var buf bytes.Buffer`, new(bytes.Buffer),
// &bytes.Buffer{}, bytes.NewBuffer). A buffer taken from a package-level variable, a struct field or a sync.Pool is
// reused by the next call, which overwrites the bytes (the formatted text and its comments) the first caller still holds.
func ownBufferRule(c *core.Check, rule string, pkgs ...*packages.Package) int {
	n := 0
	for _, pk := range pkgs {
		if pk == nil {
			continue
		}
		info := pk.TypesInfo
		for _, fd := range core.AllFuncDecls(pk) {
			if fd.Body == nil {
				continue
			}
			results := map[types.Object]bool{}
			if fd.Type.Results != nil {
				for _, f := range fd.Type.Results.List {
					for _, nm := range f.Names {
						results[info.Defs[nm]] = true
					}
				}
			}
			defs := defsOf(info, fd.Body)
			check := func(e ast.Expr) {
				call, ok := ast.Unparen(e).(*ast.CallExpr)
				if !ok {
					return
				}
				sel, ok := call.Fun.(*ast.SelectorExpr)
				if !ok || sel.Sel.Name != "Bytes" || len(call.Args) != 0 {
					return
				}
				if t := info.TypeOf(sel.X); t == nil || namedOf(derefType(t)) == nil || namedOf(derefType(t)).Obj().Name() != "Buffer" {
					return
				}
				n++
				key := core.FuncName(fd)
				obj := identObj(info, sel.X)
				own := false
				if v, isVar := obj.(*types.Var); isVar && !v.IsField() && v.Parent() != pk.Types.Scope() && v.Parent() != nil {
					own = true
					for _, d := range defs[obj] {
						if d == nil {
							continue // var buf bytes.Buffer
						}
						switch x := ast.Unparen(d).(type) {
						case *ast.UnaryExpr: // &bytes.Buffer{}
							if _, isLit := x.X.(*ast.CompositeLit); !isLit {
								own = false
							}
						case *ast.CompositeLit:
						case *ast.CallExpr:
							nm := ""
							if id, ok := x.Fun.(*ast.Ident); ok {
								nm = id.Name
							} else if s, ok := x.Fun.(*ast.SelectorExpr); ok {
								nm = core.ExprStr(s)
							}
							if nm != "new" && nm != "bytes.NewBuffer" && nm != "bytes.NewBufferString" {
								own = false
							}
						default:
							own = false
						}
					}
				}
				c.Decide(own, rule, key, call.Pos(), "the returned bytes come from a buffer declared in the function", key+" hands its caller the bytes of a buffer that does not belong to this call (a package-level variable, a field or a pooled object): the next call reuses the buffer and overwrites the text — and the comments — the first caller still holds")
			}
			ast.Inspect(fd.Body, func(nd ast.Node) bool {
				switch x := nd.(type) {
				case *ast.FuncLit:
					return false
				case *ast.ReturnStmt:
					for _, r := range x.Results {
						check(r)
					}
				case *ast.AssignStmt:
					for i, l := range x.Lhs {
						if results[identObj(info, l)] && i < len(x.Rhs) {
							check(x.Rhs[i])
						}
					}
				}
				return true
			})
		}
	}
	return n
}
