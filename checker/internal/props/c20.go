package props

import (
	"go/ast"
	"go/token"
	"sort"
	"strings"

	"golang.org/x/tools/go/packages"
	"golang.org/x/tools/go/ssa"

	"verif/checker/internal/core"
)

// C20 — only a necessary condition is decided: formatting is a FUNCTION of its input. If the bytes format.Source
// produces could depend on anything but the source text — the iteration order of a map, the clock, the environment,
// package-level state left behind by an earlier call — then formatting the formatted output could differ from one run
// to the next, and no fixed point exists to be idempotent about. The layout arithmetic itself (does the printer's
// output, re-parsed, lead to the same line-break decisions?) is not decided.
func init() {
	register(&Prop{
		ID:          "C20",
		Title:       "Formatting is idempotent",
		Technique:   "census of order-dependent map iteration and of nondeterminism sources (time, rand, environment, goroutines) over the packages of the format pipeline, and of stores to package-level variables reachable from format.Source in the CHA+VTA call graph",
		Explanation: "Decides one necessary condition of idempotence for every source: format.Source is a function of its input. (1) No `range` over a map in packages scanner, parser, ast, printer, format and format/formatutil lets the iteration order reach the output (each map loop is classified: collect-then-sort, commutative sink, singleton, or a reviewed table line whose structural facts are re-checked); (2) none of these packages reads the clock, random numbers or the environment or starts goroutines on the formatting path; (3) no function reachable from format.Source (call graph: CHA refined by VTA) stores into a package-level variable, so a second formatting pass in the same process starts from the same state as the first; (4) the bytes format returns come from a buffer declared in the call, not from a pooled or package-level one the next pass would overwrite. A violation of any of the three makes the second pass able to differ from the first.",
		NotCovered:  "the property's core: that the layout decisions the printer takes from line information (exprList, linebreak, funcBody) reach a fixed point after one pass. That depends on position arithmetic over arbitrary inputs; XGo's nodes.go has diverged from go/printer in 20 of 24 layout routines, so not even sibling agreement is available. A change that makes formatting non-idempotent while staying deterministic and stateless is NOT reported.",
		Run:         runC20,
		Controls: []Control{
			{Name: "printer-keeps-state-between-calls", File: "printer/printer.go", Old: "func (p *printer) init(cfg *Config, fset *token.FileSet, nodeSizes map[ast.Node]int) {\n", New: "var formatCalls int\n\nfunc (p *printer) init(cfg *Config, fset *token.FileSet, nodeSizes map[ast.Node]int) {\n\tformatCalls++\n", Expect: "global-state/printer.formatCalls"},
			{Name: "imports-grouped-through-a-map", File: "ast/import.go", Old: "func sortSpecs(fset *token.FileSet, f *File, specs []Spec) []Spec {\n", New: "func sortSpecs(fset *token.FileSet, f *File, specs []Spec) []Spec {\n\tbyPath := map[string]Spec{}\n\tfor _, s := range specs {\n\t\tbyPath[importPath(s)] = s\n\t}\n\tspecs = specs[:0]\n\tfor _, s := range byPath {\n\t\tspecs = append(specs, s)\n\t}\n", Expect: "map-range/ast.sortSpecs:byPath"},
		},
	})
}

var c20Scope = []string{"./format", "./format/formatutil", "./printer", "./parser", "./scanner", "./ast", "./token"}

// c20Globals: package-level variables written on the formatting path that cannot influence the output.
var c20Globals = map[string]string{}

func runC20(c *core.Check) {
	prog := c.Load(c20Scope...)
	var pkgs []*packages.Package
	for _, p := range c20Scope {
		if pk := prog.Pkg(p); pk != nil {
			pkgs = append(pkgs, pk)
		}
	}
	if len(pkgs) != len(c20Scope) {
		c.Bad("anchor", "scope", token.NoPos, "a package of the format pipeline is missing")
		return
	}
	c.Trust("go/types resolution of range operands and callees")
	c.Assume("text/tabwriter, sort and the rest of the standard library are deterministic given the same sequence of calls")
	g := buildCG(c, prog, true)
	var roots []*ssa.Function
	for _, n := range []string{"Source", "Node"} {
		if f := g.fn("./format", n); f != nil {
			roots = append(roots, f)
		}
	}
	if len(roots) == 0 {
		c.Bad("anchor", "format.Source", 0, "entry point not found")
		return
	}
	set, pred := g.reachable(roots, func(f *ssa.Function) bool {
		return inModule(f) && !isPkgInit(f)
	})
	c.Analysed("functions_reachable_from_format_Source", len(set))
	// (1)+(2): map iteration and nondeterminism sources, in every reachable function that has source in the pipeline's
	// packages (debugging aids of package ast such as Scope.String or ast.Print are not on the path)
	byPath := map[string]*packages.Package{}
	for _, pk := range pkgs {
		byPath[pk.Types.Path()] = pk
	}
	var reach []*ssa.Function
	for f := range set {
		reach = append(reach, f)
	}
	sort.Slice(reach, func(i, j int) bool { return reach[i].Pos() < reach[j].Pos() })
	nRanges, nFuncs := 0, 0
	doneDecl := map[*ast.FuncDecl]bool{}
	for _, f := range reach {
		fd, ok := f.Syntax().(*ast.FuncDecl)
		if !ok || fd.Body == nil || f.Pkg == nil || doneDecl[fd] {
			continue
		}
		pk := byPath[f.Pkg.Pkg.Path()]
		if pk == nil {
			continue
		}
		doneDecl[fd] = true
		nFuncs++
		fname := pk.Types.Name() + "." + core.FuncName(fd)
		nRanges += c08Ranges(c, pk, fd, fname)
		c08Sources(c, pk, fd, fname)
	}
	c.Analysed("functions_inspected", nFuncs)
	c.Analysed("range_statements_inspected", nRanges)
	c.Ok("map-range", "census", 0, core.Sprintf("%d range statements in %d reachable functions inspected", nRanges, nFuncs))
	c08SelfTest(c)
	type gw struct {
		g   *ssa.Global
		f   *ssa.Function
		pos token.Pos
	}
	var writes []gw
	for f := range set {
		for _, b := range f.Blocks {
			for _, ins := range b.Instrs {
				switch x := ins.(type) {
				case *ssa.Store:
					if gl := rootGlobal(x.Addr); gl != nil {
						writes = append(writes, gw{gl, f, x.Pos()})
					}
				case *ssa.MapUpdate:
					if gl := rootGlobal(x.Map); gl != nil {
						writes = append(writes, gw{gl, f, x.Pos()})
					}
				}
			}
		}
	}
	sort.Slice(writes, func(i, j int) bool { return writes[i].pos < writes[j].pos })
	seen := map[string]bool{}
	for _, w := range writes {
		if w.g.Pkg == nil || !strings.HasPrefix(w.g.Pkg.Pkg.Path(), core.Mod) {
			continue
		}
		key := w.g.Pkg.Pkg.Name() + "." + w.g.Name()
		if seen[key] {
			continue
		}
		seen[key] = true
		if why, ok := c20Globals[key]; ok {
			c.Note("global-state-reviewed", key, w.pos, why)
			continue
		}
		c.Bad("global-state", key, w.pos, "package-level variable "+key+" is written on a path from format.Source ("+witness(pred, w.f)+"): the second formatting pass starts from a different state than the first, so its output may differ")
	}
	// the bytes handed to the caller are the caller's own (a pooled or package-level buffer is overwritten by the next pass)
	c.Analysed("returned_buffer_sites", ownBufferRule(c, "own-buffer", prog.Pkg("./format"), prog.Pkg("./printer")))
	c.Ok("global-state", "census", roots[0].Pos(), core.Sprintf("%d functions reachable from format.Source/Node inspected for stores to package-level variables", len(set)))
	if len(set) < 150 {
		c.Bad("floor", "reachable", roots[0].Pos(), core.Sprintf("only %d functions reachable from format.Source: the call graph no longer covers the printer", len(set)))
	}
}
