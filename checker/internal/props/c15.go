package props

import (
	"go/ast"
	"go/constant"
	"go/token"
	"go/types"
	"strings"

	"golang.org/x/tools/go/packages"

	"verif/checker/internal/core"
	"verif/checker/internal/flow"
)

func init() {
	f := "scanner/scanner.go"
	register(&Prop{
		ID:        "C15",
		Title:     "Scanning is total and every token is the exact source text",
		Technique: "always-progress path rule on the CFG of Scanner.Scan with must-consume summaries of its callees, rewind/flag typestate for the synthetic semicolons, and literal-slice origin rules on the scan* routines",
		Explanation: "Decides for every byte sequence the structural conditions of totality and exactness: (1) every path through Scan to a return has consumed input — by s.next() or a callee that provably calls it on all of its paths — or emits the pending unit suffix and clears it; the only paths that rewind the read position (the semicolon returned before a comment) were entered under s.insertSemi and clear that flag before returning, so they cannot be taken twice in a row; every way back to scanAgain has consumed a comment; " +
			"(2) each literal routine (scanIdentifier, scanNumber, scanString, scanRune, scanRawString, scanComment) takes its start offset from s.offset before consuming anything (minus the already-consumed opener) and returns exactly s.src[start:s.offset] (optionally CR-stripped; minus the unit suffix for numbers); " +
			"(3) the unit suffix tiles the number: the same len(s.unitVal) is cut from the literal's end and subtracted from the UNIT token's position; (4) every loop in the scan* routines that can repeat calls s.next() on every iteration path or stops at EOF/newline.",
		NotCovered: "the offset-monotonicity clause as a whole and 'every non-blank byte lies in exactly one token' (runtime quantities); the same analysis is applied to tpl/scanner in C32 only through clone equivalence.",
		Run:        runC15,
		Controls: []Control{
			{Name: "default-arm-no-progress", File: f, Old: "\tdefault:\n\t\ts.next() // always make progress\n\t\tswitch ch {", New: "\tdefault:\n\t\tif ch != '@' {\n\t\t\ts.next() // always make progress\n\t\t}\n\t\tswitch ch {", Expect: "progress/Scanner.Scan"},
			{Name: "rewind-without-clearing-flag", File: f, Old: "\t\t\t\ts.rdOffset = s.offset + 1\n\t\t\t\ts.insertSemi = false // newline consumed\n\t\t\t\treturn pos, s.tokSEMICOLON(), \"\\n\"\n\t\t\t}\n\t\t\tcomment := s.scanComment()\n\t\t\tif s.mode&ScanComments == 0 {\n\t\t\t\t// skip comment\n\t\t\t\ts.insertSemi = false // newline consumed\n\t\t\t\tgoto scanAgain\n\t\t\t}\n\t\t\ttok = token.COMMENT\n\t\t\tlit = comment\n\t\tcase '/':", New: "\t\t\t\ts.rdOffset = s.offset + 1\n\t\t\t\treturn pos, s.tokSEMICOLON(), \"\\n\"\n\t\t\t}\n\t\t\tcomment := s.scanComment()\n\t\t\tif s.mode&ScanComments == 0 {\n\t\t\t\t// skip comment\n\t\t\t\ts.insertSemi = false // newline consumed\n\t\t\t\tgoto scanAgain\n\t\t\t}\n\t\t\ttok = token.COMMENT\n\t\t\tlit = comment\n\t\tcase '/':", Expect: "progress/Scanner.Scan"},
			{Name: "hash-rewind-wrong-char", File: f, Old: "\t\t\t\ts.ch = '#'\n", New: "\t\t\t\ts.ch = '/'\n", Expect: "rewind-consistency/Scanner.Scan:'/'"},
			{Name: "number-dispatch-wider", File: f, Old: "\tcase isDecimal(ch) || ch == '.' && isDecimal(rune(s.peek())):", New: "\tcase isDigit(ch) || ch == '.' && isDecimal(rune(s.peek())):", Expect: "progress/Scanner.Scan"},
			{Name: "unit-after-whitespace", File: f, Old: "scanAgain:\n\tif s.unitVal == \"\" { // a pending unit ends right at the current offset\n\t\ts.skipWhitespace()\n\t}\n", New: "scanAgain:\n\ts.skipWhitespace()\n", Expect: "unit-position/Scanner.Scan"},
			{Name: "rawstring-strips-cr-in-place", File: f, Old: "\t\tlit = stripCR(lit, false)\n", New: "\t\tlit = append(lit[:0], stripCR(lit, false)...)\n", Expect: "src-readonly/Scanner.scanRawString:append"},
			{Name: "string-literal-drops-quote", File: f, Old: "\t// '\"' opening already consumed\n\toffs := s.offset - 1\n", New: "\t// '\"' opening already consumed\n\toffs := s.offset\n", Expect: "literal-slice/Scanner.scanString"},
			{Name: "identifier-start-after-next", File: f, Old: "func (s *Scanner) scanIdentifier() string {\n\toffs := s.offset\n", New: "func (s *Scanner) scanIdentifier() string {\n\ts.next()\n\toffs := s.offset\n", Expect: "literal-slice/Scanner.scanIdentifier"},
			{Name: "unit-not-cut-from-number", File: f, Old: "lit := string(s.src[offs : s.offset-len(s.unitVal)])", New: "lit := string(s.src[offs:s.offset])", Expect: "unit-tiling/Scanner.scanNumber"},
			{Name: "unit-position-wrong", File: f, Old: "\t\tpos -= token.Pos(len(s.unitVal))\n", New: "\t\tpos -= token.Pos(len(s.unitVal) + 1)\n", Expect: "unit-tiling/Scanner.Scan"},
			{Name: "unit-not-cleared", File: f, Old: "\t\ttok, lit = token.UNIT, s.unitVal\n\t\ts.unitVal = \"\"\n", New: "\t\ttok, lit = token.UNIT, s.unitVal\n", Expect: "progress/Scanner.Scan"},
			{Name: "string-loop-can-stall", File: f, Old: "\t\ts.next()\n\t\tif ch == '\"' {\n\t\t\tbreak\n\t\t}\n\t\tif ch == '\\\\' {\n\t\t\ts.scanEscape('\"')\n\t\t}", New: "\t\tif ch == '\"' {\n\t\t\ts.next()\n\t\t\tbreak\n\t\t}\n\t\tif ch == '\\\\' {\n\t\t\ts.next()\n\t\t\ts.scanEscape('\"')\n\t\t}", Expect: "loop-progress/Scanner.scanString"},
		},
	})
}

// mustConsume computes, for methods of the scanner, whether every returning path calls next (directly or through
// a method that must consume).
type consumeSummary struct {
	pk   *packages.Package
	memo map[types.Object]int // 0 unknown/in progress, 1 yes, 2 no
	next types.Object
}

func (cs *consumeSummary) must(obj types.Object, depth int) bool {
	if obj == cs.next {
		return true
	}
	switch cs.memo[obj] {
	case 1:
		return true
	case 2:
		return false
	}
	if depth > 6 {
		return false
	}
	cs.memo[obj] = 2
	fn, _ := obj.(*types.Func)
	if fn == nil || fn.Pkg() != cs.pk.Types {
		return false
	}
	fd := core.FindFuncDecl(cs.pk, core.FuncObjName(fn))
	if fd == nil || fd.Body == nil {
		return false
	}
	info := cs.pk.TypesInfo
	const did flow.State = 1
	p := &flow.Problem{Body: fd.Body, Info: info}
	p.Node = func(n ast.Node, st flow.State, record bool) flow.State {
		for _, call := range flow.Calls(n) {
			if o := calleeObj(info, call); o != nil && (o == cs.next || (o != obj && cs.must(o, depth+1))) {
				st |= did
			}
		}
		return st
	}
	res := flow.Solve(p)
	ok := len(res.Exits) > 0
	for _, e := range res.Exits {
		if e.State&did == 0 {
			ok = false
		}
	}
	if ok {
		cs.memo[obj] = 1
	}
	return ok
}

func runC15(c *core.Check) {
	prog := c.Load("./scanner")
	pk := prog.Pkg("./scanner")
	if pk == nil {
		return
	}
	deadStateRule(c, pk) // no unexported field is read without a writer (a cache flag never set, a saved value never saved)
	info := pk.TypesInfo
	c.Trust("golang.org/x/tools@v0.29.0 go/cfg")
	scannerT := prog.NamedType("./scanner", "Scanner")
	scan := prog.FuncDecl("./scanner", "Scanner.Scan")
	if scannerT == nil || scan == nil {
		return
	}
	nextM := findMethod(scannerT, "next")
	if nextM == nil {
		c.Bad("anchor", "Scanner.next", 0, "not found")
		return
	}
	cs := &consumeSummary{pk: pk, memo: map[types.Object]int{}, next: nextM}
	fUnit, fInsert, fOffset := fieldVar(scannerT, "unitVal"), fieldVar(scannerT, "insertSemi"), fieldVar(scannerT, "offset")
	fieldIs := func(e ast.Expr, f *types.Var) bool {
		sel, ok := ast.Unparen(e).(*ast.SelectorExpr)
		if !ok {
			return false
		}
		s := info.Selections[sel]
		return s != nil && s.Obj() == f && f != nil
	}

	// ---------- (1) progress in Scan
	const (
		bProgress flow.State = 1 << iota
		bRewound
		bSemiCleared
		bSemiWasSet
		bUnitPending // s.unitVal != "" known
		bUnitCleared
		bLoopNoProgress
		bLooped
		bUnitEmpty // s.unitVal == "" known
		bSkippedWS // skipWhitespace ran on this path
	)
	skipWS := findMethod(scannerT, "skipWhitespace")
	scanPar := parentMap(scan)
	p := &flow.Problem{Body: scan.Body, Info: info}
	p.Node = func(n ast.Node, st flow.State, record bool) flow.State {
		for _, call := range flow.Calls(n) {
			o := calleeObj(info, call)
			if o == skipWS && skipWS != nil {
				// (re-)entering at scanAgain
				if st&bLooped != 0 && st&bProgress == 0 {
					st |= bLoopNoProgress
				}
				st |= bLooped | bSkippedWS
				continue
			}
			if o != nil && cs.must(o, 0) {
				st |= bProgress
			}
			// a helper that assigns s.offset rewinds (or repositions) the scanner just as an inline assignment does
			if fn, ok := o.(*types.Func); ok && fn.Pkg() == pk.Types && fn != nextM {
				if hd := core.FindFuncDecl(pk, core.FuncObjName(fn)); hd != nil && hd != scan {
					wOff, wClr := helperWrites(info, hd, fOffset, fInsert)
					if wOff {
						st |= bRewound
						st &^= bProgress
						if wClr {
							st |= bSemiCleared
						}
					}
				}
			}
			// guarded consumers: these consume at least one character when the predicate of the enclosing
			// case holds for the current character (their own consuming loop/branch tests the same predicate)
			if o != nil {
				if pred, ok := c15Guarded[o.Name()]; ok && guardedBy(scanPar, call, pred) && consumesUnder(pk, cs, o, pred) {
					st |= bProgress
				}
			}
		}
		if as, ok := n.(*ast.AssignStmt); ok {
			for i, l := range as.Lhs {
				switch {
				case fieldIs(l, fOffset):
					st |= bRewound
					st &^= bProgress
				case fieldIs(l, fInsert) && i < len(as.Rhs):
					if id, ok := ast.Unparen(as.Rhs[i]).(*ast.Ident); ok && id.Name == "false" {
						st |= bSemiCleared
					}
				case fieldIs(l, fUnit) && i < len(as.Rhs):
					if bl, ok := ast.Unparen(as.Rhs[i]).(*ast.BasicLit); ok && bl.Value == `""` {
						st |= bUnitCleared
					}
				}
			}
		}
		return st
	}
	p.Edge = func(cond ast.Expr, truth bool, st flow.State) (flow.State, bool) {
		e := ast.Unparen(cond)
		if fieldIs(e, fInsert) && truth {
			return st | bSemiWasSet, true
		}
		if be, ok := e.(*ast.BinaryExpr); ok && be.Op == token.LAND && truth {
			if fieldIs(be.X, fInsert) {
				st |= bSemiWasSet
			}
		}
		if be, ok := e.(*ast.BinaryExpr); ok && (be.Op == token.NEQ || be.Op == token.EQL) && fieldIs(be.X, fUnit) {
			pending := truth == (be.Op == token.NEQ)
			if pending {
				if st&bUnitEmpty != 0 {
					return st, false // contradicts an earlier test on this path
				}
				return st | bUnitPending, true
			}
			if st&bUnitPending != 0 {
				return st, false
			}
			return st | bUnitEmpty, true
		}
		return st, true
	}
	res := flow.Solve(p)
	c.Analysed("cfg_blocks_Scan", res.Blocks)
	c.Analysed("exit_states_Scan", len(res.Exits))
	bad, why := token.NoPos, ""
	for _, e := range res.Exits {
		switch {
		case e.State&bLoopNoProgress != 0:
			bad, why = e.Pos, "a path jumps back to scanAgain without having consumed anything"
		case e.State&bRewound != 0:
			if e.State&bSemiCleared == 0 || e.State&bSemiWasSet == 0 {
				bad, why = e.Pos, "a path rewinds the read position (synthetic semicolon before a comment) without being guarded by s.insertSemi and clearing it: the next call takes the same path again — Scan never reaches EOF"
			}
		case e.State&bUnitPending != 0:
			if e.State&bUnitCleared == 0 {
				bad, why = e.Pos, "the pending unit suffix is emitted without being cleared: every following call returns the same UNIT token"
			}
		case e.State&bProgress == 0:
			bad, why = e.Pos, "a path returns a token without consuming input (no s.next() and no callee that must call it)"
		}
	}
	upos := token.NoPos
	for _, e := range res.Exits {
		if e.State&bUnitPending != 0 && e.State&bSkippedWS != 0 {
			upos = e.Pos
		}
	}
	c.Decide(!upos.IsValid(), "unit-position", "Scanner.Scan", upos, "the pending unit is emitted before any whitespace is skipped: its position is the current offset minus its length",
		"the pending unit suffix is emitted on a path that first ran skipWhitespace: its position is computed back from the offset of the NEXT token, so `1m x` reports the UNIT on the blank")
	c.Decide(!bad.IsValid() && len(res.Exits) > 0, "progress", "Scanner.Scan", bad, "every return path consumed input, emitted-and-cleared the pending unit, or is a guarded rewind that clears insertSemi", why)

	// ---------- (1b) every rewind leaves the scanner state consistent: s.ch is the character at the rewound offset
	fCh, fRd := fieldVar(scannerT, "ch"), fieldVar(scannerT, "rdOffset")
	nRewind := 0
	for _, fd := range core.AllFuncDecls(pk) {
		if fd.Body == nil || fd.Recv == nil {
			continue
		}
		name := core.FuncName(fd)
		if name == "Scanner.next" || name == "Scanner.Init" || name == "Scanner.InitEx" {
			continue // the only routines that legitimately position the scanner
		}
		par := parentMap(fd)
		ast.Inspect(fd.Body, func(n ast.Node) bool {
			if ds, ok := n.(*ast.DeferStmt); ok && isRestoreDefer(info, ds, fOffset) {
				c.Ok("rewind-consistency", name+":deferred-restore", ds.Pos(), "look-ahead: a deferred closure puts the scanner back at the offset it was entered with (s.offset-1, re-consumed by s.next())")
				return false
			}
			as, ok := n.(*ast.AssignStmt)
			if !ok {
				return true
			}
			for _, l := range as.Lhs {
				if !fieldIs(l, fOffset) {
					continue
				}
				nRewind++
				key := name
				// the sibling assignments of the same block
				blk, _ := par[as].(*ast.BlockStmt)
				var chConst *int64
				rdOK := false
				if blk != nil {
					for _, st := range blk.List {
						a2, ok := st.(*ast.AssignStmt)
						if !ok || len(a2.Lhs) != 1 || len(a2.Rhs) != 1 {
							continue
						}
						if fieldIs(a2.Lhs[0], fCh) {
							if tv := info.Types[a2.Rhs[0]]; tv.Value != nil {
								if v, ok := constant.Int64Val(constant.ToInt(tv.Value)); ok {
									chConst = &v
								}
							}
						}
						if fieldIs(a2.Lhs[0], fRd) {
							if be, ok := ast.Unparen(a2.Rhs[0]).(*ast.BinaryExpr); ok && be.Op == token.ADD && fieldIs(be.X, fOffset) {
								if tv := info.Types[be.Y]; tv.Value != nil && tv.Value.String() == "1" {
									rdOK = true
								}
							}
						}
					}
				}
				if chConst == nil || !rdOK || *chConst >= 0x80 {
					c.Bad("rewind-consistency", key, as.Pos(), "the read position is reset without resetting s.ch to a one-byte character constant and s.rdOffset to s.offset+1 in the same block: the scanner's current character no longer is the byte at its offset, so the next token's text is not the source text")
					continue
				}
				// the character the scanner is positioned on: the label of the enclosing `case 'c':` at the rewind
				// site (in Scan) or at every call site of the helper
				var sites []ast.Node
				if fd == scan {
					sites = []ast.Node{as}
				} else {
					obj := info.Defs[fd.Name]
					ast.Inspect(scan.Body, func(m ast.Node) bool {
						if call, ok := m.(*ast.CallExpr); ok && calleeObj(info, call) == obj {
							sites = append(sites, call)
						}
						return true
					})
					if len(sites) == 0 {
						c.Undecided("rewind-consistency", key, as.Pos(), "a routine other than next/Init assigns s.offset and is not called from Scan: cannot relate s.ch to the byte at the new offset")
						continue
					}
				}
				for _, site := range sites {
					lbl, ok := enclosingCharCase(info, scanPar, site)
					k2 := key + ":" + core.Sprintf("%q", rune(*chConst))
					if fd != scan {
						k2 = key + "@" + core.Sprintf("%q", lbl)
					}
					if !ok {
						c.Undecided("rewind-consistency", k2, site.Pos(), "the rewind is not inside a single-character case of Scan's switch over ch")
						continue
					}
					c.Decide(lbl == rune(*chConst), "rewind-consistency", k2, site.Pos(), core.Sprintf("s.ch = %q inside case %q", rune(*chConst), lbl),
						core.Sprintf("after rewinding to the start of the token in `case %q`, s.ch is set to %q: the scanner now believes it stands on %q while its offset points at %q — the next Scan returns a token whose text is not the source text at its position", lbl, rune(*chConst), rune(*chConst), lbl))
				}
			}
			return true
		})
	}
	c.Analysed("rewind_sites", nRewind)
	c.Floor("rewind-consistency", 2)

	// ---------- (1c) the scanner never writes into the source it was given: token text is a view of s.src (or a copy
	// made by stripCR); appending to, copying into, or index-assigning a slice taken from s.src (its capacity reaches the
	// end of the source) overwrites the caller's buffer
	{
		fSrc := fieldVar(scannerT, "src")
		isSrcSlice := func(e ast.Expr) bool {
			sl, ok := ast.Unparen(e).(*ast.SliceExpr)
			if !ok || sl.Slice3 {
				return false
			}
			sel, ok := ast.Unparen(sl.X).(*ast.SelectorExpr)
			if !ok {
				return false
			}
			s2 := info.Selections[sel]
			return s2 != nil && s2.Obj() == fSrc
		}
		nViews := 0
		for _, fd := range core.AllFuncDecls(pk) {
			if fd.Body == nil {
				continue
			}
			views := map[types.Object]bool{}
			// locals that hold a view of s.src (directly, or re-sliced from such a local)
			for changed := true; changed; {
				changed = false
				ast.Inspect(fd.Body, func(n ast.Node) bool {
					as, ok := n.(*ast.AssignStmt)
					if !ok || len(as.Lhs) != len(as.Rhs) {
						return true
					}
					for i, r := range as.Rhs {
						o := identObj(info, as.Lhs[i])
						if o == nil || views[o] {
							continue
						}
						tainted := isSrcSlice(r)
						if sl, ok := ast.Unparen(r).(*ast.SliceExpr); ok && !sl.Slice3 {
							if x := identObj(info, sl.X); x != nil && views[x] {
								tainted = true
							}
						}
						if tainted {
							views[o] = true
							changed = true
						}
					}
					return true
				})
			}
			nViews += len(views)
			isView := func(e ast.Expr) bool {
				e = ast.Unparen(e)
				if isSrcSlice(e) {
					return true
				}
				if sl, ok := e.(*ast.SliceExpr); ok && !sl.Slice3 {
					e = ast.Unparen(sl.X)
				}
				if sel, ok := e.(*ast.SelectorExpr); ok {
					if s2 := info.Selections[sel]; s2 != nil && s2.Obj() == fSrc {
						return true
					}
				}
				o := identObj(info, e)
				return o != nil && views[o]
			}
			ast.Inspect(fd.Body, func(n ast.Node) bool {
				switch x := n.(type) {
				case *ast.CallExpr:
					if id, ok := x.Fun.(*ast.Ident); ok && len(x.Args) >= 2 {
						if (id.Name == "append" || id.Name == "copy") && isView(x.Args[0]) {
							c.Bad("src-readonly", core.FuncName(fd)+":"+id.Name, x.Pos(), id.Name+"() writes through a slice taken from s.src (its capacity reaches the end of the source, so nothing is reallocated): the caller's source buffer is modified while it is being scanned — token text no longer equals the source, a second scan of the same buffer sees other tokens, and a read-only source (a string) faults")
						}
					}
				case *ast.AssignStmt:
					for _, l := range x.Lhs {
						if ix, ok := ast.Unparen(l).(*ast.IndexExpr); ok && isView(ix.X) {
							c.Bad("src-readonly", core.FuncName(fd)+":index-store", x.Pos(), "an element of (a slice of) s.src is assigned: the scanner modifies the source it was given")
						}
					}
				}
				return true
			})
		}
		c.Ok("src-readonly", "census", scan.Pos(), core.Sprintf("%d local views of s.src inspected; none is appended to, copied into or index-assigned", nViews))
	}

	// ---------- (2) literal slices
	c.Floor("literal-slice", 6)
	fSrc := fieldVar(scannerT, "src")
	for _, name := range []string{"scanIdentifier", "scanNumber", "scanString", "scanRune", "scanRawString", "scanComment"} {
		fd := prog.FuncDecl("./scanner", "Scanner."+name)
		if fd == nil {
			continue
		}
		// offs := s.offset [- 1]  must be the first assignment and precede any consuming call
		var offs types.Object
		var offsPos token.Pos
		openerAdj := ""
		ast.Inspect(fd.Body, func(n ast.Node) bool {
			if as, ok := n.(*ast.AssignStmt); ok && offs == nil && len(as.Lhs) == 1 && len(as.Rhs) == 1 && as.Tok == token.DEFINE {
				r := ast.Unparen(as.Rhs[0])
				if fieldIs(r, fOffset) {
					offs, offsPos = identObj(info, as.Lhs[0]), as.Pos()
				} else if be, ok := r.(*ast.BinaryExpr); ok && be.Op == token.SUB && fieldIs(be.X, fOffset) {
					offs, offsPos = identObj(info, as.Lhs[0]), as.Pos()
					openerAdj = core.ExprStr(be.Y)
				}
			}
			return true
		})
		okStart := offs != nil
		if offs != nil {
			ast.Inspect(fd.Body, func(n ast.Node) bool {
				if call, ok := n.(*ast.CallExpr); ok && call.Pos() < offsPos {
					if o := calleeObj(info, call); o != nil && cs.must(o, 0) {
						okStart = false // something was consumed before the start offset was taken
					}
				}
				return true
			})
			// offs must never be reassigned
			n := 0
			ast.Inspect(fd.Body, func(m ast.Node) bool {
				for _, v := range flow.AssignedVars(m, info) {
					if v == offs {
						n++
					}
				}
				return true
			})
			if n != 1 {
				okStart = false
			}
		}
		// the opener adjustment: identifiers and numbers start at s.offset, quoted forms and comments one byte earlier
		wantAdj := map[string]string{"scanIdentifier": "", "scanNumber": "", "scanString": "1", "scanRune": "1", "scanRawString": "1", "scanComment": "1"}[name]
		if openerAdj != wantAdj {
			okStart = false
		}
		// slice s.src[offs : s.offset [- len(s.unitVal)]]
		okSlice := false
		var slPos token.Pos = fd.Pos()
		ast.Inspect(fd.Body, func(n ast.Node) bool {
			se, ok := n.(*ast.SliceExpr)
			if !ok || !fieldIs(se.X, fSrc) || se.Low == nil || se.High == nil || identObj(info, se.Low) != offs {
				return true
			}
			slPos = se.Pos()
			hs := strings.ReplaceAll(core.ExprStr(se.High), " ", "")
			if fieldIs(se.High, fOffset) {
				okSlice = true
			}
			if name == "scanNumber" && strings.HasSuffix(hs, ".offset-len(s.unitVal)") {
				okSlice = true
			}
			return true
		})
		c.Decide(okStart && okSlice, "literal-slice", "Scanner."+name, slPos, "literal = s.src[start:s.offset] with start taken from s.offset before consuming",
			"the literal returned by "+name+" is not exactly s.src[start:s.offset] with `start` taken from s.offset at entry (minus the already consumed opener byte for quoted forms/comments): the token text is not the source bytes at its offset")
	}

	// ---------- (2b) the literal of a token starts where the token starts: in Scan, `pos` is taken before anything is consumed;
	// an arm that scans an identifier, consumes more and then REPLACES the literal by the result of a second scan routine
	// (the c"…" / py"…" arms) returns a text that starts after pos
	{
		n2 := 0
		ast.Inspect(scan.Body, func(n ast.Node) bool {
			is, ok := n.(*ast.IfStmt)
			if !ok {
				return true
			}
			kind, rescans := "", false
			for _, st := range is.Body.List {
				if as, ok := st.(*ast.AssignStmt); ok && len(as.Lhs) == 1 && len(as.Rhs) == 1 {
					l, r := core.ExprStr(as.Lhs[0]), nows(core.ExprStr(as.Rhs[0]))
					if l == "tok" && strings.HasPrefix(r, "token.") {
						kind = strings.TrimPrefix(r, "token.")
					}
					if l == "lit" && strings.HasPrefix(r, "s.scan") {
						rescans = true
					}
				}
			}
			if kind == "" || !rescans || !strings.Contains(nows(core.ExprStr(is.Cond)), "lit==") {
				return true
			}
			n2++
			c.Bad("token-text-at-pos", "Scanner.Scan:"+kind, is.Pos(), "the "+kind+" arm of Scan scans the prefix as an identifier, consumes the quote and then replaces the literal by the result of a second scan routine: the token is reported at the offset of the prefix but its text starts at the quote — the text is not the source bytes at the token's offset")
			return true
		})
		c.Ok("token-text-at-pos", "census", scan.Pos(), core.Sprintf("%d arms of Scan replace the literal after consuming a prefix", n2))
	}

	// ---------- (3) unit tiling
	if nfd := prog.FuncDecl("./scanner", "Scanner.scanNumber"); nfd != nil {
		cut := false
		ast.Inspect(nfd.Body, func(n ast.Node) bool {
			if se, ok := n.(*ast.SliceExpr); ok && se.High != nil {
				if strings.HasSuffix(strings.ReplaceAll(core.ExprStr(se.High), " ", ""), ".offset-len(s.unitVal)") {
					cut = true
				}
			}
			return true
		})
		c.Decide(cut, "unit-tiling", "Scanner.scanNumber", nfd.Pos(), "the number literal ends len(unitVal) before s.offset", "the number literal is not cut by len(s.unitVal): the unit suffix appears both in the number and in the UNIT token")
	}
	shift := false
	ast.Inspect(scan.Body, func(n ast.Node) bool {
		if as, ok := n.(*ast.AssignStmt); ok && as.Tok == token.SUB_ASSIGN && len(as.Rhs) == 1 {
			if strings.ReplaceAll(core.ExprStr(as.Rhs[0]), " ", "") == "token.Pos(len(s.unitVal))" {
				shift = true
			}
		}
		return true
	})
	c.Decide(shift, "unit-tiling", "Scanner.Scan", scan.Pos(), "the UNIT token's position is the read position minus len(unitVal)", "the UNIT token's position is not s.offset - len(s.unitVal): its text is not the source text at its offset")

	// ---------- (4) loops in the scan* routines consume or stop
	c.Floor("loop-progress", 6)
	for _, fd := range core.AllFuncDecls(pk) {
		if core.RecvName(fd) != "Scanner" || !strings.HasPrefix(fd.Name.Name, "scan") && fd.Name.Name != "skipWhitespace" && fd.Name.Name != "digits" {
			continue
		}
		nLoops := 0
		okAll := true
		var badPos token.Pos
		var loops []*ast.ForStmt
		ast.Inspect(fd.Body, func(n ast.Node) bool {
			if loop, ok := n.(*ast.ForStmt); ok {
				loops = append(loops, loop)
			}
			return true
		})
		nLoops = len(loops)
		for li, loop := range loops {
			marker := loopMarker(loop)
			if marker == nil {
				okAll, badPos = false, loop.Pos()
				continue
			}
			// "previous iteration" rule on the whole function: coming back to the loop's first node
			// without having consumed since the last visit is a stall
			seen, did, stall := flow.State(1)<<(3*li), flow.State(1)<<(3*li+1), flow.State(1)<<(3*li+2)
			lp := &flow.Problem{Body: fd.Body, Info: info}
			found := false
			lp.Node = func(m ast.Node, st flow.State, record bool) flow.State {
				if m == marker {
					if st&seen != 0 && st&did == 0 {
						st |= stall
						if record {
							found = true
						}
					}
					st = (st | seen) &^ did
				}
				for _, call := range flow.Calls(m) {
					if o := calleeObj(info, call); o != nil && cs.must(o, 0) {
						st |= did
					}
				}
				return st
			}
			flow.Solve(lp)
			if found {
				okAll, badPos = false, loop.Pos()
			}
		}
		if nLoops > 0 {
			c.Decide(okAll, "loop-progress", "Scanner."+fd.Name.Name, badPos, core.Sprintf("%d loop(s): every iteration consumes input or leaves the loop", nLoops),
				"an iteration of a loop in this routine can complete without calling s.next() (or a callee that must) and without leaving the loop: on some input the scanner spins forever")
		}
	}
}

// loopMarker returns the CFG node evaluated first in every iteration: the condition, or the first leaf of the body.
func loopMarker(loop *ast.ForStmt) ast.Node {
	if loop.Cond != nil {
		return loop.Cond
	}
	if len(loop.Body.List) == 0 {
		return nil
	}
	var first func(s ast.Stmt) ast.Node
	first = func(s ast.Stmt) ast.Node {
		switch x := s.(type) {
		case *ast.IfStmt:
			if x.Init != nil {
				return first(x.Init)
			}
			return x.Cond
		case *ast.BlockStmt:
			if len(x.List) > 0 {
				return first(x.List[0])
			}
			return nil
		case *ast.SwitchStmt, *ast.TypeSwitchStmt, *ast.SelectStmt, *ast.ForStmt, *ast.RangeStmt, *ast.LabeledStmt:
			return nil
		}
		return s
	}
	return first(loop.Body.List[0])
}

// c15Guarded: routines that consume at least one character provided the named predicate holds for s.ch at the call.
var c15Guarded = map[string]string{
	"scanIdentifier": "isLetter",  // for isLetter(s.ch) || isDigit(s.ch) { s.next() }
	"scanNumber":     "isDecimal", // digits()/next() on a decimal digit or on '.' followed by one
}

// guardedBy: the call sits in a case clause (of an expression-less switch) every disjunct of whose expressions
// establishes pred for the current character: `pred(ch)` itself, or `ch == 'c' && pred(rune(s.peek()))` (the
// consumer then consumes c). A disjunct that tests a wider predicate (isDigit for a consumer that loops on
// isDecimal) dispatches characters the consumer does not consume.
func guardedBy(par map[ast.Node]ast.Node, call *ast.CallExpr, pred string) bool {
	var disjunct func(e ast.Expr) bool
	isPredCall := func(e ast.Expr) bool {
		c2, ok := ast.Unparen(e).(*ast.CallExpr)
		if !ok || len(c2.Args) != 1 {
			return false
		}
		id, ok := c2.Fun.(*ast.Ident)
		return ok && id.Name == pred
	}
	disjunct = func(e ast.Expr) bool {
		e = ast.Unparen(e)
		if be, ok := e.(*ast.BinaryExpr); ok {
			switch be.Op {
			case token.LOR:
				return disjunct(be.X) && disjunct(be.Y)
			case token.LAND:
				// a conjunction establishes pred when one side is a char test and the other the predicate
				return isPredCall(be.X) || isPredCall(be.Y)
			}
		}
		return isPredCall(e)
	}
	for p := par[call]; p != nil; p = par[p] {
		if cc, ok := p.(*ast.CaseClause); ok {
			if len(cc.List) == 0 {
				return false
			}
			for _, e := range cc.List {
				if !disjunct(e) {
					return false
				}
			}
			return true
		}
	}
	return false
}

// consumesUnder: the callee contains a loop or branch conditioned on pred(s.ch) (directly or in a callee it calls
// unconditionally first) whose body must consume.
func consumesUnder(pk *packages.Package, cs *consumeSummary, obj types.Object, pred string) bool {
	fn, _ := obj.(*types.Func)
	if fn == nil {
		return false
	}
	fd := core.FindFuncDecl(pk, core.FuncObjName(fn))
	if fd == nil {
		return false
	}
	info := pk.TypesInfo
	ok := false
	var visit func(fd *ast.FuncDecl, depth int)
	visit = func(fd *ast.FuncDecl, depth int) {
		ast.Inspect(fd.Body, func(n ast.Node) bool {
			var cond ast.Expr
			var body *ast.BlockStmt
			switch x := n.(type) {
			case *ast.ForStmt:
				cond, body = x.Cond, x.Body
			case *ast.IfStmt:
				cond, body = x.Cond, x.Body
			case *ast.CallExpr:
				if depth < 2 {
					if o, isFn := calleeObj(info, x).(*types.Func); isFn && o.Pkg() == pk.Types && o != obj {
						if d := core.FindFuncDecl(pk, core.FuncObjName(o)); d != nil && d != fd {
							visit(d, depth+1)
						}
					}
				}
				return true
			default:
				return true
			}
			if cond == nil || !strings.Contains(core.ExprStr(cond), pred+"(") && !strings.Contains(core.ExprStr(cond), "'0'") {
				return true
			}
			consumes := false
			ast.Inspect(body, func(m ast.Node) bool {
				if call, isCall := m.(*ast.CallExpr); isCall {
					if o := calleeObj(info, call); o != nil && cs.must(o, 0) {
						consumes = true
					}
				}
				return true
			})
			if consumes {
				ok = true
			}
			return true
		})
	}
	visit(fd, 0)
	return ok
}

// helperWrites: does the routine assign s.offset, and does it set s.insertSemi = false?
func helperWrites(info *types.Info, fd *ast.FuncDecl, fOffset, fInsert *types.Var) (off, clr bool) {
	is := func(e ast.Expr, f *types.Var) bool {
		sel, ok := ast.Unparen(e).(*ast.SelectorExpr)
		if !ok || f == nil {
			return false
		}
		s := info.Selections[sel]
		return s != nil && s.Obj() == f
	}
	ast.Inspect(fd.Body, func(n ast.Node) bool {
		if ds, ok := n.(*ast.DeferStmt); ok && isRestoreDefer(info, ds, fOffset) {
			return false
		}
		if as, ok := n.(*ast.AssignStmt); ok {
			for i, l := range as.Lhs {
				if is(l, fOffset) {
					off = true
				}
				if is(l, fInsert) && i < len(as.Rhs) {
					if id, ok := ast.Unparen(as.Rhs[i]).(*ast.Ident); ok && id.Name == "false" {
						clr = true
					}
				}
			}
		}
		return true
	})
	return
}

// enclosingCharCase: the label of the innermost enclosing `case 'c':` clause with a single character constant.
func enclosingCharCase(info *types.Info, par map[ast.Node]ast.Node, n ast.Node) (rune, bool) {
	for p := par[n]; p != nil; p = par[p] {
		if cc, ok := p.(*ast.CaseClause); ok && len(cc.List) == 1 {
			if tv := info.Types[cc.List[0]]; tv.Value != nil && tv.Value.Kind() == constant.Int {
				if v, ok := constant.Int64Val(tv.Value); ok {
					return rune(v), true
				}
			}
		}
	}
	return 0, false
}

// isRestoreDefer: `defer func(offs int) { …; s.offset = offs; s.rdOffset = offs + 1; s.next() }(s.offset - 1)` — the
// look-ahead idiom: the position at entry (one before the current character, which the final s.next() re-consumes) is restored.
func isRestoreDefer(info *types.Info, ds *ast.DeferStmt, fOffset *types.Var) bool {
	lit, ok := ds.Call.Fun.(*ast.FuncLit)
	if !ok || len(ds.Call.Args) != 1 || len(lit.Type.Params.List) != 1 || len(lit.Type.Params.List[0].Names) != 1 {
		return false
	}
	be, ok := ast.Unparen(ds.Call.Args[0]).(*ast.BinaryExpr)
	if !ok || be.Op != token.SUB {
		return false
	}
	sel, ok := ast.Unparen(be.X).(*ast.SelectorExpr)
	if !ok || info.Selections[sel] == nil || info.Selections[sel].Obj() != fOffset {
		return false
	}
	if tv := info.Types[be.Y]; tv.Value == nil || tv.Value.String() != "1" {
		return false
	}
	param := info.Defs[lit.Type.Params.List[0].Names[0]]
	n := len(lit.Body.List)
	if n < 2 {
		return false
	}
	// last statement: s.next()
	es, ok := lit.Body.List[n-1].(*ast.ExprStmt)
	if !ok {
		return false
	}
	call, ok := es.X.(*ast.CallExpr)
	if !ok {
		return false
	}
	if fsel, ok := call.Fun.(*ast.SelectorExpr); !ok || fsel.Sel.Name != "next" {
		return false
	}
	// s.offset = param
	found := false
	for _, st := range lit.Body.List {
		if as, ok := st.(*ast.AssignStmt); ok && len(as.Lhs) == 1 && len(as.Rhs) == 1 {
			if l, ok := as.Lhs[0].(*ast.SelectorExpr); ok && info.Selections[l] != nil && info.Selections[l].Obj() == fOffset && identObj(info, as.Rhs[0]) == param {
				found = true
			}
		}
	}
	return found
}
