package props

import (
	"go/ast"
	"go/constant"
	"go/token"
	"go/types"
	"reflect"
	"sort"
	"strings"

	"golang.org/x/tools/go/packages"

	"verif/checker/internal/core"
	"verif/checker/internal/flow"
)

func init() {
	f := "parser/parser_gop.go"
	register(&Prop{
		ID:        "C34",
		Title:     "Directory parsing selects and classifies exactly the right files",
		Technique: "filter-dominance and must-precede analysis on the CFG of parser.ParseFSDir, and decision-table/clone agreement between the sibling classifiers ParseFSDir and ParseFSEntry",
		Explanation: "Decides for every directory listing and class-kind function that (1) every store into pkg.Files / pkg.GoFiles in ParseFSDir is dominated by: the entry is not a directory, its name has no '_' prefix, the optional Filter accepted it and, for .go files, it is not a gop_autogen file; files of unknown kind never reach a store; " +
			"(2) on every path to the store into pkg.Files the parsed file received IsProj/IsClass/IsNormalGox from the classification variables, the class flag was or-ed into the parse mode, and the package is looked up under the file's own package name; " +
			"(3) ParseFSDir and ParseFSEntry classify alike: same plain-source extensions (the directory walk additionally routes .go to the Go parser), the same `.gox` arm (isNormalGox, fall through) and an alpha-equivalent class-kind decision (ClassKind result, normal-gox default, unknown-kind exit).",
		NotCovered: "the ClassKind function supplied by the caller and defaultClassKind's extension list (no sibling to compare with), and the content of the parsed files.",
		Run:        runC34,
		Controls: []Control{
			{Name: "underscore-files-included", File: f, Old: "\t\tif !strings.HasPrefix(fname, \"_\") && (conf.Filter == nil || filter(d, conf.Filter)) {", New: "\t\tif conf.Filter == nil || filter(d, conf.Filter) {", Expect: "filter-dominance/underscore"},
			{Name: "autogen-go-included", File: f, Old: "\t\t\tif strings.HasPrefix(fname, \"gop_autogen\") {\n\t\t\t\tcontinue\n\t\t\t}\n", New: "", Expect: "filter-dominance/autogen"},
			{Name: "directories-included", File: f, Old: "\t\tif d.IsDir() {\n\t\t\tcontinue\n\t\t}\n\t\tfname := d.Name()", New: "\t\tfname := d.Name()", Expect: "filter-dominance/not-dir"},
			{Name: "flags-not-set", File: f, Old: "\t\t\t\t\tf.IsProj, f.IsClass = isProj, isClass\n\t\t\t\t\tf.IsNormalGox = isNormalGox\n\t\t\t\t\tif f.Name != nil {", New: "\t\t\t\t\tf.IsProj = isProj\n\t\t\t\t\tf.IsNormalGox = isNormalGox\n\t\t\t\t\tif f.Name != nil {", Expect: "classify-before-store/IsClass"},
			{Name: "class-mode-dropped", File: f, Old: "\t\t\t\tf, err := ParseFSFile(fset, fs, filename, nil, mode)", New: "\t\t\t\tf, err := ParseFSFile(fset, fs, filename, nil, conf.Mode)", Expect: "class-mode/ParseFSDir"},
			{Name: "entry-gox-diverges", File: f, Old: "\t\t} else if isNormalGox { // not found XGo class by ext, but is a .gox file\n\t\t\tisClass = true\n\t\t} else {\n\t\t\treturn nil, ErrUnknownFileKind", New: "\t\t} else if isNormalGox { // not found XGo class by ext, but is a .gox file\n\t\t\tisClass = false\n\t\t} else {\n\t\t\treturn nil, ErrUnknownFileKind", Expect: "sibling/class-kind-decision"},
			{Name: "entry-drops-gop", File: f, Old: "\tcase \".xgo\", \".gop\", \".go\":\n\tcase \".gox\":", New: "\tcase \".xgo\", \".go\":\n\tcase \".gox\":", Expect: "sibling/plain-extensions"},
			{Name: "grouped-by-filename", File: f, Old: "\t\t\t\t\t\tpkg := reqPkg(pkgs, f.Name.Name)\n\t\t\t\t\t\tpkg.Files[filename] = f", New: "\t\t\t\t\t\tpkg := reqPkg(pkgs, path.Base(dir))\n\t\t\t\t\t\tpkg.Files[filename] = f", Expect: "grouping/Files"},
		},
	})
}

func runC34(c *core.Check) {
	prog := c.Load("./parser")
	pk := prog.Pkg("./parser")
	if pk == nil {
		return
	}
	info := pk.TypesInfo
	c.Trust("golang.org/x/tools@v0.29.0 go/cfg")
	dirFD := prog.FuncDecl("./parser", "ParseFSDir")
	entFD := prog.FuncDecl("./parser", "ParseFSEntry")
	pkgT := prog.Pkgs[core.Mod+"/ast"]
	if dirFD == nil || entFD == nil || pkgT == nil {
		return
	}
	astPackage, _ := pkgT.Types.Scope().Lookup("Package").Type().(*types.Named)
	astFile, _ := pkgT.Types.Scope().Lookup("File").Type().(*types.Named)
	fFiles, fGoFiles := fieldVar(astPackage, "Files"), fieldVar(astPackage, "GoFiles")
	selIs := func(e ast.Expr, f *types.Var) bool {
		sel, ok := ast.Unparen(e).(*ast.SelectorExpr)
		if !ok {
			return false
		}
		s := info.Selections[sel]
		return s != nil && s.Obj() == f && f != nil
	}
	reqPkg := pk.Types.Scope().Lookup("reqPkg")
	parseFSFile := pk.Types.Scope().Lookup("ParseFSFile")
	filterFn := pk.Types.Scope().Lookup("filter")

	// the loop over the directory listing
	var loop *ast.RangeStmt
	ast.Inspect(dirFD.Body, func(n ast.Node) bool {
		if r, ok := n.(*ast.RangeStmt); ok && loop == nil {
			loop = r
		}
		return true
	})
	if loop == nil {
		c.Undecided("shape", "ParseFSDir", dirFD.Pos(), "no loop over the directory listing")
		return
	}
	entry := identObj(info, loop.Value)
	defs := defsOf(info, loop.Body)
	isEntryName := func(e ast.Expr) bool { // fname := d.Name()
		o := identObj(info, e)
		if o == nil || len(defs[o]) != 1 {
			return false
		}
		call, ok := ast.Unparen(defs[o][0]).(*ast.CallExpr)
		if !ok {
			return false
		}
		sel, ok := call.Fun.(*ast.SelectorExpr)
		return ok && sel.Sel.Name == "Name" && identObj(info, sel.X) == entry
	}
	var flagVars = map[string]types.Object{}
	ast.Inspect(loop.Body, func(n ast.Node) bool {
		if vs, ok := n.(*ast.ValueSpec); ok {
			for _, nm := range vs.Names {
				switch nm.Name {
				case "isProj", "isClass", "isNormalGox":
					flagVars[nm.Name] = info.Defs[nm]
				}
			}
		}
		return true
	})
	var modeVar types.Object
	ast.Inspect(loop.Body, func(n ast.Node) bool {
		if as, ok := n.(*ast.AssignStmt); ok && as.Tok == token.DEFINE && len(as.Lhs) == 1 && len(as.Rhs) == 1 {
			if sel, ok := ast.Unparen(as.Rhs[0]).(*ast.SelectorExpr); ok && sel.Sel.Name == "Mode" {
				modeVar = identObj(info, as.Lhs[0])
			}
		}
		return true
	})

	const (
		bNotDir flow.State = 1 << iota
		bNotUnderscore
		bNotAutogen
		bFilterOK
		bGoExt
		bSetProj
		bSetClass
		bSetNormal
		bModeOred
		bIsClass
		bNotClass
	)
	type storeObs struct {
		pos   token.Pos
		st    flow.State
		field *types.Var
		as    *ast.AssignStmt
	}
	var stores []storeObs
	type parseObs struct {
		call *ast.CallExpr
		st   flow.State
	}
	var parses []parseObs
	p := &flow.Problem{Body: loop.Body, Info: info}
	p.Node = func(n ast.Node, st flow.State, record bool) flow.State {
		if as, ok := n.(*ast.AssignStmt); ok {
			for i, l := range as.Lhs {
				if ix, ok := ast.Unparen(l).(*ast.IndexExpr); ok {
					for _, f := range []*types.Var{fFiles, fGoFiles} {
						if selIs(ix.X, f) && record {
							stores = append(stores, storeObs{as.Pos(), st, f, as})
						}
					}
				}
				if sel, ok := ast.Unparen(l).(*ast.SelectorExpr); ok && namedOf(info.TypeOf(sel.X)) == astFile {
					var rhs ast.Expr
					if len(as.Rhs) == len(as.Lhs) {
						rhs = as.Rhs[i]
					}
					want := map[string]string{"IsProj": "isProj", "IsClass": "isClass", "IsNormalGox": "isNormalGox"}[sel.Sel.Name]
					if want != "" && rhs != nil && identObj(info, rhs) == flagVars[want] && flagVars[want] != nil {
						st |= map[string]flow.State{"IsProj": bSetProj, "IsClass": bSetClass, "IsNormalGox": bSetNormal}[sel.Sel.Name]
					}
				}
				if fv := flagVars["isClass"]; fv != nil && identObj(info, l) == fv {
					st &^= bIsClass | bNotClass
				}
				if modeVar != nil && identObj(info, l) == modeVar && as.Tok == token.OR_ASSIGN && len(as.Rhs) == 1 {
					if k := constOf(info, as.Rhs[0]); k != nil && k.Name() == "ParseGoPlusClass" {
						st |= bModeOred
					}
				}
			}
		}
		for _, call := range flow.Calls(n) {
			if calleeObj(info, call) == parseFSFile && record {
				parses = append(parses, parseObs{call, st})
			}
		}
		return st
	}
	var edge func(e ast.Expr, truth bool, st flow.State) flow.State
	edge = func(e ast.Expr, truth bool, st flow.State) flow.State {
		e = ast.Unparen(e)
		if u, ok := e.(*ast.UnaryExpr); ok && u.Op == token.NOT {
			return edge(u.X, !truth, st)
		}
		if be, ok := e.(*ast.BinaryExpr); ok {
			if be.Op == token.LAND && truth {
				return edge(be.Y, true, edge(be.X, true, st))
			}
			if be.Op == token.LOR && !truth {
				return edge(be.Y, false, edge(be.X, false, st))
			}
			if be.Op == token.LOR && truth {
				// conf.Filter == nil || filter(d, conf.Filter): either way the filter does not reject
				if strings.Contains(core.ExprStr(be.X), "Filter == nil") {
					if call, ok := ast.Unparen(be.Y).(*ast.CallExpr); ok && calleeObj(info, call) == filterFn {
						return st | bFilterOK
					}
				}
			}
			return st
		}
		if tv := info.Types[e]; tv.Value != nil && tv.Value.Kind() == constant.String && truth {
			// a case label of `switch ext`
			if constant.StringVal(tv.Value) == ".go" {
				st |= bGoExt
			}
			return st
		}
		if id, ok := e.(*ast.Ident); ok && flagVars["isClass"] != nil && info.Uses[id] == flagVars["isClass"] {
			if truth {
				return st | bIsClass
			}
			return st | bNotClass
		}
		call, ok := e.(*ast.CallExpr)
		if !ok {
			return st
		}
		if sel, ok := call.Fun.(*ast.SelectorExpr); ok && sel.Sel.Name == "IsDir" && identObj(info, sel.X) == entry && !truth {
			return st | bNotDir
		}
		if pkgFuncName(info, call) == "strings.HasPrefix" && len(call.Args) == 2 && isEntryName(call.Args[0]) && !truth {
			if tv := info.Types[call.Args[1]]; tv.Value != nil {
				switch constant.StringVal(tv.Value) {
				case "_":
					return st | bNotUnderscore
				case "gop_autogen":
					return st | bNotAutogen
				}
			}
		}
		if calleeObj(info, call) == filterFn && truth {
			return st | bFilterOK
		}
		return st
	}
	p.Edge = func(cond ast.Expr, truth bool, st flow.State) (flow.State, bool) {
		// a repeated test of isClass with no assignment in between cannot change its outcome
		if id, ok := ast.Unparen(cond).(*ast.Ident); ok && flagVars["isClass"] != nil && info.Uses[id] == flagVars["isClass"] {
			if truth && st&bNotClass != 0 || !truth && st&bIsClass != 0 {
				return st, false
			}
		}
		return edge(cond, truth, st), true
	}
	res := flow.Solve(p)
	c.Analysed("cfg_blocks_loop", res.Blocks)
	if len(stores) == 0 {
		c.Bad("filter-dominance", "stores", loop.Pos(), "no store into pkg.Files / pkg.GoFiles found inside the directory loop")
		return
	}
	all := func(bit flow.State, only func(storeObs) bool) (bool, token.Pos) {
		for _, s := range stores {
			if only != nil && !only(s) {
				continue
			}
			if s.st&bit == 0 {
				return false, s.pos
			}
		}
		return true, stores[0].pos
	}
	ok, pos := all(bNotDir, nil)
	c.Decide(ok, "filter-dominance", "not-dir", pos, "", "a directory entry that is a directory can be parsed and stored as a source file")
	ok, pos = all(bNotUnderscore, nil)
	c.Decide(ok, "filter-dominance", "underscore", pos, "", "a file whose name starts with '_' can reach the package's file map: files that are meant to be ignored are compiled")
	ok, pos = all(bFilterOK, nil)
	c.Decide(ok, "filter-dominance", "filter", pos, "", "a file can reach the package's file map without passing the caller's Filter")
	ok, pos = all(bNotAutogen, func(s storeObs) bool { return s.st&bGoExt != 0 })
	c.Decide(ok, "filter-dominance", "autogen", pos, "", "a .go file can reach the package without the gop_autogen test: the compiler's own output is parsed as input (duplicate declarations)")

	// (2) classification before the Files store
	for _, s := range stores {
		if s.field != fFiles {
			continue
		}
		for name, bit := range map[string]flow.State{"IsProj": bSetProj, "IsClass": bSetClass, "IsNormalGox": bSetNormal} {
			c.Decide(s.st&bit != 0, "classify-before-store", name, s.pos, "", "a path stores the parsed file into pkg.Files without having copied the classification variable into File."+name+": a class/project file is compiled as a plain file (or the reverse)")
		}
	}
	modeOK := len(parses) > 0
	for _, pz := range parses {
		if len(pz.call.Args) != 5 || identObj(info, pz.call.Args[4]) != modeVar || modeVar == nil {
			modeOK = false
		}
		if pz.st&bIsClass != 0 && pz.st&bModeOred == 0 {
			modeOK = false
		}
	}
	// the or-ing must be conditional on isClass: a path with bNotClass must not have it
	for _, pz := range parses {
		if pz.st&bNotClass != 0 && pz.st&bModeOred != 0 {
			modeOK = false
		}
	}
	c.Decide(modeOK, "class-mode", "ParseFSDir", dirFD.Pos(), "class files (and only they) are parsed with ParseGoPlusClass or-ed into the mode", "ParseFSFile is not called with the local mode that has ParseGoPlusClass or-ed in exactly when isClass holds: class files are parsed with the plain grammar (their field block is rejected) or plain files with the class grammar")
	// grouping key
	for _, s := range stores {
		ix := ast.Unparen(s.as.Lhs[0]).(*ast.IndexExpr)
		pkgVar := identObj(info, ast.Unparen(ix.X).(*ast.SelectorExpr).X)
		stored := identObj(info, s.as.Rhs[0])
		good := false
		if pkgVar != nil && stored != nil {
			ast.Inspect(loop.Body, func(n ast.Node) bool {
				as, ok := n.(*ast.AssignStmt)
				if !ok || len(as.Lhs) != 1 || len(as.Rhs) != 1 || identObj(info, as.Lhs[0]) != pkgVar {
					return true
				}
				call, ok := ast.Unparen(as.Rhs[0]).(*ast.CallExpr)
				if !ok || calleeObj(info, call) != reqPkg || len(call.Args) != 2 {
					return true
				}
				if strings.ReplaceAll(core.ExprStr(call.Args[1]), " ", "") == stored.Name()+".Name.Name" {
					good = true
				}
				return true
			})
		}
		c.Decide(good, "grouping", s.field.Name(), s.pos, "stored under reqPkg(pkgs, <file>.Name.Name)", "the file is not stored in the package obtained by reqPkg(pkgs, <that file>.Name.Name): files are grouped under something other than their own package name")
	}

	// ---------- (3) sibling agreement
	dsw, esw := extSwitch(pk, dirFD), extSwitch(pk, entFD)
	if dsw == nil || esw == nil {
		c.Undecided("sibling", "ext-switch", 0, "cannot find the `switch ext` of ParseFSDir or ParseFSEntry")
		return
	}
	dl, el := extLabels(info, dsw), extLabels(info, esw)
	plain := func(m map[string]string) []string {
		var out []string
		for k, v := range m {
			if v == "plain" {
				out = append(out, k)
			}
		}
		sort.Strings(out)
		return out
	}
	c.Decide(reflect.DeepEqual(plain(dl), plain(el)), "sibling", "plain-extensions", esw.Pos(), strings.Join(plain(dl), " "), core.Sprintf("ParseFSDir treats %v as plain sources, ParseFSEntry %v: the same file is accepted by one entry point and rejected (unknown file kind) or classified differently by the other", plain(dl), plain(el)))
	c.Decide(dl[".gox"] == "gox" && el[".gox"] == "gox", "sibling", "gox-arm", esw.Pos(), "", "the `.gox` arm (isNormalGox = true; fallthrough) differs between ParseFSDir and ParseFSEntry")
	dd, ed := classDecision(pk, dsw), classDecision(pk, esw)
	c.Decide(dd != "" && dd == ed, "sibling", "class-kind-decision", esw.Pos(), "alpha-equivalent class-kind decision", "the class-kind decision (ClassKind result → isProj/isClass, normal-gox default, unknown-kind exit) of ParseFSDir and ParseFSEntry is no longer alpha-equivalent: a file is classified differently depending on the entry point")
}

func extSwitch(pk *packages.Package, fd *ast.FuncDecl) *ast.SwitchStmt {
	var sw *ast.SwitchStmt
	ast.Inspect(fd.Body, func(n ast.Node) bool {
		if s, ok := n.(*ast.SwitchStmt); ok && s.Tag != nil && sw == nil {
			if id, ok := s.Tag.(*ast.Ident); ok && id.Name == "ext" {
				sw = s
			}
		}
		return true
	})
	return sw
}

// extLabels: label -> "plain" (source file, no classification) | "gox" (sets isNormalGox and falls through) | "other"
func extLabels(info *types.Info, sw *ast.SwitchStmt) map[string]string {
	out := map[string]string{}
	for _, s := range sw.Body.List {
		cc := s.(*ast.CaseClause)
		kind := "plain"
		for _, st := range cc.Body {
			if b, ok := st.(*ast.BranchStmt); ok && b.Tok == token.FALLTHROUGH {
				kind = "gox"
			}
		}
		for _, st := range cc.Body {
			if as, ok := st.(*ast.AssignStmt); ok && len(as.Lhs) == 1 {
				if id, ok := as.Lhs[0].(*ast.Ident); ok && (id.Name == "isClass" || id.Name == "isProj") {
					kind = "other"
				}
			}
		}
		for _, e := range cc.List {
			if tv := info.Types[e]; tv.Value != nil && tv.Value.Kind() == constant.String {
				out[constant.StringVal(tv.Value)] = kind
			}
		}
	}
	return out
}

// classDecision serialises the if-chain of the default clause with its final else (the unknown-kind exit) dropped.
func classDecision(pk *packages.Package, sw *ast.SwitchStmt) string {
	for _, s := range sw.Body.List {
		cc := s.(*ast.CaseClause)
		if cc.List != nil {
			continue
		}
		for _, st := range cc.Body {
			ifs, ok := st.(*ast.IfStmt)
			if !ok {
				continue
			}
			as, ok := ifs.Init.(*ast.AssignStmt)
			if !ok || len(as.Lhs) != 2 {
				continue
			}
			n := &normalizer{info: pk.TypesInfo, pkg: pk.Types, locals: map[types.Object]int{}}
			n.node(reflect.ValueOf(ifs.Init))
			n.node(reflect.ValueOf(ifs.Cond))
			n.node(reflect.ValueOf(ifs.Body))
			if e2, ok := ifs.Else.(*ast.IfStmt); ok {
				n.node(reflect.ValueOf(e2.Cond))
				n.node(reflect.ValueOf(e2.Body))
				if e2.Else == nil {
					n.b.WriteString("no-exit")
				}
			}
			return n.b.String()
		}
	}
	return ""
}
