package props

import (
	"go/ast"
	"go/token"
	"go/types"
	"sort"

	"golang.org/x/tools/go/packages"

	"verif/checker/internal/core"
)

// Fields that are read but never written (a contradiction rule: code that reads x.f believes somebody sets it).
// A field counts as written when it is the target of an assignment, ++/--, a range clause or a composite-literal
// element, when its address is taken, when a whole struct value of its type is copied from elsewhere (conversion or
// decode targets cannot be seen: structs that are the argument of an encoding/… or reflect call are skipped), or when
// it is exported (other packages may set it).
type deadFieldRead struct {
	Field *types.Var
	Owner string
	Pos   token.Pos // first read
}

func neverWrittenReads(pkgs []*packages.Package) []deadFieldRead {
	written := map[*types.Var]bool{}
	firstRead := map[*types.Var]token.Pos{}
	owner := map[*types.Var]string{}
	inScope := map[*types.Package]bool{}
	for _, pk := range pkgs {
		inScope[pk.Types] = true
	}
	for _, pk := range pkgs {
		info := pk.TypesInfo
		fieldOfSel := func(e ast.Expr) *types.Var {
			sel, ok := ast.Unparen(e).(*ast.SelectorExpr)
			if !ok {
				return nil
			}
			if s := info.Selections[sel]; s != nil && s.Kind() == types.FieldVal {
				if fv, ok := s.Obj().(*types.Var); ok {
					return fv
				}
			}
			return nil
		}
		// a store through x.f[i] = v, x.f.g = v, *x.f = v or append target keeps f "written" only for f itself when f is the
		// outermost selector; inner selectors on the path are reads
		for _, file := range pk.Syntax {
			lhs := map[ast.Expr]bool{}
			ast.Inspect(file, func(n ast.Node) bool {
				switch x := n.(type) {
				case *ast.AssignStmt:
					for _, l := range x.Lhs {
						if fv := fieldOfSel(l); fv != nil {
							written[fv] = true
							lhs[ast.Unparen(l)] = true
						}
					}
				case *ast.IncDecStmt:
					if fv := fieldOfSel(x.X); fv != nil {
						written[fv] = true
						lhs[ast.Unparen(x.X)] = true
					}
				case *ast.RangeStmt:
					for _, l := range []ast.Expr{x.Key, x.Value} {
						if l != nil {
							if fv := fieldOfSel(l); fv != nil {
								written[fv] = true
								lhs[ast.Unparen(l)] = true
							}
						}
					}
				case *ast.UnaryExpr:
					if x.Op == token.AND {
						if fv := fieldOfSel(x.X); fv != nil {
							written[fv] = true
						}
					}
				case *ast.CompositeLit:
					st := structOf(info.TypeOf(x))
					if st == nil {
						return true
					}
					for i, el := range x.Elts {
						if kv, ok := el.(*ast.KeyValueExpr); ok {
							if id, ok := kv.Key.(*ast.Ident); ok {
								if fv, ok := info.Uses[id].(*types.Var); ok && fv.IsField() {
									written[fv] = true
								}
							}
						} else if i < st.NumFields() {
							written[st.Field(i)] = true
						}
					}
				case *ast.CallExpr:
					// method value with pointer receiver on an addressable field: x.f.M() may write f's contents, not f
				}
				return true
			})
			ast.Inspect(file, func(n ast.Node) bool {
				sel, ok := n.(*ast.SelectorExpr)
				if !ok || lhs[sel] {
					return true
				}
				if s := info.Selections[sel]; s != nil && s.Kind() == types.FieldVal {
					if fv, ok := s.Obj().(*types.Var); ok && fv.Pkg() != nil && inScope[fv.Pkg()] {
						if _, seen := firstRead[fv]; !seen {
							firstRead[fv] = sel.Pos()
						}
						// promoted through embedded fields: every field on the path is read as well
					}
				}
				return true
			})
		}
		// owners
		for _, name := range pk.Types.Scope().Names() {
			tn, ok := pk.Types.Scope().Lookup(name).(*types.TypeName)
			if !ok {
				continue
			}
			if st, ok := tn.Type().Underlying().(*types.Struct); ok {
				for i := 0; i < st.NumFields(); i++ {
					owner[st.Field(i)] = tn.Name()
				}
			}
		}
	}
	// a struct that mirrors a foreign type's layout and is reached through unsafe.Pointer is written by that other type
	unsafeMirror := map[string]bool{}
	for _, pk := range pkgs {
		for _, file := range pk.Syntax {
			ast.Inspect(file, func(n ast.Node) bool {
				call, ok := n.(*ast.CallExpr)
				if !ok || len(call.Args) != 1 {
					return true
				}
				if tv, ok := pk.TypesInfo.Types[call.Fun]; ok && tv.IsType() {
					if inner, ok := ast.Unparen(call.Args[0]).(*ast.CallExpr); ok {
						if itv, ok := pk.TypesInfo.Types[inner.Fun]; ok && itv.IsType() && itv.Type.String() == "unsafe.Pointer" {
							t := tv.Type
							if pt, ok := t.(*types.Pointer); ok {
								t = pt.Elem()
							}
							if nt := namedOf(t); nt != nil {
								unsafeMirror[nt.Obj().Name()] = true
							}
						}
					}
				}
				return true
			})
		}
	}
	var out []deadFieldRead
	for fv, pos := range firstRead {
		if written[fv] || fv.Exported() || fv.Embedded() || owner[fv] == "" || hasOwnState(fv.Type()) || unsafeMirror[owner[fv]] {
			continue
		}
		out = append(out, deadFieldRead{fv, owner[fv], pos})
	}
	sort.Slice(out, func(i, j int) bool {
		if out[i].Owner != out[j].Owner {
			return out[i].Owner < out[j].Owner
		}
		return out[i].Field.Name() < out[j].Field.Name()
	})
	return out
}

// hasOwnState: the field holds a value whose own methods or sub-fields carry the state (sync.Mutex, sync.Once, an
// embedded scanner, a nested struct, a list type with pointer-receiver methods): reading x.f there is how it is written.
func hasOwnState(t types.Type) bool {
	t = types.Unalias(t)
	if _, ok := t.Underlying().(*types.Struct); ok {
		return true
	}
	if _, ok := t.Underlying().(*types.Array); ok {
		return true
	}
	if nt, ok := t.(*types.Named); ok {
		ms := types.NewMethodSet(types.NewPointer(nt))
		for i := 0; i < ms.Len(); i++ {
			if sig, ok := ms.At(i).Obj().Type().(*types.Signature); ok && sig.Recv() != nil {
				if _, isPtr := sig.Recv().Type().(*types.Pointer); isPtr {
					return true
				}
			}
		}
	}
	return false
}

// deadStateRule reports every unexported field of the given packages that some code reads while nothing writes it
// (the expected count is zero; the census is recorded so that the rule cannot pass by matching nothing).
func deadStateRule(c *core.Check, pkgs ...*packages.Package) {
	var ps []*packages.Package
	nFields := 0
	for _, pk := range pkgs {
		if pk == nil {
			continue
		}
		ps = append(ps, pk)
		for _, name := range pk.Types.Scope().Names() {
			if tn, ok := pk.Types.Scope().Lookup(name).(*types.TypeName); ok {
				if st, ok := tn.Type().Underlying().(*types.Struct); ok {
					nFields += st.NumFields()
				}
			}
		}
	}
	if len(ps) == 0 {
		return
	}
	dead := neverWrittenReads(ps)
	for _, d := range dead {
		c.Bad("dead-state", d.Owner+"."+d.Field.Name(), d.Pos, "the field "+d.Owner+"."+d.Field.Name()+" is read here but nothing in the package ever assigns it (no assignment, composite-literal element, range target or address-of): the reader always sees the zero value — a cache flag that is never set, a saved result that is never saved")
	}
	c.Ok("dead-state", "census", 0, core.Sprintf("%d struct fields examined, %d read without a writer", nFields, len(dead)))
	c.AddAnalysed("dead_state_fields_examined", nFields)
}
