package props

import (
	"go/ast"
	"go/token"
	"go/types"

	"verif/checker/internal/core"
	"verif/checker/internal/flow"
)

func init() {
	register(&Prop{
		ID:        "C40",
		Title:     "Watch mode never loses or duplicates a changed directory",
		Technique: "lockset (guarded-by) analysis on the CFG of every function of x/watcher, condition-variable wait-loop shape, and insertion→notification path rule",
		Explanation: "Decides for every schedule that (1) the pending set `changed` and the module table are only touched with Changes.mutex held (callee summaries: a helper that touches them unlocked must be called only with the lock held), " +
			"(2) every cond.Wait sits in a for loop that re-tests the set's emptiness with the lock held and cond.L is that mutex, (3) Fetch hands out a key taken from ranging over the set, deletes exactly that key in the same critical section and takes one key per call, its result is only ever that key (optionally prefixed), " +
			"(4) every insertion into the set is followed on all paths by a wake-up: an unconditional Broadcast/Signal, or a Broadcast guarded by 'the set was empty', where the length was read in the insertion's critical section (a Signal under that guard is a violation), (5) every Lock is released on all paths and never re-acquired while held.",
		NotCovered: "fairness of sync.Cond, and that callers report the right directory names (path.Dir arithmetic).",
		Run:        runC40,
		Controls: []Control{
			{Name: "signal-under-guard", File: "x/watcher/changes.go", Old: "p.cond.Broadcast()", New: "p.cond.Signal()", Expect: "notify/Changes.FileChanged"},
			{Name: "wait-if-not-for", File: "x/watcher/changes.go", Old: "for len(p.changed) == 0 {\n\t\tp.cond.Wait()", New: "if len(p.changed) == 0 {\n\t\tp.cond.Wait()", Expect: "wait-loop/Changes.Fetch"},
			{Name: "len-read-outside-lock", File: "x/watcher/changes.go", Old: "\tp.mutex.Lock()\n\tn := len(p.changed)\n", New: "\tn := len(p.changed)\n\tp.mutex.Lock()\n", Expect: "guarded-by/Changes.FileChanged:changed"},
			{Name: "delete-after-unlock", File: "x/watcher/changes.go", Old: "\tfor dir = range p.changed {\n\t\tdelete(p.changed, dir)\n\t\tbreak\n\t}\n\tp.mutex.Unlock()", New: "\tfor dir = range p.changed {\n\t\tbreak\n\t}\n\tp.mutex.Unlock()\n\tdelete(p.changed, dir)", Expect: "guarded-by/Changes.Fetch:changed"},
			{Name: "no-break-drains-set", File: "x/watcher/changes.go", Old: "\t\tdelete(p.changed, dir)\n\t\tbreak\n", New: "\t\tdelete(p.changed, dir)\n", Expect: "fetch-one/Fetch"},
			{Name: "forget-delete", File: "x/watcher/changes.go", Old: "\t\tdelete(p.changed, dir)\n\t\tbreak\n", New: "\t\tbreak\n", Expect: "fetch-one/Fetch"},
			{Name: "unlock-missing-on-path", File: "x/watcher/changes.go", Old: "\tmod := p.doLookupMod(name)\n\tp.mutex.Unlock()\n", New: "\tmod := p.doLookupMod(name)\n\tif mod != nil {\n\t\treturn mod\n\t}\n\tp.mutex.Unlock()\n", Expect: "lock-release/Changes.lookupMod"},
			{Name: "helper-called-unlocked", File: "x/watcher/changes.go", Old: "return !isDir && (isHiddenTemp(fname) || isAutogen(fname) || p.lookupMod(dir).ignore(fname))", New: "return !isDir && (isHiddenTemp(fname) || isAutogen(fname) || p.doLookupMod(dir).ignore(fname))", Expect: "guarded-by/Changes.doLookupMod:mods"},
			{Name: "notify-only-when-nonempty", File: "x/watcher/changes.go", Old: "\tif n == 0 {\n\t\tp.cond.Broadcast()", New: "\tif n != 0 {\n\t\tp.cond.Broadcast()", Expect: "notify/Changes.FileChanged"},
			{Name: "stale-length", File: "x/watcher/changes.go", Old: "\tp.mutex.Lock()\n\tn := len(p.changed)\n\tp.changed[dir] = none{}", New: "\tp.mutex.Lock()\n\tn := len(p.changed)\n\tp.mutex.Unlock()\n\tp.mutex.Lock()\n\tp.changed[dir] = none{}", Expect: "notify/Changes.FileChanged"},
		},
	})
}

func runC40(c *core.Check) {
	prog := c.Load("./x/watcher")
	pk := prog.Pkg("./x/watcher")
	if pk == nil {
		return
	}
	deadStateRule(c, pk) // no unexported field is read without a writer (a cache flag never set, a saved value never saved)
	info := pk.TypesInfo
	c.Trust("golang.org/x/tools@v0.29.0 go/cfg", "sync.Mutex / sync.Cond semantics")
	changes := prog.NamedType("./x/watcher", "Changes")
	if changes == nil {
		return
	}
	fChanged, fMods, fMutex, fCond := fieldVar(changes, "changed"), fieldVar(changes, "mods"), fieldVar(changes, "mutex"), fieldVar(changes, "cond")
	if fChanged == nil || fMutex == nil || fCond == nil {
		c.Bad("anchor", "Changes.{changed,mutex,cond}", changes.Obj().Pos(), "anchor fields not found")
		return
	}
	spec := &lockSpec{pk: pk, mutex: fMutex, guarded: map[*types.Var]string{fChanged: "changed"}}
	if fMods != nil {
		spec.guarded[fMods] = "mods"
	}
	isField := func(e ast.Expr, f *types.Var) bool {
		sel, ok := ast.Unparen(e).(*ast.SelectorExpr)
		if !ok {
			return false
		}
		s := info.Selections[sel]
		return s != nil && s.Obj() == f
	}
	condOp := func(call *ast.CallExpr) string {
		sel, ok := ast.Unparen(call.Fun).(*ast.SelectorExpr)
		if !ok || !isField(sel.X, fCond) {
			return ""
		}
		return sel.Sel.Name
	}
	isLenChanged := func(e ast.Expr) bool {
		call, ok := ast.Unparen(e).(*ast.CallExpr)
		if !ok || len(call.Args) != 1 {
			return false
		}
		id, ok := call.Fun.(*ast.Ident)
		return ok && id.Name == "len" && isField(call.Args[0], fChanged)
	}

	// property-specific facts riding on the lockset
	const (
		bLenFresh  flow.State = 1 << iota // len(changed) was read into lenVar in the current critical section
		bInserted                         // an insertion into changed happened
		bFreshAtIn                        // … and the length read was fresh at that moment
		bBcast                            // Broadcast after the insertion
		bSig                              // Signal after the insertion
		bNonZero                          // lenVar is known to be non-zero on this path
		bZero                             // lenVar is known to be zero
		bInsUnlocked
	)
	lenVars := map[*ast.FuncDecl]types.Object{}
	for _, fd := range core.AllFuncDecls(pk) {
		ast.Inspect(fd.Body, func(n ast.Node) bool {
			if as, ok := n.(*ast.AssignStmt); ok && len(as.Lhs) == 1 && len(as.Rhs) == 1 && isLenChanged(as.Rhs[0]) {
				lenVars[fd] = identObj(info, as.Lhs[0])
			}
			return true
		})
	}
	type waitObs struct {
		fd   *ast.FuncDecl
		call *ast.CallExpr
		held bool
	}
	var waits []waitObs
	insertFns := map[*ast.FuncDecl]token.Pos{}
	extra := func(fd *ast.FuncDecl, n ast.Node, st flow.State, record bool) flow.State {
		if _, isDefer := n.(*ast.DeferStmt); isDefer {
			return st
		}
		for _, call := range flow.Calls(n) {
			switch spec.mutexOp(call) {
			case "lock", "unlock":
				st &^= bLenFresh
			}
			switch condOp(call) {
			case "Broadcast":
				if st&bInserted != 0 {
					st |= bBcast
				}
			case "Signal":
				if st&bInserted != 0 {
					st |= bSig
				}
			case "Wait":
				if record {
					waits = append(waits, waitObs{fd, call, st&lkHeld != 0})
				}
			}
		}
		if as, ok := n.(*ast.AssignStmt); ok {
			for i, l := range as.Lhs {
				if ix, ok := ast.Unparen(l).(*ast.IndexExpr); ok && isField(ix.X, fChanged) {
					st |= bInserted
					st &^= bBcast | bSig
					if st&bLenFresh != 0 {
						st |= bFreshAtIn
					} else {
						st &^= bFreshAtIn
					}
					if st&lkHeld == 0 {
						st |= bInsUnlocked
					}
					if record {
						insertFns[fd] = as.Pos()
					}
				}
				if lv := lenVars[fd]; lv != nil && identObj(info, l) == lv {
					st &^= bNonZero | bZero | bLenFresh
					if len(as.Rhs) == len(as.Lhs) && isLenChanged(as.Rhs[i]) && st&lkHeld != 0 {
						st |= bLenFresh
					}
				}
			}
		}
		return st
	}
	edge := func(fd *ast.FuncDecl, cond ast.Expr, truth bool, st flow.State) (flow.State, bool) {
		lv := lenVars[fd]
		be, ok := ast.Unparen(cond).(*ast.BinaryExpr)
		if !ok || lv == nil || identObj(info, be.X) != lv {
			return st, true
		}
		lit, ok := ast.Unparen(be.Y).(*ast.BasicLit)
		if !ok || lit.Value != "0" {
			return st, true
		}
		var zeroOnTrue bool
		switch be.Op {
		case token.EQL:
			zeroOnTrue = true
		case token.NEQ, token.GTR:
			zeroOnTrue = false
		default:
			return st, true
		}
		if truth == zeroOnTrue {
			if st&bNonZero != 0 {
				return st, false
			}
			return st | bZero, true
		}
		if st&bZero != 0 {
			return st, false
		}
		return st | bNonZero, true
	}
	exitsByFn := map[*ast.FuncDecl][]flow.Exit{}
	rep := spec.analyse(c, extra, edge, func(fd *ast.FuncDecl, ex []flow.Exit) { exitsByFn[fd] = ex })

	// (1) guarded-by, with one level of "called only with the lock held" summaries
	c.Floor("guarded-by", 4)
	c.Analysed("guarded_field_accesses", rep.accesses)
	badBy := map[string][]unguarded{}
	for _, u := range rep.unguarded {
		badBy[core.FuncName(u.fn)+":"+u.name] = append(badBy[core.FuncName(u.fn)+":"+u.name], u)
	}
	// every (function, field) pair seen
	for _, fd := range core.AllFuncDecls(pk) {
		seen := map[string]token.Pos{}
		for _, s := range spec.fieldAccessesDeep(fd.Body) {
			v := info.Selections[s].Obj().(*types.Var)
			if _, ok := seen[spec.guarded[v]]; !ok {
				seen[spec.guarded[v]] = s.Pos()
			}
		}
		for name, pos := range seen {
			key := core.FuncName(fd) + ":" + name
			us := badBy[key]
			if us == nil {
				us = badBy[key+" (inside a function literal)"]
			}
			if len(us) == 0 {
				c.Ok("guarded-by", key, pos, "every access happens with Changes.mutex held")
				continue
			}
			// constructor exemption: the object is not shared yet when all accesses are on a value created in this function
			if isConstructorOf(info, fd, changes) {
				c.Ok("guarded-by", key, pos, "constructor: the value is not yet shared")
				continue
			}
			// summary: helper called only with the lock held
			fnObj := info.Defs[fd.Name]
			sites := callSitesOf(pk, fnObj)
			allHeld := len(sites) > 0 && !fd.Name.IsExported()
			for _, cs := range sites {
				if !rep.heldAtCall[cs] {
					allHeld = false
				}
			}
			if allHeld {
				c.Ok("guarded-by", key, pos, core.Sprintf("accessed without locking inside, but all %d call sites hold Changes.mutex", len(sites)))
			} else {
				c.Bad("guarded-by", key, us[0].sel.Pos(), "field of the shared Changes value is read/written without Changes.mutex held (and not every caller holds it): a concurrent FileChanged/Fetch can lose or duplicate a directory, or crash on a concurrent map write")
			}
		}
	}

	// (5) lock release / double lock
	c.Floor("lock-release", 3)
	leaks := map[string]token.Pos{}
	for _, fd := range core.AllFuncDecls(pk) {
		uses := false
		ast.Inspect(fd.Body, func(n ast.Node) bool {
			if call, ok := n.(*ast.CallExpr); ok && spec.mutexOp(call) != "" {
				uses = true
			}
			return true
		})
		if !uses {
			continue
		}
		bad := token.NoPos
		dbl := false
		for _, e := range exitsByFn[fd] {
			if e.State&lkHeld != 0 && e.State&lkDefer == 0 {
				bad = e.Pos
			}
			if e.State&lkDouble != 0 {
				dbl = true
			}
		}
		_ = leaks
		switch {
		case bad.IsValid():
			c.Bad("lock-release", core.FuncName(fd), bad, "an exit is reachable with Changes.mutex still held: the next FileChanged/Fetch blocks forever")
		case dbl:
			c.Bad("lock-release", core.FuncName(fd), fd.Pos(), "Changes.mutex is locked again while already held on some path (self-deadlock)")
		default:
			c.Ok("lock-release", core.FuncName(fd), fd.Pos(), "")
		}
	}

	// (2) wait loops
	c.Floor("wait-loop", 1)
	for _, w := range waits {
		loopOK := false
		var path []ast.Node
		ast.Inspect(w.fd.Body, func(n ast.Node) bool {
			if n == nil {
				path = path[:len(path)-1]
				return true
			}
			path = append(path, n)
			if n == ast.Node(w.call) {
				for i := len(path) - 1; i >= 0; i-- {
					switch s := path[i].(type) {
					case *ast.ForStmt:
						if s.Cond != nil && mentionsField(info, s.Cond, fChanged) {
							loopOK = true
						}
						i = -1
					case *ast.IfStmt, *ast.RangeStmt, *ast.FuncLit:
						// an if between the loop and the wait is fine; a range or a literal is not a wait loop
						if _, isIf := s.(*ast.IfStmt); !isIf {
							i = -1
						}
					}
				}
			}
			return true
		})
		c.Decide(loopOK && w.held, "wait-loop", core.FuncName(w.fd), w.call.Pos(), "cond.Wait is inside a for loop re-testing the pending set, lock held",
			"cond.Wait is not inside a for loop that re-tests the pending set with the lock held: after a broadcast a second waiter proceeds on an empty set (returns a directory never reported) or a wake-up is missed")
	}
	// cond.L is the mutex
	condL := false
	for _, f := range pk.Syntax {
		ast.Inspect(f, func(n ast.Node) bool {
			as, ok := n.(*ast.AssignStmt)
			if !ok || len(as.Lhs) != 1 || len(as.Rhs) != 1 {
				return true
			}
			sel, ok := as.Lhs[0].(*ast.SelectorExpr)
			if !ok || sel.Sel.Name != "L" || !isField(sel.X, fCond) {
				return true
			}
			if u, ok := as.Rhs[0].(*ast.UnaryExpr); ok && u.Op == token.AND && isField(u.X, fMutex) {
				condL = true
			}
			return true
		})
	}
	c.Decide(condL, "wait-loop", "cond.L=&mutex", changes.Obj().Pos(), "", "Changes.cond.L is not set to &Changes.mutex: Wait would release a different lock than the one guarding the set")

	// (3) Fetch takes exactly one key, from the set, and deletes it
	if fetch := prog.FuncDecl("./x/watcher", "Changes.Fetch"); fetch != nil {
		var rng *ast.RangeStmt
		ast.Inspect(fetch.Body, func(n ast.Node) bool {
			if r, ok := n.(*ast.RangeStmt); ok && isField(r.X, fChanged) {
				rng = r
			}
			return true
		})
		if rng == nil {
			c.Bad("fetch-one", "Fetch", fetch.Pos(), "Fetch does not take its result from ranging over the pending set")
		} else {
			key := identObj(info, rng.Key)
			deletes, unlockInside := 0, false
			delOK := false
			ast.Inspect(rng.Body, func(n ast.Node) bool {
				if call, ok := n.(*ast.CallExpr); ok {
					if id, ok := call.Fun.(*ast.Ident); ok && id.Name == "delete" && len(call.Args) == 2 && isField(call.Args[0], fChanged) {
						deletes++
						if identObj(info, call.Args[1]) == key && key != nil {
							delOK = true
						}
					}
					if spec.mutexOp(call) != "" {
						unlockInside = true
					}
				}
				return true
			})
			endsLoop := false
			if n := len(rng.Body.List); n > 0 {
				switch s := rng.Body.List[n-1].(type) {
				case *ast.BranchStmt:
					endsLoop = s.Tok == token.BREAK
				case *ast.ReturnStmt:
					endsLoop = true
				}
			}
			// the result is the key, possibly prefixed
			resultOK := key != nil
			var resObj types.Object
			if fetch.Type.Results != nil && len(fetch.Type.Results.List) == 1 && len(fetch.Type.Results.List[0].Names) == 1 {
				resObj = info.Defs[fetch.Type.Results.List[0].Names[0]]
			}
			if resObj != nil {
				if key != resObj {
					resultOK = false
				}
				ast.Inspect(fetch.Body, func(n ast.Node) bool {
					if as, ok := n.(*ast.AssignStmt); ok {
						for i, l := range as.Lhs {
							if identObj(info, l) == resObj && i < len(as.Rhs) {
								uses := false
								ast.Inspect(as.Rhs[i], func(m ast.Node) bool {
									if id, ok := m.(*ast.Ident); ok && info.Uses[id] == resObj {
										uses = true
									}
									return true
								})
								if !uses {
									resultOK = false
								}
							}
						}
					}
					if r, ok := n.(*ast.ReturnStmt); ok && len(r.Results) > 0 {
						if identObj(info, r.Results[0]) != resObj {
							resultOK = false
						}
					}
					return true
				})
			} else {
				resultOK = false
			}
			good := delOK && deletes == 1 && endsLoop && !unlockInside
			c.Decide(good, "fetch-one", "Fetch", rng.Pos(), "ranges over the set, deletes exactly the key it took, leaves the loop after one key, no unlock in between",
				core.Sprintf("Fetch must take one key from the pending set and delete exactly that key in the same critical section (delete-of-key=%v deletes=%d leaves-loop-after-one=%v unlock-inside=%v): otherwise a directory is returned twice, dropped unseen, or several are consumed by one fetch", delOK, deletes, endsLoop, unlockInside))
			c.Decide(resultOK, "fetch-origin", "Fetch", fetch.Pos(), "the returned directory is the key taken from the set (optionally prefixed)", "the value returned by Fetch does not provably originate from a key of the pending set")
		}
	}

	// (4) insertion -> notification
	c.Floor("notify", 1)
	for fd, pos := range insertFns {
		if isConstructorOf(info, fd, changes) {
			continue
		}
		ok, why := true, ""
		guardedDesign := false
		for _, e := range exitsByFn[fd] {
			if e.State&bInserted != 0 && e.State&(bBcast|bSig) == 0 {
				guardedDesign = true
			}
		}
		for _, e := range exitsByFn[fd] {
			if e.State&bInserted == 0 {
				continue
			}
			if e.State&bInsUnlocked != 0 {
				ok, why = false, "the insertion happens without the lock"
			}
			if e.State&(bBcast|bSig) == 0 {
				// notification skipped on this path: only sound when the set was provably non-empty before the insert
				if e.State&bNonZero == 0 || e.State&bFreshAtIn == 0 {
					ok, why = false, "an exit is reachable after inserting a directory without any wake-up, and without proof that the set was non-empty before the insertion (length read in the same critical section)"
				}
			}
			if guardedDesign && e.State&bSig != 0 && e.State&bBcast == 0 {
				ok, why = false, "cond.Signal is used under the 'set was empty' guard: with two waiting fetchers the second report sends no wake-up and one fetcher sleeps with a directory pending; Broadcast is required"
			}
		}
		c.Decide(ok, "notify", core.FuncName(fd), pos, "every insertion is followed by a wake-up unless the set was already non-empty (length read under the same lock)", why)
	}
}

func mentionsField(info *types.Info, e ast.Expr, f *types.Var) bool {
	found := false
	ast.Inspect(e, func(n ast.Node) bool {
		if sel, ok := n.(*ast.SelectorExpr); ok {
			if s := info.Selections[sel]; s != nil && s.Obj() == f {
				found = true
			}
		}
		return true
	})
	return found
}

// isConstructorOf: the function returns a value of the named type that it creates itself (composite literal / new).
func isConstructorOf(info *types.Info, fd *ast.FuncDecl, n *types.Named) bool {
	if fd.Recv != nil || fd.Type.Results == nil {
		return false
	}
	creates := false
	ast.Inspect(fd.Body, func(m ast.Node) bool {
		if cl, ok := m.(*ast.CompositeLit); ok {
			if namedOf(info.TypeOf(cl)) == n {
				creates = true
			}
		}
		return true
	})
	if !creates {
		return false
	}
	for _, r := range fd.Type.Results.List {
		if namedOf(info.TypeOf(r.Type)) == n {
			return true
		}
	}
	return false
}
