package props

import (
	"go/ast"
	"go/token"
	"go/types"
	"strings"

	"verif/checker/internal/core"
	"verif/checker/internal/flow"
)

func init() {
	e := "cl/expr.go"
	p := "parser/parser.go"
	register(&Prop{
		ID:        "C05",
		Title:     "String interpolation equals explicit concatenation",
		Technique: "exactly-once/in-order path analysis (go/cfg) of cl.compileStringLitEx over the literal's parts, arity agreement of the Concat call, and agreement of the `$$` convention between the parser's splitter (parser.stringLitEx) and the compiler",
		Explanation: "Decides the structural necessary conditions of 'the value is the concatenation of the pieces, each embedded expression evaluated once, left to right': " +
			"(1) compileStringLitEx walks lit.Extra.Parts with a forward range and, in every iteration and on every path, lowers the part exactly once — a string piece through basicLit, an expression through compileExpr — and nothing else pushes operands; (2) the call emitted is Concat with exactly len(parts) operands, under the same `n != 1` guard that pushed the Concat reference; " +
			"(3) a non-string expression is converted through its `string` member, falling back to `error`, and a failure of both is reported (handleErr), not swallowed; " +
			"(4) the `$$` convention: the parser's splitter keeps both dollar signs of `$$` in the piece (it appends text[:at+2] and advances by at+2) and the compiler removes exactly one character from a piece that ends in `$$`; the splitter hands `${…}` bodies to the expression parser with the offsets just inside the braces (from = at+2, end = the first `}`), and appends the text before `${` first.",
		NotCovered: "the string form of each value (strconv formatting is chosen by gogen's `.string` member lookup), and that gogen's Concat call evaluates its operands in push order.",
		Run:        runC05,
		Controls: []Control{
			{Name: "constant-part-folded", File: "cl/expr.go", Old: "\t\t\tif t.Underlying() != types.Typ[types.String] {\n\t\t\t\tif _, err := cb.Member(\"string\", gogen.MemberFlagAutoProperty); err != nil {", New: "\t\t\tif e := cb.Get(-1); e.CVal != nil && t.Underlying() != types.Typ[types.String] {\n\t\t\t\tcb.InternalStack().PopN(1)\n\t\t\t\tcb.Val(e.CVal.String(), v)\n\t\t\t} else if t.Underlying() != types.Typ[types.String] {\n\t\t\t\tif _, err := cb.Member(\"string\", gogen.MemberFlagAutoProperty); err != nil {", Expect: "string-conversion/in-place"},
			{Name: "concat-arity-minus-one", File: e, Old: "\t\tcb.CallWith(n, 0, lit)", New: "\t\tcb.CallWith(n-1, 0, lit)", Expect: "concat-arity/compileStringLitEx"},
			{Name: "expr-compiled-twice", File: e, Old: "\t\t\tcompileExpr(ctx, v, flags)\n\t\t\tt := cb.Get(-1).Type", New: "\t\t\tcompileExpr(ctx, v, flags)\n\t\t\tif flags != 0 {\n\t\t\t\tcb.ResetStmt()\n\t\t\t\tcompileExpr(ctx, v, 0)\n\t\t\t}\n\t\t\tt := cb.Get(-1).Type", Expect: "part-once/compileStringLitEx:expr"},
			{Name: "dollar-strip-two", File: e, Old: "\t\t\t\tv = v[:len(v)-1]\n", New: "\t\t\t\tv = v[:len(v)-2]\n", Expect: "dollar-convention/compiler"},
			{Name: "parser-keeps-one-dollar", File: p, Old: "\t\tparts = append(parts, text[:at+2])\n\t\tpos += token.Pos(at + 2)", New: "\t\tparts = append(parts, text[:at+1])\n\t\tpos += token.Pos(at + 2)", Expect: "dollar-convention/parser"},
			{Name: "parts-reversed", File: e, Old: "\tfor _, part := range parts {\n\t\tswitch v := part.(type) {\n\t\tcase string: // normal string literal or end with \"$$\"", New: "\tfor i := len(parts) - 1; i >= 0; i-- {\n\t\tpart := parts[i]\n\t\tswitch v := part.(type) {\n\t\tcase string: // normal string literal or end with \"$$\"", Expect: "part-order/compileStringLitEx"},
			{Name: "string-member-error-swallowed", File: e, Old: "\t\t\t\t\t\tctx.handleErr(err)\n\t\t\t\t\t}\n\t\t\t\t}\n\t\t\t}\n\t\t\tpos = v.End()", New: "\t\t\t\t\t\t_ = err\n\t\t\t\t\t}\n\t\t\t\t}\n\t\t\t}\n\t\t\tpos = v.End()", Expect: "string-conversion/compileStringLitEx"},
			{Name: "expr-offset-includes-brace", File: p, Old: "\t\tfrom := at + 2\n\t\tleft := text[from:]", New: "\t\tfrom := at + 1\n\t\tleft := text[from:]", Expect: "splitter/expr-start"},
		},
	})
}

func runC05(c *core.Check) {
	prog := c.Load("./cl", "./parser")
	pk, xpk := prog.Pkg("./cl"), prog.Pkg("./parser")
	if pk == nil || xpk == nil {
		return
	}
	info := pk.TypesInfo
	c.Trust("golang.org/x/tools@v0.29.0 go/cfg")
	fd := prog.FuncDecl("./cl", "compileStringLitEx")
	if fd == nil {
		c.Bad("anchor", "cl.compileStringLitEx", 0, "not found")
		return
	}
	// ---------- (1) forward range over lit.Extra.Parts
	var loop *ast.RangeStmt
	var partsVar types.Object
	ast.Inspect(fd.Body, func(n ast.Node) bool {
		if as, ok := n.(*ast.AssignStmt); ok && len(as.Lhs) == 1 && len(as.Rhs) == 1 {
			if strings.HasSuffix(core.ExprStr(as.Rhs[0]), ".Extra.Parts") {
				partsVar = identObj(info, as.Lhs[0])
			}
		}
		if rs, ok := n.(*ast.RangeStmt); ok && loop == nil {
			if o := identObj(info, rs.X); (o != nil && o == partsVar) || strings.HasSuffix(core.ExprStr(rs.X), ".Extra.Parts") {
				loop = rs
			}
		}
		return true
	})
	c.Decide(loop != nil, "part-order", "compileStringLitEx", fd.Pos(), "forward `for _, part := range lit.Extra.Parts`", "compileStringLitEx no longer walks lit.Extra.Parts with a forward range loop: the pieces are not lowered left to right (or the rule cannot follow the iteration)")
	if loop == nil {
		return
	}
	// type switch over the part
	var ts *ast.TypeSwitchStmt
	for _, st := range loop.Body.List {
		if t, ok := st.(*ast.TypeSwitchStmt); ok {
			ts = t
		}
	}
	if ts == nil {
		c.Undecided("part-once", "compileStringLitEx", loop.Pos(), "the loop body is not a type switch over the part")
		return
	}
	pushers := map[string]bool{"compileExpr": true, "basicLit": true, "compileExprLHS": true, "compileStringLitEx": true}
	for _, s := range ts.Body.List {
		cc := s.(*ast.CaseClause)
		kind := "default"
		want := ""
		if len(cc.List) == 1 {
			switch core.ExprStr(cc.List[0]) {
			case "string":
				kind, want = "string", "basicLit"
			case "ast.Expr":
				kind, want = "expr", "compileExpr"
			}
		}
		if want == "" {
			// the default arm must not return normally having pushed nothing
			term := false
			for _, st := range cc.Body {
				if es, ok := st.(*ast.ExprStmt); ok {
					if call, ok := es.X.(*ast.CallExpr); ok {
						if id, ok := call.Fun.(*ast.Ident); ok && id.Name == "panic" {
							term = true
						}
					}
				}
			}
			c.Decide(term, "part-once", "compileStringLitEx:"+kind, cc.Pos(), "unexpected part kinds panic", "a part of another kind is skipped silently: the Concat call then receives fewer operands than it was given")
			continue
		}
		// exactly once on every path
		const (
			bOnce flow.State = 1 << iota
			bTwice
			bOther
		)
		body := &ast.BlockStmt{List: cc.Body}
		p := &flow.Problem{Body: body, Info: info}
		p.Node = func(n ast.Node, st flow.State, record bool) flow.State {
			for _, call := range flow.Calls(n) {
				fn, ok := calleeObj(info, call).(*types.Func)
				if !ok || !pushers[fn.Name()] {
					continue
				}
				if fn.Name() == want {
					if st&bOnce != 0 {
						st |= bTwice
					}
					st |= bOnce
				} else {
					st |= bOther
				}
			}
			return st
		}
		res := flow.Solve(p)
		ok := len(res.Exits) > 0
		for _, e := range res.Exits {
			if e.State&bOnce == 0 || e.State&bTwice != 0 || e.State&bOther != 0 {
				ok = false
			}
		}
		c.Decide(ok, "part-once", "compileStringLitEx:"+kind, cc.Pos(), want+" is called exactly once on every path of the arm", "a "+kind+" part is not lowered exactly once on every path ("+want+" is skipped, repeated, or another lowering routine pushes an extra operand): the embedded expression is evaluated twice / dropped, or Concat gets the wrong operands")
	}
	// ---------- (2) arity
	{
		var nVar types.Object
		ast.Inspect(fd.Body, func(n ast.Node) bool {
			if as, ok := n.(*ast.AssignStmt); ok && len(as.Lhs) == 1 && len(as.Rhs) == 1 {
				if call, ok := as.Rhs[0].(*ast.CallExpr); ok && len(call.Args) == 1 {
					if id, ok := call.Fun.(*ast.Ident); ok && id.Name == "len" && identObj(info, call.Args[0]) == partsVar && partsVar != nil {
						nVar = identObj(info, as.Lhs[0])
					}
				}
			}
			return true
		})
		okArity, guards := false, map[string]int{}
		ast.Inspect(fd.Body, func(n ast.Node) bool {
			is, ok := n.(*ast.IfStmt)
			if !ok {
				return true
			}
			cond := core.ExprStr(is.Cond)
			ast.Inspect(is.Body, func(m ast.Node) bool {
				call, ok := m.(*ast.CallExpr)
				if !ok {
					return true
				}
				sel, ok := call.Fun.(*ast.SelectorExpr)
				if !ok {
					return true
				}
				switch sel.Sel.Name {
				case "CallWith":
					guards[cond]++
					if len(call.Args) >= 1 && nVar != nil && identObj(info, call.Args[0]) == nVar {
						okArity = true
					}
				case "Val":
					if strings.Contains(core.ExprStr(call.Args[0]), "Concat") {
						guards[cond]++
					}
				}
				return true
			})
			return true
		})
		sameGuard := false
		for _, k := range guards {
			if k == 2 {
				sameGuard = true
			}
		}
		c.Decide(okArity && sameGuard, "concat-arity", "compileStringLitEx", fd.Pos(), "Concat is pushed and called with n = len(parts) operands under one guard", "the Concat call does not take exactly len(parts) operands (or the guard that pushes Concat differs from the guard that calls it): a piece is dropped from, or a stray operand added to, the result")
	}
	// ---------- (3) conversion failure reported
	{
		reported := false
		ast.Inspect(loop.Body, func(n ast.Node) bool {
			is, ok := n.(*ast.IfStmt)
			if !ok || is.Init == nil {
				return true
			}
			if !strings.Contains(core.ExprStr(is.Cond), "!= nil") {
				return true
			}
			if as, ok := is.Init.(*ast.AssignStmt); ok && len(as.Rhs) == 1 && strings.Contains(core.ExprStr(as.Rhs[0]), `Member("error"`) {
				ast.Inspect(is.Body, func(m ast.Node) bool {
					if call, ok := m.(*ast.CallExpr); ok {
						if fn, ok := calleeObj(info, call).(*types.Func); ok && (fn.Name() == "handleErr" || fn.Name() == "handleErrorf") {
							reported = true
						}
						if id, ok := call.Fun.(*ast.Ident); ok && id.Name == "panic" {
							reported = true
						}
					}
					return true
				})
			}
			return true
		})
		c.Decide(reported, "string-conversion", "compileStringLitEx", fd.Pos(), "a value with neither a string nor an error member is reported", "when an embedded value has neither a `string` nor an `error` member the failure is no longer reported: the literal compiles with an operand that is not a string")
	}
	// ---------- (3b) the embedded value is converted in place, through its `string` (or `error`) member only: the arm for an
	// expression part never takes the operand off the stack or pushes a substitute (a folded constant text, say, whose
	// spelling differs from what the member conversion prints: %.6g for floats)
	{
		bad := token.NoPos
		what := ""
		ast.Inspect(loop.Body, func(n ast.Node) bool {
			cc, ok := n.(*ast.CaseClause)
			if !ok || len(cc.List) != 1 || nows(core.ExprStr(cc.List[0])) != "ast.Expr" {
				return true
			}
			ast.Inspect(&ast.BlockStmt{List: cc.Body}, func(m ast.Node) bool {
				call, ok := m.(*ast.CallExpr)
				if !ok {
					return true
				}
				name := ""
				switch f := call.Fun.(type) {
				case *ast.SelectorExpr:
					name = f.Sel.Name
				case *ast.Ident:
					name = f.Name
				}
				switch name {
				case "Val", "basicLit", "BinaryOp", "UnaryOp":
					// a new value (a literal, a computed text) takes the operand's place; converting the operand itself —
					// cb.Typ(float64) … Call(1) around the same element, then its `string` member — is still in place
					bad, what = call.Pos(), name
				}
				return true
			})
			return false
		})
		c.Decide(!bad.IsValid(), "string-conversion", "in-place", fd.Pos(), "no substitute value is pushed for the operand", "the arm of compileStringLitEx for an embedded expression calls "+what+": a new value (a literal, a folded text) is pushed in place of the operand instead of converting the operand through its `string` member — the interpolated text is no longer what explicit concatenation with x.string yields")
	}
	// ---------- (4) `$$` convention and the splitter's offsets
	{
		stripOne := false
		ast.Inspect(fd.Body, func(n ast.Node) bool {
			is, ok := n.(*ast.IfStmt)
			if !ok || !strings.Contains(core.ExprStr(is.Cond), `HasSuffix(v, "$$")`) {
				return true
			}
			for _, st := range is.Body.List {
				if as, ok := st.(*ast.AssignStmt); ok && len(as.Rhs) == 1 && nows(core.ExprStr(as.Rhs[0])) == "v[:len(v)-1]" {
					stripOne = true
				}
			}
			return true
		})
		c.Decide(stripOne, "dollar-convention", "compiler", fd.Pos(), "a piece ending in `$$` loses exactly one character", "the compiler no longer removes exactly one `$` from a piece that ends in `$$`: `$$` in a literal no longer reads as a single `$`")
		sx := prog.FuncDecl("./parser", "parser.stringLitEx")
		if sx == nil {
			c.Bad("anchor", "parser.stringLitEx", 0, "not found")
			return
		}
		xinfo := xpk.TypesInfo
		_ = xinfo
		keepTwo, advTwo, fromTwo, beforeFirst := false, false, false, false
		ast.Inspect(sx.Body, func(n ast.Node) bool {
			cc, ok := n.(*ast.CaseClause)
			if !ok || len(cc.List) != 1 {
				return true
			}
			switch core.ExprStr(cc.List[0]) {
			case "'$'":
				for _, st := range cc.Body {
					s := nows(stmtStr(st))
					if s == "parts=append(parts,text[:at+2])" {
						keepTwo = true
					}
					if s == "text=text[at+2:]" {
						advTwo = true
					}
				}
			case "'{'":
				seenExpr := false
				for _, st := range cc.Body {
					s := nows(stmtStr(st))
					if s == "from:=at+2" {
						fromTwo = true
					}
					if strings.HasPrefix(s, "parts=p.stringLitExpr(") {
						seenExpr = true
					}
					if is, ok := st.(*ast.IfStmt); ok && nows(core.ExprStr(is.Cond)) == "at!=0" && !seenExpr {
						for _, b := range is.Body.List {
							if nows(stmtStr(b)) == "parts=append(parts,text[:at])" {
								beforeFirst = true
							}
						}
					}
				}
			}
			return true
		})
		c.Decide(keepTwo && advTwo, "dollar-convention", "parser", sx.Pos(), "`$$` is kept whole in the piece and skipped whole in the text", "the parser's splitter no longer keeps both characters of `$$` in the piece (text[:at+2]) while advancing by two: together with the compiler's strip-one rule, `$$` no longer yields exactly one `$`")
		c.Decide(fromTwo, "splitter", "expr-start", sx.Pos(), "the embedded expression starts right after `${`", "the source handed to the expression parser for `${…}` no longer starts right after the `{`")
		c.Decide(beforeFirst, "splitter", "text-before-expr", sx.Pos(), "the text before `${` is appended before the expression", "the literal text in front of `${` is no longer appended to the parts before the embedded expression: pieces are reordered or lost")
	}
}

func nows(s string) string {
	return strings.NewReplacer(" ", "", "\t", "", "\n", "").Replace(s)
}

func stmtStr(s ast.Stmt) string {
	switch x := s.(type) {
	case *ast.AssignStmt:
		var l, r []string
		for _, e := range x.Lhs {
			l = append(l, core.ExprStr(e))
		}
		for _, e := range x.Rhs {
			r = append(r, core.ExprStr(e))
		}
		return strings.Join(l, ",") + x.Tok.String() + strings.Join(r, ",")
	case *ast.ExprStmt:
		return core.ExprStr(x.X)
	}
	return ""
}

var _ = token.NoPos
