package props

import (
	"go/ast"
	"go/token"
	"go/types"
	"sort"
	"strings"

	"golang.org/x/tools/go/packages"

	"verif/checker/internal/core"
)

func init() {
	f := "printer/nodes.go"
	register(&Prop{
		ID:        "C19",
		Title:     "Formatting preserves the syntax tree",
		Technique: "type-switch exhaustiveness and per-case field-coverage analysis of the printer (expr1, stmt, spec, decl and their helpers) against the node types and fields the parser constructs (derived from parser's composite literals and field stores)",
		Explanation: "Decides for every tree the parser can produce the structural necessary conditions of 'printing loses nothing': (1) every Expr/Stmt/Spec/Decl node type of which package parser builds a value has a case in the printer switch for its category (otherwise the printer reaches its default arm); " +
			"(2) in each case every field that carries syntax — child nodes, operator/keyword tokens (Op, Tok, Dir, Kind) and the XGo flags that change the surface syntax (NoParenEnd, Ellipsis, LhsHasParen, RhsHasParen, Static, Operator, IsClass, Shadow, …) — and that the parser actually sets for that node type is read by the code that prints the node (in the case body or in a helper method that receives the node, followed two levels deep); a field that is never read cannot survive formatting. (2a, print-order) the children of a node are first handed to the printing routines in the order the node declares them, which is their order in the source; (2b, print-operand-path) path-sensitively over go/cfg: an optional child (pointer- or interface-typed node field) that a case of any type switch over syntax nodes in package printer hands to a printer routine on one path is, on every path through that case, handed on or known nil by a nil test on that path (reviewed exceptions: c19OperandReviewed) — `else` printed only when there is no init statement is caught here and not by (2).",
		NotCovered: "how a field is printed (spacing, parenthesisation — partly C22), comment placement, and re-parse equality of the output.",
		Run:        runC19,
		Controls: []Control{
			{Name: "errwrap-default-dropped", File: f, Old: "\t\tif x.Default != nil {\n\t\t\tp.print(token.COLON)\n\t\t\tp.expr1(x.Default, token.UnaryPrec, depth)\n\t\t}\n", New: "", Expect: "print-field/ErrWrapExpr.Default"},
			{Name: "slice-max-dropped", File: f, Old: "\t\tindices := []ast.Expr{x.Low, x.High}\n\t\tif x.Max != nil {\n\t\t\tindices = append(indices, x.Max)\n\t\t}", New: "\t\tindices := []ast.Expr{x.Low, x.High}", Expect: "print-field/SliceExpr.Max"},
			{Name: "rangeexpr-case-removed", File: f, Old: "\tcase *ast.RangeExpr:", New: "\tcase *ast.BadExpr2:", Expect: "load/github.com/goplus/xgo/printer"},
			{Name: "lambda-rhs-paren-weakened", File: f, Old: "\t\tif x.RhsHasParen {\n\t\t\tp.print(token.LPAREN)", New: "\t\tif x.RhsHasParen && len(x.Rhs) != 1 {\n\t\t\tp.print(token.LPAREN)", Expect: "flag-gates-syntax/RhsHasParen"},
			{Name: "binary-right-assoc", File: f, Old: "p.expr1(x.Y, prec+1, depth+1)", New: "p.expr1(x.Y, prec, depth+1)", Expect: "binary/right-operand"},
			{Name: "prefix-from-printer-state", File: "printer/printer.go", Old: "\t\tp.output = append(p.output, tabwriter.Escape)\n\t}\n\n\tif debug {", New: "\t\tp.output = append(p.output, tabwriter.Escape)\n\t\tif p.lastTok == token.CSTRING {\n\t\t\tp.output = append(p.output, 'c')\n\t\t}\n\t}\n\n\tif debug {", Expect: "literal-prefix/printer.print"},
			{Name: "else-printed-only-without-init", File: f, Old: "\t\tif s.Else != nil {\n", New: "\t\tif s.Else != nil && s.Init == nil {\n", Expect: "print-operand-path/printer.stmt:IfStmt.Else"},
			{Name: "key-value-swapped", File: f, Old: "\t\tp.expr(beforeColon(x.Key))\n\t\tp.print(x.Colon, token.COLON, blank)\n\t\tp.expr(x.Value)\n", New: "\t\tp.expr(x.Value)\n\t\tp.print(x.Colon, token.COLON, blank)\n\t\tp.expr(x.Key)\n", Expect: "print-order/KeyValueExpr"},
			{Name: "unary-op-ignored", File: f, Old: "\t\t\t// no parenthesis needed\n\t\t\tp.print(x.Op)\n", New: "\t\t\t// no parenthesis needed\n\t\t\tp.print(token.SUB)\n", Expect: "print-field/UnaryExpr.Op"},
		},
	})
}

// c19Omitted: syntax-bearing fields that the printer deliberately does not read in the node's own case.
var c19Omitted = map[string]string{
	"Doc":        "doc comments are printed through p.setComment / comment interspersing, not from the node's case",
	"Comment":    "line comments are printed through comment interspersing",
	"Obj":        "resolver object, not syntax",
	"Incomplete": "bookkeeping flag; affects only the `/* contains filtered or unexported fields */` note",
}

func runC19(c *core.Check) {
	prog := c.Load("./printer", "./parser", "./ast", "go/printer")
	ppk, xpk, apk := prog.Pkg("./printer"), prog.Pkg("./parser"), prog.Pkg("./ast")
	if ppk == nil || xpk == nil || apk == nil {
		return
	}
	info := ppk.TypesInfo
	nodeObj := apk.Types.Scope().Lookup("Node")
	node := ifaceOf(nodeObj.Type())
	printerT := prog.NamedType("./printer", "printer")
	if node == nil || printerT == nil {
		return
	}
	// node types the parser constructs
	constructed := map[*types.Named]token.Pos{}
	for _, f := range xpk.Syntax {
		ast.Inspect(f, func(n ast.Node) bool {
			if cl, ok := n.(*ast.CompositeLit); ok {
				if nt := namedOf(xpk.TypesInfo.TypeOf(cl)); nt != nil && nt.Obj().Pkg() == apk.Types {
					if _, seen := constructed[nt]; !seen {
						constructed[nt] = cl.Pos()
					}
				}
			}
			return true
		})
	}
	c.Analysed("node_types_constructed_by_parser", len(constructed))
	// the precedence arguments of every sub-expression print site (shared with C22): a parsed `a - (b - c)` reaches the
	// printer with the ParenExpr possibly stripped by the formatter's normalisations, and the printer's own
	// parenthesisation must then keep the tree.
	// the printer's function-literal nesting level is restored by every routine that changes it (p.indent is not such a
	// counter: writeWhitespace interprets indent/unindent marks from the whitespace buffer)
	c.Analysed("level_changing_routines", counterBalanceRule(c, ppk, "level-balance", "level", map[string]string{}))
	c.Floor("level-balance", 3)
	precedenceRules(c, prog)
	adjacencyRule(c, prog) // `- -a`, `& ^x`, `a - -b*c` in an index: parsed sources contain these too
	flagGates(c, prog, ppk, apk)
	// the c"…" / py"…" prefix of a string literal is part of the literal's own text: it is decided from the node's Kind where
	// the BasicLit is turned into text, not from printer state (p.lastTok) at write time — comments flushed in between are
	// written through the same routine
	if pr := core.FindFuncDecl(ppk, "printer.print"); pr != nil {
		okPrefix := false
		ast.Inspect(pr.Body, func(n ast.Node) bool {
			cc, ok := n.(*ast.CaseClause)
			if !ok || len(cc.List) != 1 || core.ExprStr(cc.List[0]) != "*ast.BasicLit" {
				return true
			}
			txt := nows(nodeText(&ast.BlockStmt{List: cc.Body}))
			okPrefix = strings.Contains(txt, `data="c"+data`) && strings.Contains(txt, `data="py"+data`) && strings.Contains(txt, "data=x.Value")
			return true
		})
		usesState := false
		if ws := core.FindFuncDecl(ppk, "printer.writeString"); ws != nil {
			ast.Inspect(ws.Body, func(n ast.Node) bool {
				if sel, ok := n.(*ast.SelectorExpr); ok && sel.Sel.Name == "lastTok" {
					usesState = true
				}
				return true
			})
		}
		c.Decide(okPrefix && !usesState, "literal-prefix", "printer.print", pr.Pos(), "the c/py prefix is attached to the BasicLit's text from its own Kind", "the c\"…\" / py\"…\" prefix is not attached where the BasicLit becomes text (or writeString consults p.lastTok): a comment written between the previous token and the literal gets the prefix (`x := c/* hi */ c\"abc\"`), and the output no longer parses to the same tree")
	}

	// path-sensitive companion of print-field: an optional child printed on one path of a case is printed or nil on all
	nC, nO := opCoverCases(c, ppk, "print-operand-path", func(*ast.FuncDecl) bool { return true }, c19OperandReviewed)
	c.Analysed("print_operand_path_cases", nC)
	c.Analysed("print_operand_path_operands", nO)
	c.Floor("print-operand-path", 70)

	cats := []struct{ iface, fn string }{{"Expr", "printer.expr1"}, {"Stmt", "printer.stmt"}, {"Spec", "printer.spec"}, {"Decl", "printer.decl"}}
	c.Floor("print-case", 60)
	c.Floor("print-field", 120)
	c.Floor("print-order", 22)
	for _, cat := range cats {
		io := apk.Types.Scope().Lookup(cat.iface)
		fd := prog.FuncDecl("./printer", cat.fn)
		if io == nil || fd == nil {
			continue
		}
		iface := ifaceOf(io.Type())
		param := paramObj(fd, info, 0)
		ts := typeSwitchOn(fd.Body, info, param)
		if ts == nil {
			c.Undecided("print-case", cat.fn, fd.Pos(), "no type switch over the node parameter")
			continue
		}
		caseOf := map[*types.Named]*ast.CaseClause{}
		for _, s := range ts.Body.List {
			cc := s.(*ast.CaseClause)
			for _, e := range cc.List {
				if nt := namedOf(info.TypeOf(e)); nt != nil {
					caseOf[nt] = cc
				}
			}
		}
		var types_ []*types.Named
		for nt := range constructed {
			if types.Implements(types.NewPointer(nt), iface) {
				types_ = append(types_, nt)
			}
		}
		sort.Slice(types_, func(i, j int) bool { return types_[i].Obj().Name() < types_[j].Obj().Name() })
		for _, nt := range types_ {
			name := nt.Obj().Name()
			if cat.iface == "Expr" && (types.Implements(types.NewPointer(nt), ifaceOf(apk.Types.Scope().Lookup("Stmt").Type())) || name == "ForPhrase") {
				// nodes that implement several categories are checked in the category the parser uses them in
			}
			cc := caseOf[nt]
			if cc == nil {
				if c19NoCase[cat.iface+"."+name] != "" {
					c.Note("print-case-omitted", cat.iface+"."+name, constructed[nt], c19NoCase[cat.iface+"."+name])
					continue
				}
				c.Bad("print-case", cat.iface+"."+name, constructed[nt], "the parser builds *ast."+name+" (an ast."+cat.iface+") but "+cat.fn+" has no case for it: formatting a file that contains this construct hits the printer's default arm")
				continue
			}
			c.Ok("print-case", cat.iface+"."+name, cc.Pos(), "")
			if len(cc.List) != 1 {
				continue
			}
			checkPrintedFields(c, prog, ppk, xpk, node, nt, cc, info.Implicits[cc])
			checkPrintOrder(c, ppk, nt, cc, info.Implicits[cc])
		}
	}
}

// c19OperandReviewed: cases where a path legitimately leaves an optional child unprinted.
var c19OperandReviewed = map[string]string{
	"printer.stmt:RangeStmt.Value": "a value variable without a key variable cannot be written (`for _, v := range` has the key `_`) and the parser never builds it; go/printer has the same shape",
}

// c19NoCase: node types the parser builds that are printed by their parent, not through the category switch.
var c19NoCase = map[string]string{
	"Expr.ForPhrase":     "a for-phrase is printed by its owner (ComprehensionExpr / ForPhraseStmt), it never reaches expr1 on its own",
	"Expr.ForPhraseStmt": "a statement (it implements Expr only through the embedded *ForPhrase); printed by printer.stmt",
}

// c19Derived: fields the parser sets that are a function of other printed fields (nothing is lost by not reading them).
var c19Derived = map[string]string{
	"BasicLit.Kind":             "determined by the spelling in Value, which is printed verbatim",
	"DomainTextLit.Extra":       "a parsed view of Value (the raw literal text), which is printed verbatim",
	"EmptyStmt.Implicit":        "records that the semicolon was not in the source; an empty statement prints nothing either way",
	"OverloadFuncDecl.Operator": "Name.Name holds the operator spelling itself and is printed",
	"SliceExpr.Slice3":          "true exactly when Max is present; Max is printed (same as go/printer)",
}

// syntaxField: does the field carry surface syntax?
func syntaxField(f *types.Var, node *types.Interface) bool {
	if nodeKind(f.Type(), node) != "" {
		return true
	}
	if nt, ok := types.Unalias(f.Type()).(*types.Named); ok {
		switch nt.Obj().Name() {
		case "Token", "ChanDir":
			return true
		}
	}
	if b, ok := types.Unalias(f.Type()).Underlying().(*types.Basic); ok && b.Kind() == types.Bool {
		return true
	}
	if isAnySlice(f.Type()) || isEmptyInterface(f.Type()) {
		return true
	}
	return false
}

func checkPrintedFields(c *core.Check, prog *core.Prog, ppk, xpk *packages.Package, node *types.Interface, nt *types.Named, cc *ast.CaseClause, caseVar types.Object) {
	checkFieldsRead(c, ppk, xpk, node, nt, cc, caseVar, fieldReadRule{prefix: "print", verb: "prints", omitted: c19Omitted, derived: c19Derived})
}

// fieldReadRule names one consumer of the tree (the printer, the compiler) for checkFieldsRead.
type fieldReadRule struct {
	prefix  string // obligation prefix: <prefix>-field, <prefix>-omitted, …
	verb    string // "prints", "lowers"
	omitted map[string]string
	derived map[string]string
	// childrenOnly restricts the rule to child nodes and node lists (a tree walker need not read tokens and flags)
	childrenOnly bool
	// compareIsUse: a consumer that only compares a token field (v.Tok == token.NOT) does use it (a compiler dispatching
	// on the operator); for the printer a comparison alone means the token itself is never written
	compareIsUse bool
}

// checkFieldsRead: every syntax-bearing field of nt that the parser sets is read by the code that consumes the node
// (the case body, or a routine of the consumer package that receives the node, up to three calls deep).
func checkFieldsRead(c *core.Check, ppk, xpk *packages.Package, node *types.Interface, nt *types.Named, cc ast.Node, caseVar types.Object, r fieldReadRule) {
	st, ok := nt.Underlying().(*types.Struct)
	if !ok || caseVar == nil {
		return
	}
	info := ppk.TypesInfo
	read := map[*types.Var]bool{}
	used := map[*types.Var]bool{} // read other than as the operand of a comparison / negation
	visited := map[types.Object]bool{}
	var collect func(body ast.Node, v types.Object, depth int)
	collect = func(body ast.Node, v types.Object, depth int) {
		var stack []ast.Node
		ast.Inspect(body, func(n ast.Node) bool {
			if n == nil {
				stack = stack[:len(stack)-1]
				return true
			}
			stack = append(stack, n)
			switch x := n.(type) {
			case *ast.SelectorExpr:
				if identObj(info, x.X) == v {
					if s := info.Selections[x]; s != nil {
						if fv, ok := s.Obj().(*types.Var); ok {
							read[fv] = true
							if !testOnly(stack) {
								used[fv] = true
							}
						}
					}
				}
			case *ast.CallExpr:
				if depth <= 0 {
					return true
				}
				for i, a := range x.Args {
					if identObj(info, a) != v {
						continue
					}
					fn, ok := calleeObj(info, x).(*types.Func)
					if !ok || fn.Pkg() != ppk.Types || visited[fn] {
						continue
					}
					hd := core.FindFuncDecl(ppk, core.FuncObjName(fn))
					if hd == nil || hd.Body == nil {
						continue
					}
					visited[fn] = true
					if po := paramObj(hd, info, i); po != nil {
						collect(hd.Body, po, depth-1)
					}
				}
			}
			return true
		})
	}
	collect(cc, caseVar, 3)
	// promoted fields through an embedded pointer (ForPhraseStmt.*ForPhrase): x.Key reads ForPhrase.Key
	for i := 0; i < st.NumFields(); i++ {
		f := st.Field(i)
		if !syntaxField(f, node) {
			continue
		}
		if r.childrenOnly && !isASTNodeType(f.Type()) && !isNodeSlice(f.Type()) {
			continue
		}
		key := nt.Obj().Name() + "." + f.Name()
		if why, om := r.omitted[f.Name()]; om {
			if !read[f] {
				c.Note(r.prefix+"-omitted", key, cc.Pos(), why)
				continue
			}
		}
		sites := fieldStores([]*packages.Package{xpk}, f)
		if len(sites) == 0 {
			if !read[f] {
				c.Note(r.prefix+"-unset", key, cc.Pos(), "the parser never sets this field; the code that "+r.verb+" it does not read it")
			}
			continue
		}
		if f.Embedded() {
			// an embedded node: its own fields are promoted; require that at least one of them (or the node) is read
			anyRead := read[f]
			if es := structOf(f.Type()); es != nil {
				for j := 0; j < es.NumFields(); j++ {
					if read[es.Field(j)] {
						anyRead = true
					}
				}
			}
			c.Decide(anyRead, r.prefix+"-field", key, cc.Pos(), "", "the embedded node is never read by the code that "+r.verb+" "+nt.Obj().Name())
			continue
		}
		if why, ok := r.derived[key]; ok && !read[f] {
			c.Note(r.prefix+"-derived", key, cc.Pos(), why)
			continue
		}
		if !read[f] && readAnywhere(ppk, f) {
			c.Ok(r.prefix+"-field", key, cc.Pos(), "read outside the node's own case (e.g. by the code that "+r.verb+" its parent)")
			continue
		}
		if read[f] && !used[f] && (isASTNodeType(f.Type()) || isNodeSlice(f.Type())) {
			c.Bad(r.prefix+"-field", key, cc.Pos(), "the code that "+r.verb+" *ast."+nt.Obj().Name()+" only tests "+key+" (a nil comparison) and never hands the child on: the child itself is dropped")
			continue
		}
		if read[f] && !used[f] && isTokenField(f) && !r.compareIsUse {
			c.Bad(r.prefix+"-field", key, cc.Pos(), "the code that "+r.verb+" *ast."+nt.Obj().Name()+" only compares "+key+" (==, !=, !) and never prints it or switches over it: the token the parser stored is replaced by whatever constant the printer emits")
			continue
		}
		c.Decide(read[f], r.prefix+"-field", key, cc.Pos(), "", "the parser sets "+key+" ("+core.Sprintf("%d", len(sites))+" site(s)) but the code that "+r.verb+" *ast."+nt.Obj().Name()+" never reads it: whatever the field encodes is lost (or replaced by a constant) when the file is formatted")
	}
}

// readAnywhere: some function of the package reads the field.
func readAnywhere(pk *packages.Package, f *types.Var) bool {
	found := false
	for _, file := range pk.Syntax {
		ast.Inspect(file, func(n ast.Node) bool {
			if sel, ok := n.(*ast.SelectorExpr); ok {
				if s := pk.TypesInfo.Selections[sel]; s != nil && s.Obj() == f {
					found = true
				}
			}
			return true
		})
	}
	return found
}

func isTokenField(f *types.Var) bool {
	nt, ok := types.Unalias(f.Type()).(*types.Named)
	return ok && nt.Obj().Name() == "Token"
}

// testOnly: the selector on top of the stack is the direct operand of a comparison or of `!` (a test of the field, not a use of its value).
func testOnly(stack []ast.Node) bool {
	for i := len(stack) - 2; i >= 0; i-- {
		switch p := stack[i].(type) {
		case *ast.ParenExpr:
			continue
		case *ast.BinaryExpr:
			switch p.Op {
			case token.EQL, token.NEQ, token.LSS, token.GTR, token.LEQ, token.GEQ:
				return true
			}
			return false
		case *ast.UnaryExpr:
			return p.Op == token.NOT
		default:
			return false
		}
	}
	return false
}

// flagGates: every bool field of an ast node that records a purely syntactic choice of the source (…HasParen, NoParenEnd, …)
// and that the printer reads must gate an if statement *directly* (`if x.F {`, `if !x.F {`, possibly in a && / || chain whose
// other operands do not weaken it is not accepted): a derived local that is weakened before the test drops the syntax for some trees.
func flagGates(c *core.Check, prog *core.Prog, ppk, apk *packages.Package) {
	info := ppk.TypesInfo
	type occ struct {
		direct, derived bool
		pos             token.Pos
	}
	flags := map[*types.Var]*occ{}
	for _, file := range ppk.Syntax {
		var stack []ast.Node
		ast.Inspect(file, func(n ast.Node) bool {
			if n == nil {
				stack = stack[:len(stack)-1]
				return true
			}
			stack = append(stack, n)
			sel, ok := n.(*ast.SelectorExpr)
			if !ok {
				return true
			}
			s := info.Selections[sel]
			if s == nil {
				return true
			}
			fv, ok := s.Obj().(*types.Var)
			if !ok || fv.Pkg() != apk.Types || !strings.HasSuffix(fv.Name(), "HasParen") {
				return true
			}
			o := flags[fv]
			if o == nil {
				o = &occ{pos: sel.Pos()}
				flags[fv] = o
			}
			// direct: the selector (maybe under `!`) is the whole condition of an if statement
			j := len(stack) - 2
			for j >= 0 {
				if u, ok := stack[j].(*ast.UnaryExpr); ok && u.Op == token.NOT {
					j--
					continue
				}
				if _, ok := stack[j].(*ast.ParenExpr); ok {
					j--
					continue
				}
				break
			}
			if j >= 0 {
				if is, ok := stack[j].(*ast.IfStmt); ok && containsNode(is.Cond, sel) {
					o.direct = true
					return true
				}
			}
			o.derived = true
			return true
		})
	}
	var fs []*types.Var
	for f := range flags {
		fs = append(fs, f)
	}
	sort.Slice(fs, func(i, j int) bool { return fs[i].Name() < fs[j].Name() })
	for _, f := range fs {
		o := flags[f]
		c.Decide(o.direct && !o.derived, "flag-gates-syntax", f.Name(), o.pos, "", "the parenthesis flag "+f.Name()+" is no longer the sole condition of the if statement that prints the parentheses (it is copied into a local or combined with other conditions): for some parsed trees the parentheses the source had are dropped or invented")
	}
	c.Floor("flag-gates-syntax", 2)
}

func containsNode(root, n ast.Node) bool {
	found := false
	ast.Inspect(root, func(m ast.Node) bool {
		if m == n {
			found = true
		}
		return !found
	})
	return found
}

// c19OrderReviewed: cases whose first mentions of two fields are not in declaration order for a reason other than
// printing them out of order.
var c19OrderReviewed = map[string]string{}

// checkPrintOrder: the node's child fields (syntax nodes, node lists and token positions are declared in source order in
// package ast) are first handed to a printing routine in declaration order.
func checkPrintOrder(c *core.Check, ppk *packages.Package, nt *types.Named, cc *ast.CaseClause, caseVar types.Object) {
	st, ok := nt.Underlying().(*types.Struct)
	if !ok || caseVar == nil {
		return
	}
	info := ppk.TypesInfo
	idx := map[string]int{}
	for i := 0; i < st.NumFields(); i++ {
		f := st.Field(i)
		if isASTNodeType(f.Type()) || isNodeSlice(f.Type()) {
			idx[f.Name()] = i
		}
	}
	var order []string
	seen := map[string]bool{}
	for _, s := range cc.Body {
		ast.Inspect(s, func(n ast.Node) bool {
			call, ok := n.(*ast.CallExpr)
			if !ok {
				return true
			}
			if fn, ok := calleeObj(info, call).(*types.Func); !ok || fn.Pkg() != ppk.Types {
				return true
			}
			for _, a := range call.Args {
				// the child itself or the child passed through a plain wrapper (beforeColon(x.Key), stripParens(x.X))
				ast.Inspect(a, func(m ast.Node) bool {
					sel, ok := m.(*ast.SelectorExpr)
					if !ok || identObj(info, sel.X) != caseVar {
						return true
					}
					if _, tracked := idx[sel.Sel.Name]; tracked && !seen[sel.Sel.Name] {
						seen[sel.Sel.Name] = true
						order = append(order, sel.Sel.Name)
					}
					return false
				})
			}
			return true
		})
	}
	if len(order) < 2 {
		return
	}
	key := nt.Obj().Name()
	okOrd, prev := true, -1
	for _, f := range order {
		if idx[f] < prev {
			okOrd = false
		}
		prev = idx[f]
	}
	if why, rev := c19OrderReviewed[key]; rev {
		if okOrd {
			c.Bad("print-order", key, cc.Pos(), "listed as a reviewed exception but the case prints its children in declaration order now: remove the stale entry")
		} else {
			c.Note("print-order", key, cc.Pos(), "reviewed: "+why)
		}
		return
	}
	c.Decide(okOrd, "print-order", key, cc.Pos(), strings.Join(order, " → "), "the case for *ast."+key+" hands the children to the printing routines in the order "+strings.Join(order, ", ")+", but the node declares them (= they occur in the source) in a different order: two children are printed swapped")
}

func isNodeSlice(t types.Type) bool {
	if sl, ok := t.Underlying().(*types.Slice); ok {
		return isASTNodeType(sl.Elem())
	}
	return false
}
