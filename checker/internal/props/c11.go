package props

import (
	"go/ast"
	"go/token"
	"go/types"
	"strings"

	"golang.org/x/tools/go/packages"

	"verif/checker/internal/core"
	"verif/checker/internal/flow"
)

func init() {
	f := "cl/compile.go"
	register(&Prop{
		ID:        "C11",
		Title:     "A normal .gox class file behaves like its explicit struct form",
		Technique: "exactly-once path analysis (go/cfg) of the loop that turns a class file's var block into struct fields, shape check of the struct construction and of the synthesized receiver, and guard analysis of the routine that binds receiver-less functions of a class file to that receiver",
		Explanation: "Decides the structural part of 'a class file compiles to a type with exactly those fields and methods (receiver this)', in the code that builds that type: " +
			"(1) the class type's initialiser walks classDecl.Specs and, for a spec with names, spec.Names, both with forward ranges; on every path through one name it either reports a redeclaration (chkRedecl) and skips, or appends exactly one field — types.NewField(pos, pkg, name.Name, typ, embedded=false) with typ = toType(ctx, spec.Type) — and exactly one tag, so fields and tags stay aligned; a spec without names yields exactly one embedded field named after its type; " +
			"(2) the type is initialised from exactly those lists: decl.InitType(p, types.NewStruct(flds, tags)); " +
			"(3) the receiver given to the class's functions is `this *<classType>` (ctx.classRecv: one name `this`, type a pointer to the class type identifier); " +
			"(4) preloadFile binds every function declaration of a class file that has no receiver of its own to ctx.classRecv (guard: ctx.classRecv != nil and recv == nil || len(recv.List) == 0) before deciding whether it is a function or a method.",
		NotCovered: "the behaviour of programs using the class (method sets, embedding of the base/project class, generated Main/MainEntry entry points), and class files of a framework (.spx/.gmx style), which add base-class fields first.",
		Run:        runC11,
		Controls: []Control{
			{Name: "field-skipped-when-blank", File: f, Old: "\t\t\t\t\t\t\tfor _, name := range spec.Names {\n\t\t\t\t\t\t\t\tif chk.chkRedecl(ctx, name.Name, name.Pos()) {\n\t\t\t\t\t\t\t\t\tcontinue\n\t\t\t\t\t\t\t\t}", New: "\t\t\t\t\t\t\tfor _, name := range spec.Names {\n\t\t\t\t\t\t\t\tif name.Name == \"_\" || chk.chkRedecl(ctx, name.Name, name.Pos()) {\n\t\t\t\t\t\t\t\t\tcontinue\n\t\t\t\t\t\t\t\t}", Expect: "class-fields/named:skip-only-on-redeclaration"},
			{Name: "tag-not-appended", File: f, Old: "\t\t\t\t\t\t\t\tflds = append(flds, fld)\n\t\t\t\t\t\t\t\ttags = append(tags, tag)\n\t\t\t\t\t\t\t}\n\t\t\t\t\t\t}", New: "\t\t\t\t\t\t\t\tflds = append(flds, fld)\n\t\t\t\t\t\t\t\tif tag != \"\" {\n\t\t\t\t\t\t\t\t\ttags = append(tags, tag)\n\t\t\t\t\t\t\t\t}\n\t\t\t\t\t\t\t}\n\t\t\t\t\t\t}", Expect: "class-fields/named:one-field-one-tag"},
			{Name: "receiver-by-value", File: f, Old: "\t\t\tType: &ast.StarExpr{\n\t\t\t\tX: &ast.Ident{Name: classType},\n\t\t\t},\n\t\t}}}\n\t}\n\n\tif d := f.ShadowEntry", New: "\t\t\tType: &ast.Ident{Name: classType},\n\t\t}}}\n\t}\n\n\tif d := f.ShadowEntry", Expect: "class-receiver/this-pointer"},
			{Name: "only-exported-bound", File: f, Old: "\t\t\tif recv := d.Recv; recv == nil || len(recv.List) == 0 {\n\t\t\t\td.Recv = ctx.classRecv\n\t\t\t\td.IsClass = true\n\t\t\t}\n\t\t}\n\t\tname := d.Name", New: "\t\t\tif recv := d.Recv; (recv == nil || len(recv.List) == 0) && d.Name.IsExported() {\n\t\t\t\td.Recv = ctx.classRecv\n\t\t\t\td.IsClass = true\n\t\t\t}\n\t\t}\n\t\tname := d.Name", Expect: "class-methods/bound-to-receiver"},
			{Name: "fields-decl-stops-at-const", File: "ast/ast_gop.go", Old: "\t\t\t\tif g.Tok == token.VAR {\n\t\t\t\t\treturn g\n\t\t\t\t}\n\t\t\t\tcontinue", New: "\t\t\t\tif g.Tok == token.VAR {\n\t\t\t\t\treturn g\n\t\t\t\t}\n\t\t\t\tif g.Tok == token.IMPORT {\n\t\t\t\t\tcontinue\n\t\t\t\t}\n\t\t\t\tbreak", Expect: "class-fields/ClassFieldsDecl:CONST"},
			{Name: "struct-without-tags", File: f, Old: "\t\t\t\tdecl.InitType(p, types.NewStruct(flds, tags))\n\t\t\t}\n\t\t\tparent.tylds = append(parent.tylds, ld)", New: "\t\t\t\tdecl.InitType(p, types.NewStruct(flds[:len(flds)-1], nil))\n\t\t\t}\n\t\t\tparent.tylds = append(parent.tylds, ld)", Expect: "class-fields/struct-from-lists"},
		},
	})
}

func runC11(c *core.Check) {
	prog := c.Load("./cl", "./ast")
	pk := prog.Pkg("./cl")
	if pk == nil {
		return
	}
	info := pk.TypesInfo
	c.Trust("golang.org/x/tools@v0.29.0 go/cfg")
	fd := prog.FuncDecl("./cl", "preloadGopFile")
	if fd == nil {
		c.Bad("anchor", "cl.preloadGopFile", 0, "not found")
		return
	}
	// the loop over classDecl.Specs
	var specLoop *ast.RangeStmt
	ast.Inspect(fd.Body, func(n ast.Node) bool {
		if rs, ok := n.(*ast.RangeStmt); ok && nows(core.ExprStr(rs.X)) == "classDecl.Specs" {
			specLoop = rs
		}
		return true
	})
	if specLoop == nil {
		c.Bad("class-fields", "loop", fd.Pos(), "the loop over classDecl.Specs that builds the class fields was not found")
		return
	}
	// typ := toType(ctx, spec.Type)
	typFromSpec := false
	var namesLoop *ast.RangeStmt
	var embedded *ast.BlockStmt
	ast.Inspect(specLoop.Body, func(n ast.Node) bool {
		switch x := n.(type) {
		case *ast.AssignStmt:
			if nows(stmtStr(x)) == "typ:=toType(ctx,spec.Type)" {
				typFromSpec = true
			}
		case *ast.RangeStmt:
			if nows(core.ExprStr(x.X)) == "spec.Names" {
				namesLoop = x
			}
		case *ast.IfStmt:
			if nows(core.ExprStr(x.Cond)) == "len(spec.Names)==0" {
				embedded = x.Body
			}
		}
		return true
	})
	c.Decide(typFromSpec, "class-fields", "type-of-spec", specLoop.Pos(), "the field type is toType(ctx, spec.Type)", "the type of a class field is no longer computed from its own spec.Type")
	once := func(body *ast.BlockStmt, key string, wantEmbedded string) {
		if body == nil {
			c.Bad("class-fields", key, specLoop.Pos(), "the branch was not found")
			return
		}
		const (
			bRedecl flow.State = 1 << iota
			bField
			bField2
			bTag
			bTag2
			bOtherSkip
		)
		fieldOK := false
		ast.Inspect(body, func(n ast.Node) bool {
			if call, ok := n.(*ast.CallExpr); ok {
				if fn, ok := calleeObj(info, call).(*types.Func); ok && fn.Name() == "NewField" && len(call.Args) == 5 {
					if nows(core.ExprStr(call.Args[2])) == "name.Name" && core.ExprStr(call.Args[3]) == "typ" && core.ExprStr(call.Args[4]) == wantEmbedded {
						fieldOK = true
					}
				}
			}
			return true
		})
		p := &flow.Problem{Body: body, Info: info}
		p.Node = func(n ast.Node, st flow.State, record bool) flow.State {
			if as, ok := n.(*ast.AssignStmt); ok {
				switch nows(stmtStr(as)) {
				case "flds=append(flds,fld)":
					if st&bField != 0 {
						st |= bField2
					}
					st |= bField
				case "tags=append(tags,tag)":
					if st&bTag != 0 {
						st |= bTag2
					}
					st |= bTag
				}
			}
			return st
		}
		p.Edge = func(cond ast.Expr, truth bool, st flow.State) (flow.State, bool) {
			if call, ok := ast.Unparen(cond).(*ast.CallExpr); ok {
				if fn, ok := calleeObj(info, call).(*types.Func); ok && fn.Name() == "chkRedecl" {
					if truth {
						st |= bRedecl
					}
					return st, true
				}
			}
			if strings.Contains(core.ExprStr(cond), "rec") { // `if rec != nil` (recorder side table)
				return st, true
			}
			if truth {
				st |= bOtherSkip
			}
			return st, true
		}
		res := flow.Solve(p)
		okOnce, okSkip := len(res.Exits) > 0, true
		for _, e := range res.Exits {
			st := e.State
			if st&bRedecl != 0 {
				if st&(bField|bTag) != 0 {
					okOnce = false
				}
				continue
			}
			if st&bField == 0 || st&bTag == 0 || st&bField2 != 0 || st&bTag2 != 0 {
				okOnce = false
				if st&bOtherSkip != 0 && st&bField == 0 {
					okSkip = false
				}
			}
		}
		c.Decide(okOnce && fieldOK, "class-fields", key+":one-field-one-tag", body.Pos(), "exactly one field (NewField(…, name.Name, typ, "+wantEmbedded+")) and one tag per declared name", "a declared class field does not yield exactly one struct field (built from its own name and type, embedded="+wantEmbedded+") together with exactly one tag on every path: fields and tags drift apart or a field is duplicated/missing")
		c.Decide(okSkip, "class-fields", key+":skip-only-on-redeclaration", body.Pos(), "a name is skipped only after chkRedecl reported it", "a declared class field is skipped on a path that did not report a redeclaration: the class type silently lacks a field the source declares")
	}
	if namesLoop != nil {
		once(namesLoop.Body, "named", "false")
	} else {
		c.Bad("class-fields", "named", specLoop.Pos(), "the loop over spec.Names was not found")
	}
	once(embedded, "embedded", "true")
	// (2) struct from the lists
	structOK := false
	ast.Inspect(fd.Body, func(n ast.Node) bool {
		if call, ok := n.(*ast.CallExpr); ok && nows(core.ExprStr(call)) == "decl.InitType(p,types.NewStruct(flds,tags))" {
			structOK = true
		}
		return true
	})
	c.Decide(structOK, "class-fields", "struct-from-lists", fd.Pos(), "decl.InitType(p, types.NewStruct(flds, tags))", "the class type is no longer initialised from exactly the collected field and tag lists")

	// (2b) which declaration holds the fields: the parser gives class-field syntax to the FIRST var declaration of a class
	// file whatever precedes it; ast.File.ClassFieldsDecl (what cl takes as the field block) must therefore step over
	// import, const and type declarations alike and return the first var declaration
	if cf := prog.FuncDecl("./ast", "File.ClassFieldsDecl"); cf != nil {
		apk := prog.Pkg("./ast")
		for _, tok := range []string{"IMPORT", "CONST", "TYPE", "VAR"} {
			got := c11EvalClassFieldsDecl(apk, cf, tok)
			want := "continue"
			if tok == "VAR" {
				want = "return-decl"
			}
			c.Decide(got == want, "class-fields", "ClassFieldsDecl:"+tok, cf.Pos(), "a leading "+strings.ToLower(tok)+" declaration: "+want, "ast.File.ClassFieldsDecl does `"+got+"` on a leading "+strings.ToLower(tok)+" declaration (expected "+want+"): the var block the parser read with class-field syntax is not the one cl turns into fields — after a preceding "+strings.ToLower(tok)+" declaration the class gets no fields and the `fields` become package-level variables shared by all instances")
		}
	} else {
		c.Bad("anchor", "ast.File.ClassFieldsDecl", 0, "not found")
	}

	// (3) the receiver
	recvOK := false
	ast.Inspect(fd.Body, func(n ast.Node) bool {
		as, ok := n.(*ast.AssignStmt)
		if !ok || len(as.Lhs) != 1 || nows(core.ExprStr(as.Lhs[0])) != "ctx.classRecv" {
			return true
		}
		// &ast.FieldList{List: []*ast.Field{{Names: []*ast.Ident{{Name: "this"}}, Type: &ast.StarExpr{X: &ast.Ident{Name: classType}}}}}
		var names []string
		star, ident := false, false
		ast.Inspect(as.Rhs[0], func(m ast.Node) bool {
			switch x := m.(type) {
			case *ast.KeyValueExpr:
				if core.ExprStr(x.Key) == "Name" {
					if s, ok := stringConst(info, x.Value); ok {
						names = append(names, s)
					} else if core.ExprStr(x.Value) == "classType" {
						ident = true
					}
				}
			case *ast.CompositeLit:
				if nt := namedOf(info.TypeOf(x)); nt != nil && nt.Obj().Name() == "StarExpr" {
					star = true
				}
			}
			return true
		})
		if len(names) == 1 && names[0] == "this" && star && ident {
			recvOK = true
		}
		return true
	})
	c.Decide(recvOK, "class-receiver", "this-pointer", fd.Pos(), "ctx.classRecv is `this *<classType>`", "the receiver synthesized for the functions of a class file is no longer `this *<classType>` (one name `this`, pointer to the class type): methods get a value receiver or another receiver name, so `this.field = …` no longer updates the object")

	// (4) methods bound
	pf := prog.FuncDecl("./cl", "preloadFile")
	if pf == nil {
		c.Bad("anchor", "cl.preloadFile", 0, "not found")
		return
	}
	bound := false
	ast.Inspect(pf.Body, func(n ast.Node) bool {
		outer, ok := n.(*ast.IfStmt)
		if !ok || nows(core.ExprStr(outer.Cond)) != "ctx.classRecv!=nil" || len(outer.Body.List) != 1 {
			return true
		}
		inner, ok := outer.Body.List[0].(*ast.IfStmt)
		if !ok || nows(core.ExprStr(inner.Cond)) != "recv==nil||len(recv.List)==0" {
			return true
		}
		if inner.Init == nil || nows(stmtStr(inner.Init)) != "recv:=d.Recv" {
			return true
		}
		for _, st := range inner.Body.List {
			if nows(stmtStr(st)) == "d.Recv=ctx.classRecv" {
				// only for the FuncDecl closure (the OverloadFuncDecl branch has its own form)
				if namedOf(info.TypeOf(st.(*ast.AssignStmt).Lhs[0].(*ast.SelectorExpr).X)) != nil && namedOf(info.TypeOf(st.(*ast.AssignStmt).Lhs[0].(*ast.SelectorExpr).X)).Obj().Name() == "FuncDecl" {
					bound = true
				}
			}
		}
		return true
	})
	c.Decide(bound, "class-methods", "bound-to-receiver", pf.Pos(), "every receiver-less function of a class file gets ctx.classRecv", "preloadFile no longer binds every function declaration of a class file that has no receiver to the class receiver (the guard gained a condition or the assignment is gone): some functions of the class file become package-level functions instead of methods")
}

// c11EvalClassFieldsDecl interprets the loop body of ClassFieldsDecl for one declaration that is a *GenDecl with the
// given token: "continue", "break", "return-decl", "return-nil" or "unknown".
func c11EvalClassFieldsDecl(apk *packages.Package, fd *ast.FuncDecl, tok string) string {
	var loop *ast.RangeStmt
	ast.Inspect(fd.Body, func(n ast.Node) bool {
		if rs, ok := n.(*ast.RangeStmt); ok && loop == nil {
			loop = rs
		}
		return true
	})
	if loop == nil {
		return "unknown"
	}
	info := apk.TypesInfo
	condVal := func(e ast.Expr) (bool, bool) {
		e = ast.Unparen(e)
		if id, ok := e.(*ast.Ident); ok && id.Name == "ok" {
			return true, true // the declaration is a *GenDecl
		}
		if be, ok := e.(*ast.BinaryExpr); ok && (be.Op == token.EQL || be.Op == token.NEQ) && strings.HasSuffix(core.ExprStr(be.X), ".Tok") {
			if k := constOf(info, be.Y); k != nil {
				return (k.Name() == tok) == (be.Op == token.EQL), true
			}
		}
		return false, false
	}
	var exec func(list []ast.Stmt) string
	exec = func(list []ast.Stmt) string {
		for _, st := range list {
			switch x := st.(type) {
			case *ast.IfStmt:
				v, ok := condVal(x.Cond)
				if !ok {
					return "unknown"
				}
				if v {
					if r := exec(x.Body.List); r != "" {
						return r
					}
				} else if x.Else != nil {
					var el []ast.Stmt
					if b, ok := x.Else.(*ast.BlockStmt); ok {
						el = b.List
					} else {
						el = []ast.Stmt{x.Else}
					}
					if r := exec(el); r != "" {
						return r
					}
				}
			case *ast.SwitchStmt:
				if x.Tag == nil || !strings.HasSuffix(core.ExprStr(x.Tag), ".Tok") {
					return "unknown"
				}
				var chosen, def *ast.CaseClause
				for _, cs := range x.Body.List {
					cc := cs.(*ast.CaseClause)
					if cc.List == nil {
						def = cc
					}
					for _, e := range cc.List {
						if k := constOf(info, e); k != nil && k.Name() == tok {
							chosen = cc
						}
					}
				}
				if chosen == nil {
					chosen = def
				}
				if chosen != nil {
					r := exec(chosen.Body)
					if r == "break" {
						r = "" // break leaves the switch only
					}
					if r != "" {
						return r
					}
				}
			case *ast.BranchStmt:
				return x.Tok.String()
			case *ast.ReturnStmt:
				if len(x.Results) == 1 {
					if id, ok := x.Results[0].(*ast.Ident); ok && id.Name == "nil" {
						return "return-nil"
					}
				}
				return "return-decl"
			case *ast.BlockStmt:
				if r := exec(x.List); r != "" {
					return r
				}
			default:
				return "unknown"
			}
		}
		return ""
	}
	r := exec(loop.Body.List)
	if r == "" {
		return "continue" // falls off the loop body: next declaration
	}
	return r
}
