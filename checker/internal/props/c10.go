package props

import (
	"go/ast"
	"go/constant"
	"go/token"
	"go/types"
	"strings"

	"verif/checker/internal/core"
	"verif/checker/internal/flow"
)

func init() {
	f := "cl/compile.go"
	register(&Prop{
		ID:        "C10",
		Title:     "Overloaded functions dispatch on argument types",
		Technique: "exactly-once/position-alignment path analysis (go/cfg) of the loop in cl.preloadFile that registers the candidates of an overload declaration, and naming-convention agreement (constants and expression shape) between cl.overloadFuncName and gogen's overload table reader",
		Explanation: "Overload resolution itself happens inside gogen; cl's part is to hand gogen a candidate table in which position i names candidate i. Decides that structural part: " +
			"(1) the loop over d.Funcs is a forward range with its index; every arm that does not bail out with an error appends exactly one entry to the name list `onames`, so entry i belongs to candidate i: an identifier contributes its name (`.name` inside a class file), a method selector `.Sel`, a function literal the empty entry that stands for the default name; " +
			"(2) a function-literal candidate is declared under overloadFuncName(name, idx) with the loop's own index and its own type and body; " +
			"(3) the table constant is named by overloadName(recv, name, operator) and holds strings.Join(onames, \",\"); " +
			"(4) cl.overloadFuncName(name, i) = name + \"__\" + indexTable[i:i+1] with the same index alphabet gogen uses to look the default names up (gogen.indexTable).",
		NotCovered: "which candidate gogen selects for given argument types (type-directed matching inside gogen), and whether candidates are pairwise distinguishable.",
		Run:        runC10,
		Controls: []Control{
			{Name: "literal-named-by-count", File: f, Old: "\t\t\t\t\tname1 := overloadFuncName(name.Name, idx)", New: "\t\t\t\t\tname1 := overloadFuncName(name.Name, len(onames)+1)", Expect: "candidate/FuncLit:declared-at-own-index"},
			{Name: "ident-entry-dropped-in-class", File: f, Old: "\t\t\t\t\tif d.IsClass {\n\t\t\t\t\t\tonames = append(onames, \".\"+expr.Name)\n\t\t\t\t\t} else {", New: "\t\t\t\t\tif d.IsClass {\n\t\t\t\t\t\tif expr.IsExported() {\n\t\t\t\t\t\t\tonames = append(onames, \".\"+expr.Name)\n\t\t\t\t\t\t}\n\t\t\t\t\t} else {", Expect: "candidate/Ident:one-entry"},
			{Name: "index-alphabet-differs", File: f, Old: "\tindexTable = \"0123456789abcdefghijklmnopqrstuvwxyz\"", New: "\tindexTable = \"123456789abcdefghijklmnopqrstuvwxyz0\"", Expect: "naming/index-alphabet"},
			{Name: "table-joined-with-semicolon", File: f, Old: "\t\t\t\toval := strings.Join(onames, \",\")", New: "\t\t\t\toval := strings.Join(onames, \";\")", Expect: "table/joined"},
			{Name: "candidate-queued-only-if-known", File: f, Old: "\t\t\t\t\t\tonames = append(onames, expr.Name)\n\t\t\t\t\t\tctx.lbinames = append(ctx.lbinames, expr.Name)", New: "\t\t\t\t\t\tonames = append(onames, expr.Name)\n\t\t\t\t\t\tif _, known := syms[expr.Name]; known {\n\t\t\t\t\t\t\tctx.lbinames = append(ctx.lbinames, expr.Name)\n\t\t\t\t\t\t}", Expect: "candidate/Ident:queued-for-loading"},
			{Name: "separator-ignores-receiver", File: f, Old: "\tif strings.ContainsRune(name, '_') || (recv != nil && strings.ContainsRune(recv.Name, '_')) {\n\t\tsep = \"__\"\n\t}\n\ttyp := \"\"", New: "\tif strings.ContainsRune(name, '_') {\n\t\tsep = \"__\"\n\t}\n\ttyp := \"\"", Expect: "naming/separator"},
			{Name: "selector-entry-without-dot", File: f, Old: "\t\t\t\t\tonames = append(onames, \".\"+expr.Sel.Name)", New: "\t\t\t\t\tonames = append(onames, expr.Sel.Name)", Expect: "candidate/SelectorExpr:entry"},
		},
	})
}

func runC10(c *core.Check) {
	prog := c.Load("./cl", "github.com/goplus/gogen")
	pk, gk := prog.Pkg("./cl"), prog.Pkg("github.com/goplus/gogen")
	if pk == nil || gk == nil {
		c.Bad("anchor", "packages", 0, "cl or gogen not loaded")
		return
	}
	info := pk.TypesInfo
	c.Trust("golang.org/x/tools@v0.29.0 go/cfg", "the source of github.com/goplus/gogen (the version required by go.mod) as the reader of the overload table")
	pf := prog.FuncDecl("./cl", "preloadFile")
	if pf == nil {
		c.Bad("anchor", "cl.preloadFile", 0, "not found")
		return
	}
	var loop *ast.RangeStmt
	ast.Inspect(pf.Body, func(n ast.Node) bool {
		if rs, ok := n.(*ast.RangeStmt); ok && nows(core.ExprStr(rs.X)) == "d.Funcs" {
			loop = rs
		}
		return true
	})
	if loop == nil || loop.Key == nil {
		c.Bad("candidate", "loop", pf.Pos(), "the forward `for idx, fn := range d.Funcs` loop was not found")
		return
	}
	idxObj := identObj(info, loop.Key)
	var ts *ast.TypeSwitchStmt
	for _, st := range loop.Body.List {
		if t, ok := st.(*ast.TypeSwitchStmt); ok {
			ts = t
		}
	}
	if ts == nil {
		c.Bad("candidate", "loop", loop.Pos(), "the loop body is not a type switch over the candidate")
		return
	}
	c.Ok("candidate", "loop", loop.Pos(), "forward range over d.Funcs with its index")
	wantEntry := map[string][]string{
		"Ident":        {`"."+expr.Name`, `expr.Name`},
		"SelectorExpr": {`"."+expr.Sel.Name`},
		"FuncLit":      {`""`},
	}
	for _, s := range ts.Body.List {
		cc := s.(*ast.CaseClause)
		if len(cc.List) != 1 {
			// default: must bail out
			bails := strings.Contains(nodeText(&ast.BlockStmt{List: cc.Body}), "handleErrorf(")
			c.Decide(bails, "candidate", "default:rejected", cc.Pos(), "other candidate kinds are rejected with an error", "a candidate of another kind is skipped silently: the table positions shift")
			continue
		}
		kind := strings.TrimPrefix(core.ExprStr(cc.List[0]), "*ast.")
		body := &ast.BlockStmt{List: cc.Body}
		const (
			bOne flow.State = 1 << iota
			bTwo
			bBail
		)
		var entries []string
		p := &flow.Problem{Body: body, Info: info}
		p.Node = func(n ast.Node, st flow.State, record bool) flow.State {
			if as, ok := n.(*ast.AssignStmt); ok && len(as.Lhs) == 1 && len(as.Rhs) == 1 && core.ExprStr(as.Lhs[0]) == "onames" {
				if call, ok := as.Rhs[0].(*ast.CallExpr); ok && len(call.Args) == 2 && core.ExprStr(call.Fun) == "append" {
					if record {
						entries = append(entries, nows(core.ExprStr(call.Args[1])))
					}
					if st&bOne != 0 {
						st |= bTwo
					}
					st |= bOne
				}
			}
			// an arm that rejects the candidate reports an error and leaves the loop (`break LoopFunc`, which go/cfg
			// does not keep as a node): the error report marks the bail-out path
			if es, ok := n.(*ast.ExprStmt); ok {
				if call, ok := es.X.(*ast.CallExpr); ok {
					if fn, ok := calleeObj(info, call).(*types.Func); ok && fn.Name() == "handleErrorf" {
						st |= bBail
					}
				}
			}
			return st
		}
		res := flow.Solve(p)
		ok := len(res.Exits) > 0
		for _, e := range res.Exits {
			if e.State&bBail != 0 {
				continue
			}
			if e.State&bOne == 0 || e.State&bTwo != 0 {
				ok = false
			}
		}
		// go/cfg treats `break LoopFunc` as leaving the body: such paths have no exit inside the arm; paths that fall off the arm must have appended once
		c.Decide(ok, "candidate", kind+":one-entry", cc.Pos(), "exactly one table entry on every path that accepts the candidate", "the "+kind+" arm does not append exactly one entry to the candidate table on every accepting path: from that candidate on, table position i no longer names candidate i and calls dispatch to the wrong function")
		good := len(entries) > 0
		for _, e := range entries {
			found := false
			for _, w := range wantEntry[kind] {
				if e == nows(w) {
					found = true
				}
			}
			if !found {
				good = false
			}
		}
		c.Decide(good, "candidate", kind+":entry", cc.Pos(), "entry is "+strings.Join(wantEntry[kind], " / "), "the table entry of a "+kind+" candidate is "+strings.Join(entries, " / ")+", not "+strings.Join(wantEntry[kind], " / ")+": gogen resolves that position to another (or no) function")
		if kind == "FuncLit" {
			txt := nows(nodeText(body))
			okIdx := false
			ast.Inspect(body, func(n ast.Node) bool {
				if call, ok := n.(*ast.CallExpr); ok {
					if fn, ok := calleeObj(info, call).(*types.Func); ok && fn.Name() == "overloadFuncName" && len(call.Args) == 2 {
						okIdx = nows(core.ExprStr(call.Args[0])) == "name.Name" && identObj(info, call.Args[1]) == idxObj
					}
				}
				return true
			})
			decl := false
			ast.Inspect(body, func(n ast.Node) bool {
				if cl, ok := n.(*ast.CompositeLit); ok {
					if nt := namedOf(info.TypeOf(cl)); nt != nil && nt.Obj().Name() == "FuncDecl" {
						m := map[string]string{}
						for _, el := range cl.Elts {
							if kv, ok := el.(*ast.KeyValueExpr); ok {
								m[core.ExprStr(kv.Key)] = nows(core.ExprStr(kv.Value))
							}
						}
						decl = m["Name"] == "id" && m["Type"] == "expr.Type" && m["Body"] == "expr.Body"
					}
				}
				return true
			})
			_ = txt
			c.Decide(okIdx && decl, "candidate", "FuncLit:declared-at-own-index", cc.Pos(), "declared as overloadFuncName(name.Name, idx) with its own type and body", "a function-literal candidate is not declared under overloadFuncName(name, idx) with the loop's own index (and its own Type/Body): the default name gogen derives for table position idx refers to another literal")
		}
	}
	// (2b) a named candidate is queued for loading before the table is initialised, wherever it is declared: the Ident arm
	// appends its name to ctx.lbinames on every accepting non-class path, unconditionally (initGopPkg loads the queued
	// names before gogen.InitThisGopPkgEx reads the table; a candidate that is not in scope then is silently dropped)
	for _, s2 := range ts.Body.List {
		cc := s2.(*ast.CaseClause)
		if len(cc.List) != 1 || core.ExprStr(cc.List[0]) != "*ast.Ident" {
			continue
		}
		queued := false
		ast.Inspect(&ast.BlockStmt{List: cc.Body}, func(n ast.Node) bool {
			is, ok := n.(*ast.IfStmt)
			if !ok || nows(core.ExprStr(is.Cond)) != "d.IsClass" || is.Else == nil {
				return true
			}
			el, ok := is.Else.(*ast.BlockStmt)
			if !ok {
				return true
			}
			for _, st := range el.List { // top level of the non-class branch: no further condition
				if nows(stmtStr(st)) == "ctx.lbinames=append(ctx.lbinames,expr.Name)" {
					queued = true
				}
			}
			return true
		})
		c.Decide(queued, "candidate", "Ident:queued-for-loading", cc.Pos(), "a named candidate is appended to ctx.lbinames unconditionally", "a named function candidate is no longer queued for loading (ctx.lbinames) on every accepting path: a candidate declared after the overload declaration (or in a later file) is not in scope when gogen reads the table and is silently dropped — calls dispatch to another candidate or fail to compile")
	}
	// (2c) the table constant's name: `Gopo_<name>` / `Gopo_<T>_<name>`, with the separator doubled as soon as the
	// function name OR the receiver's type name contains an underscore (gogen splits the name at the separator)
	if on := core.FindFuncDecl(pk, "overloadName"); on != nil {
		okSep := false
		ast.Inspect(on.Body, func(n ast.Node) bool {
			is, ok := n.(*ast.IfStmt)
			if !ok {
				return true
			}
			sets := false
			for _, st := range is.Body.List {
				if nows(stmtStr(st)) == `sep="__"` {
					sets = true
				}
			}
			if !sets {
				return true
			}
			cond := nows(core.ExprStr(is.Cond))
			if strings.Contains(cond, "strings.ContainsRune(name,'_')") && strings.Contains(cond, "strings.ContainsRune(recv.Name,'_')") && strings.Contains(cond, "||") {
				okSep = true
			}
			return true
		})
		c.Decide(okSep, "naming", "separator", on.Pos(), "the separator is doubled when the function name or the receiver's type name contains `_`", "cl.overloadName no longer doubles the separator when the function name OR the receiver's type name contains an underscore: for `func (my_foo).mul = (…)` the constant `Gopo_my_foo_mul` is split by gogen at the first `_` into type `my`, and the overload table is never built")
	} else {
		c.Bad("anchor", "cl.overloadName", 0, "not found")
	}

	// (3) the table constant
	txt := nows(nodeText(pf.Body))
	c.Decide(strings.Contains(txt, `oval:=strings.Join(onames,",");`), "table", "joined", pf.Pos(), "the table is strings.Join(onames, \",\")", "the overload table constant is no longer the comma-joined candidate list gogen splits")
	c.Decide(strings.Contains(txt, "oname,err:=overloadName(recv,name.Name,d.Operator);"), "table", "named", pf.Pos(), "the constant is named by overloadName(recv, name.Name, d.Operator)", "the overload table constant is no longer named by overloadName(recv, name, operator)")
	// (4) naming convention agreement with gogen
	xt, _ := pk.Types.Scope().Lookup("indexTable").(*types.Const)
	gt, _ := gk.Types.Scope().Lookup("indexTable").(*types.Const)
	if xt == nil || gt == nil {
		c.Bad("naming", "index-alphabet", 0, "indexTable constant missing in cl or gogen")
	} else {
		c.Decide(constant.Compare(xt.Val(), token.EQL, gt.Val()), "naming", "index-alphabet", xt.Pos(), "cl.indexTable == gogen.indexTable", "cl numbers default candidate names with another alphabet than gogen reads them with: literal candidates are looked up under the wrong names")
	}
	if fn := core.FindFuncDecl(pk, "overloadFuncName"); fn != nil && len(fn.Body.List) == 1 {
		r, _ := fn.Body.List[0].(*ast.ReturnStmt)
		ok := r != nil && len(r.Results) == 1 && nows(core.ExprStr(r.Results[0])) == `name+"__"+indexTable[idx:idx+1]`
		// the reader side
		reader := false
		for _, f := range gk.Syntax {
			ast.Inspect(f, func(n ast.Node) bool {
				if be, ok := n.(*ast.BinaryExpr); ok && strings.HasSuffix(nows(core.ExprStr(be)), `+"__"+indexTable[i:i+1]`) {
					reader = true
				}
				return true
			})
		}
		c.Decide(ok && reader, "naming", "default-name", fn.Pos(), "name + \"__\" + indexTable[i:i+1] on both sides", "cl.overloadFuncName no longer builds name__<index digit> the way gogen's table reader does")
	} else {
		c.Bad("anchor", "cl.overloadFuncName", 0, "not found or not a single return")
	}
}
