package props

import (
	"go/ast"
	"go/token"
	"go/types"
	"strings"

	"verif/checker/internal/core"
	"verif/checker/internal/flow"
)

func init() {
	e := "cl/expr.go"
	s := "cl/stmt.go"
	register(&Prop{
		ID:        "C02",
		Title:     "XGo collection sugar evaluates like its documented Go expansion",
		Technique: "loop-direction, exactly-once and block-balance path analysis (go/cfg) of the routines that lower comprehensions, for-in statements, slice literals and the append form of the send statement, plus per-kind decision tables for what the innermost statement emits",
		Explanation: "Decides the structural necessary conditions of 'the sugar evaluates like the documented explicit loops', in the routines that build those loops: " +
			"(1) cl.compileComprehensionExpr walks v.Fors from the last phrase to the first (the last for-phrase becomes the outermost loop), and in each iteration lowers the container exactly once and the filter (init; cond) exactly once and only when present; every loop/if block it opens is counted once in `end`, and exactly `end` blocks are closed afterwards; " +
			"(2) the innermost statement per kind: list → `_gop_ret = append(_gop_ret, elt)` with the element lowered once; map → `_gop_ret[key] = value` with key before value; select → `return elt[, true]`; exists → `return true`; " +
			"(3) cl.compileForPhraseStmt lowers the container once and the filter once on the path where it is present, body inside the filter; " +
			"(4) `a <- v1, v2…` on a slice is lowered to `a = append(a, v1, v2…)` with every value lowered once in source order, the operand count len(vals)+1 and the ellipsis flag taken from the statement; on anything else it is a channel send of exactly one value; " +
			"(5) cl.compileSliceLit lowers every element once in source order and passes their number.",
		NotCovered: "the loops gogen emits for ForRange/If/End, typing of list/map literals, and command-style calls (their argument lowering is ordinary call lowering).",
		Run:        runC02,
		Controls: []Control{
			{Name: "fors-forward", File: e, Old: "\tfor i := len(v.Fors) - 1; i >= 0; i-- {", New: "\tfor i := 0; i < len(v.Fors); i++ {", Expect: "nesting/compileComprehensionExpr"},
			{Name: "filter-not-counted", File: e, Old: "\t\t\tcompileExpr(ctx, forStmt.Cond)\n\t\t\tcb.Then()\n\t\t\tend++\n", New: "\t\t\tcompileExpr(ctx, forStmt.Cond)\n\t\t\tcb.Then()\n", Expect: "block-balance/compileComprehensionExpr"},
			{Name: "map-value-before-key", File: e, Old: "\t\tcompileExpr(ctx, kv.Key)\n\t\tcb.IndexRef(1)\n\t\tcompileExpr(ctx, kv.Value)", New: "\t\tcompileExpr(ctx, kv.Value)\n\t\tcb.IndexRef(1)\n\t\tcompileExpr(ctx, kv.Key)", Expect: "innermost/compileComprehensionExpr:map"},
			{Name: "container-lowered-twice", File: e, Old: "\t\tcb.ForRange(names...)\n\t\tcompileExpr(ctx, forStmt.X)\n\t\tcb.RangeAssignThen(forStmt.TokPos)", New: "\t\tcompileExpr(ctx, forStmt.X)\n\t\tcb.InternalStack().Pop()\n\t\tcb.ForRange(names...)\n\t\tcompileExpr(ctx, forStmt.X)\n\t\tcb.RangeAssignThen(forStmt.TokPos)", Expect: "once/compileComprehensionExpr:container"},
			{Name: "append-arity", File: s, Old: "\t\t\tcb.CallWith(len(vals)+1, flags, expr).AssignWith(1, 1, expr)", New: "\t\t\tcb.CallWith(len(vals), flags, expr).AssignWith(1, 1, expr)", Expect: "append/compileSendStmt:arity"},
			{Name: "append-drops-ellipsis", File: s, Old: "\t\t\tif expr.Ellipsis != 0 { // a = append(a, b...)\n\t\t\t\tflags |= gogen.InstrFlagEllipsis\n\t\t\t}\n", New: "", Expect: "append/compileSendStmt:ellipsis"},
			{Name: "forin-filter-after-body", File: s, Old: "\t\tcb.If()\n\t\tcompileExpr(ctx, v.Cond)\n\t\tcb.Then()\n\t\tcompileStmts(ctx, v.Body.List)", New: "\t\tcompileStmts(ctx, v.Body.List)\n\t\tcb.If()\n\t\tcompileExpr(ctx, v.Cond)\n\t\tcb.Then()", Expect: "forin/compileForPhraseStmt:filter-guards-body"},
			{Name: "slicelit-count", File: e, Old: "\tn := len(v.Elts)\n\tfor _, elt := range v.Elts {", New: "\tn := len(v.Elts) - 1\n\tfor _, elt := range v.Elts {", Expect: "slicelit/compileSliceLit:count"},
		},
	})
}

func runC02(c *core.Check) {
	prog := c.Load("./cl")
	pk := prog.Pkg("./cl")
	if pk == nil {
		return
	}
	info := pk.TypesInfo
	c.Trust("golang.org/x/tools@v0.29.0 go/cfg", "gogen's CodeBuilder emits what its method names say (ForRange/RangeAssignThen/If/Then/End/Return/CallWith)")
	// field coverage of the collection-sugar node kinds
	c.Analysed("lower_field_kinds", lowerFieldsFor(c, map[string]bool{"ComprehensionExpr": true, "SliceLit": true, "MatrixLit": true, "ForPhraseStmt": true, "SendStmt": true}, c02FieldDerived))
	compileExpr := pk.Types.Scope().Lookup("compileExpr")
	isCompile := func(call *ast.CallExpr, field string, root types.Object) bool {
		return calleeObj(info, call) == compileExpr && len(call.Args) >= 2 && isFieldOf(info, call.Args[1], root, field)
	}
	method := func(call *ast.CallExpr) string {
		if sel, ok := call.Fun.(*ast.SelectorExpr); ok {
			return sel.Sel.Name
		}
		return ""
	}

	// ---------- (1) comprehension
	if fd := prog.FuncDecl("./cl", "compileComprehensionExpr"); fd != nil {
		node := paramObj(fd, info, 1)
		var loop *ast.ForStmt
		var closer *ast.ForStmt
		for _, st := range fd.Body.List {
			if fs, ok := st.(*ast.ForStmt); ok {
				if loop == nil {
					loop = fs
				} else {
					closer = fs
				}
			}
		}
		if loop == nil || closer == nil {
			c.Bad("nesting", "compileComprehensionExpr", fd.Pos(), "the loop over v.Fors and the loop closing the opened blocks are not both present")
		} else {
			initS, condS, postS := nows(stmtStr(loop.Init)), nows(core.ExprStr(loop.Cond)), ""
			if id, ok := loop.Post.(*ast.IncDecStmt); ok {
				postS = core.ExprStr(id.X) + id.Tok.String()
			}
			reverse := initS == "i:=len(v.Fors)-1" && condS == "i>=0" && postS == "i--"
			c.Decide(reverse, "nesting", "compileComprehensionExpr", loop.Pos(), "v.Fors is walked from the last phrase to the first", "compileComprehensionExpr walks v.Fors as `"+initS+"; "+condS+"; "+postS+"`, not from the last phrase down to the first: the first for-phrase becomes the outermost loop, so the enumeration order of multi-phrase comprehensions changes")
			// the phrase variable
			var phrase types.Object
			ast.Inspect(loop.Body, func(n ast.Node) bool {
				if as, ok := n.(*ast.AssignStmt); ok && len(as.Lhs) == 1 && len(as.Rhs) == 1 && nows(core.ExprStr(as.Rhs[0])) == "v.Fors[i]" {
					phrase = identObj(info, as.Lhs[0])
				}
				return true
			})
			if phrase == nil {
				c.Undecided("once", "compileComprehensionExpr", loop.Pos(), "cannot find `forStmt := v.Fors[i]`")
			} else {
				const (
					bX flow.State = 1 << iota
					bX2
					bCond
					bCond2
					bHasCond
					bNoCond
					bOpen1 // blocks opened: 2-bit saturating counter
					bOpen2
					bEnd1 // end++ executed: 2-bit counter
					bEnd2
				)
				inc := func(st flow.State, lo, hi flow.State) flow.State {
					switch {
					case st&lo == 0 && st&hi == 0:
						return st | lo
					case st&lo != 0 && st&hi == 0:
						return (st &^ lo) | hi
					default:
						return st | lo | hi
					}
				}
				cnt := func(st flow.State, lo, hi flow.State) int {
					n := 0
					if st&lo != 0 {
						n++
					}
					if st&hi != 0 {
						n += 2
					}
					return n
				}
				p := &flow.Problem{Body: loop.Body, Info: info}
				p.Node = func(n ast.Node, st flow.State, record bool) flow.State {
					if id, ok := n.(*ast.IncDecStmt); ok && id.Tok == token.INC && core.ExprStr(id.X) == "end" {
						return inc(st, bEnd1, bEnd2)
					}
					for _, call := range flow.Calls(n) {
						switch {
						case isCompile(call, "X", phrase):
							if st&bX != 0 {
								st |= bX2
							}
							st |= bX
						case isCompile(call, "Cond", phrase):
							if st&bCond != 0 {
								st |= bCond2
							}
							st |= bCond
						case method(call) == "ForRange" || method(call) == "If":
							st = inc(st, bOpen1, bOpen2)
						}
					}
					return st
				}
				p.Edge = func(cond ast.Expr, truth bool, st flow.State) (flow.State, bool) {
					if x, nonNil, ok := flow.NilTest(cond); ok && isFieldOf(info, x, phrase, "Cond") {
						if nonNil == truth {
							return st | bHasCond, true
						}
						return st | bNoCond, true
					}
					return st, true
				}
				res := flow.Solve(p)
				okX, okCond, okBal := len(res.Exits) > 0, true, true
				for _, ex := range res.Exits {
					st := ex.State
					if st&bX == 0 || st&bX2 != 0 {
						okX = false
					}
					if st&bCond2 != 0 || (st&bHasCond != 0) != (st&bCond != 0) {
						okCond = false
					}
					if cnt(st, bOpen1, bOpen2) != cnt(st, bEnd1, bEnd2) {
						okBal = false
					}
				}
				c.Decide(okX, "once", "compileComprehensionExpr:container", loop.Pos(), "each phrase's container is lowered exactly once", "a for-phrase's container expression is not lowered exactly once per phrase: it is evaluated twice (side effects repeated) or not at all")
				c.Decide(okCond, "once", "compileComprehensionExpr:filter", loop.Pos(), "the filter is lowered exactly once, and only when present", "a for-phrase's filter is lowered more than once, or lowered when absent / skipped when present")
				// closer: for i := 0; i < end; i++ { cb.End() }
				closes := nows(stmtStr(closer.Init)) == "i:=0" && nows(core.ExprStr(closer.Cond)) == "i<end" && len(closer.Body.List) == 1 && nows(stmtStr(closer.Body.List[0])) == "cb.End()"
				c.Decide(okBal && closes, "block-balance", "compileComprehensionExpr", loop.Pos(), "every opened loop/if block is counted once in `end` and exactly `end` blocks are closed", "the number of blocks opened per phrase (ForRange, If) differs from the number counted in `end` on some path, or the closing loop does not close exactly `end` blocks: statements after the comprehension end up inside (or outside) the generated loops")
			}
		}
		// ---------- (2) innermost statement per kind
		var sw *ast.SwitchStmt
		for _, st := range fd.Body.List {
			if s2, ok := st.(*ast.SwitchStmt); ok && core.ExprStr(s2.Tag) == "kind" {
				sw = s2
			}
		}
		if sw == nil {
			c.Bad("innermost", "compileComprehensionExpr", fd.Pos(), "no `switch kind` selecting the innermost statement")
		} else {
			for _, s2 := range sw.Body.List {
				cc := s2.(*ast.CaseClause)
				label := "select"
				if len(cc.List) == 1 {
					label = strings.TrimPrefix(core.ExprStr(cc.List[0]), "comprehension")
					label = strings.ToLower(label)
				}
				txt := nows(nodeText(&ast.BlockStmt{List: cc.Body}))
				switch label {
				case "list":
					ok := strings.Contains(txt, `Ref("append")`) && strings.Count(txt, "compileExpr(ctx,v.Elt)") == 1 && strings.Contains(txt, "Call(2).Assign(1)") && strings.Index(txt, "cb.VarRef(ret)") < strings.Index(txt, "cb.Val(ret)") && strings.Index(txt, "cb.Val(ret)") < strings.Index(txt, "compileExpr(ctx,v.Elt)")
					c.Decide(ok, "innermost", "compileComprehensionExpr:list", cc.Pos(), "_gop_ret = append(_gop_ret, elt)", "the list comprehension's innermost statement is no longer `_gop_ret = append(_gop_ret, elt)` with the element lowered once after the accumulator")
				case "map":
					ki, vi := strings.Index(txt, "compileExpr(ctx,kv.Key)"), strings.Index(txt, "compileExpr(ctx,kv.Value)")
					ok := ki >= 0 && vi > ki && strings.Contains(txt[ki:vi], "IndexRef(1)") && strings.Contains(txt[vi:], "Assign(1)")
					c.Decide(ok, "innermost", "compileComprehensionExpr:map", cc.Pos(), "_gop_ret[key] = value, key lowered before value", "the map comprehension's innermost statement is no longer `_gop_ret[key] = value` with the key lowered before the value")
				default:
					ok := strings.Contains(txt, "cb.Val(true)") && strings.Contains(txt, "cb.Return(1)") && strings.Count(txt, "compileExpr(ctx,v.Elt)") == 1 && strings.Contains(txt, "cb.Return(n)")
					c.Decide(ok, "innermost", "compileComprehensionExpr:select", cc.Pos(), "exists → return true; select → return elt[, true]", "the select/exists comprehension no longer returns `true` (exists) / the element lowered once, with `true` as second value when two values are requested (select)")
				}
			}
		}
		_ = node
	} else {
		c.Bad("anchor", "cl.compileComprehensionExpr", 0, "not found")
	}

	// ---------- (3) for-in statement
	if fd := prog.FuncDecl("./cl", "compileForPhraseStmt"); fd != nil {
		node := paramObj(fd, info, 1)
		compileStmts := pk.Types.Scope().Lookup("compileStmts")
		const (
			bX flow.State = 1 << iota
			bX2
			bCond
			bCond2
			bHasCond
			bNoCond
			bBody
			bBodyBeforeCond
			bDelegated
		)
		p := &flow.Problem{Body: fd.Body, Info: info}
		p.Node = func(n ast.Node, st flow.State, record bool) flow.State {
			for _, call := range flow.Calls(n) {
				switch {
				case isCompile(call, "X", node):
					if st&bX != 0 {
						st |= bX2
					}
					st |= bX
				case isCompile(call, "Cond", node):
					if st&bCond != 0 {
						st |= bCond2
					}
					st |= bCond
				case calleeObj(info, call) == compileStmts:
					st |= bBody
					if st&bHasCond != 0 && st&bCond == 0 {
						st |= bBodyBeforeCond
					}
				default:
					if fn, ok := calleeObj(info, call).(*types.Func); ok && fn.Name() == "toForStmt" {
						st |= bDelegated
					}
				}
			}
			return st
		}
		p.Edge = func(cond ast.Expr, truth bool, st flow.State) (flow.State, bool) {
			if x, nonNil, ok := flow.NilTest(cond); ok && isFieldOf(info, x, node, "Cond") {
				if nonNil == truth {
					return st | bHasCond, true
				}
				return st | bNoCond, true
			}
			return st, true
		}
		res := flow.Solve(p)
		okX, okCond, okBody := len(res.Exits) > 0, true, true
		for _, ex := range res.Exits {
			st := ex.State
			if st&bDelegated != 0 {
				continue // range expressions: rewritten by toForStmt (C04)
			}
			if st&bX == 0 || st&bX2 != 0 {
				okX = false
			}
			if st&bCond2 != 0 || (st&bHasCond != 0) != (st&bCond != 0) {
				okCond = false
			}
			if st&bBody == 0 || st&bBodyBeforeCond != 0 {
				okBody = false
			}
		}
		c.Decide(okX, "forin", "compileForPhraseStmt:container", fd.Pos(), "the container is lowered exactly once", "the for-in statement's container is not lowered exactly once")
		c.Decide(okCond, "forin", "compileForPhraseStmt:filter", fd.Pos(), "the filter is lowered once, only when present", "the for-in statement's filter is lowered twice, or when absent, or skipped when present")
		c.Decide(okBody, "forin", "compileForPhraseStmt:filter-guards-body", fd.Pos(), "the body is lowered after the filter, inside it", "the for-in statement's body is lowered before its filter (or not at all): the filter no longer guards the body")
	} else {
		c.Bad("anchor", "cl.compileForPhraseStmt", 0, "not found")
	}

	// ---------- (3b) for-in over a range expression: bounds evaluated once (rule shared with C04)
	rangeBoundsOnce(c, prog)

	// ---------- (4) append form of the send statement
	if fd := prog.FuncDecl("./cl", "compileSendStmt"); fd != nil {
		txt := nows(nodeText(fd.Body))
		arity := strings.Contains(txt, "cb.CallWith(len(vals)+1,flags,expr).AssignWith(1,1,expr)")
		c.Decide(arity, "append", "compileSendStmt:arity", fd.Pos(), "append is called with len(vals)+1 operands and assigned back", "`a <- v1, v2…` no longer calls append with the slice plus every value (len(vals)+1 operands) and assigns the result back to a")
		ell := strings.Contains(txt, "ifexpr.Ellipsis!=0;flags|=gogen.InstrFlagEllipsis") || strings.Contains(txt, "ifexpr.Ellipsis!=0;flags|=gogen.InstrFlagEllipsis;")
		c.Decide(ell, "append", "compileSendStmt:ellipsis", fd.Pos(), "`a <- b...` passes the ellipsis flag", "`a <- b...` no longer passes the ellipsis flag to append: the slice b is appended as a single element (a type error or a different value)")
		// values lowered once each, in order: `for _, v := range vals { compileExpr(ctx, v) }`
		loopOK := false
		ast.Inspect(fd.Body, func(n ast.Node) bool {
			if rs, ok := n.(*ast.RangeStmt); ok && core.ExprStr(rs.X) == "vals" && len(rs.Body.List) == 1 {
				if es, ok := rs.Body.List[0].(*ast.ExprStmt); ok {
					if call, ok := es.X.(*ast.CallExpr); ok && calleeObj(info, call) == compileExpr && len(call.Args) >= 2 && identObj(info, call.Args[1]) == identObj(info, rs.Value) {
						loopOK = true
					}
				}
			}
			return true
		})
		c.Decide(loopOK, "append", "compileSendStmt:values", fd.Pos(), "every value is lowered once, in source order", "the values of `a <- v1, v2…` are no longer lowered by one forward loop, each exactly once")
		single := strings.Contains(txt, "iflen(vals)!=1||expr.Ellipsis!=0;panic(")
		c.Decide(single, "append", "compileSendStmt:channel", fd.Pos(), "a channel send takes exactly one value", "a send on a non-slice no longer requires exactly one value")
	} else {
		c.Bad("anchor", "cl.compileSendStmt", 0, "not found")
	}

	// ---------- (5) slice literal
	if fd := prog.FuncDecl("./cl", "compileSliceLit"); fd != nil {
		txt := nows(nodeText(fd.Body))
		cnt := strings.Contains(txt, "n:=len(v.Elts);") && strings.Count(txt, "SliceLitEx(") == 2 && strings.Contains(txt, "SliceLitEx(typ,n,false,v)") && strings.Contains(txt, "SliceLitEx(nil,n,false,v)")
		c.Decide(cnt, "slicelit", "compileSliceLit:count", fd.Pos(), "SliceLitEx receives n = len(v.Elts)", "the slice literal is no longer built from exactly len(v.Elts) operands")
		loopOK := false
		ast.Inspect(fd.Body, func(n ast.Node) bool {
			if rs, ok := n.(*ast.RangeStmt); ok && nows(core.ExprStr(rs.X)) == "v.Elts" && len(rs.Body.List) == 1 {
				if es, ok := rs.Body.List[0].(*ast.ExprStmt); ok {
					if call, ok := es.X.(*ast.CallExpr); ok && calleeObj(info, call) == compileExpr && len(call.Args) >= 2 && identObj(info, call.Args[1]) == identObj(info, rs.Value) {
						loopOK = true
					}
				}
			}
			return true
		})
		c.Decide(loopOK, "slicelit", "compileSliceLit:elements", fd.Pos(), "every element is lowered once, in source order", "the elements of a slice literal are no longer lowered by one forward loop, each exactly once")
	} else {
		c.Bad("anchor", "cl.compileSliceLit", 0, "not found")
	}
}

// c02FieldDerived: fields of the collection-sugar nodes the compiler deliberately does not read.
var c02FieldDerived = map[string]string{}
