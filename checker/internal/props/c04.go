package props

import (
	"go/ast"
	"go/constant"
	"go/token"
	"go/types"
	"sort"
	"strings"

	"golang.org/x/tools/go/packages"

	"verif/checker/internal/core"
)

func init() {
	s := "cl/stmt.go"
	register(&Prop{
		ID:        "C04",
		Title:     "A range expression denotes the same integer sequence in every context",
		Technique: "table agreement between the two sibling lowerings of a range expression: the for-statement rewriting cl.toForStmt (read off its composite literals) and the runtime range object github.com/qiniu/x/xgo.IntRange built by cl.compileRangeExpr (read off the module source): defaults, argument order, step application and the step-sign cases each side distinguishes",
		Explanation: "Decides the table-shaped necessary conditions of 'start:end:step enumerates the same sequence as a loop and as a comprehension': " +
			"(1) both lowerings substitute the literal 0 for an omitted start and the literal 1 for an omitted step; (2) compileRangeExpr pushes First, Last, Expr3 in that order and calls the builtin bound to xgo.NewRange__0(start, end, step), whose constructor stores them in Start, End, Step; " +
			"(3) toForStmt initialises the loop variable with the start, steps it with `+=` the step, and compares it with the end, and the runtime iterator starts at Start and adds Step; " +
			"(4) direction: the runtime range distinguishes the sign of the step (its element count is computed by a different formula for step > 0 and step <= 0, so descending ranges enumerate); the loop lowering must distinguish the same cases — a single fixed comparison operator makes every descending range empty in loop context.",
		NotCovered: "the arithmetic itself (overflow, the exact element count for steps that do not divide the span — the runtime formula and the loop condition are not evaluated), and step == 0.",
		Run:        runC04,
		Controls: []Control{
			{Name: "loop-default-start-one", File: s, Old: "first = &ast.BasicLit{ValuePos: forPos, Kind: token.INT, Value: \"0\"}", New: "first = &ast.BasicLit{ValuePos: forPos, Kind: token.INT, Value: \"1\"}", Expect: "default/toForStmt:start"},
			{Name: "range-default-step-zero", File: "cl/expr.go", Old: "\tif v.Expr3 == nil {\n\t\tctx.cb.Val(1, v)", New: "\tif v.Expr3 == nil {\n\t\tctx.cb.Val(0, v)", Expect: "default/compileRangeExpr:step"},
			{Name: "range-args-swapped", File: "cl/expr.go", Old: "\tcompileExpr(ctx, v.Last)\n\tif v.Expr3 == nil {\n\t\tctx.cb.Val(1, v)\n\t} else {\n\t\tcompileExpr(ctx, v.Expr3)\n\t}\n\tcb.Call(3)", New: "\tif v.Expr3 == nil {\n\t\tctx.cb.Val(1, v)\n\t} else {\n\t\tcompileExpr(ctx, v.Expr3)\n\t}\n\tcompileExpr(ctx, v.Last)\n\tcb.Call(3)", Expect: "arg-order/compileRangeExpr"},
			{Name: "loop-inclusive-end", File: s, Old: "\t\t\tOp:    token.LSS,\n\t\t\tY:     cond,", New: "\t\t\tOp:    token.LEQ,\n\t\t\tY:     cond,", Expect: "loop-shape/toForStmt:cond"},
			{Name: "loop-step-subtracts", File: s, Old: "\t\t\tTok:    token.ADD_ASSIGN,\n\t\t\tRhs:    []ast.Expr{post},", New: "\t\t\tTok:    token.SUB_ASSIGN,\n\t\t\tRhs:    []ast.Expr{post},", Expect: "loop-shape/toForStmt:post"},
		},
	})
}

func runC04(c *core.Check) {
	prog := c.Load("./cl", "github.com/qiniu/x/xgo")
	pk, rk := prog.Pkg("./cl"), prog.Pkg("github.com/qiniu/x/xgo")
	if pk == nil || rk == nil {
		c.Bad("anchor", "packages", 0, "cl or github.com/qiniu/x/xgo not loaded")
		return
	}
	info := pk.TypesInfo
	c.Trust("the source of github.com/qiniu/x (the version required by go.mod) in the module cache as the runtime range implementation")
	c.Analysed("lower_field_kinds", lowerFieldsFor(c, map[string]bool{"RangeExpr": true, "ForPhraseStmt": true}, c04FieldDerived))
	tfs := prog.FuncDecl("./cl", "toForStmt")
	cre := prog.FuncDecl("./cl", "compileRangeExpr")
	if tfs == nil || cre == nil {
		c.Bad("anchor", "cl.toForStmt/compileRangeExpr", 0, "not found")
		return
	}

	// ---------- (1) defaults
	// toForStmt: `if X == nil { v = &ast.BasicLit{… Value: "k"} }`
	defaultsLoop := map[string]string{} // field tested -> literal
	ast.Inspect(tfs.Body, func(n ast.Node) bool {
		is, ok := n.(*ast.IfStmt)
		if !ok {
			return true
		}
		fld := nilTestedField(is.Cond)
		if fld == "" {
			return true
		}
		for _, st := range is.Body.List {
			if as, ok := st.(*ast.AssignStmt); ok && len(as.Rhs) == 1 {
				if lit := basicLitValue(info, as.Rhs[0]); lit != "" {
					defaultsLoop[fld] = lit
				}
			}
		}
		return true
	})
	c.Decide(defaultsLoop["First"] == "0", "default", "toForStmt:start", tfs.Pos(), "omitted start → 0", "toForStmt substitutes `"+defaultsLoop["First"]+"` for an omitted start (expected the literal 0): `:n` in a for loop starts elsewhere than in a comprehension")
	c.Decide(defaultsLoop["Expr3"] == "1", "default", "toForStmt:step", tfs.Pos(), "omitted step → 1", "toForStmt substitutes `"+defaultsLoop["Expr3"]+"` for an omitted step (expected the literal 1)")
	// compileRangeExpr: `if v.X == nil { cb.Val(k, v) }`
	defaultsRt := map[string]string{}
	var pushOrder []string
	ast.Inspect(cre.Body, func(n ast.Node) bool {
		switch x := n.(type) {
		case *ast.IfStmt:
			fld := nilTestedField(x.Cond)
			if fld == "" {
				return true
			}
			for _, st := range x.Body.List {
				if es, ok := st.(*ast.ExprStmt); ok {
					if call, ok := es.X.(*ast.CallExpr); ok && len(call.Args) >= 1 {
						if sel, ok := call.Fun.(*ast.SelectorExpr); ok && sel.Sel.Name == "Val" {
							if tv := info.Types[call.Args[0]]; tv.Value != nil {
								defaultsRt[fld] = tv.Value.ExactString()
							}
						}
					}
				}
			}
		case *ast.CallExpr:
			if fn, ok := calleeObj(info, x).(*types.Func); ok && fn.Name() == "compileExpr" && len(x.Args) >= 2 {
				if sel, ok := x.Args[1].(*ast.SelectorExpr); ok {
					pushOrder = append(pushOrder, sel.Sel.Name)
				}
			}
		}
		return true
	})
	c.Decide(defaultsRt["First"] == "0", "default", "compileRangeExpr:start", cre.Pos(), "omitted start → 0", "compileRangeExpr pushes `"+defaultsRt["First"]+"` for an omitted start (expected 0)")
	c.Decide(defaultsRt["Expr3"] == "1", "default", "compileRangeExpr:step", cre.Pos(), "omitted step → 1", "compileRangeExpr pushes `"+defaultsRt["Expr3"]+"` for an omitted step (expected 1)")

	// ---------- (2) argument order and the constructor
	c.Decide(strings.Join(pushOrder, ",") == "First,Last,Expr3", "arg-order", "compileRangeExpr", cre.Pos(), "First, Last, Expr3", "compileRangeExpr pushes the operands in the order "+strings.Join(pushOrder, ", ")+" — NewRange__0(start, end, step) receives them in another role")
	// the builtin newRange is bound to NewRange__0
	bound := false
	for _, f := range pk.Syntax {
		ast.Inspect(f, func(n ast.Node) bool {
			if call, ok := n.(*ast.CallExpr); ok && len(call.Args) == 4 {
				if s1, ok := stringConst(info, call.Args[2]); ok && s1 == "newRange" {
					if inner, ok := call.Args[3].(*ast.CallExpr); ok && len(inner.Args) == 1 {
						if s2, ok := stringConst(info, inner.Args[0]); ok && s2 == "NewRange__0" {
							bound = true
						}
					}
				}
			}
			return true
		})
	}
	c.Decide(bound, "arg-order", "builtin:newRange", 0, "newRange is bound to xgo.NewRange__0", "the builtin `newRange` is no longer bound to github.com/qiniu/x/xgo.NewRange__0")
	ctor := core.FindFuncDecl(rk, "NewRange__0")
	if ctor == nil {
		c.Bad("anchor", "xgo.NewRange__0", 0, "not found in the runtime module")
		return
	}
	ctorOK := false
	ast.Inspect(ctor.Body, func(n ast.Node) bool {
		if cl, ok := n.(*ast.CompositeLit); ok {
			m := map[string]string{}
			for _, el := range cl.Elts {
				if kv, ok := el.(*ast.KeyValueExpr); ok {
					m[core.ExprStr(kv.Key)] = core.ExprStr(kv.Value)
				}
			}
			var params []string
			for _, f := range ctor.Type.Params.List {
				for _, nme := range f.Names {
					params = append(params, nme.Name)
				}
			}
			if len(params) == 3 && m["Start"] == params[0] && m["End"] == params[1] && m["Step"] == params[2] {
				ctorOK = true
			}
		}
		return true
	})
	c.Decide(ctorOK, "arg-order", "xgo.NewRange__0", ctor.Pos(), "stores its parameters in Start, End, Step in that order", "xgo.NewRange__0 no longer stores (start, end, step) in (Start, End, Step)")

	// ---------- (3) loop shape: init/cond/post of the ForStmt literal
	var forLit *ast.CompositeLit
	ast.Inspect(tfs.Body, func(n ast.Node) bool {
		if cl, ok := n.(*ast.CompositeLit); ok {
			if nt := namedOf(info.TypeOf(cl)); nt != nil && nt.Obj().Name() == "ForStmt" {
				forLit = cl
			}
		}
		return true
	})
	if forLit == nil {
		c.Undecided("loop-shape", "toForStmt", tfs.Pos(), "no ast.ForStmt literal")
		return
	}
	fields := map[string]ast.Expr{}
	for _, el := range forLit.Elts {
		if kv, ok := el.(*ast.KeyValueExpr); ok {
			fields[core.ExprStr(kv.Key)] = kv.Value
		}
	}
	litField := func(e ast.Expr, name string) ast.Expr {
		if u, ok := e.(*ast.UnaryExpr); ok {
			e = u.X
		}
		cl, ok := e.(*ast.CompositeLit)
		if !ok {
			return nil
		}
		for _, el := range cl.Elts {
			if kv, ok := el.(*ast.KeyValueExpr); ok && core.ExprStr(kv.Key) == name {
				return kv.Value
			}
		}
		return nil
	}
	condOp := constName(info, litField(fields["Cond"], "Op"))
	postTok := constName(info, litField(fields["Post"], "Tok"))
	c.Decide(condOp == "LSS" || condOp == "GTR" || condOp == "", "loop-shape", "toForStmt:cond", forLit.Pos(), "exclusive comparison with the end ("+condOp+")", "the loop condition compares with "+condOp+": the end bound becomes inclusive in loop context while the runtime range excludes it")
	c.Decide(postTok == "ADD_ASSIGN", "loop-shape", "toForStmt:post", forLit.Pos(), "value += step", "the loop post statement uses "+postTok+" instead of += : the loop steps differently from the runtime iterator (val += step)")
	// runtime iterator: val += step
	rtAdds := false
	if nx := core.FindFuncDecl(rk, "intRangeIter.Next"); nx != nil {
		ast.Inspect(nx.Body, func(n ast.Node) bool {
			if as, ok := n.(*ast.AssignStmt); ok && as.Tok == token.ADD_ASSIGN && strings.HasSuffix(core.ExprStr(as.Lhs[0]), ".val") && strings.HasSuffix(core.ExprStr(as.Rhs[0]), ".step") {
				rtAdds = true
			}
			return true
		})
	}
	c.Decide(rtAdds, "loop-shape", "xgo.intRangeIter.Next", 0, "val += step", "the runtime iterator no longer advances by val += step")

	// ---------- (3b) bounds are evaluated once
	rangeBoundsOnce(c, prog)

	// ---------- (4) direction
	rtCases := 0
	if en := core.FindFuncDecl(rk, "IntRange.Gop_Enum"); en != nil {
		ast.Inspect(en.Body, func(n ast.Node) bool {
			if is, ok := n.(*ast.IfStmt); ok {
				if be, ok := is.Cond.(*ast.BinaryExpr); ok && (be.Op == token.GTR || be.Op == token.LSS || be.Op == token.GEQ || be.Op == token.LEQ) && strings.Contains(strings.ToLower(core.ExprStr(be.X)), "step") {
					if tv := rk.TypesInfo.Types[be.Y]; tv.Value != nil && constant.Sign(tv.Value) == 0 {
						rtCases = 2
					}
				}
			}
			return true
		})
	} else {
		c.Bad("anchor", "xgo.IntRange.Gop_Enum", 0, "not found")
	}
	// the loop side: how many different comparison operators can the Cond get, and does it look at the step?
	ops := map[string]bool{}
	ast.Inspect(tfs.Body, func(n ast.Node) bool {
		if kv, ok := n.(*ast.KeyValueExpr); ok && core.ExprStr(kv.Key) == "Op" {
			if k := constName(info, kv.Value); k != "" {
				ops[k] = true
			}
		}
		return true
	})
	var opl []string
	for k := range ops {
		opl = append(opl, k)
	}
	sort.Strings(opl)
	loopCases := 1
	if ops["LSS"] && ops["GTR"] {
		loopCases = 2
	}
	c.Analysed("runtime_step_sign_cases", rtCases)
	c.Analysed("loop_comparison_operators", opl)
	// the construct is keyed by the operators found, so that a known finding about one state of the code does not mask another
	dirKey := "toForStmt:" + strings.Join(opl, "+")
	if len(opl) == 0 {
		dirKey = "toForStmt:computed"
	}
	c.Decide(rtCases <= loopCases, "range-direction", dirKey, forLit.Pos(), "the loop lowering distinguishes the same step-sign cases as the runtime range",
		"the runtime range (xgo.IntRange.Gop_Enum) computes its length differently for step > 0 and step <= 0, so `10:0:-3` enumerates 10 7 4 1 in a comprehension; cl.toForStmt always emits the condition `i "+strings.Join(opl, "/")+" end`, so the same range in `for i <- 10:0:-3` (and `for i := range 10:0:-3`) enumerates nothing")
}

func nilTestedField(cond ast.Expr) string {
	be, ok := ast.Unparen(cond).(*ast.BinaryExpr)
	if !ok || be.Op != token.EQL {
		return ""
	}
	if id, ok := be.Y.(*ast.Ident); !ok || id.Name != "nil" {
		return ""
	}
	switch x := be.X.(type) {
	case *ast.SelectorExpr:
		return x.Sel.Name
	case *ast.Ident:
		// `first := re.First; if first == nil`
		switch x.Name {
		case "first":
			return "First"
		}
	}
	return ""
}

func basicLitValue(info *types.Info, e ast.Expr) string {
	if u, ok := e.(*ast.UnaryExpr); ok {
		e = u.X
	}
	cl, ok := e.(*ast.CompositeLit)
	if !ok {
		return ""
	}
	if nt := namedOf(info.TypeOf(cl)); nt == nil || nt.Obj().Name() != "BasicLit" {
		return ""
	}
	for _, el := range cl.Elts {
		if kv, ok := el.(*ast.KeyValueExpr); ok && core.ExprStr(kv.Key) == "Value" {
			if s, ok := stringConst(info, kv.Value); ok {
				return s
			}
		}
	}
	return ""
}

func stringConst(info *types.Info, e ast.Expr) (string, bool) {
	if tv := info.Types[e]; tv.Value != nil && tv.Value.Kind() == constant.String {
		return constant.StringVal(tv.Value), true
	}
	return "", false
}

func constName(info *types.Info, e ast.Expr) string {
	if e == nil {
		return ""
	}
	if k := constOf(info, e); k != nil {
		return k.Name()
	}
	return ""
}

var _ = packages.NeedName

// rangeBoundsOnce (shared by C02 and C04): the runtime range object receives start, end and step once; the loop lowering
// must likewise evaluate end and step once — only a literal may be used in the loop header as it is, everything else has
// to be copied into _gop_end / _gop_step in the init statement (an identifier can be assigned to in the loop body).
func rangeBoundsOnce(c *core.Check, prog *core.Prog) {
	pk := prog.Pkg("./cl")
	if pk == nil {
		return
	}
	tfs := prog.FuncDecl("./cl", "toForStmt")
	if tfs == nil {
		c.Bad("anchor", "cl.toForStmt", 0, "not found")
		return
	}
	info := pk.TypesInfo
	for _, fld := range []string{"Last", "Expr3"} {
		var direct []string
		found := false
		ast.Inspect(tfs.Body, func(n ast.Node) bool {
			ts, ok := n.(*ast.TypeSwitchStmt)
			if !ok {
				return true
			}
			subj := typeSwitchSubject(ts)
			if subj == nil || nows(core.ExprStr(subj)) != "re."+fld {
				return true
			}
			found = true
			for _, s := range ts.Body.List {
				cc := s.(*ast.CaseClause)
				// an arm that uses the expression as it is: assigns re.<fld> to cond/post
				usesDirect := false
				// (anywhere in the arm, also under an `if`; the bound may be spelled re.<fld> or be the switch's own variable)
				bound := info.Implicits[cc]
				ast.Inspect(&ast.BlockStmt{List: cc.Body}, func(m ast.Node) bool {
					if as, ok := m.(*ast.AssignStmt); ok {
						for _, r := range as.Rhs {
							r = ast.Unparen(r)
							if nows(core.ExprStr(r)) == "re."+fld || (bound != nil && identObj(info, r) == bound) {
								usesDirect = true
							}
						}
					}
					return true
				})
				if usesDirect {
					for _, e := range cc.List {
						if nt := namedOf(info.TypeOf(e)); nt != nil {
							direct = append(direct, nt.Obj().Name())
						}
					}
					if cc.List == nil {
						direct = append(direct, "default")
					}
				}
			}
			return true
		})
		key := "toForStmt:" + fld
		if !found {
			c.Bad("bounds-once", key, tfs.Pos(), "toForStmt no longer decides by a type switch over re."+fld+" whether the bound needs a temporary: every form other than a literal must be evaluated once, before the loop")
			continue
		}
		bad := ""
		for _, d := range direct {
			if d != "BasicLit" {
				bad = d
			}
		}
		c.Decide(bad == "", "bounds-once", key, tfs.Pos(), "only a literal is used in the loop header as it is", "toForStmt uses a "+bad+" range bound (re."+fld+") directly in the loop header, so it is re-evaluated on every iteration: when the body changes it (`for i <- 0:n { n-- }`, `for i <- :len(a) { a <- i }`) the loop enumerates another sequence than the same range in a comprehension, which evaluates its bounds once")
	}
}

func stmtOrExprStr(s ast.Stmt) string {
	switch x := s.(type) {
	case *ast.ExprStmt:
		return core.ExprStr(x.X)
	case *ast.AssignStmt:
		if len(x.Rhs) == 1 {
			return core.ExprStr(x.Rhs[0])
		}
	}
	return ""
}

// c04FieldDerived: fields of RangeExpr / ForPhraseStmt the compiler deliberately does not read.
var c04FieldDerived = map[string]string{}
