package props

import (
	"go/ast"
	"go/token"
	"go/types"
	"strings"

	"verif/checker/internal/core"
)

func init() {
	f := "ast/import.go"
	register(&Prop{
		ID:        "C23",
		Title:     "Import sorting keeps the import set",
		Technique: "write-set, accessor-exactness, removal-only-through-collapse and comparator-key rules over ast/import.go, plus the sort-trigger rule of format.Node/Source, on the type-checked AST",
		Explanation: "Decides for every import block that (1) SortImports/sortSpecs store only into position fields (token.Pos), GenDecl.Specs and locals — never into Ident.Name, BasicLit.Value or an ImportSpec's Name/Path pointers, so a name and its path stay together and no text changes; " +
			"(2) the accessors are exact (importName is \"\" only for a nil Name and otherwise Name.Name; importPath is the unquoted Path.Value); (3) a spec is dropped from a run only where collapse(s, next) holds, and collapse returns true only behind equal-path AND equal-name comparisons and prev.Comment == nil (exact duplicates); " +
			"(4) the result of sortSpecs is built only from elements of its input, the runs handed to it tile d.Specs; (5) the comparator's primary key is importPath (then importName) in the less/compare direction; " +
			"(6) format.Source sorts complete files unconditionally and format.Node sorts whenever a parenthesised import declaration exists (hasUnsortedImports returns only the constant true from inside its scan).",
		NotCovered: "comment re-attachment after sorting, and the line-based definition of a 'contiguous group' (lineAt arithmetic).",
		Run:        runC23,
		Controls: []Control{
			{Name: "name-equal-base-is-unnamed", File: f, Old: "\tif n == nil {\n\t\treturn \"\"\n\t}\n\treturn n.Name", New: "\tif n == nil || n.Name == importPath(s) {\n\t\treturn \"\"\n\t}\n\treturn n.Name", Expect: "accessor/importName"},
			{Name: "collapse-ignores-name", File: f, Old: "if importPath(next) != importPath(prev) || importName(next) != importName(prev) {", New: "if importPath(next) != importPath(prev) {", Expect: "collapse/equal-name"},
			{Name: "collapse-ignores-comment", File: f, Old: "\treturn prev.(*ImportSpec).Comment == nil", New: "\treturn true", Expect: "collapse/comment-nil"},
			{Name: "dedupe-without-collapse", File: f, Old: "if i == len(specs)-1 || !collapse(s, specs[i+1]) {", New: "if i == len(specs)-1 || importPath(s) != importPath(specs[i+1]) {", Expect: "dedupe/only-through-collapse"},
			{Name: "swap-paths-not-specs", File: f, Old: "\t\ts.Path.ValuePos = pos[i].Start\n", New: "\t\ts.Path.ValuePos = pos[i].Start\n\t\tif i > 0 {\n\t\t\ts.Path.Value = specs[i-1].(*ImportSpec).Path.Value\n\t\t}\n", Expect: "write-set/sortSpecs:BasicLit.Value"},
			{Name: "sort-by-name-first", File: f, Old: "\t\tipath := importPath(specs[i])\n\t\tjpath := importPath(specs[j])", New: "\t\tipath := importName(specs[i])\n\t\tjpath := importName(specs[j])", Expect: "comparator/primary-key"},
			{Name: "sort-descending", File: f, Old: "\t\t\treturn ipath < jpath", New: "\t\t\treturn ipath > jpath", Expect: "comparator/primary-key"},
			{Name: "run-gap", File: f, Old: "\t\t\t\ti = j\n", New: "\t\t\t\ti = j + 1\n", Expect: "runs/tile"},
			{Name: "node-skips-sort", File: "format/format.go", Old: "\t\t\t// For now assume all grouped imports are unsorted.\n\t\t\t// TODO(gri) Should check if they are sorted already.\n\t\t\treturn true", New: "\t\t\treturn len(d.Specs) > 1", Expect: "sort-trigger/hasUnsortedImports"},
			{Name: "source-skips-sort", File: "format/format.go", Old: "\t\tast.SortImports(fset, file)\n\t}\n\n\treturn format(", New: "\t}\n\n\treturn format(", Expect: "sort-trigger/Source"},
		},
	})
}

func runC23(c *core.Check) {
	prog := c.Load("./ast", "./format")
	pk := prog.Pkg("./ast")
	fpk := prog.Pkg("./format")
	if pk == nil || fpk == nil {
		return
	}
	info := pk.TypesInfo
	sortImports := prog.FuncDecl("./ast", "SortImports")
	sortSpecs := prog.FuncDecl("./ast", "sortSpecs")
	collapse := prog.FuncDecl("./ast", "collapse")
	impName := prog.FuncDecl("./ast", "importName")
	impPath := prog.FuncDecl("./ast", "importPath")
	if sortImports == nil || sortSpecs == nil || collapse == nil || impName == nil || impPath == nil {
		return
	}
	scope := pk.Types.Scope()
	impNameObj, impPathObj, collapseObj, sortSpecsObj := scope.Lookup("importName"), scope.Lookup("importPath"), scope.Lookup("collapse"), scope.Lookup("sortSpecs")
	importSpec := prog.NamedType("./ast", "ImportSpec")
	genDecl := prog.NamedType("./ast", "GenDecl")
	if importSpec == nil || genDecl == nil {
		return
	}
	fName, fPath, fComment := fieldVar(importSpec, "Name"), fieldVar(importSpec, "Path"), fieldVar(importSpec, "Comment")
	fSpecs := fieldVar(genDecl, "Specs")
	selField := func(e ast.Expr) *types.Var {
		sel, ok := ast.Unparen(e).(*ast.SelectorExpr)
		if !ok {
			return nil
		}
		if s := info.Selections[sel]; s != nil {
			v, _ := s.Obj().(*types.Var)
			return v
		}
		return nil
	}

	// ---------- (1) write set
	c.Floor("write-set", 4)
	for _, fd := range []*ast.FuncDecl{sortImports, sortSpecs} {
		name := core.FuncName(fd)
		ast.Inspect(fd.Body, func(n ast.Node) bool {
			var lhs []ast.Expr
			switch s := n.(type) {
			case *ast.AssignStmt:
				lhs = s.Lhs
			case *ast.IncDecStmt:
				lhs = []ast.Expr{s.X}
			}
			for _, l := range lhs {
				v := selField(l)
				if v == nil {
					continue // local, index of local slice/map
				}
				owner := "?"
				if sel, ok := ast.Unparen(l).(*ast.SelectorExpr); ok {
					if nt := namedOf(info.TypeOf(sel.X)); nt != nil {
						owner = nt.Obj().Name()
					}
				}
				key := name + ":" + owner + "." + v.Name()
				isPos := false
				if nt, ok := types.Unalias(v.Type()).(*types.Named); ok && nt.Obj().Name() == "Pos" && nt.Obj().Pkg() != nil && strings.HasSuffix(nt.Obj().Pkg().Path(), "token") {
					isPos = true
				}
				if isPos || v == fSpecs {
					c.Ok("write-set", key, l.Pos(), "position field or GenDecl.Specs")
				} else {
					c.Bad("write-set", key, l.Pos(), "import sorting stores into a field that is neither a position nor GenDecl.Specs: an import's name/path text or pairing can change")
				}
			}
			return true
		})
	}

	// ---------- (2) accessors
	{
		// importName: n := s.(*ImportSpec).Name; returns "" only under n == nil, else n.Name
		var nVar types.Object
		ast.Inspect(impName.Body, func(n ast.Node) bool {
			if as, ok := n.(*ast.AssignStmt); ok && len(as.Lhs) == 1 && len(as.Rhs) == 1 && selField(as.Rhs[0]) == fName {
				nVar = identObj(info, as.Lhs[0])
			}
			return true
		})
		good := nVar != nil
		var bad token.Pos = impName.Pos()
		par := parentMap(impName)
		ast.Inspect(impName.Body, func(n ast.Node) bool {
			r, ok := n.(*ast.ReturnStmt)
			if !ok || len(r.Results) != 1 {
				return true
			}
			e := ast.Unparen(r.Results[0])
			if lit, ok := e.(*ast.BasicLit); ok && lit.Value == `""` {
				// must be directly inside `if n == nil { … }`
				okGuard := false
				if blk, ok := par[r].(*ast.BlockStmt); ok {
					if ifs, ok := par[blk].(*ast.IfStmt); ok && ifs.Body == blk {
						cs := strings.ReplaceAll(core.ExprStr(ifs.Cond), " ", "")
						if nVar != nil && cs == nVar.Name()+"==nil" {
							okGuard = true
						}
					}
				}
				if !okGuard {
					good, bad = false, r.Pos()
				}
				return true
			}
			if sel, ok := e.(*ast.SelectorExpr); ok && sel.Sel.Name == "Name" && identObj(info, sel.X) == nVar && nVar != nil {
				return true
			}
			good, bad = false, r.Pos()
			return true
		})
		c.Decide(good, "accessor", "importName", bad, "\"\" exactly when Name == nil, otherwise Name.Name", "importName does not return \"\" exactly for a nil Name and Name.Name otherwise: two imports with different local names (or a named and an unnamed one) can be judged duplicates and one is removed")
		// importPath: strconv.Unquote(s.(*ImportSpec).Path.Value)
		uses := false
		ast.Inspect(impPath.Body, func(n ast.Node) bool {
			if call, ok := n.(*ast.CallExpr); ok && pkgFuncName(info, call) == "strconv.Unquote" && len(call.Args) == 1 {
				if sel, ok := ast.Unparen(call.Args[0]).(*ast.SelectorExpr); ok && sel.Sel.Name == "Value" && selField(sel.X) == fPath {
					uses = true
				}
			}
			return true
		})
		nret, okret := 0, true
		ast.Inspect(impPath.Body, func(n ast.Node) bool {
			if r, ok := n.(*ast.ReturnStmt); ok && len(r.Results) == 1 {
				nret++
				e := ast.Unparen(r.Results[0])
				if lit, ok := e.(*ast.BasicLit); ok && lit.Value == `""` {
					return true
				}
				if _, ok := e.(*ast.Ident); ok {
					return true
				}
				okret = false
			}
			return true
		})
		c.Decide(uses && okret && nret == 2, "accessor", "importPath", impPath.Pos(), "the unquoted Path.Value (\"\" if malformed)", "importPath is not simply strconv.Unquote(Path.Value): distinct paths can compare equal (specs wrongly merged) or sort wrongly")
	}

	// ---------- (3) collapse
	{
		prev, next := paramObj(collapse, info, 0), paramObj(collapse, info, 1)
		// find `if A != B || C != D { return false }` as the first statement
		pathCmp, nameCmp := false, false
		var firstIf *ast.IfStmt
		if len(collapse.Body.List) >= 1 {
			firstIf, _ = collapse.Body.List[0].(*ast.IfStmt)
		}
		if firstIf != nil && len(firstIf.Body.List) == 1 {
			if r, ok := firstIf.Body.List[0].(*ast.ReturnStmt); ok && len(r.Results) == 1 && core.ExprStr(r.Results[0]) == "false" {
				var visit func(e ast.Expr)
				visit = func(e ast.Expr) {
					be, ok := ast.Unparen(e).(*ast.BinaryExpr)
					if !ok {
						return
					}
					if be.Op == token.LOR {
						visit(be.X)
						visit(be.Y)
						return
					}
					if be.Op != token.NEQ {
						return
					}
					cx, ok1 := ast.Unparen(be.X).(*ast.CallExpr)
					cy, ok2 := ast.Unparen(be.Y).(*ast.CallExpr)
					if !ok1 || !ok2 || len(cx.Args) != 1 || len(cy.Args) != 1 {
						return
					}
					ax, ay := identObj(info, cx.Args[0]), identObj(info, cy.Args[0])
					both := (ax == prev && ay == next) || (ax == next && ay == prev)
					if !both {
						return
					}
					if calleeObj(info, cx) == impPathObj && calleeObj(info, cy) == impPathObj {
						pathCmp = true
					}
					if calleeObj(info, cx) == impNameObj && calleeObj(info, cy) == impNameObj {
						nameCmp = true
					}
				}
				visit(firstIf.Cond)
			}
		}
		c.Decide(pathCmp, "collapse", "equal-path", collapse.Pos(), "", "collapse can return true for specs whose import paths differ")
		c.Decide(nameCmp, "collapse", "equal-name", collapse.Pos(), "", "collapse can return true for specs whose local names differ: `a \"p\"` and `b \"p\"` (or `\"p\"`) are merged and an identifier becomes undefined")
		// remaining returns: only `prev.(*ImportSpec).Comment == nil`
		commentOK := true
		nOther := 0
		for _, s := range collapse.Body.List[1:] {
			r, ok := s.(*ast.ReturnStmt)
			if !ok || len(r.Results) != 1 {
				commentOK = false
				continue
			}
			nOther++
			be, ok := ast.Unparen(r.Results[0]).(*ast.BinaryExpr)
			if !ok || be.Op != token.EQL || core.ExprStr(be.Y) != "nil" || selField(be.X) != fComment {
				commentOK = false
				continue
			}
			// the comment tested must be prev's
			found := false
			ast.Inspect(be.X, func(n ast.Node) bool {
				if id, ok := n.(*ast.Ident); ok && info.Uses[id] == prev {
					found = true
				}
				return true
			})
			if !found {
				commentOK = false
			}
		}
		c.Decide(firstIf != nil && commentOK && nOther == 1, "collapse", "comment-nil", collapse.Pos(), "true only when the removed spec carries no comment", "collapse can return true although the spec to be removed carries a comment (data loss), or has other true-returns")
	}

	// ---------- (3b)(4) dedupe loop and result origin in sortSpecs
	{
		specsParam := paramObj(sortSpecs, info, 2)
		var deduped types.Object
		ast.Inspect(sortSpecs.Body, func(n ast.Node) bool {
			if as, ok := n.(*ast.AssignStmt); ok && len(as.Lhs) == 1 && len(as.Rhs) == 1 {
				if se, ok := ast.Unparen(as.Rhs[0]).(*ast.SliceExpr); ok && identObj(info, se.X) == specsParam && se.Low == nil && se.High != nil && core.ExprStr(se.High) == "0" {
					deduped = identObj(info, as.Lhs[0])
				}
			}
			return true
		})
		dedupeOK, originOK := false, deduped != nil
		var loopPos token.Pos = sortSpecs.Pos()
		ast.Inspect(sortSpecs.Body, func(n ast.Node) bool {
			r, ok := n.(*ast.RangeStmt)
			if !ok || identObj(info, r.X) != specsParam || len(r.Body.List) != 1 {
				return true
			}
			ifs, ok := r.Body.List[0].(*ast.IfStmt)
			if !ok {
				return true
			}
			key, val := identObj(info, r.Key), identObj(info, r.Value)
			// then-branch appends val to deduped
			appends := false
			for _, s := range ifs.Body.List {
				if as, ok := s.(*ast.AssignStmt); ok && len(as.Lhs) == 1 && identObj(info, as.Lhs[0]) == deduped && deduped != nil {
					if call, ok := ast.Unparen(as.Rhs[0]).(*ast.CallExpr); ok && len(call.Args) == 2 && identObj(info, call.Args[0]) == deduped && identObj(info, call.Args[1]) == val {
						appends = true
					}
				}
			}
			if !appends {
				return true
			}
			loopPos = r.Pos()
			// cond: i == len(specs)-1 || !collapse(s, specs[i+1])
			be, ok := ast.Unparen(ifs.Cond).(*ast.BinaryExpr)
			if !ok || be.Op != token.LOR {
				return true
			}
			lastOK := strings.ReplaceAll(core.ExprStr(be.X), " ", "") == key.Name()+"==len("+specsParam.Name()+")-1"
			colOK := false
			if u, ok := ast.Unparen(be.Y).(*ast.UnaryExpr); ok && u.Op == token.NOT {
				if call, ok := ast.Unparen(u.X).(*ast.CallExpr); ok && calleeObj(info, call) == collapseObj && len(call.Args) == 2 && identObj(info, call.Args[0]) == val {
					if strings.ReplaceAll(core.ExprStr(call.Args[1]), " ", "") == specsParam.Name()+"["+key.Name()+"+1]" {
						colOK = true
					}
				}
			}
			// the else branch must not append anything
			elseClean := true
			if ifs.Else != nil {
				ast.Inspect(ifs.Else, func(m ast.Node) bool {
					if as, ok := m.(*ast.AssignStmt); ok {
						for _, l := range as.Lhs {
							if identObj(info, l) == deduped {
								elseClean = false
							}
						}
					}
					return true
				})
			}
			dedupeOK = lastOK && colOK && elseClean
			return true
		})
		c.Decide(dedupeOK, "dedupe", "only-through-collapse", loopPos, "a spec is skipped exactly when it is not the last and collapse(s, next) holds", "the dedupe loop can skip a spec without collapse(s, specs[i+1]) being true (or no longer keeps the last one): an import that is not an exact duplicate is removed")
		// assignments to the specs parameter and to deduped
		ast.Inspect(sortSpecs.Body, func(n ast.Node) bool {
			as, ok := n.(*ast.AssignStmt)
			if !ok {
				return true
			}
			for i, l := range as.Lhs {
				o := identObj(info, l)
				if o == specsParam && specsParam != nil {
					if i >= len(as.Rhs) || identObj(info, as.Rhs[i]) != deduped {
						originOK = false
					}
				}
				if _, isIdx := ast.Unparen(l).(*ast.IndexExpr); isIdx {
					if ix := ast.Unparen(l).(*ast.IndexExpr); identObj(info, ix.X) == specsParam || identObj(info, ix.X) == deduped {
						originOK = false // element overwritten
					}
				}
			}
			return true
		})
		retOK := false
		ast.Inspect(sortSpecs.Body, func(n ast.Node) bool {
			if _, isLit := n.(*ast.FuncLit); isLit {
				return false // the comparators' returns are not sortSpecs' result
			}
			if r, ok := n.(*ast.ReturnStmt); ok && len(r.Results) == 1 {
				retOK = identObj(info, r.Results[0]) == specsParam
				if !retOK {
					originOK = false
				}
			}
			return true
		})
		c.Decide(originOK && retOK, "origin", "sortSpecs-result", sortSpecs.Pos(), "the result is the input slice reordered/deduplicated: no element is created or overwritten", "sortSpecs' result is not built solely from elements of its input slice: an import can be added or replaced")
	}

	// ---------- (5) comparator
	{
		good := false
		var pos token.Pos = sortSpecs.Pos()
		ast.Inspect(sortSpecs.Body, func(n ast.Node) bool {
			call, ok := n.(*ast.CallExpr)
			if !ok || len(call.Args) != 2 {
				return true
			}
			name := pkgFuncName(info, call)
			if name != "sort.Slice" && name != "sort.SliceStable" && name != "slices.SortFunc" && name != "slices.SortStableFunc" {
				return true
			}
			if t := info.TypeOf(call.Args[0]); t == nil || !strings.HasSuffix(t.String(), "Spec") {
				return true
			}
			fl, ok := ast.Unparen(call.Args[1]).(*ast.FuncLit)
			if !ok {
				return true
			}
			pos = fl.Pos()
			var pi, pj types.Object
			k := 0
			for _, f := range fl.Type.Params.List {
				for _, nm := range f.Names {
					if k == 0 {
						pi = info.Defs[nm]
					} else if k == 1 {
						pj = info.Defs[nm]
					}
					k++
				}
			}
			ldefs := defsOf(info, fl.Body)
			// which parameter does a variable's importPath(...) argument mention?
			keyOf := func(e ast.Expr, fn types.Object) types.Object {
				o := identObj(info, e)
				var src ast.Expr = e
				if o != nil && len(ldefs[o]) == 1 {
					src = ldefs[o][0]
				}
				c2, ok := ast.Unparen(src).(*ast.CallExpr)
				if !ok || calleeObj(info, c2) != fn || len(c2.Args) != 1 {
					return nil
				}
				var who types.Object
				ast.Inspect(c2.Args[0], func(m ast.Node) bool {
					if id, ok := m.(*ast.Ident); ok {
						if u := info.Uses[id]; u == pi || u == pj {
							who = u
						}
					}
					return true
				})
				return who
			}
			// first return that compares: must be path(i) < path(j)
			var firstRet *ast.ReturnStmt
			ast.Inspect(fl.Body, func(m ast.Node) bool {
				if r, ok := m.(*ast.ReturnStmt); ok && firstRet == nil {
					firstRet = r
				}
				return true
			})
			if firstRet != nil && len(firstRet.Results) == 1 {
				switch e := ast.Unparen(firstRet.Results[0]).(type) {
				case *ast.BinaryExpr:
					if e.Op == token.LSS && keyOf(e.X, impPathObj) == pi && keyOf(e.Y, impPathObj) == pj && pi != nil {
						good = true
					}
					if e.Op == token.GTR && keyOf(e.X, impPathObj) == pj && keyOf(e.Y, impPathObj) == pi && pi != nil {
						good = true
					}
				case *ast.Ident: // r := cmp.Compare(ipath, jpath); if r != 0 { return r }
					if o := info.Uses[e]; o != nil && len(ldefs[o]) >= 1 {
						if c3, ok := ast.Unparen(ldefs[o][0]).(*ast.CallExpr); ok && (pkgFuncName(info, c3) == "cmp.Compare" || pkgFuncName(info, c3) == "strings.Compare") && len(c3.Args) == 2 {
							if keyOf(c3.Args[0], impPathObj) == pi && keyOf(c3.Args[1], impPathObj) == pj && pi != nil {
								good = true
							}
						}
					}
				}
			}
			return true
		})
		c.Decide(good, "comparator", "primary-key", pos, "specs are ordered ascending by importPath first", "the comparator's first decision is not `importPath(a) < importPath(b)`: groups are not left sorted by path")
	}

	// ---------- (4b) runs tile d.Specs
	{
		var iVar types.Object
		good := true
		nAppend := 0
		var jVar types.Object
		ast.Inspect(sortImports.Body, func(n ast.Node) bool {
			if r, ok := n.(*ast.RangeStmt); ok && selField(r.X) == fSpecs {
				jVar = identObj(info, r.Key)
			}
			return true
		})
		ast.Inspect(sortImports.Body, func(n ast.Node) bool {
			call, ok := n.(*ast.CallExpr)
			if !ok || calleeObj(info, call) != sortSpecsObj || len(call.Args) != 3 {
				return true
			}
			nAppend++
			se, ok := ast.Unparen(call.Args[2]).(*ast.SliceExpr)
			if !ok || selField(se.X) != fSpecs || se.Low == nil {
				good = false
				return true
			}
			lo := identObj(info, se.Low)
			if iVar == nil {
				iVar = lo
			}
			if lo != iVar || lo == nil {
				good = false
			}
			if se.High != nil && identObj(info, se.High) != jVar {
				good = false
			}
			return true
		})
		// i is only ever set to 0 and to j
		if iVar != nil {
			ast.Inspect(sortImports.Body, func(n ast.Node) bool {
				if as, ok := n.(*ast.AssignStmt); ok {
					for k, l := range as.Lhs {
						if identObj(info, l) == iVar && k < len(as.Rhs) {
							rs := core.ExprStr(as.Rhs[k])
							if !(rs == "0" || (jVar != nil && identObj(info, as.Rhs[k]) == jVar)) {
								good = false
							}
						}
					}
				}
				return true
			})
		}
		c.Decide(good && nAppend == 2 && iVar != nil && jVar != nil, "runs", "tile", sortImports.Pos(), "runs d.Specs[i:j] … d.Specs[i:] with i advanced to j", "the runs handed to sortSpecs do not tile d.Specs (d.Specs[i:j] with i := j, then d.Specs[i:]): a spec is dropped or duplicated at a run boundary")
	}

	// ---------- (6) sort triggers in package format
	finfo := fpk.TypesInfo
	sortObj := scope.Lookup("SortImports")
	if hu := prog.FuncDecl("./format", "hasUnsortedImports"); hu != nil {
		good := true
		var bad token.Pos = hu.Pos()
		ast.Inspect(hu.Body, func(n ast.Node) bool {
			loop, ok := n.(*ast.RangeStmt)
			if !ok {
				return true
			}
			par := parentMap(loop)
			ast.Inspect(loop.Body, func(m ast.Node) bool {
				r, ok := m.(*ast.ReturnStmt)
				if !ok || len(r.Results) != 1 {
					return true
				}
				switch core.ExprStr(r.Results[0]) {
				case "true":
				case "false":
					// only under the "not an import declaration" guard
					okGuard := false
					if blk, ok := par[r].(*ast.BlockStmt); ok {
						if ifs, ok := par[blk].(*ast.IfStmt); ok && strings.Contains(core.ExprStr(ifs.Cond), "IMPORT") {
							okGuard = true
						}
					}
					if !okGuard {
						good, bad = false, r.Pos()
					}
				default:
					good, bad = false, r.Pos()
				}
				return true
			})
			return false
		})
		c.Decide(good, "sort-trigger", "hasUnsortedImports", bad, "inside its scan it only ever answers the constant true (or false at the first non-import declaration)",
			"hasUnsortedImports returns a computed value from inside its scan over the declarations: a later parenthesised import block is never examined, so format.Node leaves it unsorted / with duplicates")
	}
	for _, name := range []string{"Node", "Source"} {
		fd := prog.FuncDecl("./format", name)
		if fd == nil {
			continue
		}
		calls := false
		ast.Inspect(fd.Body, func(n ast.Node) bool {
			if call, ok := n.(*ast.CallExpr); ok && calleeObj(finfo, call) == sortObj {
				calls = true
			}
			return true
		})
		c.Decide(calls, "sort-trigger", name, fd.Pos(), "calls ast.SortImports", "format."+name+" no longer calls ast.SortImports: import groups of complete files are left unsorted")
	}
}
