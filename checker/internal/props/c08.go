package props

import (
	"go/ast"
	"go/constant"
	"go/token"
	"go/types"
	"sort"
	"strings"

	"golang.org/x/tools/go/packages"
	"golang.org/x/tools/go/ssa"

	"verif/checker/internal/core"
)

func init() {
	f := "cl/compile.go"
	register(&Prop{
		ID:        "C08",
		Title:     "Compilation output is deterministic",
		Technique: "census of every map-range loop in the compile path (cl, cl/outline, cl/internal/typesutil, x/build, tool, x/typesutil) with order-insensitivity recognisers over the loop body's effects, census of other nondeterminism sources (goroutines, clock, random, environment, %p, reflect map iteration), and an SSA/call-graph census of package-level state written from cl.NewPackage",
		Explanation: "Decides for every package and every run the structural necessary condition of determinism: no map iteration order, clock, random source, goroutine schedule or state left over from an earlier compilation can reach the generated code or the error list. " +
			"(1) every `range` over a map in the compile path is recognised as order-insensitive by one of: collect-then-sort (the body only appends to a slice that is sorted before its next use), commutative sink (the body only stores into maps under the iteration key / sets flags / counts, through pure expressions), singleton (the map is proved to have one entry by a preceding length test), or a reviewed table line whose argument is re-checked structurally (the set of functions the body may call, the shape `if cond { return }`); anything else is reported with the loop's position; " +
			"(2) the compile path contains no go statement, select, time/rand/os.Getenv/os.Getpid call, reflect map iteration or %p format; " +
			"(3) no function reachable from cl.NewPackage stores to a package-level variable (state that would make a second compilation in the same process differ from the first).",
		NotCovered: "determinism inside gogen and go/printer/go/types (other modules), and whether sorted orders are total (comparators are only checked to exist).",
		Run:        runC08,
		Controls: []Control{
			{Name: "files-unsorted", File: f, Old: "\tsort.Slice(sfiles, func(i, j int) bool {\n\t\treturn sfiles[i].path < sfiles[j].path\n\t})\n", New: "", Expect: "map-range/cl.NewPackage:files"},
			{Name: "syms-direct-load", File: f, Old: "\tsort.Strings(names)\n\tfor _, name := range names {", New: "\tfor name := range ctx.syms {", Expect: "map-range/cl.initGopPkg:ctx.syms"},
			{Name: "gofiles-map-order", File: f, Old: "\tfor _, fname := range gofnames {\n\t\tf := fromgo.ASTFile(pkg.GoFiles[fname], 0)", New: "\tfor fname := range pkg.GoFiles {\n\t\tf := fromgo.ASTFile(pkg.GoFiles[fname], 0)", Expect: "map-range/cl.NewPackage:pkg.GoFiles"},
			{Name: "projs-emit-in-loop", File: "cl/classfile.go", Old: "\t\tif v.game != nil {\n\t\t\tgmxProjMain(pkg, ctx, v)\n\t\t}", New: "\t\tif v.game != nil {\n\t\t\tgmxProjMain(pkg, ctx, v)\n\t\t\tgenMainFunc(pkg, v.gameClass_)\n\t\t}", Expect: "map-range/cl.gmxCheckProjs:ctx.projs"},
			{Name: "clock-in-output", File: f, Old: "\tif genMain { // make classfile main func if need", New: "\tif genMain && time.Now().Unix() > 0 { // make classfile main func if need", Old2: "import (\n", New2: "import (\n\t\"time\"\n", Expect: "nondeterminism/cl.NewPackage:time.Now"},
			{Name: "goroutine-load", File: f, Old: "\tfor _, load := range ctx.inits {\n\t\tload()\n\t}", New: "\tfor _, load := range ctx.inits {\n\t\tgo load()\n\t}", Expect: "nondeterminism/cl.NewPackage:go"},
			{Name: "global-counter", File: f, Old: "\terr = ctx.complete()\n", New: "\terr = ctx.complete()\n\tnewPackageCount++\n", Old2: "func isOverloadFunc(", New2: "var newPackageCount int\n\nfunc isOverloadFunc(", Expect: "global-state/cl.newPackageCount"},
			{Name: "params-cleared-in-place", File: f, Old: "\t\t\t\tt := *d.Type\n\t\t\t\tt.Params = &ast.FieldList{Opening: t.Params.Opening, Closing: t.Params.Closing}\n\t\t\t\tftyp = &t\n", New: "\t\t\t\td.Type.Params.List = nil\n", Expect: "ast-mutation/loadFunc:FieldList.List"},
			{Name: "entry-scan-reads-recv", File: "cl/classfile.go", Old: "\t\t\tif d.Name.Name == entry {", New: "\t\t\tif d.Name.Name == entry && d.Recv == nil {", Expect: "ast-mutation/astEmptyEntrypoint:guard"},
			{Name: "seen-always-inserted", File: "cl/stmt.go", Old: "\t\t\tif !haserr {\n\t\t\t\tseen[T] = citem\n\t\t\t}", New: "\t\t\tseen[T] = citem", Expect: "map-range/cl.compileTypeSwitchStmt:seen"},
		},
	})
}

// c08Scope: packages on the path from source files to generated Go (cl.NewPackage and the helpers that call it).
var c08Scope = []string{"./cl", "./cl/outline", "./cl/internal/typesutil", "./x/build", "./tool", "./x/typesutil", "./ast/fromgo", "./ast/togo"}

// c08Table: reviewed map-range loops that none of the generic recognisers accepts. Each line carries the
// argument and the structural facts that keep the argument true (re-checked on every run).
type c08Line struct {
	why     string
	callees []string // the only functions the loop body may call (resolved names); nil = no calls at all
	shape   string   // "", "if-return" (body is exactly `if cond { return … }`), "guarded-insert:<map>"
}

var c08Table = map[string]c08Line{
	"ast.Walk:n.Files": { // C20
		why:     "the *ast.Package case of Walk: format.Source/format.Node hand the printer a file or a node inside one — printer.printNode rejects any other node type, *ast.Package included (\"unsupported node type\") — so no walk on the formatting path starts at, or reaches, a package",
		callees: []string{"ast.Walk"},
	},
	"cl.gmxCheckProjs:ctx.projs": {
		why:     "per-project work only: the first-main/first-no-main choice is observable only when it is unique (NewPackage ignores the project's identity when `multi` is reported), and gmxProjMain registers loaders keyed by the project's own class name; what is emitted is decided later by the (sorted) load order",
		callees: []string{"cl.gmxProject.hasMain", "cl.gmxProjMain"},
	},
	"cl.pkgCtx.lookupClassNode:p.classes": {
		why:   "at most one class file has a given class-file name (files of one directory, the name is the file's base name without extension; two frameworks sharing a base name collide on the class type name and fail to compile); the result is only used as the source position of later errors",
		shape: "if-return",
	},
	"cl.compileTypeSwitchStmt:seen": {
		why:     "at most one key can be identical to T: a type is inserted into `seen` only when no identical key was found, so keys are pairwise non-identical and the loop reports at most one error whatever the order",
		callees: []string{"go/types.Identical", "cl.pkgCtx.handleErrorf", "cl.nodeInterp.Position", "go/ast.Pos"},
		shape:   "guarded-insert:seen",
	},
	"cl.goxRecorder.Complete:p.referDefs": {
		why:     "recorder callbacks only (types-info side tables keyed by node); nothing here reaches the code builder or the error list",
		callees: []string{"go/types.Lookup", "cl.goxRecorder.recordFuncLit", "cl.Recorder.Implicit", "cl.Recorder.Def", "cl.goxRecorder.Implicit", "cl.goxRecorder.Def", "go/types.Type", "go/types.NumMethods", "go/types.Method", "go/types.Name"},
	},
	"cl.goxRecorder.Complete:p.referUses": {
		why:     "recorder callbacks only (types-info side tables keyed by identifier); nothing here reaches the code builder or the error list",
		callees: []string{"strings.Index", "go/types.Lookup", "cl.goxRecorder.Use", "cl.Recorder.Use", "go/types.Type", "go/types.NumMethods", "go/types.Method", "go/types.Name"},
	},
}

// c08Pure: callees whose result depends only on their arguments and that have no side effect (allowed inside sink/collect loops).
var c08Pure = map[string]bool{
	"go/types.Lookup": true, "go/types.Name": true, "strings.HasSuffix": true, "strings.HasPrefix": true,
}

func runC08(c *core.Check) {
	prog := c.Load(c08Scope...)
	var pkgs []*packages.Package
	for _, p := range c08Scope {
		if pk := prog.Pkg(p); pk != nil {
			pkgs = append(pkgs, pk)
		}
	}
	if len(pkgs) != len(c08Scope) {
		c.Bad("anchor", "scope", token.NoPos, "a package of the compile path is missing")
		return
	}
	c.Trust("go/types resolution of range operands and callees")
	c.Assume("gogen, go/printer and go/types are deterministic given the same sequence of calls")

	nRanges := 0
	for _, pk := range pkgs {
		for _, fd := range core.AllFuncDecls(pk) {
			if fd.Body == nil {
				continue
			}
			fname := pk.Types.Name() + "." + core.FuncName(fd)
			nRanges += c08Ranges(c, pk, fd, fname)
			c08Sources(c, pk, fd, fname)
		}
	}
	c.Analysed("range_statements_inspected", nRanges)
	c.Floor("map-range", 12)
	// the nondeterminism census expects zero sites: keep a positive example that must match on every run
	c08SelfTest(c)

	// (2b) state kept in the input: stores into the fields of the source tree
	c08ASTMutations(c, prog)

	// (3) package-level state written from NewPackage
	g := buildCG(c, prog, true) // CHA alone resolves every func() value to every func() in the program
	root := g.fn("./cl", "NewPackage")
	if root == nil {
		return
	}
	set, pred := g.reachable([]*ssa.Function{root}, func(f *ssa.Function) bool {
		return inModule(f) && !isPkgInit(f)
	})
	c.Analysed("functions_reachable_from_NewPackage", len(set))
	type gw struct {
		g   *ssa.Global
		f   *ssa.Function
		pos token.Pos
	}
	var writes []gw
	for f := range set {
		if isPkgInit(f) {
			continue
		}
		for _, b := range f.Blocks {
			for _, ins := range b.Instrs {
				switch x := ins.(type) {
				case *ssa.Store:
					if gl := rootGlobal(x.Addr); gl != nil {
						writes = append(writes, gw{gl, f, x.Pos()})
					}
				case *ssa.MapUpdate:
					if gl := rootGlobal(x.Map); gl != nil {
						writes = append(writes, gw{gl, f, x.Pos()})
					}
				}
			}
		}
	}
	sort.Slice(writes, func(i, j int) bool { return writes[i].pos < writes[j].pos })
	seen := map[string]bool{}
	for _, w := range writes {
		if w.g.Pkg == nil || !strings.HasPrefix(w.g.Pkg.Pkg.Path(), core.Mod) {
			continue
		}
		key := w.g.Pkg.Pkg.Name() + "." + w.g.Name()
		if seen[key] {
			continue
		}
		seen[key] = true
		if why, ok := c08Globals[key]; ok {
			c.Note("global-state-reviewed", key, w.pos, why)
			continue
		}
		c.Bad("global-state", key, w.pos, "package-level variable "+key+" is written on a path from cl.NewPackage ("+witness(pred, w.f)+"): a second compilation in the same process starts from a different state than the first")
	}
	c.Ok("global-state", "census", root.Pos(), core.Sprintf("%d functions reachable from cl.NewPackage inspected for stores to package-level variables", len(set)))
}

// c08Globals: package-level variables written on the compile path that cannot influence the output.
var c08Globals = map[string]string{}

// rootGlobal follows FieldAddr/IndexAddr/loads back to a global.
func rootGlobal(v ssa.Value) *ssa.Global {
	for i := 0; i < 8; i++ {
		switch x := v.(type) {
		case *ssa.Global:
			return x
		case *ssa.FieldAddr:
			v = x.X
		case *ssa.IndexAddr:
			v = x.X
		case *ssa.UnOp:
			if x.Op != token.MUL {
				return nil
			}
			v = x.X
		default:
			return nil
		}
	}
	return nil
}

// c08Ranges classifies every map-range loop of fd.
func c08Ranges(c *core.Check, pk *packages.Package, fd *ast.FuncDecl, fname string) int {
	info := pk.TypesInfo
	n := 0
	var walk func(list []ast.Stmt)
	visitBlock := func(b *ast.BlockStmt) {
		if b != nil {
			walk(b.List)
		}
	}
	walk = func(list []ast.Stmt) {
		for i, s := range list {
			if rs, ok := s.(*ast.RangeStmt); ok {
				n++
				if t := info.TypeOf(rs.X); t != nil {
					if _, ok := t.Underlying().(*types.Map); ok {
						c08Classify(c, pk, fd, fname, rs, list[:i], list[i+1:])
					}
				}
			}
			// recurse into nested statement lists
			ast.Inspect(s, func(m ast.Node) bool {
				switch y := m.(type) {
				case *ast.BlockStmt:
					if m != s {
						visitBlock(y)
						return false
					}
					walk(y.List)
					return false
				case *ast.CaseClause:
					walk(y.Body)
					return false
				case *ast.CommClause:
					walk(y.Body)
					return false
				case *ast.FuncLit:
					visitBlock(y.Body)
					return false
				}
				return true
			})
		}
	}
	walk(fd.Body.List)
	return n
}

type c08Effects struct {
	appendTo  map[types.Object]bool // s = append(s, …)
	mapStores []*ast.IndexExpr      // m[k] = v
	flagSets  int                   // local = constant / local++ / local |= …
	localDefs map[types.Object]bool // variables declared inside the body
	other     []string              // any other write
	exits     []string              // return / break / goto
	callees   map[string]token.Pos
	unknown   []string // calls that cannot be resolved (function values)
}

func c08BodyEffects(info *types.Info, rs *ast.RangeStmt) *c08Effects {
	e := &c08Effects{appendTo: map[types.Object]bool{}, localDefs: map[types.Object]bool{}, callees: map[string]token.Pos{}}
	for _, kv := range []ast.Expr{rs.Key, rs.Value} {
		if id, ok := kv.(*ast.Ident); ok {
			if o := info.ObjectOf(id); o != nil {
				e.localDefs[o] = true
			}
		}
	}
	ast.Inspect(rs.Body, func(n ast.Node) bool {
		switch x := n.(type) {
		case *ast.FuncLit:
			e.other = append(e.other, "function literal")
			return false
		case *ast.AssignStmt:
			for i, l := range x.Lhs {
				switch lv := ast.Unparen(l).(type) {
				case *ast.Ident:
					if lv.Name == "_" {
						continue
					}
					o := info.ObjectOf(lv)
					if x.Tok == token.DEFINE && info.Defs[lv] != nil {
						e.localDefs[o] = true
						continue
					}
					if e.localDefs[o] {
						continue
					}
					if len(x.Rhs) == len(x.Lhs) {
						if call, ok := ast.Unparen(x.Rhs[i]).(*ast.CallExpr); ok {
							if id, ok := call.Fun.(*ast.Ident); ok && id.Name == "append" && len(call.Args) > 0 && identObj(info, call.Args[0]) == o {
								e.appendTo[o] = true
								continue
							}
						}
						if tv := info.Types[x.Rhs[i]]; tv.Value != nil || isNilIdent(x.Rhs[i]) {
							e.flagSets++
							continue
						}
					}
					if v, ok := o.(*types.Var); ok && !v.IsField() && v.Parent() != nil && v.Parent() != v.Pkg().Scope() {
						e.other = append(e.other, "assignment to "+lv.Name+" (order-dependent: last/first iteration wins)")
						continue
					}
					e.other = append(e.other, "assignment to "+lv.Name)
				case *ast.IndexExpr:
					if _, ok := info.TypeOf(lv.X).Underlying().(*types.Map); ok {
						e.mapStores = append(e.mapStores, lv)
					} else {
						e.other = append(e.other, "indexed store "+core.ExprStr(lv))
					}
				default:
					e.other = append(e.other, "store to "+core.ExprStr(l))
				}
			}
		case *ast.IncDecStmt:
			if o := identObj(info, x.X); o != nil {
				e.flagSets++
			} else {
				e.other = append(e.other, "inc/dec of "+core.ExprStr(x.X))
			}
		case *ast.ReturnStmt:
			e.exits = append(e.exits, "return")
		case *ast.BranchStmt:
			if x.Tok == token.BREAK || x.Tok == token.GOTO {
				e.exits = append(e.exits, x.Tok.String())
			}
		case *ast.SendStmt, *ast.GoStmt, *ast.DeferStmt:
			e.other = append(e.other, "send/go/defer")
		case *ast.ValueSpec:
			for _, id := range x.Names {
				if o := info.ObjectOf(id); o != nil {
					e.localDefs[o] = true
				}
			}
		case *ast.CallExpr:
			if tv := info.Types[x.Fun]; tv.IsType() {
				return true
			}
			obj := calleeObj(info, x)
			switch o := obj.(type) {
			case *types.Builtin:
				if o.Name() == "delete" {
					e.flagSets++
				} else if o.Name() == "panic" {
					e.exits = append(e.exits, "panic")
				}
			case *types.Func:
				e.callees[c08FuncName(o)] = x.Pos()
			default:
				e.unknown = append(e.unknown, core.ExprStr(x.Fun))
			}
		}
		return true
	})
	return e
}

func isNilIdent(e ast.Expr) bool {
	id, ok := ast.Unparen(e).(*ast.Ident)
	return ok && (id.Name == "nil" || id.Name == "true" || id.Name == "false")
}

// c08FuncName: "pkgname.Recv.Name" for module functions, "import/path.Recv.Name" otherwise.
func c08FuncName(fn *types.Func) string {
	n := core.FuncObjName(fn)
	if fn.Pkg() == nil {
		return n
	}
	p := fn.Pkg().Path()
	if strings.HasPrefix(p, core.Mod) {
		return fn.Pkg().Name() + "." + n
	}
	return p + "." + fn.Name()
}

func c08Classify(c *core.Check, pk *packages.Package, fd *ast.FuncDecl, fname string, rs *ast.RangeStmt, before, after []ast.Stmt) {
	info := pk.TypesInfo
	key := fname + ":" + core.ExprStr(rs.X)
	e := c08BodyEffects(info, rs)
	var calleeNames []string
	for n := range e.callees {
		calleeNames = append(calleeNames, n)
	}
	sort.Strings(calleeNames)
	impure := []string{}
	for _, n := range calleeNames {
		if !c08Pure[n] {
			impure = append(impure, n)
		}
	}
	impure = append(impure, e.unknown...)

	// singleton: `if len(m) != 1 { return … }` precedes the loop in the same block
	for _, s := range before {
		if is, ok := s.(*ast.IfStmt); ok && is.Init == nil {
			if be, ok := is.Cond.(*ast.BinaryExpr); ok && be.Op == token.NEQ {
				if call, ok := be.X.(*ast.CallExpr); ok && len(call.Args) == 1 {
					if id, ok := call.Fun.(*ast.Ident); ok && id.Name == "len" && core.ExprStr(call.Args[0]) == core.ExprStr(rs.X) {
						if tv := info.Types[be.Y]; tv.Value != nil && constant.Compare(tv.Value, token.EQL, constant.MakeInt64(1)) && endsInReturn(is.Body) {
							if len(assignedIn(before, rs.X, info)) == 0 {
								c.Ok("map-range", key, rs.Pos(), "singleton: the loop is reached only when len(map) == 1")
								return
							}
						}
					}
				}
			}
		}
	}
	// table line
	if line, ok := c08Table[key]; ok {
		okShape := true
		detail := ""
		allowed := map[string]bool{}
		for _, n := range line.callees {
			allowed[n] = true
		}
		for _, n := range append(calleeNames, e.unknown...) {
			if !allowed[n] && !c08Pure[n] {
				okShape = false
				detail = "the loop body now calls " + n + ", which the reviewed argument does not cover"
			}
		}
		switch {
		case line.shape == "if-return":
			if len(rs.Body.List) != 1 {
				okShape, detail = false, "the body is no longer a single `if cond { return … }`"
			} else if is, ok := rs.Body.List[0].(*ast.IfStmt); !ok || is.Else != nil || !endsInReturn(is.Body) || len(is.Body.List) != 1 {
				okShape, detail = false, "the body is no longer a single `if cond { return … }`"
			}
		case strings.HasPrefix(line.shape, "guarded-insert:"):
			m := strings.TrimPrefix(line.shape, "guarded-insert:")
			if !guardedInsert(info, fd, rs, m) {
				okShape, detail = false, "a key is inserted into `"+m+"` without the guard that no identical key was found: several keys can now match and the errors are reported in map order"
			}
		}
		if len(e.other) > 0 && line.shape != "guarded-insert:seen" {
			// writes are part of the reviewed body only for flag/first-wins loops; list them in the evidence
		}
		c.Decide(okShape, "map-range", key, rs.Pos(), "reviewed: "+line.why, "reviewed table line no longer applies: "+detail)
		return
	}
	// extremum selection: `if … key < best … { best, … = key, … }` picks the smallest (largest) key whatever the order
	if len(rs.Body.List) == 1 && len(impure) == 0 && len(e.exits) == 0 {
		if is, ok := rs.Body.List[0].(*ast.IfStmt); ok && is.Else == nil && is.Init == nil && len(is.Body.List) == 1 {
			if as, ok := is.Body.List[0].(*ast.AssignStmt); ok && len(as.Lhs) == len(as.Rhs) {
				rk := identObj(info, rs.Key)
				var best types.Object
				ast.Inspect(is.Cond, func(n ast.Node) bool {
					if be, ok := n.(*ast.BinaryExpr); ok && (be.Op == token.LSS || be.Op == token.GTR) && rk != nil && identObj(info, be.X) == rk {
						best = identObj(info, be.Y)
					}
					return true
				})
				okAssign := best != nil
				seenBest := false
				for i, l := range as.Lhs {
					lo := identObj(info, l)
					if lo == nil {
						okAssign = false
						continue
					}
					if lo == best {
						seenBest = identObj(info, as.Rhs[i]) == rk
					}
				}
				if okAssign && seenBest {
					c.Ok("map-range", key, rs.Pos(), "extremum selection: keeps the entry with the smallest/largest key")
					return
				}
			}
		}
	}
	// collect-then-sort
	if len(e.appendTo) > 0 && len(e.mapStores) == 0 && len(e.other) == 0 && len(e.exits) == 0 && len(impure) == 0 {
		allSorted := true
		var missing string
		for s := range e.appendTo {
			if !sortedBeforeUse(info, after, s) {
				allSorted = false
				missing = s.Name()
			}
		}
		c.Decide(allSorted, "map-range", key, rs.Pos(), "collect-then-sort", "the loop collects the map's entries into `"+missing+"` in iteration order and the slice is used before (or without) being sorted: everything downstream — load order, generated code, error list — follows the random map order")
		return
	}
	// commutative sink
	if len(e.appendTo) == 0 && len(e.other) == 0 && len(e.exits) == 0 && len(impure) == 0 {
		ok := true
		why := ""
		rk := identObj(info, rs.Key)
		for _, st := range e.mapStores {
			if rk == nil || !mentions(info, st.Index, rk) {
				ok, why = false, "map store "+core.ExprStr(st)+" is not keyed by the iteration key (two iterations may write the same entry: last one wins)"
			}
		}
		c.Decide(ok, "map-range", key, rs.Pos(), "commutative sink (stores keyed by the iteration key, flags, counters; pure expressions)", why)
		return
	}
	var reasons []string
	if len(impure) > 0 {
		reasons = append(reasons, "calls "+strings.Join(impure, ", "))
	}
	reasons = append(reasons, e.other...)
	reasons = append(reasons, e.exits...)
	if len(e.appendTo) > 0 {
		reasons = append(reasons, "appends in iteration order")
	}
	c.Bad("map-range", key, rs.Pos(), "iteration over a map whose order can reach the result: the body "+strings.Join(reasons, "; ")+" — not collect-then-sort, not a commutative sink, not a reviewed table line")
}

func endsInReturn(b *ast.BlockStmt) bool {
	if b == nil || len(b.List) == 0 {
		return false
	}
	_, ok := b.List[len(b.List)-1].(*ast.ReturnStmt)
	return ok
}

func assignedIn(list []ast.Stmt, x ast.Expr, info *types.Info) []ast.Node {
	o := identObj(info, x)
	if o == nil {
		return nil
	}
	var out []ast.Node
	seenLen := false
	for _, s := range list {
		ast.Inspect(s, func(n ast.Node) bool {
			if as, ok := n.(*ast.AssignStmt); ok && seenLen {
				for _, l := range as.Lhs {
					if identObj(info, l) == o {
						out = append(out, as)
					}
				}
			}
			if call, ok := n.(*ast.CallExpr); ok {
				if id, ok := call.Fun.(*ast.Ident); ok && id.Name == "len" && len(call.Args) == 1 && identObj(info, call.Args[0]) == o {
					seenLen = true
				}
			}
			return true
		})
	}
	return out
}

func mentions(info *types.Info, e ast.Expr, o types.Object) bool {
	found := false
	ast.Inspect(e, func(n ast.Node) bool {
		if id, ok := n.(*ast.Ident); ok && info.ObjectOf(id) == o {
			found = true
		}
		return !found
	})
	return found
}

// sortedBeforeUse: the first statement after the loop that mentions s is a call sort.X(s, …) / slices.SortX(s, …).
func sortedBeforeUse(info *types.Info, after []ast.Stmt, s types.Object) bool {
	for _, st := range after {
		if !mentionsNode(info, st, s) {
			continue
		}
		es, ok := st.(*ast.ExprStmt)
		if !ok {
			return false
		}
		call, ok := es.X.(*ast.CallExpr)
		if !ok || len(call.Args) == 0 {
			return false
		}
		fn, ok := calleeObj(info, call).(*types.Func)
		if !ok || fn.Pkg() == nil {
			return false
		}
		p := fn.Pkg().Path()
		if !(p == "sort" || p == "slices") {
			return false
		}
		switch fn.Name() {
		case "Slice", "SliceStable", "Strings", "Ints", "Sort", "Stable", "SortFunc", "SortStableFunc":
		default:
			return false
		}
		if identObj(info, call.Args[0]) != s {
			return false
		}
		// a comparator that orders by source POSITION does not make the order a function of the package: positions are
		// handed out in the order files were added to the FileSet (parse order, possibly concurrent)
		byPos := false
		for _, a := range call.Args[1:] {
			ast.Inspect(a, func(m ast.Node) bool {
				if c2, ok := m.(*ast.CallExpr); ok {
					if sel, ok := c2.Fun.(*ast.SelectorExpr); ok && (sel.Sel.Name == "Pos" || sel.Sel.Name == "End") && len(c2.Args) == 0 {
						byPos = true
					}
				}
				if sel, ok := m.(*ast.SelectorExpr); ok {
					if t := info.TypeOf(sel); t != nil && strings.HasSuffix(t.String(), "token.Pos") {
						byPos = true
					}
				}
				return true
			})
		}
		return !byPos
	}
	return false
}

func mentionsNode(info *types.Info, n ast.Node, o types.Object) bool {
	found := false
	ast.Inspect(n, func(m ast.Node) bool {
		if id, ok := m.(*ast.Ident); ok && info.ObjectOf(id) == o {
			found = true
		}
		return !found
	})
	return found
}

// guardedInsert: every store m[k] = v in fd (outside the range loop) is inside `if !flag { … }` where flag is set to true only inside the loop.
func guardedInsert(info *types.Info, fd *ast.FuncDecl, rs *ast.RangeStmt, m string) bool {
	ok := true
	found := false
	var stack []ast.Node
	ast.Inspect(fd.Body, func(n ast.Node) bool {
		if n == nil {
			stack = stack[:len(stack)-1]
			return true
		}
		stack = append(stack, n)
		as, isAs := n.(*ast.AssignStmt)
		if !isAs {
			return true
		}
		for _, l := range as.Lhs {
			ix, isIx := l.(*ast.IndexExpr)
			if !isIx || core.ExprStr(ix.X) != m {
				continue
			}
			found = true
			guarded := false
			for i := len(stack) - 2; i >= 0; i-- {
				if is, isIf := stack[i].(*ast.IfStmt); isIf {
					if u, isU := is.Cond.(*ast.UnaryExpr); isU && u.Op == token.NOT {
						if flag := identObj(info, u.X); flag != nil && mentionsNode(info, rs.Body, flag) && i+1 < len(stack) && stack[i+1] == ast.Node(is.Body) {
							guarded = true
						}
					}
				}
			}
			if !guarded {
				ok = false
			}
		}
		return true
	})
	return ok && found
}

// c08Sources: constructs that bring in a schedule, a clock, randomness or the environment.
func c08Sources(c *core.Check, pk *packages.Package, fd *ast.FuncDecl, fname string) {
	info := pk.TypesInfo
	ast.Inspect(fd.Body, func(n ast.Node) bool {
		switch x := n.(type) {
		case *ast.GoStmt:
			c.Bad("nondeterminism", fname+":go", x.Pos(), "a go statement in the compile path: the interleaving of the goroutine with the rest of the compilation is not fixed")
		case *ast.SelectStmt:
			if len(x.Body.List) > 1 {
				c.Bad("nondeterminism", fname+":select", x.Pos(), "a select with several cases in the compile path chooses pseudo-randomly among ready cases")
			}
		case *ast.CallExpr:
			fn, ok := calleeObj(info, x).(*types.Func)
			if !ok || fn.Pkg() == nil {
				return true
			}
			if why := c08SourceCall(fn); why != "" {
				c.Bad("nondeterminism", fname+":"+why, x.Pos(), "call of "+fn.FullName()+" in the compile path: its result differs from run to run")
			}
			// %p in constant format strings
			for _, a := range x.Args {
				if tv := info.Types[a]; tv.Value != nil && tv.Value.Kind() == constant.String {
					if strings.Contains(constant.StringVal(tv.Value), "%p") {
						c.Bad("nondeterminism", fname+":%p", a.Pos(), "a %p verb prints an address, which differs from run to run")
					}
				}
			}
		}
		return true
	})
}

func c08SourceCall(fn *types.Func) string {
	p, n := fn.Pkg().Path(), fn.Name()
	switch {
	case p == "time" && (n == "Now" || n == "Since" || n == "Until"):
		return "time." + n
	case p == "math/rand" || p == "math/rand/v2" || p == "crypto/rand":
		return "rand." + n
	case p == "os" && (n == "Getpid" || n == "Getppid" || n == "Hostname"):
		return "os." + n
	case p == "reflect" && (n == "MapKeys" || n == "MapRange"):
		return "reflect." + n
	case p == "maps" && (n == "Keys" || n == "Values" || n == "All"):
		return "maps." + n
	}
	return ""
}

// c08SelfTest keeps a positive example for the zero-count census: the classifier must recognise these names.
func c08SelfTest(c *core.Check) {
	tp := types.NewPackage("time", "time")
	f := types.NewFunc(token.NoPos, tp, "Now", types.NewSignatureType(nil, nil, nil, nil, nil, false))
	rp := types.NewPackage("math/rand", "rand")
	r := types.NewFunc(token.NoPos, rp, "Intn", types.NewSignatureType(nil, nil, nil, nil, nil, false))
	sp := types.NewPackage("strings", "strings")
	s := types.NewFunc(token.NoPos, sp, "Index", types.NewSignatureType(nil, nil, nil, nil, nil, false))
	c.Decide(c08SourceCall(f) != "" && c08SourceCall(r) != "" && c08SourceCall(s) == "", "nondeterminism", "census-self-test", token.NoPos,
		"the source classifier recognises time.Now and math/rand.Intn and rejects strings.Index (the census of the compile path found no site)", "the source classifier is broken")
}

// c08Mutations: reviewed stores of package cl into the syntax tree it was given. A tree that is compiled twice in one
// process (language servers, x/typesutil) must compile the same way the second time.
var c08Mutations = map[string]string{
	"astEmptyEntrypoint:File.Decls":        "appends the synthetic empty entry point once: guarded by a scan for a declaration of that name, and the scan reads no field that cl rewrites (checked below), so the second compilation finds the declaration it added",
	"preloadGopFile:Ident.Name":            "renames the shadow entry to getEntrypoint(f), a function of the file alone: the same name every time",
	"preloadFile:FuncDecl.Recv":            "a receiver-less function of a class file gets the class receiver; the second compilation sees an explicit receiver of the same class (guard: recv == nil || len(recv.List) == 0)",
	"preloadFile:FuncDecl.IsClass":         "set together with the class receiver; stays true",
	"preloadFile:OverloadFuncDecl.Recv":    "as for FuncDecl: only when the overload declaration has no receiver yet",
	"preloadFile:OverloadFuncDecl.IsClass": "set together with the receiver; stays true",
}

func c08ASTMutations(c *core.Check, prog *core.Prog) {
	pk := prog.Pkg("./cl")
	if pk == nil {
		return
	}
	info := pk.TypesInfo
	written := map[string]bool{} // "FuncDecl.Recv"
	n := 0
	for _, fd := range core.AllFuncDecls(pk) {
		if fd.Body == nil {
			continue
		}
		ast.Inspect(fd.Body, func(m ast.Node) bool {
			as, ok := m.(*ast.AssignStmt)
			if !ok {
				return true
			}
			for _, l := range as.Lhs {
				var sel *ast.SelectorExpr
				switch x := ast.Unparen(l).(type) {
				case *ast.SelectorExpr:
					sel = x
				case *ast.IndexExpr:
					sel, _ = ast.Unparen(x.X).(*ast.SelectorExpr)
				}
				if sel == nil {
					continue
				}
				sl := info.Selections[sel]
				if sl == nil {
					continue
				}
				fv, ok := sl.Obj().(*types.Var)
				if !ok || fv.Pkg() == nil || fv.Pkg().Path() != core.Mod+"/ast" {
					continue
				}
				owner := namedOf(sl.Recv())
				if owner == nil {
					continue
				}
				// a store into a local value copy (`v := *expr; v.F = …`) does not touch the input
				if id, isId := ast.Unparen(sel.X).(*ast.Ident); isId {
					if v, isVar := info.ObjectOf(id).(*types.Var); isVar {
						if _, isPtr := v.Type().(*types.Pointer); !isPtr {
							continue
						}
					}
				}
				n++
				field := owner.Obj().Name() + "." + fv.Name()
				written[field] = true
				key := core.FuncName(fd) + ":" + field
				if why, ok := c08Mutations[key]; ok {
					c.Ok("ast-mutation", key, as.Pos(), "reviewed: "+why)
				} else {
					c.Bad("ast-mutation", key, as.Pos(), "cl."+core.FuncName(fd)+" stores into "+field+" of the syntax tree it is compiling: the tree keeps that change, so compiling the same tree again in this process (x/typesutil, language servers) starts from a different input and can give different output or errors")
				}
			}
			return true
		})
	}
	c.Analysed("ast_field_stores_in_cl", n)
	c.Floor("ast-mutation", 4)
	// the guard of astEmptyEntrypoint reads nothing that cl rewrites
	if fd := core.FindFuncDecl(pk, "astEmptyEntrypoint"); fd != nil {
		var reads []string
		ast.Inspect(fd.Body, func(m ast.Node) bool {
			is, ok := m.(*ast.IfStmt)
			if !ok {
				return true
			}
			sets := false
			ast.Inspect(is.Body, func(k ast.Node) bool {
				if as, ok := k.(*ast.AssignStmt); ok && len(as.Lhs) == 1 && core.ExprStr(as.Lhs[0]) == "hasEntry" {
					sets = true
				}
				return true
			})
			if !sets {
				return true
			}
			ast.Inspect(is.Cond, func(k ast.Node) bool {
				if sel, ok := k.(*ast.SelectorExpr); ok {
					if sl := info.Selections[sel]; sl != nil {
						if owner := namedOf(sl.Recv()); owner != nil && owner.Obj().Name() == "FuncDecl" {
							reads = append(reads, "FuncDecl."+sel.Sel.Name)
						}
					}
				}
				return true
			})
			return true
		})
		bad := ""
		for _, r := range reads {
			if written[r] {
				bad = r
			}
		}
		c.Decide(len(reads) > 0 && bad == "", "ast-mutation", "astEmptyEntrypoint:guard", fd.Pos(), "the scan for an existing entry point reads "+strings.Join(reads, ", ")+", which cl never rewrites",
			"the scan that decides whether the synthetic entry point must be appended reads "+bad+", a field cl itself rewrites during compilation (preloadFile): on the second compilation of the same tree the declaration appended the first time is no longer recognised and another one is appended — duplicate methods in the output")
	} else {
		c.Bad("anchor", "cl.astEmptyEntrypoint", 0, "not found")
	}
}
