package props

import (
	"crypto/sha256"
	"encoding/hex"
	"go/ast"
	"sort"

	"golang.org/x/tools/go/packages"

	"verif/checker/internal/core"
)

func init() {
	f := "scanner/scanner.go"
	register(&Prop{
		ID:        "C16",
		Title:     "The scanner agrees with go/scanner on Go lexemes",
		Technique: "clone equivalence (alpha-renaming/constant-folding insensitive) of the forked scanning routines against $GOROOT/src/go/scanner, operator-trie and semicolon-insertion table agreement extracted from both Scan functions, reviewed deviations pinned by hash",
		Explanation: "scanner/scanner.go is a fork of go/scanner. Agreement on ALL inputs is established for every routine that is still an alpha-equivalent clone of the reference (a sufficient condition: identical code behaves identically), and table-compared for Scan: the spelling→token trie extracted from XGo's operator switch, restricted to spellings Go has, equals go/scanner's; the set of tokens after which a semicolon is inserted agrees on Go tokens; the keyword set triggering insertion agrees. " +
			"Routines that deliberately differ (unit/rational suffixes in scanNumber, '#' comments, the simpler scanIdentifier loop, no line/column cap) are reviewed deviations pinned by a hash of their normalised body: any further edit is reported as an unverified divergence from go/scanner, not as a behaviour difference.",
		NotCovered: "inputs in which adjacent Go operator characters form an XGo-only operator (->, <>, =>, ?, $) or a number is directly followed by letters (unit suffix): XGo lexes those differently by design; error message texts.",
		Run:        runC16,
		Controls: []Control{
			{Name: "escape-accepts-more", File: f, Old: "\tcase 'a', 'b', 'f', 'n', 'r', 't', 'v', '\\\\', quote:", New: "\tcase 'a', 'b', 'e', 'f', 'n', 'r', 't', 'v', '\\\\', quote:", Expect: "clone/Scanner.scanEscape"},
			{Name: "separator-rule-changed", File: f, Old: "\tx1 := ' ' // prefix char, we only care if it's 'x'", New: "\tx1 := 'x' // prefix char, we only care if it's 'x'", Expect: "clone/invalidSep"},
			{Name: "shift-assign-swapped", File: f, Old: "tok = s.switch4(token.GTR, token.GEQ, '>', token.SHR, token.SHR_ASSIGN)", New: "tok = s.switch4(token.GTR, token.GEQ, '>', token.SHR_ASSIGN, token.SHR)", Expect: "trie/>>"},
			{Name: "semicolon-after-rbrack-lost", File: f, Old: "\t\tcase ']':\n\t\t\tinsertSemi = true\n", New: "\t\tcase ']':\n", Expect: "semi/]"},
			{Name: "semicolon-after-lbrace", File: f, Old: "\t\tcase '{':\n\t\t\ttok = token.LBRACE\n", New: "\t\tcase '{':\n\t\t\tinsertSemi = true\n\t\t\ttok = token.LBRACE\n", Expect: "semi/{"},
			{Name: "return-no-semicolon", File: f, Old: "\t\t\tcase token.BREAK, token.CONTINUE, token.FALLTHROUGH, token.RETURN:", New: "\t\t\tcase token.BREAK, token.CONTINUE, token.FALLTHROUGH:", Expect: "semi-keywords/RETURN"},
			{Name: "number-exponent-edit", File: f, Old: "\tif e := lower(s.ch); e == 'e' || e == 'p' {", New: "\tif e := lower(s.ch); e == 'e' || e == 'p' || e == 'd' {", Expect: "deviation/Scanner.scanNumber"},
			{Name: "whitespace-includes-formfeed", File: f, Old: "for s.ch == ' ' || s.ch == '\\t' || s.ch == '\\n' && !s.insertSemi || s.ch == '\\r' {", New: "for s.ch == ' ' || s.ch == '\\t' || s.ch == '\\f' || s.ch == '\\n' && !s.insertSemi || s.ch == '\\r' {", Expect: "clone/Scanner.skipWhitespace"},
		},
	})
}

func hash8(s string) string {
	h := sha256.Sum256([]byte(s))
	return hex.EncodeToString(h[:4])
}

// c16Clones must be alpha-equivalent to go/scanner's function of the same name.
var c16Clones = []string{"Scanner.digits", "Scanner.error", "Scanner.errorf", "Scanner.next", "Scanner.peek", "Scanner.scanEscape", "Scanner.scanRawString", "Scanner.scanRune", "Scanner.scanString", "Scanner.skipWhitespace", "Scanner.switch2", "Scanner.switch3", "Scanner.switch4", "digitVal", "invalidSep", "isDecimal", "isDigit", "isHex", "isLetter", "litname", "lower", "stripCR", "trailingDigits"}

// c16Deviations: reviewed differences from go/scanner, pinned by the hash of XGo's normalised function.
var c16Deviations = map[string]struct{ hash, why string }{
	"Scanner.scanIdentifier": {"1a564363", "the plain `for isLetter||isDigit { next }` loop of go/scanner ≤1.21; Go 1.22+ only added an ASCII fast path with the same result"},
	"Scanner.scanNumber":     {"0a7d30dd", "after the digits an identifier-like suffix is read: i (IMAG, as Go), r (RAT) or a unit (split off as a UNIT token); the literal excludes the unit. Go lexemes (no letters directly after a number other than i) are unaffected"},
	"Scanner.updateLineInfo": {"a378513b", "lacks go/scanner's maxLineCol cap (Go 1.20+): only //line directives with numbers ≥ 2^30 differ, token kinds/offsets do not"},
	"Scanner.scanComment":    {"de33340d", "adds '#'-style comments as a third form; the '//' and '/*' branches are the reference's"},
	"Scanner.Init":           {"28808456", "delegates to InitEx (offset support for sub-scanners); same initial state for offset 0"},
	"Scanner.InitEx":         {"6d163ea3", "go/scanner.Init with an initial offset parameter"},
	"Scanner.findLineEnd":    {"bde2ce45", "go/scanner's findLineEnd as of Go ≤1.19 (removed upstream when nlPos was introduced): decides whether a comment run contains/ends in a newline"},
	"Scanner.tokSEMICOLON":   {"0beba1d0", "returns token.SEMICOLON and resets the XGo-only paren depth"},
}

const c16ScanResidual = "bf96ef23"

func runC16(c *core.Check) {
	prog := c.Load("./scanner", "go/scanner")
	scannerAgreement(c, prog, true)
}

// scannerAgreement: the rules that establish XGo's scanner tokenises Go lexemes like go/scanner (shared by C14 and C16).
// withPositions adds the rule about the position of the semicolon implied at a comment (a position, not a token-stream, matter).
func scannerAgreement(c *core.Check, prog *core.Prog, withPositions bool) {
	x, g := prog.Pkg("./scanner"), prog.Pkg("go/scanner")
	if x == nil || g == nil {
		return
	}
	c.Trust("the Go 1.23.5 standard library source of go/scanner as the reference sibling")
	c.Assume("alpha-equivalence to the reference is a sufficient condition for agreement; a reported divergence means 'agreement can no longer be established', not 'behaviour differs'")

	// ---------- clone set
	c.Floor("clone", 20)
	for _, name := range c16Clones {
		xf, gf := core.FindFuncDecl(x, name), core.FindFuncDecl(g, name)
		if xf == nil || gf == nil {
			c.Bad("clone", name, 0, "function missing on one side (renamed or removed): agreement with go/scanner cannot be established for it")
			continue
		}
		same := normFunc(x, xf) == normFunc(g, gf)
		detail := ""
		if !same {
			xs, gs := normStmts(x, xf), normStmts(g, gf)
			for i := 0; i < len(xs) && i < len(gs); i++ {
				if xs[i] != gs[i] {
					detail = core.Sprintf(" (first differing top-level statement: #%d)", i+1)
					break
				}
			}
		}
		c.Decide(same, "clone", name, xf.Pos(), "alpha-equivalent to go/scanner."+name, "unverified divergence from go/scanner: this routine is no longer an alpha-equivalent clone of the reference"+detail+"; its agreement on Go lexemes can no longer be established by comparison")
	}
	// ---------- reviewed deviations
	var dn []string
	for n := range c16Deviations {
		dn = append(dn, n)
	}
	sort.Strings(dn)
	for _, name := range dn {
		xf := core.FindFuncDecl(x, name)
		if xf == nil {
			c.Bad("deviation", name, 0, "reviewed function no longer exists")
			continue
		}
		h := hash8(normFunc(x, xf))
		d := c16Deviations[name]
		c.Decide(h == d.hash, "deviation", name, xf.Pos(), "reviewed deviation, unchanged since review ("+h+"): "+d.why,
			"this routine deviates from go/scanner by design and was reviewed in the form with hash "+d.hash+"; it now hashes to "+h+": the new form has not been compared with go/scanner (unverified divergence)")
	}

	// ---------- the parts of Scan the trie does not model (prologue, literal/comment/EOF arms, epilogue)
	if xs := core.FindFuncDecl(x, "Scanner.Scan"); xs != nil {
		h := scanResidualHash(x, xs, extractTrie(x, xs))
		c.Decide(h == c16ScanResidual, "deviation", "Scanner.Scan:non-operator-parts", xs.Pos(), "reviewed ("+h+"): pending-unit prologue, py\"…\"/c\"…\" strings, '#' comments, paren-depth bookkeeping, findLineEnd-based semicolon before comments; otherwise go/scanner's Scan",
			"the non-operator parts of Scan (pending unit, identifier/number arms, string/rune/raw-string/comment/EOF/newline arms, epilogue) were reviewed against go/scanner in the form with hash "+c16ScanResidual+" and now hash to "+h+": unverified divergence from go/scanner")
	}

	// ---------- tries
	xt := extractTrie(x, core.FindFuncDecl(x, "Scanner.Scan"))
	gt := extractTrie(g, core.FindFuncDecl(g, "Scanner.Scan"))
	if xt == nil || gt == nil {
		c.Undecided("trie", "extract", 0, "cannot extract the operator switch of one of the Scan functions")
		return
	}
	for _, u := range append(xt.Unknown, gt.Unknown...) {
		c.Undecided("trie", u, 0, "ambiguous arm")
	}
	c.Analysed("go_trie_spellings", len(gt.Ops))
	c.Analysed("xgo_trie_spellings", len(xt.Ops))
	var gk []string
	for k := range gt.Ops {
		gk = append(gk, k)
	}
	sort.Strings(gk)
	c.Floor("trie", 45)
	for _, sp := range gk {
		ge := gt.Ops[sp]
		xe, ok := xt.Ops[sp]
		switch {
		case !ok:
			c.Bad("trie", sp, gt.ArmPos[sp[:1]], core.Sprintf("go/scanner scans %q as %s; XGo's Scan has no path that consumes exactly %q", sp, ge.Tok, sp))
		case xe.Tok != ge.Tok:
			c.Bad("trie", sp, xt.ArmPos[sp[:1]], core.Sprintf("go/scanner scans %q as %s, XGo's Scan yields %s", sp, ge.Tok, xe.Tok))
		default:
			c.Ok("trie", sp, xt.ArmPos[sp[:1]], ge.Tok)
		}
		// semicolon insertion
		if ok && xe.Tok == ge.Tok {
			if why, dev := c16SemiDeviation[sp]; dev && xe.InsertSemi != ge.InsertSemi {
				c.Note("semi-deviation", sp, xt.ArmPos[sp[:1]], core.Sprintf("go=%s xgo=%s: %s", ge.InsertSemi, xe.InsertSemi, why))
			} else {
				c.Decide(xe.InsertSemi == ge.InsertSemi, "semi", sp, xt.ArmPos[sp[:1]], "insertSemi="+ge.InsertSemi,
					core.Sprintf("after %q go/scanner sets insertSemi=%s but XGo sets %s: a newline after this token produces a semicolon in one scanner and not in the other", sp, ge.InsertSemi, xe.InsertSemi))
			}
		}
	}
	// XGo-only spellings must be the reviewed extension set
	var xk []string
	for k := range xt.Ops {
		xk = append(xk, k)
	}
	sort.Strings(xk)
	for _, sp := range xk {
		if _, inGo := gt.Ops[sp]; inGo {
			continue
		}
		if why, ok := c16Extensions[sp]; ok {
			c.Note("extension", sp, xt.ArmPos[sp[:1]], why)
		} else {
			c.Bad("extension", sp, xt.ArmPos[sp[:1]], core.Sprintf("XGo's Scan recognises %q, which go/scanner does not and which is not a reviewed extension: sequences of Go operator characters that contain it are tokenised differently", sp))
		}
	}
	// special arms present on both sides
	for sp := range gt.Special {
		c.Decide(xt.Special[sp], "special-arm", sp, gt.ArmPos[sp], "", "go/scanner has a literal/comment/EOF arm for this character that XGo's Scan treats as a plain operator")
	}

	// ---------- position of the semicolon inserted at a comment that contains/precedes a newline
	gs0, xs0 := prog.NamedType("go/scanner", "Scanner"), prog.NamedType("./scanner", "Scanner")
	if withPositions && gs0 != nil && xs0 != nil {
		refHas, xHas := fieldVar(gs0, "nlPos") != nil, fieldVar(xs0, "nlPos") != nil
		if refHas {
			c.Decide(xHas, "semicolon-position", "comment-before-newline", xt.ArmPos["/"], "same nlPos mechanism as the reference",
				"go/scanner (Go ≥1.20) returns the semicolon implied by a newline inside/after a comment AFTER the comment, at the newline's position (field nlPos); XGo's Scan still uses the older findLineEnd look-ahead and returns it BEFORE the comment, at the comment's start: for `a /*\n*/ b` the SEMICOLON token has offset 2 in XGo and 4 in go/scanner, and the COMMENT/SEMICOLON order differs")
		}
	}

	// ---------- keywords after which a semicolon is inserted
	gs, xs := semiKeywords(g, core.FindFuncDecl(g, "Scanner.Scan")), semiKeywords(x, core.FindFuncDecl(x, "Scanner.Scan"))
	for k := range gs {
		c.Decide(xs[k], "semi-keywords", k, 0, "", "go/scanner inserts a semicolon after a line-final "+k+", XGo's Scan does not")
	}
	for k := range xs {
		if !gs[k] {
			c.Bad("semi-keywords", k, 0, "XGo's Scan inserts a semicolon after "+k+", go/scanner does not")
		}
	}
	c.Floor("semi-keywords", 5)
}

var c16Extensions = map[string]string{
	"->": "XGo extension token SRARROW", "<>": "XGo extension token BIDIARROW", "=>": "XGo extension token DRARROW (lambda)",
	"?": "XGo extension token QUESTION (error wrapping)", "$": "XGo extension token ENV",
}

var c16SemiDeviation = map[string]string{
	"!":   "XGo's postfix error-wrap operator `expr!` can end a statement, so a newline after `!` inserts a semicolon",
	"...": "XGo inserts a semicolon after `...` outside parentheses (slice/matrix literal syntax `[a...]`)",
}

// semiKeywords: the token names listed in `switch tok { case …: insertSemi = true }` of the identifier arm.
func semiKeywords(pk *packages.Package, fd *ast.FuncDecl) map[string]bool {
	out := map[string]bool{}
	if fd == nil {
		return out
	}
	info := pk.TypesInfo
	ast.Inspect(fd.Body, func(n ast.Node) bool {
		sw, ok := n.(*ast.SwitchStmt)
		if !ok || sw.Tag == nil {
			return true
		}
		if id, ok := sw.Tag.(*ast.Ident); !ok || id.Name != "tok" {
			return true
		}
		for _, s := range sw.Body.List {
			cc := s.(*ast.CaseClause)
			sets := false
			for _, st := range cc.Body {
				if as, ok := st.(*ast.AssignStmt); ok && len(as.Lhs) == 1 {
					if l, ok := as.Lhs[0].(*ast.Ident); ok && l.Name == "insertSemi" {
						sets = true
					}
				}
			}
			if !sets {
				continue
			}
			for _, e := range cc.List {
				if k := constOf(info, e); k != nil {
					out[k.Name()] = true
				}
			}
		}
		return true
	})
	return out
}
