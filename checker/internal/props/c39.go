package props

import (
	"go/ast"
	"go/token"
	"go/types"
	"sort"

	"golang.org/x/tools/go/packages"

	"verif/checker/internal/core"
	"verif/checker/internal/flow"
)

func init() {
	f := "x/jsonrpc2/conn.go"
	register(&Prop{
		ID:        "C39",
		Title:     "Every JSON-RPC call completes exactly once with its own answer",
		Technique: "guarded-by census (state only inside updateInFlight critical sections), closure-summary path analysis on go/cfg (check-then-act atomicity, retire/unregister pairing, must-process), close/blocking censuses over x/jsonrpc2",
		Explanation: "Decides discipline rules that make every state transition of the connection atomic and every completion unique on EVERY schedule: " +
			"(1) fields of inFlightState are touched only inside function literals passed to updateInFlight (or in idle/shuttingDown/updateInFlight, reached only from there), and updateInFlight holds stateMu around f; " +
			"(2) work is added (outgoing call registered, request enqueued) only in a critical section that first obtained a nil shuttingDown result in that same section; " +
			"(3) AsyncCall.retire inside a critical section is paired with removing that call from outgoingCalls in the same section and carries the key it was registered under; outside a critical section retire is reachable only when the call was never registered, and every exit of Call has either registered or retired the call; calls are registered under their own id; " +
			"(4) close(ac.ready) only in retire behind the already-closed test, close(c.done) only in updateInFlight under idle ∧ shuttingDown ∧ ¬reading after the already-done arm returned; " +
			"(5) handleAsync passes every dequeued request to processResult before the next dequeue; processResult on every non-async exit has unregistered a call (before writing), cancelled the request and decremented incoming exactly once; every exit of acceptRequest after incoming++ went through exactly one of processResult / enqueue / async hand-off, and a refused duplicate ID never reaches processResult with that ID; " +
			"(6) nothing inside a critical section blocks (no channel op without default, no write, handler, nested updateInFlight); (7) write returns the writer token on all paths.",
		NotCovered: "liveness of Close under handlers that never return, the behaviour of user Handlers/Preempters/Binders, and fairness of goroutine scheduling.",
		Run:        runC39,
		Controls: []Control{
			{Name: "handler-slot-released-separately", File: "x/jsonrpc2/conn.go", Old: "\t\t\t} else {\n\t\t\t\ts.handlerRunning = false\n\t\t\t}\n\t\t})\n", New: "\t\t\t}\n\t\t})\n\t\tif req == nil {\n\t\t\tc.updateInFlight(func(s *inFlightState) {\n\t\t\t\ts.handlerRunning = false\n\t\t\t})\n\t\t}\n", Expect: "handler-slot/Connection.handleAsync:handlerRunning=false"},
			{Name: "state-outside-cs", File: f, Old: "\tif req == nil {\n\t\treturn c.internalErrorf(\"Request not found for ID %v\", id)\n\t}", New: "\tif req == nil {\n\t\treq = c.state.incomingByID[id]\n\t}\n\tif req == nil {\n\t\treturn c.internalErrorf(\"Request not found for ID %v\", id)\n\t}", Expect: "guarded-by/Connection.Respond"},
			{Name: "split-check-from-register", File: f, Old: "\tc.updateInFlight(func(s *inFlightState) {\n\t\terr = s.shuttingDown(ErrClientClosing)\n\t\tif err != nil {\n\t\t\treturn\n\t\t}\n\t\tif s.outgoingCalls == nil {", New: "\tc.updateInFlight(func(s *inFlightState) {\n\t\terr = s.shuttingDown(ErrClientClosing)\n\t})\n\tif err != nil {\n\t\tac.retire(&Response{ID: id, Error: err})\n\t\treturn ac\n\t}\n\tc.updateInFlight(func(s *inFlightState) {\n\t\tif s.outgoingCalls == nil {", Expect: "check-then-act/Connection.Call:register-outgoing"},
			{Name: "retire-without-delete", File: f, Old: "\t\t\t\t\tdelete(s.outgoingCalls, msg.ID)\n\t\t\t\t\tac.retire(msg)", New: "\t\t\t\t\tac.retire(msg)", Expect: "retire-pairing/Connection.readIncoming"},
			{Name: "sweep-keeps-map", File: f, Old: "\t\ts.outgoingCalls = nil\n", New: "", Expect: "retire-pairing/Connection.readIncoming"},
			{Name: "retire-registered-outside", File: f, Old: "\tif err != nil {\n\t\t// Sending failed. We will never get a response, so deliver a fake one if it\n\t\t// wasn't already retired by the connection breaking.\n", New: "\tif err != nil && ctx.Err() != nil {\n\t\tac.retire(&Response{ID: id, Error: err})\n\t\treturn ac\n\t}\n\tif err != nil {\n", Expect: "retire-outside/Connection.Call"},
			{Name: "register-wrong-key", File: f, Old: "s.outgoingCalls[ac.id] = ac", New: "s.outgoingCalls[id] = ac", Expect: "own-id/Connection.Call:outgoingCalls"},
			{Name: "wrong-response-id", File: f, Old: "ac.retire(&Response{ID: id, Error: err})\n\t\t}\n\t\ts.outgoingCalls = nil", New: "ac.retire(&Response{Error: err})\n\t\t}\n\t\ts.outgoingCalls = nil", Expect: "retire-pairing/Connection.readIncoming"},
			{Name: "done-closed-while-reading", File: f, Old: "\t\tif s.reading {\n\t\t\t// The readIncoming goroutine is still running.", New: "\t\tif s.reading && s.closeErr != nil {\n\t\t\t// The readIncoming goroutine is still running.", Expect: "close-census/Connection.done"},
			{Name: "retire-no-closed-test", File: f, Old: "\tselect {\n\tcase <-ac.ready:\n\t\tpanic(fmt.Sprintf(\"jsonrpc2: retire called twice for ID %v\", ac.id))\n\tdefault:\n\t}\n\n\tac.response = response", New: "\tac.response = response", Expect: "close-census/AsyncCall.ready"},
			{Name: "handleAsync-drops-cancelled", File: f, Old: "\t\t\tc.processResult(\"handleAsync\", req, nil, err)\n\t\t\tcontinue", New: "\t\t\tcontinue", Expect: "must-process/Connection.handleAsync"},
			{Name: "processResult-early-return", File: f, Old: "\t\t} else {\n\t\t\terr = c.internalErrorf(\"%#v returned a malformed result for %q: %w\", from, req.Method, respErr)\n\t\t}", New: "\t\t} else {\n\t\t\treturn c.internalErrorf(\"%#v returned a malformed result for %q: %w\", from, req.Method, respErr)\n\t\t}", Expect: "must-process/Connection.processResult"},
			{Name: "write-before-unregister", File: f, Old: "\t\tc.updateInFlight(func(s *inFlightState) {\n\t\t\tdelete(s.incomingByID, req.ID)\n\t\t})\n\t\tif respErr == nil {\n\t\t\twriteErr := c.write(notDone{req.ctx}, response)\n\t\t\tif err == nil {\n\t\t\t\terr = writeErr\n\t\t\t}\n\t\t}", New: "\t\tif respErr == nil {\n\t\t\twriteErr := c.write(notDone{req.ctx}, response)\n\t\t\tif err == nil {\n\t\t\t\terr = writeErr\n\t\t\t}\n\t\t}\n\t\tc.updateInFlight(func(s *inFlightState) {\n\t\t\tdelete(s.incomingByID, req.ID)\n\t\t})\n\t\tif respErr == nil {\n\t\t}", Expect: "must-process/Connection.processResult"},
			{Name: "duplicate-id-kept", File: f, Old: "\t\t\t\treq.ID = ID{} // Don't misattribute this error to the existing request.\n", New: "", Expect: "incoming-registration/Connection.acceptRequest"},
			{Name: "accept-drops-on-shutdown", File: f, Old: "\t\t}\n\t})\n\tif err != nil {\n\t\tc.processResult(\"acceptRequest\", req, nil, err)\n\t}\n}", New: "\t\t}\n\t})\n}", Expect: "must-process/Connection.acceptRequest"},
			{Name: "write-inside-cs", File: f, Old: "\tc.updateInFlight(func(s *inFlightState) { s.connClosing = true })", New: "\tc.updateInFlight(func(s *inFlightState) { s.connClosing = true; c.write(context.Background(), nil) })", Expect: "no-blocking/Connection.Close"},
			{Name: "token-not-deferred", File: f, Old: "\tdefer func() { c.writer <- writer }()\n\t_, err := writer.Write(ctx, msg)\n", New: "\t_, err := writer.Write(ctx, msg)\n\tif err == nil {\n\t\tc.writer <- writer\n\t\treturn nil\n\t}\n\tdefer func() { c.writer <- writer }()\n", Expect: "writer-token/Connection.write"},
		},
	})
}

// effect / knowledge bits shared by closure summaries and the enclosing function's analysis
const (
	eRegOut flow.State = 1 << iota
	eDelOut
	eRetire
	eEnq
	eIncr
	eDecr
	eRegIn
	eDelIn
	eDequeue
	eIDCleared
	eShutNil // shuttingDown was called and its result is known nil on this path, in this critical section
	kErrNil
	kErrNonNil
	kErrIsShut // the tracked error variable currently holds a shuttingDown result
	kIsCall
	kNotCall
	kAsync // errors.Is(err, ErrAsyncResponse) / case ErrAsyncResponse taken
	oProcessed
	oProcessedTwice
	oRetiredOutside
	oPending // a non-nil request was dequeued and not yet processed
	oLost
	oCancelled
	oWrote
	oWroteBeforeDel
	oBadAct // a work-adding mutation without a nil shuttingDown result in the same section
	oDecrTwice
)

const effectMask = eRegOut | eDelOut | eRetire | eEnq | eIncr | eDecr | eRegIn | eDelIn | eDequeue | eIDCleared | oBadAct | kIsCall | kNotCall

type c39 struct {
	c        *core.Check
	pk       *packages.Package
	info     *types.Info
	state    *types.Named // inFlightState
	conn     *types.Named
	fld      map[string]*types.Var
	upd      types.Object // (*Connection).updateInFlight
	shut     types.Object
	idle     types.Object
	proc     types.Object
	write    types.Object
	errAsync types.Object
}

func (a *c39) fieldOf(e ast.Expr) *types.Var {
	sel, ok := ast.Unparen(e).(*ast.SelectorExpr)
	if !ok {
		return nil
	}
	if s := a.info.Selections[sel]; s != nil {
		v, _ := s.Obj().(*types.Var)
		return v
	}
	return nil
}

func (a *c39) isStateField(v *types.Var) bool {
	if v == nil {
		return false
	}
	st := a.state.Underlying().(*types.Struct)
	for i := 0; i < st.NumFields(); i++ {
		if st.Field(i) == v {
			return true
		}
	}
	return false
}

// csLit returns the function literal when call is updateInFlight(func…).
func (a *c39) csLit(call *ast.CallExpr) *ast.FuncLit {
	if calleeObj(a.info, call) != a.upd || len(call.Args) != 1 {
		return nil
	}
	fl, _ := ast.Unparen(call.Args[0]).(*ast.FuncLit)
	return fl
}

// capturedErr finds the error-typed variable of the enclosing function that a literal assigns.
func (a *c39) capturedErr(fl *ast.FuncLit) types.Object {
	var out types.Object
	ast.Inspect(fl.Body, func(n ast.Node) bool {
		as, ok := n.(*ast.AssignStmt)
		if !ok || as.Tok != token.ASSIGN {
			return true
		}
		for _, l := range as.Lhs {
			if o := identObj(a.info, l); o != nil && o.Type().String() == "error" && !(fl.Pos() <= o.Pos() && o.Pos() < fl.End()) {
				out = o
			}
		}
		return true
	})
	return out
}

// transfer applies the effects of one CFG node (shared by literals and outer functions).
func (a *c39) transfer(n ast.Node, st flow.State, errVar types.Object, inCS bool) flow.State {
	if _, isDefer := n.(*ast.DeferStmt); isDefer {
		return st
	}
	if _, isGo := n.(*ast.GoStmt); isGo {
		return st
	}
	for _, call := range flow.Calls(n) {
		callee := calleeObj(a.info, call)
		switch {
		case callee == a.proc && callee != nil:
			if st&oProcessed != 0 {
				st |= oProcessedTwice
			}
			st |= oProcessed
			st &^= oPending
		case callee == a.write && callee != nil:
			st |= oWrote
			if st&kIsCall != 0 && st&eDelIn == 0 {
				st |= oWroteBeforeDel
			}
		default:
			if id, ok := call.Fun.(*ast.Ident); ok && id.Name == "delete" && len(call.Args) == 2 {
				switch a.fieldOf(call.Args[0]) {
				case a.fld["outgoingCalls"]:
					st |= eDelOut
				case a.fld["incomingByID"]:
					st |= eDelIn
				}
			}
			if sel, ok := call.Fun.(*ast.SelectorExpr); ok {
				if fn, ok := callee.(*types.Func); ok && fn.Name() == "retire" && core.FuncObjName(fn) == "AsyncCall.retire" {
					st |= eRetire
					if !inCS {
						st |= oRetiredOutside
					}
				}
				if sel.Sel.Name == "cancel" && a.fieldOf(call.Fun) != nil {
					st |= oCancelled
				}
			}
		}
	}
	switch s := n.(type) {
	case *ast.IncDecStmt:
		if a.fieldOf(s.X) == a.fld["incoming"] {
			if s.Tok == token.INC {
				st |= eIncr
			} else {
				if st&eDecr != 0 {
					st |= oDecrTwice
				}
				st |= eDecr
			}
		}
	case *ast.AssignStmt:
		for i, l := range s.Lhs {
			if ix, ok := ast.Unparen(l).(*ast.IndexExpr); ok {
				switch a.fieldOf(ix.X) {
				case a.fld["outgoingCalls"]:
					st |= eRegOut
					if st&eShutNil == 0 {
						st |= oBadAct
					}
				case a.fld["incomingByID"]:
					st |= eRegIn
				}
			}
			if a.fieldOf(l) == a.fld["handlerQueue"] && i < len(s.Rhs) {
				if call, ok := ast.Unparen(s.Rhs[i]).(*ast.CallExpr); ok {
					if id, ok := call.Fun.(*ast.Ident); ok && id.Name == "append" {
						st |= eEnq
						if st&eShutNil == 0 {
							st |= oBadAct
						}
					}
				} else {
					st |= eDequeue
				}
			}
			// req.ID = ID{}
			if sel, ok := ast.Unparen(l).(*ast.SelectorExpr); ok && sel.Sel.Name == "ID" && i < len(s.Rhs) {
				if cl, ok := ast.Unparen(s.Rhs[i]).(*ast.CompositeLit); ok && len(cl.Elts) == 0 {
					st |= eIDCleared | kNotCall // an empty ID makes IsCall() false from here on
					st &^= kIsCall
				}
			}
			if errVar != nil && identObj(a.info, l) == errVar {
				st &^= kErrNil | kErrNonNil | kErrIsShut
				if len(s.Rhs) == len(s.Lhs) {
					if call, ok := ast.Unparen(s.Rhs[i]).(*ast.CallExpr); ok && calleeObj(a.info, call) == a.shut && a.shut != nil && inCS {
						st |= kErrIsShut
					}
				}
			}
		}
	}
	return st
}

func (a *c39) edge(cond ast.Expr, truth bool, st flow.State, errVar types.Object, reqVar types.Object) (flow.State, bool) {
	e := ast.Unparen(cond)
	// !x
	if u, ok := e.(*ast.UnaryExpr); ok && u.Op == token.NOT {
		return a.edge(u.X, !truth, st, errVar, reqVar)
	}
	if be, ok := e.(*ast.BinaryExpr); ok {
		switch be.Op {
		case token.LAND:
			if truth {
				s1, ok1 := a.edge(be.X, true, st, errVar, reqVar)
				if !ok1 {
					return st, false
				}
				return a.edge(be.Y, true, s1, errVar, reqVar)
			}
			return st, true
		case token.LOR:
			if !truth {
				s1, ok1 := a.edge(be.X, false, st, errVar, reqVar)
				if !ok1 {
					return st, false
				}
				return a.edge(be.Y, false, s1, errVar, reqVar)
			}
			return st, true
		}
	}
	if x, nonNilOnTrue, ok := flow.NilTest(e); ok {
		o := identObj(a.info, x)
		nonNil := truth == nonNilOnTrue
		if errVar != nil && o == errVar {
			if nonNil {
				if st&kErrNil != 0 {
					return st, false
				}
				return st | kErrNonNil, true
			}
			if st&kErrNonNil != 0 {
				return st, false
			}
			st |= kErrNil
			if st&kErrIsShut != 0 {
				st |= eShutNil
			}
			return st, true
		}
		if reqVar != nil && o == reqVar {
			if nonNil {
				if st&oPending == 0 {
					return st, false
				}
			} else if st&oPending != 0 {
				return st, false
			}
			return st, true
		}
	}
	if call, ok := e.(*ast.CallExpr); ok {
		if sel, ok := call.Fun.(*ast.SelectorExpr); ok && sel.Sel.Name == "IsCall" {
			if truth {
				if st&kNotCall != 0 {
					return st, false
				}
				return st | kIsCall, true
			}
			if st&kIsCall != 0 {
				return st, false
			}
			return st | kNotCall, true
		}
		if fn, ok := calleeObj(a.info, call).(*types.Func); ok && fn.Pkg() != nil && fn.Pkg().Path() == "errors" && fn.Name() == "Is" && len(call.Args) == 2 {
			if identObj(a.info, call.Args[1]) == a.errAsync && truth {
				return st | kAsync, true
			}
		}
	}
	// switch err { case ErrAsyncResponse: … } — go/cfg puts the case expression itself on the edge
	if identObj(a.info, e) == a.errAsync && a.errAsync != nil && truth {
		return st | kAsync, true
	}
	return st, true
}

// summarize analyses one critical-section literal; returns the exit states (effects + knowledge about errVar).
func (a *c39) summarize(fl *ast.FuncLit, errVar types.Object) []flow.State {
	p := &flow.Problem{Body: fl.Body, Info: a.info}
	p.Node = func(n ast.Node, st flow.State, record bool) flow.State { return a.transfer(n, st, errVar, true) }
	p.Edge = func(cond ast.Expr, truth bool, st flow.State) (flow.State, bool) {
		return a.edge(cond, truth, st, errVar, nil)
	}
	res := flow.Solve(p)
	a.c.AddAnalysed("cfg_blocks", res.Blocks)
	seen := map[flow.State]bool{}
	var out []flow.State
	for _, e := range res.Exits {
		s := e.State & (effectMask | kErrNil | kErrNonNil | eShutNil)
		if !seen[s] {
			seen[s] = true
			out = append(out, s)
		}
	}
	sort.Slice(out, func(i, j int) bool { return out[i] < out[j] })
	return out
}

// solveOuter analyses a function, expanding updateInFlight(func…) calls through their summaries.
func (a *c39) solveOuter(fd *ast.FuncDecl, errVar, reqVar types.Object, observe func(n ast.Node, call *ast.CallExpr, st flow.State)) *flow.Result {
	sums := map[*ast.FuncLit][]flow.State{}
	assigns := map[*ast.FuncLit]bool{}
	p := &flow.Problem{Body: fd.Body, Info: a.info}
	p.Multi = func(n ast.Node, st flow.State, record bool) []flow.State {
		if _, isDefer := n.(*ast.DeferStmt); isDefer {
			return []flow.State{st}
		}
		cur := []flow.State{st}
		for _, call := range flow.Calls(n) {
			fl := a.csLit(call)
			if fl == nil {
				if record && observe != nil {
					for _, s := range cur {
						observe(n, call, s)
					}
				}
				continue
			}
			if _, ok := sums[fl]; !ok {
				sums[fl] = a.summarize(fl, errVar)
				assigns[fl] = errVar != nil && a.capturedErr(fl) == errVar
			}
			var next []flow.State
			for _, s := range cur {
				for _, sum := range sums[fl] {
					o := s
					if assigns[fl] {
						o &^= kErrNil | kErrNonNil | kErrIsShut
						o |= sum & (kErrNil | kErrNonNil)
					}
					if sum&eDecr != 0 && o&eDecr != 0 {
						o |= oDecrTwice
					}
					o |= sum & effectMask
					if sum&eDequeue != 0 {
						if o&oPending != 0 {
							o |= oLost
						}
						o |= oPending
					}
					next = append(next, o)
				}
			}
			cur = next
		}
		for i := range cur {
			cur[i] = a.transfer(n, cur[i], errVar, false)
		}
		return cur
	}
	p.Edge = func(cond ast.Expr, truth bool, st flow.State) (flow.State, bool) {
		return a.edge(cond, truth, st, errVar, reqVar)
	}
	res := flow.Solve(p)
	a.c.AddAnalysed("cfg_blocks", res.Blocks)
	a.c.AddAnalysed("functions", 1)
	if res.Overflow {
		a.c.Undecided("shape", core.FuncName(fd), fd.Pos(), "state space overflow")
	}
	return res
}

func runC39(c *core.Check) {
	prog := c.Load("./x/jsonrpc2")
	pk := prog.Pkg("./x/jsonrpc2")
	if pk == nil {
		return
	}
	deadStateRule(c, pk) // no unexported field is read without a writer (a cache flag never set, a saved value never saved)
	c39HandlerSlot(c, pk)
	c.Trust("golang.org/x/tools@v0.29.0 go/cfg", "sync.Mutex semantics")
	a := &c39{c: c, pk: pk, info: pk.TypesInfo, fld: map[string]*types.Var{}}
	a.state = prog.NamedType("./x/jsonrpc2", "inFlightState")
	a.conn = prog.NamedType("./x/jsonrpc2", "Connection")
	async := prog.NamedType("./x/jsonrpc2", "AsyncCall")
	if a.state == nil || a.conn == nil || async == nil {
		return
	}
	for _, n := range []string{"outgoingCalls", "incoming", "incomingByID", "handlerQueue", "handlerRunning", "reading", "connClosing"} {
		a.fld[n] = fieldVar(a.state, n)
		if a.fld[n] == nil {
			c.Bad("anchor", "inFlightState."+n, a.state.Obj().Pos(), "anchor field not found")
			return
		}
	}
	fState, fDone, fStateMu, fWriter := fieldVar(a.conn, "state"), fieldVar(a.conn, "done"), fieldVar(a.conn, "stateMu"), fieldVar(a.conn, "writer")
	fReady := fieldVar(async, "ready")
	a.upd, a.proc, a.write = findMethod(a.conn, "updateInFlight"), findMethod(a.conn, "processResult"), findMethod(a.conn, "write")
	a.shut, a.idle = findMethod(a.state, "shuttingDown"), findMethod(a.state, "idle")
	a.errAsync = pk.Types.Scope().Lookup("ErrAsyncResponse")
	if fState == nil || fDone == nil || fStateMu == nil || fWriter == nil || fReady == nil || a.upd == nil || a.proc == nil || a.write == nil || a.shut == nil || a.idle == nil || a.errAsync == nil {
		c.Bad("anchor", "Connection/inFlightState members", a.conn.Obj().Pos(), "anchor fields or methods not found (state, done, stateMu, writer, ready, updateInFlight, processResult, write, shuttingDown, idle, ErrAsyncResponse)")
		return
	}
	info := a.info

	// ---------- (1) guarded-by
	c.Floor("guarded-by", 10)
	c.Floor("critical-sections", 14)
	nCS := 0
	exemptFns := map[string]bool{"Connection.updateInFlight": true, "inFlightState.idle": true, "inFlightState.shuttingDown": true}
	for _, fd := range core.AllFuncDecls(pk) {
		name := core.FuncName(fd)
		par := parentMap(fd)
		var bad []token.Pos
		n := 0
		ast.Inspect(fd.Body, func(m ast.Node) bool {
			if call, ok := m.(*ast.CallExpr); ok && a.csLit(call) != nil {
				nCS++
			}
			sel, ok := m.(*ast.SelectorExpr)
			if !ok {
				return true
			}
			v := a.fieldOf(sel)
			if !(a.isStateField(v) || v == fState) {
				return true
			}
			n++
			if exemptFns[name] {
				return true
			}
			inCS := false
			for p := par[m]; p != nil; p = par[p] {
				if fl, ok := p.(*ast.FuncLit); ok {
					if call, ok := par[fl].(*ast.CallExpr); ok && a.csLit(call) == fl {
						inCS = true
					}
					break
				}
			}
			if !inCS {
				bad = append(bad, sel.Pos())
			}
			return true
		})
		if n == 0 {
			continue
		}
		if len(bad) > 0 {
			c.Bad("guarded-by", name, bad[0], core.Sprintf("%d access(es) to the connection's in-flight state outside a function literal passed to updateInFlight: the read/write races with every other transition (lost or duplicated completion)", len(bad)))
		} else {
			c.Ok("guarded-by", name, fd.Pos(), core.Sprintf("%d state accesses, all inside critical sections", n))
		}
	}
	c.Analysed("critical_sections", nCS)
	for i := 0; i < nCS; i++ {
		c.Ok("critical-sections", core.Sprintf("#%d", i+1), token.NoPos, "")
	}
	// idle / shuttingDown are called only from critical sections or updateInFlight
	for _, m := range []types.Object{a.idle, a.shut} {
		for _, f := range pk.Syntax {
			par := parentMap(f)
			ast.Inspect(f, func(n ast.Node) bool {
				call, ok := n.(*ast.CallExpr)
				if !ok || calleeObj(info, call) != m {
					return true
				}
				okSite := false
				for p := par[n]; p != nil; p = par[p] {
					switch x := p.(type) {
					case *ast.FuncLit:
						if pc, ok := par[x].(*ast.CallExpr); ok && a.csLit(pc) == x {
							okSite = true
						}
						p = nil
					case *ast.FuncDecl:
						if exemptFns[core.FuncName(x)] {
							okSite = true
						}
					}
					if p == nil {
						break
					}
				}
				if !okSite {
					c.Bad("guarded-by", "call:"+m.Name(), call.Pos(), "inFlightState."+m.Name()+" reads the shared state and is called outside a critical section")
				}
				return true
			})
		}
	}
	// updateInFlight: Lock, deferred Unlock, then f(s)
	if ufd := prog.FuncDecl("./x/jsonrpc2", "Connection.updateInFlight"); ufd != nil {
		spec := &lockSpec{pk: pk, mutex: fStateMu}
		lockFirst, deferred := false, false
		var fcall token.Pos
		fparam := paramObj(ufd, info, 0)
		for _, s := range ufd.Body.List {
			switch x := s.(type) {
			case *ast.ExprStmt:
				if call, ok := x.X.(*ast.CallExpr); ok {
					if spec.mutexOp(call) == "lock" && !fcall.IsValid() {
						lockFirst = true
					}
					if identObj(info, call.Fun) == fparam && fparam != nil && !fcall.IsValid() {
						fcall = call.Pos()
						if !(lockFirst && deferred) {
							lockFirst = false
						}
					}
				}
			case *ast.DeferStmt:
				if spec.mutexOp(x.Call) == "unlock" && !fcall.IsValid() {
					deferred = true
				}
			}
		}
		c.Decide(lockFirst && deferred && fcall.IsValid(), "guarded-by", "updateInFlight:holds-stateMu", ufd.Pos(), "stateMu.Lock(); defer stateMu.Unlock(); f(s)",
			"updateInFlight does not call f with stateMu locked and a deferred unlock: critical sections are no longer mutually exclusive")

		// ---------- (4b) close(c.done)
		const (
			dIdleShut flow.State = 1 << iota
			dNotReading
		)
		var doneCloses []flow.State
		var donePos token.Pos
		p := &flow.Problem{Body: ufd.Body, Info: info}
		p.Node = func(n ast.Node, st flow.State, record bool) flow.State {
			for _, call := range flow.Calls(n) {
				if id, ok := call.Fun.(*ast.Ident); ok && id.Name == "close" && len(call.Args) == 1 && a.fieldOf(call.Args[0]) == fDone && record {
					doneCloses = append(doneCloses, st)
					donePos = call.Pos()
				}
			}
			return st
		}
		p.Edge = func(cond ast.Expr, truth bool, st flow.State) (flow.State, bool) {
			e := ast.Unparen(cond)
			if be, ok := e.(*ast.BinaryExpr); ok && be.Op == token.LAND && truth {
				hasIdle, hasShut := false, false
				ast.Inspect(be, func(n ast.Node) bool {
					if call, ok := n.(*ast.CallExpr); ok {
						switch calleeObj(info, call) {
						case a.idle:
							hasIdle = true
						case a.shut:
							hasShut = true
						}
					}
					return true
				})
				// idle() && shuttingDown(…) != nil
				x, nonNilOnTrue, isNil := flow.NilTest(be.Y)
				shutNonNil := false
				if isNil && nonNilOnTrue {
					if call, ok := ast.Unparen(x).(*ast.CallExpr); ok && calleeObj(info, call) == a.shut {
						shutNonNil = true
					}
				}
				idleLeft := false
				if call, ok := ast.Unparen(be.X).(*ast.CallExpr); ok && calleeObj(info, call) == a.idle {
					idleLeft = true
				}
				if hasIdle && hasShut && shutNonNil && idleLeft {
					st |= dIdleShut
				}
			}
			if a.fieldOf(e) == a.fld["reading"] && !truth {
				st |= dNotReading
			}
			return st, true
		}
		flow.Solve(p)
		okDone := len(doneCloses) > 0
		for _, s := range doneCloses {
			if s&dIdleShut == 0 || s&dNotReading == 0 {
				okDone = false
			}
		}
		// the already-done arm must return
		armReturns := false
		ast.Inspect(ufd.Body, func(n ast.Node) bool {
			cc, ok := n.(*ast.CommClause)
			if !ok || cc.Comm == nil {
				return true
			}
			isDone := false
			ast.Inspect(cc.Comm, func(k ast.Node) bool {
				if u, ok := k.(*ast.UnaryExpr); ok && u.Op == token.ARROW && a.fieldOf(u.X) == fDone {
					isDone = true
				}
				return true
			})
			if isDone && len(cc.Body) > 0 {
				if _, ok := cc.Body[len(cc.Body)-1].(*ast.ReturnStmt); ok {
					armReturns = true
				}
			}
			return true
		})
		c.Decide(okDone && armReturns, "close-census", "Connection.done", donePos, "closed only under idle() && shuttingDown()!=nil && !reading, after the already-done arm returned",
			"close(c.done) must be reachable only when idle() && shuttingDown(…) != nil hold and the reader has exited (!s.reading), and the `case <-c.done` arm must return first: otherwise Close/Wait return while work is in flight, or done is closed twice (panic)")
	}
	// every close() of ready/done in the package
	for _, fd := range core.AllFuncDecls(pk) {
		name := core.FuncName(fd)
		ast.Inspect(fd.Body, func(n ast.Node) bool {
			call, ok := n.(*ast.CallExpr)
			if !ok || len(call.Args) != 1 {
				return true
			}
			id, ok := call.Fun.(*ast.Ident)
			if !ok || id.Name != "close" {
				return true
			}
			switch a.fieldOf(call.Args[0]) {
			case fDone:
				if name != "Connection.updateInFlight" {
					c.Bad("close-census", "Connection.done@"+name, call.Pos(), "c.done is closed outside updateInFlight")
				}
			case fReady:
				if name != "AsyncCall.retire" {
					c.Bad("close-census", "AsyncCall.ready@"+name, call.Pos(), "ac.ready is closed outside retire: a call could complete twice or without a response")
				}
			}
			return true
		})
	}
	if rfd := prog.FuncDecl("./x/jsonrpc2", "AsyncCall.retire"); rfd != nil {
		// select { case <-ac.ready: panic; default: } must precede close(ac.ready); response assigned before the close
		guardPos, assignPos, closePos := token.NoPos, token.NoPos, token.NoPos
		for _, s := range rfd.Body.List {
			switch x := s.(type) {
			case *ast.SelectStmt:
				hasReadyPanic, hasDefault := false, false
				for _, cs := range x.Body.List {
					cc := cs.(*ast.CommClause)
					if cc.Comm == nil {
						hasDefault = true
						continue
					}
					isReady := false
					ast.Inspect(cc.Comm, func(k ast.Node) bool {
						if u, ok := k.(*ast.UnaryExpr); ok && u.Op == token.ARROW && a.fieldOf(u.X) == fReady {
							isReady = true
						}
						return true
					})
					if isReady && len(cc.Body) > 0 {
						if es, ok := cc.Body[len(cc.Body)-1].(*ast.ExprStmt); ok {
							if call, ok := es.X.(*ast.CallExpr); ok && !flow.MayReturn(info)(call) {
								hasReadyPanic = true
							}
						}
					}
				}
				if hasReadyPanic && hasDefault {
					guardPos = x.Pos()
				}
			case *ast.AssignStmt:
				if len(x.Lhs) == 1 {
					if v := a.fieldOf(x.Lhs[0]); v != nil && v.Name() == "response" {
						assignPos = x.Pos()
					}
				}
			case *ast.ExprStmt:
				if call, ok := x.X.(*ast.CallExpr); ok {
					if id, ok := call.Fun.(*ast.Ident); ok && id.Name == "close" && len(call.Args) == 1 && a.fieldOf(call.Args[0]) == fReady {
						closePos = x.Pos()
					}
				}
			}
		}
		good := guardPos.IsValid() && assignPos.IsValid() && closePos.IsValid() && guardPos < assignPos && assignPos < closePos
		c.Decide(good, "close-census", "AsyncCall.ready", rfd.Pos(), "already-closed test (panics) → response stored → close(ready)",
			"retire must test `<-ac.ready` (already retired ⇒ panic) before storing the response and closing ready, in that order: otherwise a second completion silently overwrites the first, or Await wakes before the response is stored")
	}

	// ---------- (2)(3) per-function closure analyses
	// registered under own id
	for _, fd := range core.AllFuncDecls(pk) {
		ast.Inspect(fd.Body, func(n ast.Node) bool {
			as, ok := n.(*ast.AssignStmt)
			if !ok || len(as.Lhs) != 1 || len(as.Rhs) != 1 {
				return true
			}
			ix, ok := ast.Unparen(as.Lhs[0]).(*ast.IndexExpr)
			if !ok {
				return true
			}
			switch a.fieldOf(ix.X) {
			case a.fld["outgoingCalls"]:
				ksel, ok := ast.Unparen(ix.Index).(*ast.SelectorExpr)
				good := ok && ksel.Sel.Name == "id" && identObj(info, ksel.X) != nil && identObj(info, ksel.X) == identObj(info, as.Rhs[0])
				c.Decide(good, "own-id", core.FuncName(fd)+":outgoingCalls", as.Pos(), "registered under the call's own id", "an outgoing call is registered under a key that is not its own id field: the response for that id would complete a different call")
			case a.fld["incomingByID"]:
				ksel, ok := ast.Unparen(ix.Index).(*ast.SelectorExpr)
				good := ok && ksel.Sel.Name == "ID" && identObj(info, ksel.X) != nil && identObj(info, ksel.X) == identObj(info, as.Rhs[0])
				c.Decide(good, "own-id", core.FuncName(fd)+":incomingByID", as.Pos(), "registered under the request's own ID", "an incoming request is registered under a key that is not its own ID")
			}
			return true
		})
	}
	c.Floor("own-id", 2)

	// Call
	if fd := prog.FuncDecl("./x/jsonrpc2", "Connection.Call"); fd != nil {
		errVar := a.outerErrVar(fd)
		var retireStates []flow.State
		var retirePos token.Pos
		res := a.solveOuter(fd, errVar, nil, func(n ast.Node, call *ast.CallExpr, st flow.State) {
			if fn, ok := calleeObj(info, call).(*types.Func); ok && core.FuncObjName(fn) == "AsyncCall.retire" {
				retireStates = append(retireStates, st)
				retirePos = call.Pos()
			}
		})
		bad := false
		for _, s := range retireStates {
			if s&eRegOut != 0 {
				bad = true
			}
		}
		c.Decide(!bad && len(retireStates) > 0, "retire-outside", "Connection.Call", retirePos, "retire outside a critical section is reachable only when the call was never registered",
			"ac.retire is reachable outside a critical section on a path where the call is (or may be) registered in outgoingCalls: the reader can retire it too (double completion panics) — unregister and retire must be one critical section")
		act, leak := false, false
		var leakPos token.Pos
		for _, e := range res.Exits {
			if e.State&oBadAct != 0 {
				act = true
			}
			if e.State&eRegOut == 0 && e.State&(oRetiredOutside|eRetire) == 0 {
				leak = true
				leakPos = e.Pos
			}
		}
		c.Decide(!act, "check-then-act", "Connection.Call:register-outgoing", fd.Pos(), "the call is registered only in a critical section that first saw shuttingDown()==nil",
			"an outgoing call is inserted into outgoingCalls in a critical section that did not itself obtain a nil shuttingDown result: Close or a read error can slip between the check and the registration; the call is then never retired (Await hangs) or re-opens a finished connection (panic)")
		c.Decide(!leak, "retire-or-register", "Connection.Call", leakPos, "every exit has registered or retired the call", "an exit of Call returns an AsyncCall that is neither registered nor retired: Await on it never returns")
	}
	// Notify: counter incremented and decremented in pairs
	if fd := prog.FuncDecl("./x/jsonrpc2", "Connection.Notify"); fd != nil {
		inc, dec := 0, 0
		deferDec := false
		ast.Inspect(fd.Body, func(n ast.Node) bool {
			switch x := n.(type) {
			case *ast.IncDecStmt:
				if v := a.fieldOf(x.X); v != nil && v.Name() == "outgoingNotifications" {
					if x.Tok == token.INC {
						inc++
					} else {
						dec++
					}
				}
			case *ast.DeferStmt:
				ast.Inspect(x, func(k ast.Node) bool {
					if id, ok := k.(*ast.IncDecStmt); ok && id.Tok == token.DEC {
						if v := a.fieldOf(id.X); v != nil && v.Name() == "outgoingNotifications" {
							deferDec = true
						}
					}
					return true
				})
			}
			return true
		})
		c.Decide(inc == 1 && dec == 1 && deferDec, "counter-pairing", "Connection.Notify", fd.Pos(), "outgoingNotifications++ is matched by a deferred --", "outgoingNotifications is not incremented once and decremented once in a deferred critical section: the connection never becomes idle (Close hangs) or becomes idle too early")
	}

	// retire pairing inside critical sections (AST shape)
	c.Floor("retire-pairing", 2)
	for _, fd := range core.AllFuncDecls(pk) {
		a.checkRetirePairing(fd)
	}

	// ---------- (5) must-process
	if fd := prog.FuncDecl("./x/jsonrpc2", "Connection.handleAsync"); fd != nil {
		var reqVar types.Object
		ast.Inspect(fd.Body, func(n ast.Node) bool {
			if vs, ok := n.(*ast.ValueSpec); ok && len(vs.Names) == 1 && vs.Names[0].Name == "req" {
				reqVar = info.Defs[vs.Names[0]]
			}
			return true
		})
		res := a.solveOuter(fd, nil, reqVar, nil)
		bad := false
		var pos token.Pos = fd.Pos()
		for _, e := range res.Exits {
			if e.State&(oLost|oPending) != 0 {
				bad = true
				pos = e.Pos
			}
		}
		// oLost is only visible at exits if it is sticky: it is; but a loop without exit on that path needs the recording pass
		lost := a.anyState(fd, nil, reqVar, oLost)
		c.Decide(!bad && !lost && reqVar != nil, "must-process", "Connection.handleAsync", pos, "every dequeued request reaches processResult before the next dequeue or exit",
			"a request taken from the handler queue can reach the next loop iteration or an exit without processResult: its incoming count is never released (Close hangs) and a call gets no answer")
	}
	if fd := prog.FuncDecl("./x/jsonrpc2", "Connection.processResult"); fd != nil {
		errParam := paramObj(fd, info, 3)
		res := a.solveOuter(fd, errParam, nil, nil)
		bad, why := false, ""
		var pos token.Pos = fd.Pos()
		n := 0
		for _, e := range res.Exits {
			if e.State&kAsync != 0 {
				continue
			}
			n++
			switch {
			case e.State&eDecr == 0:
				bad, why, pos = true, "incoming is not decremented", e.Pos
			case e.State&oDecrTwice != 0:
				bad, why, pos = true, "incoming is decremented twice", e.Pos
			case e.State&oCancelled == 0:
				bad, why, pos = true, "req.cancel() is not called", e.Pos
			case e.State&kIsCall != 0 && e.State&eDelIn == 0:
				bad, why, pos = true, "a call is not removed from incomingByID", e.Pos
			case e.State&oWroteBeforeDel != 0:
				bad, why, pos = true, "the response is written before the call is removed from incomingByID (the peer may reuse the ID at once)", e.Pos
			}
		}
		c.Decide(!bad && n > 0, "must-process", "Connection.processResult", pos, core.Sprintf("%d non-async exit states: unregister-before-write, cancel, incoming-- exactly once", n),
			"on a non-async exit of processResult "+why+": the request stays in flight forever (Close never returns) or is answered/accounted twice")
	}
	if fd := prog.FuncDecl("./x/jsonrpc2", "Connection.acceptRequest"); fd != nil {
		errVar := a.outerErrVar(fd)
		res := a.solveOuter(fd, errVar, nil, nil)
		bad, why := false, ""
		var pos token.Pos = fd.Pos()
		regBad := false
		for _, e := range res.Exits {
			if e.State&eIncr == 0 {
				continue
			}
			k := 0
			if e.State&oProcessed != 0 {
				k++
			}
			if e.State&eEnq != 0 {
				k++
			}
			if e.State&kAsync != 0 && e.State&oProcessed == 0 && e.State&eEnq == 0 {
				k++
			}
			if k != 1 || e.State&oProcessedTwice != 0 {
				bad, pos = true, e.Pos
				why = core.Sprintf("(processed=%v enqueued=%v async=%v twice=%v)", e.State&oProcessed != 0, e.State&eEnq != 0, e.State&kAsync != 0, e.State&oProcessedTwice != 0)
			}
			if e.State&oBadAct != 0 {
				bad, pos, why = true, e.Pos, "(enqueued without a nil shuttingDown result in the same critical section)"
			}
			if e.State&oProcessed != 0 && e.State&kIsCall != 0 && e.State&eRegIn == 0 && e.State&eIDCleared == 0 {
				regBad = true
			}
		}
		c.Decide(!bad, "must-process", "Connection.acceptRequest", pos, "after incoming++ every exit went through exactly one of processResult / enqueue / async hand-off",
			"an exit of acceptRequest after incoming++ did not go through exactly one of processResult, enqueue or the ErrAsyncResponse hand-off "+why+": the request is dropped (its count never released, no answer) or answered twice")
		c.Decide(!regBad, "incoming-registration", "Connection.acceptRequest", fd.Pos(), "a call that was refused registration reaches processResult only with its ID cleared",
			"a call that was NOT registered in incomingByID (duplicate ID) reaches processResult with that ID intact: processResult answers under, and unregisters, the ORIGINAL in-flight request — it is answered twice and can no longer be responded to or cancelled")
	}

	// ---------- (6) no blocking inside critical sections
	c.Floor("no-blocking", 14)
	for _, fd := range core.AllFuncDecls(pk) {
		name := core.FuncName(fd)
		ast.Inspect(fd.Body, func(n ast.Node) bool {
			call, ok := n.(*ast.CallExpr)
			if !ok {
				return true
			}
			fl := a.csLit(call)
			if fl == nil {
				return true
			}
			par := parentMap(fl)
			why := ""
			ast.Inspect(fl.Body, func(m ast.Node) bool {
				switch x := m.(type) {
				case *ast.GoStmt:
					return false
				case *ast.SendStmt:
					why = "channel send"
				case *ast.UnaryExpr:
					if x.Op == token.ARROW {
						// allowed in a select with default
						okSel := false
						for p := par[m]; p != nil; p = par[p] {
							if ss, ok := p.(*ast.SelectStmt); ok {
								for _, cs := range ss.Body.List {
									if cs.(*ast.CommClause).Comm == nil {
										okSel = true
									}
								}
								break
							}
						}
						if !okSel {
							why = "blocking channel receive"
						}
					}
				case *ast.CallExpr:
					switch calleeObj(info, x) {
					case a.upd:
						why = "nested updateInFlight (self-deadlock on stateMu)"
					case a.write:
						why = "c.write (waits for the writer token and the peer)"
					case a.proc:
						why = "processResult (re-enters updateInFlight)"
					}
					if fn, ok := calleeObj(info, x).(*types.Func); ok {
						switch core.FuncObjName(fn) {
						case "Handler.Handle", "Preempter.Preempt", "Binder.Bind", "Connection.Wait", "Connection.Close", "AsyncCall.Await", "Writer.Write", "Reader.Read":
							why = core.FuncObjName(fn)
						}
					}
				}
				return true
			})
			if why != "" {
				c.Bad("no-blocking", name, call.Pos(), "a critical section contains a blocking operation: "+why+" — every other transition of the connection (including Close) stalls behind it")
			} else {
				c.Ok("no-blocking", name+core.Sprintf("@%d", a.csIndex(fd, call)), call.Pos(), "")
			}
			return true
		})
	}

	// ---------- (7) writer token
	if fd := prog.FuncDecl("./x/jsonrpc2", "Connection.write"); fd != nil {
		good := false
		if len(fd.Body.List) >= 2 {
			var tok types.Object
			if as, ok := fd.Body.List[0].(*ast.AssignStmt); ok && len(as.Lhs) == 1 && len(as.Rhs) == 1 {
				if u, ok := ast.Unparen(as.Rhs[0]).(*ast.UnaryExpr); ok && u.Op == token.ARROW && a.fieldOf(u.X) == fWriter {
					tok = identObj(info, as.Lhs[0])
				}
			}
			if ds, ok := fd.Body.List[1].(*ast.DeferStmt); ok && tok != nil {
				ast.Inspect(ds, func(n ast.Node) bool {
					if s, ok := n.(*ast.SendStmt); ok && a.fieldOf(s.Chan) == fWriter && identObj(info, s.Value) == tok {
						good = true
					}
					return true
				})
			}
		}
		c.Decide(good, "writer-token", "Connection.write", fd.Pos(), "the writer token is taken first and its return is deferred immediately",
			"write does not take the writer token and immediately defer putting it back: a path (or panic) that keeps the token blocks every later write, so responses are never sent and Close hangs")
	}
}

// outerErrVar picks the error variable of fd that critical-section literals assign.
func (a *c39) outerErrVar(fd *ast.FuncDecl) types.Object {
	var out types.Object
	ast.Inspect(fd.Body, func(n ast.Node) bool {
		if call, ok := n.(*ast.CallExpr); ok {
			if fl := a.csLit(call); fl != nil {
				if o := a.capturedErr(fl); o != nil {
					out = o
				}
			}
		}
		return true
	})
	return out
}

func (a *c39) csIndex(fd *ast.FuncDecl, target *ast.CallExpr) int {
	i, idx := 0, 0
	ast.Inspect(fd.Body, func(n ast.Node) bool {
		if call, ok := n.(*ast.CallExpr); ok && a.csLit(call) != nil {
			i++
			if call == target {
				idx = i
			}
		}
		return true
	})
	return idx
}

// anyState reports whether some reachable vector anywhere in fd carries bit.
func (a *c39) anyState(fd *ast.FuncDecl, errVar, reqVar types.Object, bit flow.State) bool {
	found := false
	a.solveOuter(fd, errVar, reqVar, func(n ast.Node, call *ast.CallExpr, st flow.State) {
		if st&bit != 0 {
			found = true
		}
	})
	return found
}

// checkRetirePairing: every retire inside a critical section is paired with unregistering the same call.
func (a *c39) checkRetirePairing(fd *ast.FuncDecl) {
	info := a.info
	name := core.FuncName(fd)
	ast.Inspect(fd.Body, func(n ast.Node) bool {
		call, ok := n.(*ast.CallExpr)
		if !ok {
			return true
		}
		fl := a.csLit(call)
		if fl == nil {
			return true
		}
		par := parentMap(fl)
		ast.Inspect(fl.Body, func(m ast.Node) bool {
			rc, ok := m.(*ast.CallExpr)
			if !ok {
				return true
			}
			fn, ok := calleeObj(info, rc).(*types.Func)
			if !ok || core.FuncObjName(fn) != "AsyncCall.retire" || len(rc.Args) != 1 {
				return true
			}
			recv := identObj(info, rc.Fun.(*ast.SelectorExpr).X)
			good, why := false, "cannot relate the retired call to an unregistration in the same critical section"
			var keyStr string
			// enclosing constructs
			for p := par[m]; p != nil && !good; p = par[p] {
				switch x := p.(type) {
				case *ast.RangeStmt:
					if a.fieldOf(x.X) == a.fld["outgoingCalls"] && identObj(info, x.Value) == recv {
						keyStr = core.ExprStr(x.Key)
						// map reset after the loop in the same literal
						reset := false
						ast.Inspect(fl.Body, func(k ast.Node) bool {
							if as, ok := k.(*ast.AssignStmt); ok && as.Pos() > x.End() && len(as.Lhs) == 1 && a.fieldOf(as.Lhs[0]) == a.fld["outgoingCalls"] {
								if id, ok := ast.Unparen(as.Rhs[0]).(*ast.Ident); ok && id.Name == "nil" {
									reset = true
								}
							}
							if c2, ok := k.(*ast.CallExpr); ok && c2.Pos() > x.End() {
								if id, ok := c2.Fun.(*ast.Ident); ok && id.Name == "clear" && len(c2.Args) == 1 && a.fieldOf(c2.Args[0]) == a.fld["outgoingCalls"] {
									reset = true
								}
							}
							return true
						})
						if reset {
							good = true
						} else {
							why = "calls are retired while ranging over outgoingCalls but the map is not reset afterwards in the same critical section: a later sweep or response retires them again (panic)"
						}
					}
				case *ast.IfStmt:
					// if ac, ok := s.outgoingCalls[K]; ok {   |   if s.outgoingCalls[X.id] == X {
					var key ast.Expr
					if as, ok := x.Init.(*ast.AssignStmt); ok && len(as.Rhs) == 1 {
						if ix, ok := ast.Unparen(as.Rhs[0]).(*ast.IndexExpr); ok && a.fieldOf(ix.X) == a.fld["outgoingCalls"] && identObj(info, as.Lhs[0]) == recv {
							key = ix.Index
						}
					}
					if be, ok := ast.Unparen(x.Cond).(*ast.BinaryExpr); ok && be.Op == token.EQL {
						if ix, ok := ast.Unparen(be.X).(*ast.IndexExpr); ok && a.fieldOf(ix.X) == a.fld["outgoingCalls"] && identObj(info, be.Y) == recv {
							key = ix.Index
						}
					}
					if key == nil {
						continue
					}
					keyStr = core.ExprStr(key)
					// the retire must be in the THEN block, together with delete(outgoingCalls, key)
					inThen := x.Body.Pos() <= m.Pos() && m.End() <= x.Body.End()
					del := false
					for _, s := range x.Body.List {
						if es, ok := s.(*ast.ExprStmt); ok {
							if dc, ok := es.X.(*ast.CallExpr); ok {
								if id, ok := dc.Fun.(*ast.Ident); ok && id.Name == "delete" && len(dc.Args) == 2 && a.fieldOf(dc.Args[0]) == a.fld["outgoingCalls"] && core.ExprStr(dc.Args[1]) == keyStr {
									del = true
								}
							}
						}
					}
					if inThen && del {
						good = true
					} else {
						why = "the call looked up in outgoingCalls is retired without delete(outgoingCalls, same key) in the same block: it stays registered and is retired again by the sweep or a duplicate response (retire panics), or Call's failure path retires it a second time"
					}
				}
			}
			// the response handed over must carry the key
			if good {
				idOK := false
				arg := ast.Unparen(rc.Args[0])
				if u, ok := arg.(*ast.UnaryExpr); ok && u.Op == token.AND {
					arg = u.X
				}
				switch x := arg.(type) {
				case *ast.Ident: // msg, looked up under msg.ID
					if keyStr == x.Name+".ID" {
						idOK = true
					}
				case *ast.CompositeLit:
					for _, el := range x.Elts {
						if kv, ok := el.(*ast.KeyValueExpr); ok {
							if k, ok := kv.Key.(*ast.Ident); ok && k.Name == "ID" {
								vs := core.ExprStr(kv.Value)
								if vs == keyStr {
									idOK = true
								}
								// `id` from which ac.id was built
								if o := identObj(info, kv.Value); o != nil && a.builtFrom(fd, recv, o) {
									idOK = true
								}
							}
						}
					}
				}
				if !idOK {
					good, why = false, "the response handed to retire does not carry the ID under which the call is registered: Await returns an answer with a foreign/empty ID"
				}
			}
			if good {
				a.c.Ok("retire-pairing", name, rc.Pos(), "unregister and retire in one critical section, response carries the registration key")
			} else {
				a.c.Bad("retire-pairing", name, rc.Pos(), why)
			}
			return true
		})
		return true
	})
}

// builtFrom: recv was created as &AsyncCall{id: o, …} in fd.
func (a *c39) builtFrom(fd *ast.FuncDecl, recv, o types.Object) bool {
	found := false
	ast.Inspect(fd.Body, func(n ast.Node) bool {
		as, ok := n.(*ast.AssignStmt)
		if !ok || len(as.Lhs) != 1 || len(as.Rhs) != 1 || identObj(a.info, as.Lhs[0]) != recv {
			return true
		}
		e := ast.Unparen(as.Rhs[0])
		if u, ok := e.(*ast.UnaryExpr); ok {
			e = u.X
		}
		if cl, ok := e.(*ast.CompositeLit); ok {
			for _, el := range cl.Elts {
				if kv, ok := el.(*ast.KeyValueExpr); ok {
					if k, ok := kv.Key.(*ast.Ident); ok && k.Name == "id" && identObj(a.info, kv.Value) == o {
						found = true
					}
				}
			}
		}
		return true
	})
	return found
}

// c39HandlerSlot: the handler goroutine gives up its slot (handlerRunning = false) in the SAME critical section in which
// it found the queue empty, and acceptRequest takes the slot (handlerRunning = true) in the same critical section in
// which it tested it and enqueued the request. If the release were a separate critical section, a request enqueued
// between "queue is empty" and "slot released" would see the slot taken, start no goroutine, and never be answered.
func c39HandlerSlot(c *core.Check, pk *packages.Package) {
	info := pk.TypesInfo
	n := 0
	for _, fd := range core.AllFuncDecls(pk) {
		if fd.Body == nil {
			continue
		}
		ast.Inspect(fd.Body, func(nd ast.Node) bool {
			lit, ok := nd.(*ast.FuncLit)
			if !ok {
				return true
			}
			var assigns []*ast.AssignStmt
			ast.Inspect(lit.Body, func(m ast.Node) bool {
				if as, ok := m.(*ast.AssignStmt); ok && len(as.Lhs) == 1 {
					if sel, ok := as.Lhs[0].(*ast.SelectorExpr); ok && sel.Sel.Name == "handlerRunning" {
						assigns = append(assigns, as)
					}
				}
				return true
			})
			if len(assigns) == 0 {
				return true
			}
			touchesQueue := false
			ast.Inspect(lit.Body, func(m ast.Node) bool {
				if sel, ok := m.(*ast.SelectorExpr); ok && sel.Sel.Name == "handlerQueue" {
					if s := info.Selections[sel]; s != nil && s.Kind() == types.FieldVal {
						touchesQueue = true
					}
				}
				return true
			})
			for _, as := range assigns {
				n++
				val := nows(core.ExprStr(as.Rhs[0]))
				key := core.FuncName(fd) + ":handlerRunning=" + val
				c.Decide(touchesQueue, "handler-slot", key, as.Pos(), "the slot changes hands in the critical section that inspects the handler queue", core.FuncName(fd)+" sets handlerRunning = "+val+" in a critical section that does not look at the handler queue: between the queue test and this store another goroutine can enqueue a request (or start a handler), so a queued call may never be handled — it is never answered — or two handler goroutines run at once")
			}
			return false
		})
	}
	c.Analysed("handler_slot_stores", n)
	c.Floor("handler-slot", 2)
}
