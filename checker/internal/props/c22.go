package props

import (
	"go/ast"
	"go/constant"
	"go/token"
	"go/types"
	"sort"
	"strings"

	"golang.org/x/tools/go/packages"

	"verif/checker/internal/core"
)

func init() {
	f := "printer/nodes.go"
	register(&Prop{
		ID:        "C22",
		Title:     "Printing a synthesized tree preserves its structure",
		Technique: "operand-precedence rule over every expression print site of package printer (constant precedence argument vs. the minimum the syntactic position requires), binaryExpr parenthesisation shape, and token-adjacency table agreement (mayCombine) with go/printer",
		Explanation: "Decides for every tree at once the structural part of 'parentheses are inserted wherever precedence requires': every site of package printer that prints a sub-expression field passes a minimum-precedence argument; for the fields whose syntactic position demands it, that constant must be at least the required one — operands followed by a postfix/primary suffix (SelectorExpr.X, IndexExpr.X, IndexListExpr.X, SliceExpr.X, TypeAssertExpr.X, CallExpr.Fun, CompositeLit.Type, ErrWrapExpr.X) need HighestPrec, operands of prefix operators and the ?: default (UnaryExpr.X, StarExpr.X, ErrWrapExpr.Default) need UnaryPrec; " +
			"binaryExpr parenthesises exactly when prec < prec1 and prints its left operand at prec and its right operand at prec+1 (left associativity); " +
			"and the table deciding when two adjacent tokens need a separating blank (mayCombine: + +, - -, / *, < -, & &, …) contains every entry of go/printer's table, from which it is forked.",
		NotCovered: "layout (spacing/line breaks), command-style calls, comprehension/lambda bodies, and whether the parser's own precedence table matches the printer's assumption (C14 covers the table).",
		Run:        runC22,
		Controls: []Control{
			{Name: "map-key-question-before-colon", File: f, Old: "\tcase *ast.KeyValueExpr:\n\t\tp.expr(beforeColon(x.Key))\n", New: "\tcase *ast.KeyValueExpr:\n\t\tp.expr(x.Key)\n", Expect: "question-before-colon/printer"},
			{Name: "errwrap-default-ignores-context", File: f, Old: "\t\tif x.Default != nil && token.UnaryPrec < prec1 {", New: "\t\tif x.Default != nil && token.UnaryPrec < 0 {", Expect: "own-precedence/ErrWrapExpr"},
			{Name: "errwrap-lowest", File: f, Old: "p.expr1(x.X, token.HighestPrec, depth)\n\t\tp.print(x.Tok)", New: "p.expr(x.X)\n\t\tp.print(x.Tok)", Expect: "operand-prec/ErrWrapExpr.X"},
			{Name: "star-lowest", File: f, Old: "\t\t\t// no parenthesis needed\n\t\t\tp.print(token.MUL)\n\t\t\tp.expr1(x.X, prec, depth)", New: "\t\t\t// no parenthesis needed\n\t\t\tp.print(token.MUL)\n\t\t\tp.expr(x.X)", Expect: "operand-prec/StarExpr.X"},
			{Name: "index-operand-unary", File: f, Old: "\t\tp.expr1(x.X, token.HighestPrec, 1)\n\t\tp.print(x.Lbrack, token.LBRACK)\n\t\tp.expr0(x.Index, depth+1)", New: "\t\tp.expr1(x.X, token.UnaryPrec, 1)\n\t\tp.print(x.Lbrack, token.LBRACK)\n\t\tp.expr0(x.Index, depth+1)", Expect: "operand-prec/IndexExpr.X"},
			{Name: "binary-right-same-prec", File: f, Old: "p.expr1(x.Y, prec+1, depth+1)", New: "p.expr1(x.Y, prec, depth+1)", Expect: "binary/right-operand"},
			{Name: "binary-paren-inverted", File: f, Old: "\tprec := x.Op.Precedence()\n\tif prec < prec1 {", New: "\tprec := x.Op.Precedence()\n\tif prec <= prec1-2 {", Expect: "binary/parenthesise"},
			{Name: "call-fun-lowest", File: f, Old: "\t\t\twasIndented = p.possibleSelectorExpr(x.Fun, token.HighestPrec, depth)\n\t\t}\n\t\tif x.NoParenEnd", New: "\t\t\twasIndented = p.possibleSelectorExpr(x.Fun, token.LowestPrec, depth)\n\t\t}\n\t\tif x.NoParenEnd", Expect: "operand-prec/CallExpr.Fun"},
			{Name: "maycombine-drops-minus", File: "printer/printer.go", Old: "\tcase token.SUB:\n\t\tb = next == '-' // --\n", New: "", Expect: "adjacency/SUB:-"},
		},
	})
}

// required minimum precedence per (node type, field); the reason is the grammar position.
var c22Required = map[string]int{
	"SelectorExpr.X":      7, // x.sel: operand of a primary-expression suffix
	"IndexExpr.X":         7,
	"IndexListExpr.X":     7,
	"SliceExpr.X":         7,
	"TypeAssertExpr.X":    7,
	"CallExpr.Fun":        7,
	"CompositeLit.Type":   7,
	"ErrWrapExpr.X":       7, // x! x? are primary-expression suffixes (parser.parsePrimaryExpr)
	"UnaryExpr.X":         6, // operand of a prefix operator
	"StarExpr.X":          6,
	"ErrWrapExpr.Default": 6, // parser.parseErrWrapExpr parses the default with parseUnaryExpr
}

func runC22(c *core.Check) {
	prog := c.Load("./printer", "./token", "go/printer")
	pk := prog.Pkg("./printer")
	tpk := prog.Pkg("./token")
	gpk := prog.Pkg("go/printer")
	if pk == nil || tpk == nil || gpk == nil {
		return
	}
	if !precedenceRules(c, prog) {
		return
	}

	adjacencyRule(c, prog)
	c22OwnPrecedence(c, pk)
}

// adjacencyRule (shared by C19 and C22): printer.mayCombine contains every entry of go/printer's table.
func adjacencyRule(c *core.Check, prog *core.Prog) {
	pk, gpk := prog.Pkg("./printer"), prog.Pkg("go/printer")
	if pk == nil || gpk == nil {
		c.Bad("anchor", "printer/go-printer", 0, "packages not loaded")
		return
	}
	// ---------- adjacency table: mayCombine ⊇ go/printer's
	mine := combineTable(pk, core.FindFuncDecl(pk, "mayCombine"))
	ref := combineTable(gpk, core.FindFuncDecl(gpk, "mayCombine"))
	if mine == nil || ref == nil {
		c.Undecided("adjacency", "mayCombine", 0, "cannot read the token adjacency table of printer.mayCombine or of go/printer.mayCombine")
		return
	}
	var rk []string
	for k := range ref {
		rk = append(rk, k)
	}
	sort.Strings(rk)
	for _, k := range rk {
		c.Decide(mine[k], "adjacency", k, 0, "", "go/printer separates this token pair with a blank (they would otherwise fuse into another token, e.g. `- -x` into `--x`), xgo's printer.mayCombine no longer does: a synthesized unary-under-binary or unary-under-unary expression prints as a different token sequence")
	}
	c.Floor("adjacency", 8)
	c.Analysed("adjacency_entries_reference", len(ref))
	c.Analysed("adjacency_entries_xgo", len(mine))
}

// combineTable reads `switch prev { case token.K: b = next == 'c' || next == 'd' … }` into "K:c" entries.
func combineTable(pk *packages.Package, fd *ast.FuncDecl) map[string]bool {
	if fd == nil {
		return nil
	}
	info := pk.TypesInfo
	out := map[string]bool{}
	found := false
	ast.Inspect(fd.Body, func(n ast.Node) bool {
		sw, ok := n.(*ast.SwitchStmt)
		if !ok {
			return true
		}
		found = true
		for _, s := range sw.Body.List {
			cc := s.(*ast.CaseClause)
			var toks []string
			for _, e := range cc.List {
				if k := constOf(info, e); k != nil {
					toks = append(toks, k.Name())
				}
			}
			var bytes []string
			for _, st := range cc.Body {
				ast.Inspect(st, func(m ast.Node) bool {
					if be, ok := m.(*ast.BinaryExpr); ok && be.Op == token.EQL {
						if tv := info.Types[be.Y]; tv.Value != nil && tv.Value.Kind() == constant.Int {
							v, _ := constant.Int64Val(tv.Value)
							bytes = append(bytes, string(rune(v)))
						}
					}
					return true
				})
			}
			for _, t := range toks {
				for _, b := range bytes {
					out[t+":"+b] = true
				}
			}
		}
		return false
	})
	if !found {
		// `return prev == token.INT && next == '.'` style
		ast.Inspect(fd.Body, func(n ast.Node) bool {
			be, ok := n.(*ast.BinaryExpr)
			if !ok || be.Op != token.LAND {
				return true
			}
			l, ok1 := ast.Unparen(be.X).(*ast.BinaryExpr)
			r, ok2 := ast.Unparen(be.Y).(*ast.BinaryExpr)
			if ok1 && ok2 && l.Op == token.EQL && r.Op == token.EQL {
				if k := constOf(info, l.Y); k != nil {
					if tv := info.Types[r.Y]; tv.Value != nil && tv.Value.Kind() == constant.Int {
						v, _ := constant.Int64Val(tv.Value)
						out[k.Name()+":"+string(rune(v))] = true
						found = true
					}
				}
			}
			return true
		})
	}
	if !found {
		return nil
	}
	return out
}

// precedenceRules: the operand-precedence and binaryExpr rules (shared by C19 and C22). Returns false when the rule cannot run.
func precedenceRules(c *core.Check, prog *core.Prog) bool {
	pk, tpk := prog.Pkg("./printer"), prog.Pkg("./token")
	if pk == nil || tpk == nil {
		return false
	}
	info := pk.TypesInfo
	// sanity: the constants the table is written against
	for name, want := range map[string]int64{"HighestPrec": 7, "UnaryPrec": 6, "LowestPrec": 0} {
		k, _ := tpk.Types.Scope().Lookup(name).(*types.Const)
		v := int64(-1)
		if k != nil {
			v, _ = constant.Int64Val(k.Val())
		}
		if v != want {
			c.Undecided("operand-prec", "token."+name, 0, core.Sprintf("token.%s = %d, the rule table assumes %d", name, v, want))
			return false
		}
	}
	printerT := prog.NamedType("./printer", "printer")
	if printerT == nil {
		return false
	}
	// print sites: calls of printer methods whose first argument is V.F with V a node pointer
	type site struct {
		key  string
		prec int
		pos  token.Pos
		ok   bool // precedence known
	}
	var sites []site
	for _, fd := range core.AllFuncDecls(pk) {
		ast.Inspect(fd.Body, func(n ast.Node) bool {
			call, ok := n.(*ast.CallExpr)
			if !ok || len(call.Args) == 0 {
				return true
			}
			fn, ok := calleeObj(info, call).(*types.Func)
			if !ok {
				return true
			}
			sig := fn.Type().(*types.Signature)
			if sig.Recv() == nil || namedOf(sig.Recv().Type()) != printerT {
				return true
			}
			sel, ok := ast.Unparen(call.Args[0]).(*ast.SelectorExpr)
			if !ok {
				return true
			}
			s := info.Selections[sel]
			if s == nil || s.Kind() != types.FieldVal {
				return true
			}
			owner := namedOf(s.Recv())
			if owner == nil || owner.Obj().Pkg() == nil || !strings.HasSuffix(owner.Obj().Pkg().Path(), "/ast") {
				return true
			}
			// is the first parameter an expression and is there a precedence parameter?
			if sig.Params().Len() == 0 || !strings.HasSuffix(sig.Params().At(0).Type().String(), "ast.Expr") {
				return true
			}
			st := site{key: owner.Obj().Name() + "." + sel.Sel.Name, pos: call.Pos()}
			switch {
			case sig.Params().Len() >= 2 && sig.Params().At(1).Name() == "prec1" && len(call.Args) >= 2:
				if tv := info.Types[call.Args[1]]; tv.Value != nil && tv.Value.Kind() == constant.Int {
					v, _ := constant.Int64Val(tv.Value)
					st.prec, st.ok = int(v), true
				}
			case fn.Name() == "expr" || fn.Name() == "expr0":
				st.prec, st.ok = 0, true
			default:
				return true
			}
			sites = append(sites, st)
			return true
		})
	}
	c.Analysed("expression_print_sites", len(sites))
	seen := map[string]bool{}
	keys := make([]string, 0, len(c22Required))
	for k := range c22Required {
		keys = append(keys, k)
	}
	sort.Strings(keys)
	for _, k := range keys {
		need := c22Required[k]
		n, bad := 0, token.NoPos
		got := 0
		for _, s := range sites {
			if s.key != k {
				continue
			}
			n++
			seen[k] = true
			if !s.ok {
				continue // non-constant precedence (e.g. `prec` of binaryExpr): not a fixed position
			}
			if s.prec < need {
				bad, got = s.pos, s.prec
			}
		}
		if n == 0 {
			c.Undecided("operand-prec", k, 0, "no print site found for this operand: the rule cannot see how it is printed")
			continue
		}
		c.Decide(!bad.IsValid(), "operand-prec", k, bad, core.Sprintf("%d site(s), all with minimum precedence ≥ %d", n, need),
			core.Sprintf("%s is printed with minimum precedence %d but its position requires %d: a synthesized tree whose operand is a weaker expression (e.g. a binary expression) is printed without the parentheses it needs and re-parses to a different tree", k, got, need))
	}
	c.Floor("operand-prec", 11)

	// ---------- binaryExpr
	if fd := prog.FuncDecl("./printer", "printer.binaryExpr"); fd != nil {
		xParam, prec1 := paramObj(fd, info, 0), paramObj(fd, info, 1)
		var precVar types.Object
		ast.Inspect(fd.Body, func(n ast.Node) bool {
			if as, ok := n.(*ast.AssignStmt); ok && len(as.Lhs) == 1 && len(as.Rhs) == 1 {
				if call, ok := ast.Unparen(as.Rhs[0]).(*ast.CallExpr); ok {
					if sel, ok := call.Fun.(*ast.SelectorExpr); ok && sel.Sel.Name == "Precedence" {
						if s2, ok := ast.Unparen(sel.X).(*ast.SelectorExpr); ok && identObj(info, s2.X) == xParam && s2.Sel.Name == "Op" {
							precVar = identObj(info, as.Lhs[0])
						}
					}
				}
			}
			return true
		})
		parenOK := false
		ast.Inspect(fd.Body, func(n ast.Node) bool {
			ifs, ok := n.(*ast.IfStmt)
			if !ok {
				return true
			}
			be, ok := ast.Unparen(ifs.Cond).(*ast.BinaryExpr)
			if !ok || precVar == nil {
				return true
			}
			lt := be.Op == token.LSS && identObj(info, be.X) == precVar && identObj(info, be.Y) == prec1
			gt := be.Op == token.GTR && identObj(info, be.X) == prec1 && identObj(info, be.Y) == precVar
			if !lt && !gt {
				return true
			}
			hasL, hasR := false, false
			ast.Inspect(ifs.Body, func(m ast.Node) bool {
				if sel, ok := m.(*ast.SelectorExpr); ok {
					switch sel.Sel.Name {
					case "LPAREN":
						hasL = true
					case "RPAREN":
						hasR = true
					}
				}
				return true
			})
			if hasL && hasR {
				parenOK = true
			}
			return true
		})
		c.Decide(parenOK, "binary", "parenthesise", fd.Pos(), "parenthesised exactly when prec < prec1", "binaryExpr does not wrap the expression in parentheses exactly under `prec < prec1` (prec = x.Op.Precedence()): a weaker operator nested under a stronger one loses its grouping")
		leftOK, rightOK := false, false
		ast.Inspect(fd.Body, func(n ast.Node) bool {
			call, ok := n.(*ast.CallExpr)
			if !ok || len(call.Args) < 2 {
				return true
			}
			fn, _ := calleeObj(info, call).(*types.Func)
			if fn == nil || fn.Name() != "expr1" {
				return true
			}
			sel, ok := ast.Unparen(call.Args[0]).(*ast.SelectorExpr)
			if !ok || identObj(info, sel.X) != xParam {
				return true
			}
			p := strings.ReplaceAll(core.ExprStr(call.Args[1]), " ", "")
			if precVar == nil {
				return true
			}
			switch sel.Sel.Name {
			case "X":
				leftOK = p == precVar.Name()
			case "Y":
				rightOK = p == precVar.Name()+"+1"
			}
			return true
		})
		c.Decide(leftOK, "binary", "left-operand", fd.Pos(), "left operand printed at prec", "the left operand of a binary expression is not printed with minimum precedence `prec`")
		c.Decide(rightOK, "binary", "right-operand", fd.Pos(), "right operand printed at prec+1", "the right operand of a binary expression is not printed with minimum precedence `prec+1`: `a - (b - c)` synthesized without ParenExpr prints as `a - b - c`")
	}

	return true
}

// c22OwnPrecedence: a node kind whose printed form starts or ends with an operand below primary precedence (-x, *p,
// a op b, a?:b) must look at the precedence its context requires (expr1's prec1) and parenthesise itself when it is
// weaker; a case that never consults prec1 prints `(a?:b).x` as `a?:b.x`. Also: a trailing `?` directly followed by a
// `:` (slice bound, map key, case expression) reads as `?:` — the printer has no provision for it (known finding).
func c22OwnPrecedence(c *core.Check, pk *packages.Package) {
	info := pk.TypesInfo
	fd := core.FindFuncDecl(pk, "printer.expr1")
	if fd == nil {
		c.Bad("anchor", "printer.expr1", 0, "not found")
		return
	}
	prec1 := paramObj(fd, info, 1)
	ts := typeSwitchOn(fd.Body, info, paramObj(fd, info, 0))
	if ts == nil || prec1 == nil {
		c.Undecided("own-precedence", "expr1", fd.Pos(), "no type switch over the expression / no prec1 parameter")
		return
	}
	want := map[string]bool{"UnaryExpr": true, "StarExpr": true, "BinaryExpr": true, "ErrWrapExpr": true}
	for _, s := range ts.Body.List {
		cc := s.(*ast.CaseClause)
		if len(cc.List) != 1 {
			continue
		}
		nt := namedOf(info.TypeOf(cc.List[0]))
		if nt == nil || !want[nt.Obj().Name()] {
			continue
		}
		uses := false
		ast.Inspect(cc, func(n ast.Node) bool {
			if id, ok := n.(*ast.Ident); ok && info.Uses[id] == prec1 {
				uses = true
			}
			return true
		})
		delete(want, nt.Obj().Name())
		c.Decide(uses, "own-precedence", nt.Obj().Name(), cc.Pos(), "the case compares its own precedence with the one its context requires", "printer.expr1's case for *ast."+nt.Obj().Name()+" never looks at prec1, the precedence its context requires: as the operand of a selector, index, call or postfix operator the expression is printed without the parentheses it needs and parses back as a different tree")
	}
	for k := range want {
		c.Bad("own-precedence", k, fd.Pos(), "no case for this node kind in printer.expr1")
	}
	c.Floor("own-precedence", 4)
	// `a?` followed by `:`
	handles := false
	var recog types.Object
	for _, f := range core.AllFuncDecls(pk) {
		if f.Body == nil {
			continue
		}
		txt := nows(nodeTextAll(f.Body))
		if strings.Contains(txt, "token.QUESTION") && strings.Contains(txt, ".Default==nil") && strings.Contains(txt, "*ast.ErrWrapExpr") && f.Name.Name != "expr1" {
			recog = info.Defs[f.Name]
		}
	}
	// the recogniser (or the wrapper that applies it) is used where an expression is followed by a colon: map keys (two
	// print paths), slice bounds, comprehension keys, range expression bounds, case expressions
	if recog != nil {
		users := map[types.Object]bool{recog: true}
		for _, f := range core.AllFuncDecls(pk) {
			if f.Body == nil {
				continue
			}
			ast.Inspect(f.Body, func(n ast.Node) bool {
				if call, ok := n.(*ast.CallExpr); ok && calleeObj(info, call) == recog && info.Defs[f.Name] != recog {
					if f.Recv == nil { // a plain wrapper such as beforeColon
						users[info.Defs[f.Name]] = true
					}
				}
				return true
			})
		}
		nUse := 0
		for _, f := range core.AllFuncDecls(pk) {
			if f.Body == nil || users[info.Defs[f.Name]] {
				continue
			}
			ast.Inspect(f.Body, func(n ast.Node) bool {
				if call, ok := n.(*ast.CallExpr); ok && users[calleeObj(info, call)] {
					nUse++
				}
				return true
			})
		}
		c.Analysed("question_before_colon_sites", nUse)
		handles = nUse >= 8 // map key (two print paths), slice bound, comprehension key, range First and Last, case list (test + wrap)
	}
	c.Decide(handles, "question-before-colon", "printer", fd.Pos(), "expressions ending in a bare `?` are parenthesized at the colon sites", "nothing in package printer recognises an expression that ends in a bare `?` (an *ast.ErrWrapExpr with Tok QUESTION and no Default): where such an expression is followed by a `:` — a slice bound s[a?:b], a map key {a?: b}, a case expression — the two tokens read as the `?:` operator and the tree changes")
}
