package props

import (
	"go/ast"
	"go/constant"
	"go/token"
	"go/types"
	"sort"
	"strings"

	"golang.org/x/tools/go/packages"

	"verif/checker/internal/core"
)

func init() {
	tg, fg := "ast/togo/goast.go", "ast/fromgo/gopast.go"
	register(&Prop{
		ID:        "C37",
		Title:     "Go/XGo declaration trees convert without loss",
		Technique: "converter field-coverage analysis: every composite literal that maps a node S to its same-named node T is checked field-by-field against the two struct types from go/types; sibling-switch agreement between fromgo and togo; token numbering agreement for Token(...) casts",
		Explanation: "Decides for every Go file that, in ast/fromgo and ast/togo, wherever a node of struct type S is converted into the same-named node type T of the other tree, every field present in BOTH structs is initialised from the same-named field of the source (directly or through a converter call; typeparams.ForFuncType(v)/ForTypeSpec(v) count as v.TypeParams), except a reasoned table of deliberate omissions (comments, resolver objects, bodies); " +
			"that goExpr and gopExpr (and the spec/decl switches) handle the same set of node kinds; and that every constant name shared by go/token and xgo/token has the same value, because operators are converted by numeric cast.",
		NotCovered: "printing of the converted declarations (go/printer), and declaration bodies (dropped by design).",
		Run:        runC37,
		Controls: []Control{
			{Name: "togo-drops-typeparams", File: tg, Old: "\t\tTypeParams: goFieldList(v.TypeParams),\n", New: "", Expect: "conv-field/togo.goFuncType:FuncType.TypeParams"},
			{Name: "togo-drops-indexlist", File: tg, Old: "\tcase *gopast.IndexListExpr:\n\t\treturn &ast.IndexListExpr{\n\t\t\tX:       goExpr(v.X),\n\t\t\tLbrack:  v.Lbrack,\n\t\t\tIndices: goExprs(v.Indices),\n\t\t\tRbrack:  v.Rbrack,\n\t\t}\n", New: "", Expect: "conv-case/goExpr~gopExpr:IndexListExpr"},
			{Name: "fromgo-swaps-key-value", File: fg, Old: "\t\t\tKey:   gopType(v.Key),\n\t\t\tValue: gopType(v.Value),", New: "\t\t\tKey:   gopType(v.Value),\n\t\t\tValue: gopType(v.Key),", Expect: "conv-field/fromgo.gopExpr:MapType.Key"},
			{Name: "togo-drops-ellipsis", File: tg, Old: "\t\t\tArgs:     goExprs(v.Args),\n\t\t\tEllipsis: v.Ellipsis,\n", New: "\t\t\tArgs:     goExprs(v.Args),\n", Expect: "conv-field/togo.goExpr:CallExpr.Ellipsis"},
			{Name: "togo-drops-assign", File: tg, Old: "\t\tAssign:     spec.Assign,\n", New: "", Expect: "conv-field/togo.goTypeSpec:TypeSpec.Assign"},
			{Name: "fromgo-drops-recv", File: fg, Old: "\t\tRecv: gopFieldList(v.Recv),\n", New: "", Expect: "conv-field/fromgo.gopFuncDecl:FuncDecl.Recv"},
			{Name: "fromgo-unwraps-parens", File: fg, Old: "func gopType(v ast.Expr) gopast.Expr {\n", New: "func gopType(v ast.Expr) gopast.Expr {\n\tif p, ok := v.(*ast.ParenExpr); ok {\n\t\tv = p.X\n\t}\n", Expect: "conv-identity/fromgo.gopType"},
			{Name: "fromgo-returns-child-of-paren", File: fg, Old: "func gopType(v ast.Expr) gopast.Expr {\n", New: "func gopType(v ast.Expr) gopast.Expr {\n\tif p, ok := v.(*ast.ParenExpr); ok {\n\t\treturn gopExpr(p.X)\n\t}\n", Expect: "conv-identity/fromgo.gopType"},
			{Name: "togo-values-from-names", File: tg, Old: "\t\tValues: goExprs(spec.Values),", New: "\t\tValues: nil,", Expect: "conv-field/togo.goValueSpec:ValueSpec.Values"},
		},
	})
}

// convOmissions: fields that exist on both sides and are deliberately not carried over (key: converter-package:Type.Field).
var convOmissions = map[string]string{
	"Doc":        "comments are not converted (declaration headers only)",
	"Comment":    "comments are not converted (declaration headers only)",
	"Obj":        "resolver object: identifiers are re-resolved by the consumer",
	"Incomplete": "parser bookkeeping flag, irrelevant for headers",
	"Body":       "function bodies are dropped by design (ASTFile panics on KeepFuncBody)",
	"Scope":      "resolver state",
	"Imports":    "derived list; the ImportSpecs are converted through Decls",
	"Unresolved": "resolver state",
	"Comments":   "comments are not converted",
	"FileStart":  "file extent, not a declaration header",
	"FileEnd":    "file extent, not a declaration header",
	"GoVersion":  "build metadata, not a declaration header",
}

func runC37(c *core.Check) {
	prog := c.Load("./ast/togo", "./ast/fromgo", "./ast", "./token", "go/ast", "go/token")
	c.Floor("conv-field", 120)
	for _, dir := range []struct{ path, label string }{{"./ast/togo", "togo"}, {"./ast/fromgo", "fromgo"}} {
		pk := prog.Pkg(dir.path)
		if pk == nil {
			continue
		}
		convCoverage(c, pk, dir.label)
	}
	// sibling agreement of the switches
	tpk, fpk := prog.Pkg("./ast/togo"), prog.Pkg("./ast/fromgo")
	if tpk != nil && fpk != nil {
		for _, pair := range [][2]string{{"goExpr", "gopExpr"}, {"goDecl", "gopDecl"}} {
			a := switchCaseNames(tpk, core.FindFuncDecl(tpk, pair[0]))
			b := switchCaseNames(fpk, core.FindFuncDecl(fpk, pair[1]))
			if a == nil || b == nil {
				c.Bad("anchor", pair[0]+"/"+pair[1], 0, "converter switch not found")
				continue
			}
			all := map[string]bool{}
			for k := range a {
				all[k] = true
			}
			for k := range b {
				all[k] = true
			}
			names := make([]string, 0, len(all))
			for k := range all {
				names = append(names, k)
			}
			sort.Strings(names)
			for _, k := range names {
				c.Decide(a[k] && b[k], "conv-case", pair[0]+"~"+pair[1]+":"+k, 0, "handled in both directions",
					core.Sprintf("node kind %s is handled by %s=%v but by %s=%v: a tree converted one way cannot be converted back (the other switch panics with 'unknown expr')", k, pair[0], a[k], pair[1], b[k]))
			}
		}
		c.Floor("conv-case", 20)
	}
	tokenNumbering(c, prog, "token-numbering")
}

func switchCaseNames(pk *packages.Package, fd *ast.FuncDecl) map[string]bool {
	if fd == nil {
		return nil
	}
	out := map[string]bool{}
	ast.Inspect(fd.Body, func(n ast.Node) bool {
		ts, ok := n.(*ast.TypeSwitchStmt)
		if !ok {
			return true
		}
		for _, s := range ts.Body.List {
			for _, e := range s.(*ast.CaseClause).List {
				if nt := namedOf(pk.TypesInfo.TypeOf(e)); nt != nil {
					out[nt.Obj().Name()] = true
				}
			}
		}
		return false
	})
	return out
}

// convCoverage checks every same-name node literal of a converter package.
func convCoverage(c *core.Check, pk *packages.Package, label string) {
	info := pk.TypesInfo
	for _, fd := range core.AllFuncDecls(pk) {
		fname := core.FuncName(fd)
		// nil-ness rule: a slice helper whose result becomes Field.Names must map an empty list to nil,
		// because both printers decide `func() T` vs `func() (T)` by testing Field.Names == nil
		if feedsFieldNames(info, pk, fd) {
			guard := false
			ast.Inspect(fd.Body, func(n ast.Node) bool {
				if ifs, ok := n.(*ast.IfStmt); ok && len(ifs.Body.List) == 1 {
					if r, ok := ifs.Body.List[0].(*ast.ReturnStmt); ok && len(r.Results) == 1 && core.ExprStr(r.Results[0]) == "nil" {
						cs := strings.ReplaceAll(core.ExprStr(ifs.Cond), " ", "")
						if strings.HasSuffix(cs, "==0") || strings.HasSuffix(cs, "==nil") {
							guard = true
						}
					}
				}
				return true
			})
			c.Decide(guard, "conv-nilness", label+"."+fname, fd.Pos(), "an empty name list stays nil", "this helper turns an empty (or nil) name list into an empty NON-nil slice and its result is stored in Field.Names: go/printer and the XGo printer test Names == nil to print a single anonymous result without parentheses, so `func() error` comes back as `func() (error)`")
		}
		// identity rule: a converter never replaces the node it was asked to convert by one of its children
		if fd.Type.Params != nil && fd.Type.Params.NumFields() >= 1 {
			if src := paramObj(fd, info, 0); src != nil {
				if pt := src.Type().String(); strings.Contains(pt, "ast.") {
					bad := token.NoPos
					ast.Inspect(fd.Body, func(n ast.Node) bool {
						switch x := n.(type) {
						case *ast.AssignStmt:
							for _, l := range x.Lhs {
								if identObj(info, l) == src && x.Tok == token.ASSIGN {
									bad = x.Pos()
								}
							}
						}
						return true
					})
					// … nor returns the conversion of one of its children in its place (`return gopType(p.X)` for a ParenExpr)
					derived := map[types.Object]bool{src: true}
					ast.Inspect(fd.Body, func(n ast.Node) bool {
						switch x := n.(type) {
						case *ast.AssignStmt:
							if len(x.Rhs) == 1 {
								if ta, ok := ast.Unparen(x.Rhs[0]).(*ast.TypeAssertExpr); ok && derived[identObj(info, ta.X)] {
									if o := identObj(info, x.Lhs[0]); o != nil {
										derived[o] = true
									}
								}
							}
						case *ast.TypeSwitchStmt:
							if as, ok := x.Assign.(*ast.AssignStmt); ok && len(as.Rhs) == 1 {
								if ta, ok := ast.Unparen(as.Rhs[0]).(*ast.TypeAssertExpr); ok && derived[identObj(info, ta.X)] {
									for _, cc := range x.Body.List {
										if o := info.Implicits[cc]; o != nil {
											derived[o] = true
										}
									}
								}
							}
						}
						return true
					})
					ast.Inspect(fd.Body, func(n ast.Node) bool {
						ret, ok := n.(*ast.ReturnStmt)
						if !ok || len(ret.Results) != 1 {
							return true
						}
						call, ok := ast.Unparen(ret.Results[0]).(*ast.CallExpr)
						if !ok || len(call.Args) < 1 {
							return true
						}
						if fn, ok := calleeObj(info, call).(*types.Func); !ok || fn.Pkg() != pk.Types {
							return true
						}
						if sel, ok := ast.Unparen(call.Args[0]).(*ast.SelectorExpr); ok && derived[identObj(info, sel.X)] {
							if s := info.Selections[sel]; s != nil && s.Kind() == types.FieldVal && isASTNodeType(s.Obj().Type()) {
								bad = ret.Pos()
							}
						}
						return true
					})
					c.Decide(!bad.IsValid(), "conv-identity", label+"."+fname, bad, "the node to convert is never reassigned", "the converter reassigns the node it was asked to convert (e.g. unwraps it to a child) before converting: a syntactic layer such as ParenExpr is silently dropped, so `chan (<-chan int)` comes back as `chan<- chan int`")
				}
			}
		}
		ast.Inspect(fd.Body, func(n ast.Node) bool {
			cl, ok := n.(*ast.CompositeLit)
			if !ok {
				return true
			}
			tn := namedOf(info.TypeOf(cl))
			if tn == nil || tn.Obj().Pkg() == nil {
				return true
			}
			tst, ok := tn.Underlying().(*types.Struct)
			if !ok {
				return true
			}
			if !(strings.HasSuffix(tn.Obj().Pkg().Path(), "/ast") || tn.Obj().Pkg().Path() == "go/ast") {
				return true
			}
			// source variable: a variable of pointer-to-struct type with the same type name in another package, referenced in the literal
			var src types.Object
			var sst *types.Struct
			ast.Inspect(cl, func(m ast.Node) bool {
				id, ok := m.(*ast.Ident)
				if !ok {
					return true
				}
				o, ok := info.Uses[id].(*types.Var)
				if !ok || o.IsField() {
					return true
				}
				sn := namedOf(o.Type())
				if sn == nil || sn.Obj().Pkg() == tn.Obj().Pkg() || sn.Obj().Name() != tn.Obj().Name() {
					return true
				}
				if st, ok := sn.Underlying().(*types.Struct); ok {
					src, sst = o, st
				}
				return true
			})
			if src == nil {
				return true
			}
			keys := map[string]ast.Expr{}
			for _, el := range cl.Elts {
				if kv, ok := el.(*ast.KeyValueExpr); ok {
					if k, ok := kv.Key.(*ast.Ident); ok {
						keys[k.Name] = kv.Value
					}
				}
			}
			for i := 0; i < tst.NumFields(); i++ {
				f := tst.Field(i)
				if !hasField(sst, f.Name()) {
					continue
				}
				key := label + "." + fname + ":" + tn.Obj().Name() + "." + f.Name()
				if why, ok := convOmissions[f.Name()]; ok {
					if _, set := keys[f.Name()]; !set {
						c.Note("conv-omission", key, cl.Pos(), why)
						continue
					}
				}
				val, set := keys[f.Name()]
				if !set {
					c.Bad("conv-field", key, cl.Pos(), "field exists in both "+tn.Obj().Name()+" structs but is not copied by the converter: it is lost in a Go→XGo→Go round trip (header printed differently)")
					continue
				}
				// operator/kind tokens are converted by plain numeric cast (their numbering agreement is checked separately);
				// anything else (a mapping helper) can lose tokens the rule cannot enumerate
				if nt, ok := types.Unalias(f.Type()).(*types.Named); ok && nt.Obj().Name() == "Token" {
					plain := false
					if call, ok := ast.Unparen(val).(*ast.CallExpr); ok && len(call.Args) == 1 {
						if tv, ok := info.Types[call.Fun]; ok && tv.IsType() {
							plain = true
						}
					}
					if _, ok := ast.Unparen(val).(*ast.SelectorExpr); ok {
						plain = true
					}
					if !plain {
						c.Undecided("conv-token-cast", key, val.Pos(), "the token is not converted by a plain cast Token(src."+f.Name()+") but through a helper: the checker cannot establish that every token shared by go/token and xgo/token (e.g. TILDE, which lies after xgo's additional_beg marker) survives the mapping")
						continue
					}
					c.Ok("conv-token-cast", key, val.Pos(), "plain cast")
				}
				if !mentionsSrcField(info, val, src, f.Name()) {
					if why, ok := convOmissions[f.Name()]; ok {
						c.Note("conv-omission", key, val.Pos(), why+" (set to a placeholder)")
						continue
					}
					// a local slice filled element-wise from src.F (for i, x := range src.F { list[i] = conv(x) })
					if o, ok := identObj(info, val).(*types.Var); ok && !o.IsField() && filledFrom(info, fd, o, src, f.Name()) {
						c.Ok("conv-field", key, val.Pos(), "local slice filled by ranging over the source field")
						continue
					}
					c.Bad("conv-field", key, val.Pos(), "field is initialised from something other than the same-named field of the source node")
					continue
				}
				c.Ok("conv-field", key, val.Pos(), "")
			}
			return true
		})
	}
}

func hasField(st *types.Struct, name string) bool {
	for i := 0; i < st.NumFields(); i++ {
		if st.Field(i).Name() == name {
			return true
		}
	}
	return false
}

// mentionsSrcField: e contains src.<name>, or a typeparams.For*(src) call when name is TypeParams.
func mentionsSrcField(info *types.Info, e ast.Expr, src types.Object, name string) bool {
	found := false
	ast.Inspect(e, func(n ast.Node) bool {
		switch x := n.(type) {
		case *ast.SelectorExpr:
			if id, ok := ast.Unparen(x.X).(*ast.Ident); ok && info.Uses[id] == src && x.Sel.Name == name {
				found = true
			}
		case *ast.CallExpr:
			if name == "TypeParams" && len(x.Args) == 1 {
				if id, ok := ast.Unparen(x.Args[0]).(*ast.Ident); ok && info.Uses[id] == src {
					if fn, ok := calleeObj(info, x).(*types.Func); ok && strings.HasPrefix(fn.Name(), "For") && fn.Pkg() != nil && strings.HasSuffix(fn.Pkg().Path(), "typeparams") {
						found = true
					}
				}
			}
		}
		return true
	})
	return found
}

// tokenNumbering: every constant name shared by go/token and xgo/token has the same value.
func tokenNumbering(c *core.Check, prog *core.Prog, rule string) {
	gpk, xpk := prog.Pkg("go/token"), prog.Pkg("./token")
	if gpk == nil || xpk == nil {
		return
	}
	n := 0
	gs := gpk.Types.Scope()
	for _, name := range gs.Names() {
		gc, ok := gs.Lookup(name).(*types.Const)
		if !ok || !gc.Exported() {
			continue
		}
		if nt, ok := types.Unalias(gc.Type()).(*types.Named); !ok || nt.Obj().Name() != "Token" {
			continue
		}
		xc, ok := xpk.Types.Scope().Lookup(name).(*types.Const)
		if !ok {
			c.Bad(rule, name, gc.Pos(), "go/token."+name+" has no counterpart in xgo/token: Go operators are converted by numeric cast")
			continue
		}
		n++
		c.Decide(constant.Compare(gc.Val(), token.EQL, xc.Val()), rule, name, xc.Pos(), "", core.Sprintf("go/token.%s = %v but xgo/token.%s = %v: code that converts tokens by cast (cl, fromgo, togo) silently maps it to another operator", name, gc.Val(), name, xc.Val()))
	}
	c.Floor(rule, 80)
	c.AddAnalysed("shared_token_constants", n)
}

// filledFrom: local is assigned element-wise inside a `range src.name` loop (or built with len(src.name)).
func filledFrom(info *types.Info, fd *ast.FuncDecl, local types.Object, src types.Object, name string) bool {
	ok := false
	ast.Inspect(fd.Body, func(n ast.Node) bool {
		r, isRange := n.(*ast.RangeStmt)
		if !isRange || !mentionsSrcField(info, r.X, src, name) {
			return true
		}
		ast.Inspect(r.Body, func(m ast.Node) bool {
			if as, isAs := m.(*ast.AssignStmt); isAs {
				for _, l := range as.Lhs {
					if ix, isIx := ast.Unparen(l).(*ast.IndexExpr); isIx && identObj(info, ix.X) == local {
						ok = true
					}
					if identObj(info, l) == local { // list = append(list, conv(x))
						ok = true
					}
				}
			}
			return true
		})
		return true
	})
	return ok
}

// feedsFieldNames: fd's result is used as the value of key Names in a Field literal of this package.
func feedsFieldNames(info *types.Info, pk *packages.Package, fd *ast.FuncDecl) bool {
	obj := info.Defs[fd.Name]
	found := false
	for _, f := range pk.Syntax {
		ast.Inspect(f, func(n ast.Node) bool {
			cl, ok := n.(*ast.CompositeLit)
			if !ok {
				return true
			}
			tn := namedOf(info.TypeOf(cl))
			if tn == nil || tn.Obj().Name() != "Field" {
				return true
			}
			for _, el := range cl.Elts {
				if kv, ok := el.(*ast.KeyValueExpr); ok {
					if k, ok := kv.Key.(*ast.Ident); ok && k.Name == "Names" {
						if call, ok := ast.Unparen(kv.Value).(*ast.CallExpr); ok && calleeObj(info, call) == obj && obj != nil {
							found = true
						}
					}
				}
			}
			return true
		})
	}
	return found
}
