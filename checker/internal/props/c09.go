package props

import (
	"go/ast"
	"go/constant"
	"go/token"
	"go/types"
	"regexp"
	"sort"
	"strings"

	"golang.org/x/tools/go/packages"

	"verif/checker/internal/core"
	"verif/checker/internal/flow"
)

func init() {
	f := "cl/stmt.go"
	register(&Prop{
		ID:        "C09",
		Title:     "Line directives map every statement back to its XGo source line",
		Technique: "must-pass-through analysis on go/cfg (compileStmt → commentStmt before the statement dispatch, loadFunc → commentFunc after NewFuncWith, SetComments on the file-line path), value-origin analysis of the //line format arguments, and a census of every CodeBuilder.SetComments call in package cl",
		Explanation: "Decides for every statement and function the structural necessary conditions of 'the //line directive in front of the generated code names the statement's own file and line': " +
			"(1) in cl.compileStmt every path to the statement dispatch calls commentStmt(ctx, stmt) on the statement being compiled, and commentStmt calls commentStmtEx whenever ctx.fileLine is set; in cl.loadFunc every path on which NewFuncWith succeeded calls commentFunc(ctx, fn, d) on the new function and its declaration; " +
			"(2) in commentStmtEx and commentFunc the directive text is built by a `//line %s:%d[:1]` format whose arguments are the Filename and Line fields of fset.Position(start), where every definition of start is X.Pos() of the statement / the declaration's name, or of their doc comment (which is emitted between the directive and the code); the filename is only rewritten by fileLineFile(relBaseDir, ·); the resulting comment is the FIRST element of the comment group handed to SetComments, and SetComments is reached on every path with a valid position; " +
			"(3) nothing else in package cl installs comments on the code builder: every other CodeBuilder.SetComments call passes nil or restores the value saved by BackupComments in the same function; (4) every routine that lowers a nested statement list (calls compileStmts) saves the pending directive first and restores it on every path afterwards (nested-restore), and closes no statement-emitting gogen block (an End that is not the End of a VBlock or function body) between the nested list and the restore unless commentStmt set that construct's own directive in between (restore-before-emit) — gogen attaches the pending group to every statement an End emits; (5) the directive of a statement is computed when it is compiled, not carried over from another statement (line-fresh).",
		NotCovered: "that gogen prints the comment group directly in front of the statement's first token and that the Go toolchain honours the directive; expressions that span several source lines (only the first call of a statement is covered by the property); classfile-generated code without a source statement.",
		Run:        runC09,
		Controls: []Control{
			{Name: "stmt-comment-skipped-for-expr", File: f, Old: "\tcommentStmt(ctx, stmt)\n\tswitch v := stmt.(type) {\n\tcase *ast.ExprStmt:", New: "\tif _, isExpr := stmt.(*ast.ExprStmt); !isExpr {\n\t\tcommentStmt(ctx, stmt)\n\t}\n\tswitch v := stmt.(type) {\n\tcase *ast.ExprStmt:", Expect: "stmt-pass-through/compileStmt"},
			{Name: "line-from-end", File: f, Old: "func commentStmtEx(cb *gogen.CodeBuilder, ctx *pkgCtx, stmt ast.Stmt) {\n\tstart := stmt.Pos()", New: "func commentStmtEx(cb *gogen.CodeBuilder, ctx *pkgCtx, stmt ast.Stmt) {\n\tstart := stmt.End()", Expect: "line-origin/commentStmtEx:start"},
			{Name: "line-plus-one", File: f, Old: "\tline := fmt.Sprintf(\"\\n//line %s:%d:1\", pos.Filename, pos.Line)", New: "\tline := fmt.Sprintf(\"\\n//line %s:%d:1\", pos.Filename, pos.Line+1)", Expect: "line-origin/commentStmtEx:args"},
			{Name: "column-as-line", File: f, Old: "\tline := fmt.Sprintf(\"\\n//line %s:%d:1\", pos.Filename, pos.Line)", New: "\tline := fmt.Sprintf(\"\\n//line %s:%d:1\", pos.Filename, pos.Column)", Expect: "line-origin/commentStmtEx:args"},
			{Name: "func-doc-before-line", File: f, Old: "\t\tdoc := &goast.CommentGroup{}\n\t\tdoc.List = append(doc.List, &goast.Comment{Text: line})\n\t\tif decl.Doc != nil {\n\t\t\tdoc.List = append(doc.List, decl.Doc.List...)\n\t\t}", New: "\t\tdoc := &goast.CommentGroup{}\n\t\tif decl.Doc != nil {\n\t\t\tdoc.List = append(doc.List, decl.Doc.List...)\n\t\t}\n\t\tdoc.List = append(doc.List, &goast.Comment{Text: line})", Expect: "line-first/commentFunc"},
			{Name: "func-comment-only-with-body", File: "cl/compile.go", Old: "\tcommentFunc(ctx, fn, d)\n\tif rec := ctx.recorder(); rec != nil {", New: "\tif d.Recv == nil {\n\t\tcommentFunc(ctx, fn, d)\n\t}\n\tif rec := ctx.recorder(); rec != nil {", Expect: "func-pass-through/loadFunc"},
			{Name: "foreign-comments-installed", File: f, Old: "func compileReturnStmt(ctx *blockCtx, expr *ast.ReturnStmt) {\n", New: "func compileReturnStmt(ctx *blockCtx, expr *ast.ReturnStmt) {\n\tctx.cb.SetComments(&goast.CommentGroup{List: []*goast.Comment{{Text: \"// return\"}}}, true)\n", Expect: "comments-census/compileReturnStmt"},
			{Name: "elseif-bypasses-compileStmt", File: f, Old: "\t\tif stmts, ok := e.(*ast.BlockStmt); ok {\n\t\t\tcompileStmts(ctx, stmts.List)\n\t\t} else {\n\t\t\tcompileStmt(ctx, e)\n\t\t}", New: "\t\tif stmts, ok := e.(*ast.BlockStmt); ok {\n\t\t\tcompileStmts(ctx, stmts.List)\n\t\t} else if ei, ok := e.(*ast.IfStmt); ok {\n\t\t\tcompileIfStmt(ctx, ei)\n\t\t} else {\n\t\t\tcompileStmt(ctx, e)\n\t\t}", Expect: "stmt-route/compileIfStmt→compileIfStmt"},
			{Name: "lambda2-no-restore", File: "cl/expr.go", Old: "\tcb.End(v)\n\tctx.cb.SetComments(comments, once)\n\treturn nil\n}", New: "\tcb.End(v)\n\t_, _ = comments, once\n\treturn nil\n}", Expect: "nested-restore/compileLambdaExpr2"},
			{Name: "forphrase-restore-after-if-emitted", File: "cl/stmt.go", Old: "\t\tcompileStmts(ctx, v.Body.List)\n\t\tcb.SetComments(comments, once)\n\t\tif rec := ctx.recorder(); rec != nil {\n\t\t\trec.Scope(v.Body, cb.Scope())\n\t\t}\n\t\tcb.End()\n", New: "\t\tcompileStmts(ctx, v.Body.List)\n\t\tif rec := ctx.recorder(); rec != nil {\n\t\t\trec.Scope(v.Body, cb.Scope())\n\t\t}\n\t\tcb.End()\n\t\tcb.SetComments(comments, once)\n", Expect: "restore-before-emit/compileForPhraseStmt"},
			{Name: "funcbody-no-restore", File: "cl/compile.go", Old: "\tcomments, once := ctx.cb.BackupComments()\n\tdefer func() {\n\t\tctx.cb.SetComments(comments, once)\n\t}()\n\tcb := fn.BodyStart(ctx.pkg, body)", New: "\tcb := fn.BodyStart(ctx.pkg, body)", Expect: "nested-restore/loadFuncBody"},
			{Name: "directive-cached-by-line", File: f, Old: "\tpos := ctx.fset.Position(start)\n\tif ctx.relBaseDir != \"\" {\n\t\tpos.Filename = fileLineFile(ctx.relBaseDir, pos.Filename)\n\t}\n\tline := fmt.Sprintf(\"\\n//line %s:%d:1\", pos.Filename, pos.Line)", New: "\tpos := ctx.fset.Position(start)\n\tif lastLineComments != nil && lastLine == pos.Line {\n\t\tcb.SetComments(lastLineComments, false)\n\t\treturn\n\t}\n\tlastLine = pos.Line\n\tif ctx.relBaseDir != \"\" {\n\t\tpos.Filename = fileLineFile(ctx.relBaseDir, pos.Filename)\n\t}\n\tline := fmt.Sprintf(\"\\n//line %s:%d:1\", pos.Filename, pos.Line)", Old2: "func checkStmtDoc(", New2: "var (\n\tlastLine         int\n\tlastLineComments *goast.CommentGroup\n)\n\nfunc checkStmtDoc(", Expect: "line-fresh/commentStmtEx"},
			{Name: "fileline-guard-inverted", File: f, Old: "\tif ctx.fileLine {\n\t\tcommentStmtEx(ctx.cb, ctx.pkgCtx, stmt)\n\t}", New: "\tif ctx.fileLine && ctx.relBaseDir != \"\" {\n\t\tcommentStmtEx(ctx.cb, ctx.pkgCtx, stmt)\n\t}", Expect: "stmt-guard/commentStmt"},
		},
	})
}

// c09DirectCalls: statement lowering routines called from elsewhere than compileStmt, reviewed.
var c09DirectCalls = map[string]string{
	"compileRangeStmt→compileForStmt":     "`for k := range a:b` is rewritten into a for statement (toForStmt) that stands for the same source statement; compileStmt already installed that statement's directive",
	"compileForPhraseStmt→compileForStmt": "`for x <- a:b` is rewritten into a for statement standing for the same source statement; its directive was installed by compileStmt",
}

// c09NoRestore: routines that lower a nested statement list and need not restore the pending directive.
var c09NoRestore = map[string]string{
	"compileStmt":  "the BlockStmt arm: the block is the whole statement, nothing of an enclosing statement is emitted after it in this routine",
	"compileStmts": "the list walker itself",
}

var c09LineFormat = regexp.MustCompile(`^\n?//line %s:%d(:1)?$`)

func runC09(c *core.Check) {
	prog := c.Load("./cl")
	pk := prog.Pkg("./cl")
	if pk == nil {
		return
	}
	info := pk.TypesInfo
	c.Trust("golang.org/x/tools@v0.29.0 go/cfg", "gogen prints the comment group installed by SetComments directly before the next statement / the function declaration")
	get := func(name string) *ast.FuncDecl {
		fd := prog.FuncDecl("./cl", name)
		if fd == nil {
			c.Bad("anchor", "cl."+name, 0, "function not found")
		}
		return fd
	}
	compileStmt, commentStmt, commentStmtEx, commentFunc, loadFunc, checkStmtDoc := get("compileStmt"), get("commentStmt"), get("commentStmtEx"), get("commentFunc"), get("loadFunc"), get("checkStmtDoc")
	if compileStmt == nil || commentStmt == nil || commentStmtEx == nil || commentFunc == nil || loadFunc == nil || checkStmtDoc == nil {
		return
	}
	obj := func(fd *ast.FuncDecl) types.Object { return info.Defs[fd.Name] }

	// ---------- (1a) compileStmt → commentStmt(ctx, stmt) before the dispatch
	{
		stmtParam := paramObj(compileStmt, info, 1)
		var dispatch ast.Node
		if ts := typeSwitchOn(compileStmt.Body, info, stmtParam); ts != nil {
			dispatch = ts.Assign
		}
		if dispatch == nil {
			c.Undecided("stmt-pass-through", "compileStmt", compileStmt.Pos(), "no type switch over the statement parameter")
		} else {
			const (
				bCommented flow.State = 1 << iota
				bDispatchedBare
				bDispatched
			)
			p := &flow.Problem{Body: compileStmt.Body, Info: info}
			p.Node = func(n ast.Node, st flow.State, record bool) flow.State {
				if n == dispatch {
					st |= bDispatched
					if st&bCommented == 0 {
						st |= bDispatchedBare
					}
					return st
				}
				for _, call := range flow.Calls(n) {
					if calleeObj(info, call) == obj(commentStmt) && len(call.Args) == 2 && identObj(info, call.Args[1]) == stmtParam {
						st |= bCommented
					}
				}
				return st
			}
			res := flow.Solve(p)
			bad, seen := token.NoPos, false
			for _, e := range res.Exits {
				if e.State&bDispatched != 0 {
					seen = true
				}
				if e.State&bDispatchedBare != 0 {
					bad = e.Pos
				}
			}
			c.Decide(seen && !bad.IsValid(), "stmt-pass-through", "compileStmt", dispatch.Pos(), "every path to the statement dispatch calls commentStmt(ctx, stmt)",
				"a path reaches the statement dispatch of compileStmt without commentStmt(ctx, stmt): the statements compiled on that path carry the //line directive of the previous statement (or none), so their runtime position is another statement's line")
		}
	}
	// ---------- (1b) commentStmt: ctx.fileLine ⇒ commentStmtEx(…, stmt)
	{
		stmtParam := paramObj(commentStmt, info, 1)
		const (
			bFileLine flow.State = 1 << iota
			bOtherGuard
			bCalled
		)
		p := &flow.Problem{Body: commentStmt.Body, Info: info}
		p.Node = func(n ast.Node, st flow.State, record bool) flow.State {
			for _, call := range flow.Calls(n) {
				if calleeObj(info, call) == obj(commentStmtEx) && len(call.Args) == 3 && identObj(info, call.Args[2]) == stmtParam {
					st |= bCalled
				}
			}
			return st
		}
		p.Edge = func(cond ast.Expr, truth bool, st flow.State) (flow.State, bool) {
			if sel, ok := ast.Unparen(cond).(*ast.SelectorExpr); ok && sel.Sel.Name == "fileLine" {
				if truth {
					st |= bFileLine
				}
				return st, true
			}
			// any other condition: a path where fileLine may be set but the call is skipped
			if !truth {
				st |= bOtherGuard
			}
			return st, true
		}
		res := flow.Solve(p)
		ok := len(res.Exits) > 0
		called := false
		for _, e := range res.Exits {
			if e.State&bCalled != 0 {
				called = true
			}
			if e.State&bCalled == 0 && (e.State&bFileLine != 0 || e.State&bOtherGuard != 0) {
				ok = false
			}
		}
		c.Decide(ok && called, "stmt-guard", "commentStmt", commentStmt.Pos(), "commentStmtEx(…, stmt) is called exactly when ctx.fileLine is set",
			"commentStmt skips commentStmtEx on a path where ctx.fileLine is (or may be) set — an extra condition guards the call: with file-line output enabled some statements get no directive")
	}
	// ---------- (1c) loadFunc → commentFunc(ctx, fn, d) once NewFuncWith succeeded
	{
		declParam := paramObj(loadFunc, info, 2)
		for i := 0; i < 6 && declParam != nil; i++ {
			if p := paramObj(loadFunc, info, i); p != nil && p.Name() == "d" {
				declParam = p
			}
		}
		const (
			bCreated flow.State = 1 << iota
			bFailed
			bCommented
		)
		var fnVar, errVar types.Object
		ast.Inspect(loadFunc.Body, func(n ast.Node) bool {
			if as, ok := n.(*ast.AssignStmt); ok && len(as.Rhs) == 1 && len(as.Lhs) == 2 {
				if call, ok := as.Rhs[0].(*ast.CallExpr); ok {
					if fn, ok := calleeObj(info, call).(*types.Func); ok && fn.Name() == "NewFuncWith" {
						fnVar, errVar = identObj(info, as.Lhs[0]), identObj(info, as.Lhs[1])
					}
				}
			}
			return true
		})
		if fnVar == nil || errVar == nil {
			c.Undecided("func-pass-through", "loadFunc", loadFunc.Pos(), "cannot find `fn, err := pkg.NewFuncWith(…)`")
		} else {
			p := &flow.Problem{Body: loadFunc.Body, Info: info}
			p.Node = func(n ast.Node, st flow.State, record bool) flow.State {
				for _, call := range flow.Calls(n) {
					o := calleeObj(info, call)
					if fn, ok := o.(*types.Func); ok && fn.Name() == "NewFuncWith" {
						st |= bCreated
					}
					if o == obj(commentFunc) && len(call.Args) == 3 && identObj(info, call.Args[1]) == fnVar && identObj(info, call.Args[2]) == declParam {
						st |= bCommented
					}
				}
				return st
			}
			p.Edge = func(cond ast.Expr, truth bool, st flow.State) (flow.State, bool) {
				if x, nonNil, ok := flow.NilTest(cond); ok && identObj(info, x) == errVar && st&bCreated != 0 && st&bCommented == 0 {
					if nonNil == truth {
						st |= bFailed
					}
				}
				return st, true
			}
			res := flow.Solve(p)
			bad, created := token.NoPos, false
			for _, e := range res.Exits {
				if e.State&bCreated != 0 && e.State&bFailed == 0 {
					created = true
					if e.State&bCommented == 0 {
						bad = e.Pos
					}
				}
			}
			c.Decide(created && !bad.IsValid(), "func-pass-through", "loadFunc", loadFunc.Pos(), "every path on which NewFuncWith succeeded calls commentFunc(ctx, fn, d)",
				"a path through loadFunc creates the function and returns without commentFunc(ctx, fn, d): that function's declaration (and the panics/stack frames of its entry) is attributed to the generated file instead of its XGo line")
		}
	}
	// ---------- (1d) statements reach their lowering routine only through compileStmt (which installs the directive)
	{
		stmtIface := ifaceOf(prog.Lookup("./ast", "Stmt").Type())
		compileStmtObj := obj(compileStmt)
		nSites := 0
		for _, fd := range core.AllFuncDecls(pk) {
			if fd.Body == nil || info.Defs[fd.Name] == compileStmtObj {
				continue
			}
			ast.Inspect(fd.Body, func(n ast.Node) bool {
				call, ok := n.(*ast.CallExpr)
				if !ok {
					return true
				}
				fn, ok := calleeObj(info, call).(*types.Func)
				if !ok || fn.Pkg() != pk.Types || !strings.HasPrefix(fn.Name(), "compile") || !strings.HasSuffix(fn.Name(), "Stmt") || fn.Name() == "compileStmt" {
					return true
				}
				// the callee lowers one statement node: a parameter whose type is a pointer to an ast.Stmt implementation
				sig := fn.Type().(*types.Signature)
				takesStmt := false
				for i := 0; i < sig.Params().Len(); i++ {
					if pt, ok := sig.Params().At(i).Type().(*types.Pointer); ok && stmtIface != nil && types.Implements(pt, stmtIface) {
						takesStmt = true
					}
				}
				if !takesStmt {
					return true
				}
				nSites++
				key := core.FuncName(fd) + "→" + fn.Name()
				if why, ok := c09DirectCalls[key]; ok {
					c.Note("stmt-route-reviewed", key, call.Pos(), why)
					return true
				}
				c.Bad("stmt-route", key, call.Pos(), "cl."+core.FuncName(fd)+" hands a statement to cl."+fn.Name()+" directly instead of through compileStmt: that statement gets no //line directive of its own (it runs under the directive of whatever was compiled before it)")
				return true
			})
		}
		c.Ok("stmt-route", "census", 0, core.Sprintf("%d direct calls of statement lowering routines outside compileStmt, all reviewed", nSites))
	}
	// ---------- (1e) routines that lower a nested statement list save the pending directive and restore it afterwards
	{
		compileStmts := pk.Types.Scope().Lookup("compileStmts")
		loadFuncBody := pk.Types.Scope().Lookup("loadFuncBody")
		for _, fd := range core.AllFuncDecls(pk) {
			if fd.Body == nil {
				continue
			}
			name := core.FuncName(fd)
			nested := false
			ast.Inspect(fd.Body, func(n ast.Node) bool {
				if _, isLit := n.(*ast.FuncLit); isLit {
					return false
				}
				if call, ok := n.(*ast.CallExpr); ok {
					// loadFuncBody saves and restores the pending directive itself (it is held to this rule below, as a
					// routine that calls compileStmts), so its callers need no pair of their own
					if o := calleeObj(info, call); o != nil && o == compileStmts {
						nested = true
					}
				}
				return true
			})
			if !nested {
				continue
			}
			if why, ok := c09NoRestore[name]; ok {
				c.Note("nested-restore-exempt", name, fd.Pos(), why)
				continue
			}
			// BackupComments before the nested list, SetComments(saved…) after it, on every path that compiles the list
			const (
				bSaved flow.State = 1 << iota
				bNested
				bNestedUnsaved
				bRestored
				bDeferredRestore
				bQuietBlock // the innermost open gogen block is a VBlock or a function body: its End emits no statement
				bStaleEmit  // a statement-emitting End ran between the nested list and the restore
				bFresh      // commentStmt set the directive of the construct about to be emitted (a case clause)
			)
			var savedVar types.Object
			ast.Inspect(fd.Body, func(n ast.Node) bool {
				if as, ok := n.(*ast.AssignStmt); ok && len(as.Rhs) == 1 && len(as.Lhs) == 2 {
					if call, ok := as.Rhs[0].(*ast.CallExpr); ok {
						if fn, ok := calleeObj(info, call).(*types.Func); ok && fn.Name() == "BackupComments" {
							savedVar = identObj(info, as.Lhs[0])
						}
					}
				}
				return true
			})
			p := &flow.Problem{Body: fd.Body, Info: info}
			p.Node = func(n ast.Node, st flow.State, record bool) flow.State {
				if ds, ok := n.(*ast.DeferStmt); ok {
					if lit, ok := ds.Call.Fun.(*ast.FuncLit); ok && savedVar != nil {
						ast.Inspect(lit.Body, func(m ast.Node) bool {
							if call, ok := m.(*ast.CallExpr); ok && len(call.Args) == 2 && identObj(info, call.Args[0]) == savedVar {
								if fn, ok := calleeObj(info, call).(*types.Func); ok && fn.Name() == "SetComments" {
									st |= bDeferredRestore
								}
							}
							return true
						})
					}
					return st
				}
				for _, call := range flow.Calls(n) {
					o := calleeObj(info, call)
					fn, _ := o.(*types.Func)
					switch {
					case fn != nil && fn.Name() == "BackupComments":
						st |= bSaved
					case fn != nil && fn.Pkg() == pk.Types && (fn.Name() == "commentStmt" || fn.Name() == "commentStmtEx"):
						st |= bFresh
					case o != nil && o == compileStmts:
						st |= bNested
						st &^= bRestored | bFresh
						if st&bSaved == 0 {
							st |= bNestedUnsaved
						}
					case fn != nil && fn.Name() == "SetComments" && len(call.Args) == 2 && savedVar != nil && identObj(info, call.Args[0]) == savedVar:
						st |= bRestored
					case fn != nil && isGogenMethod(fn) && (fn.Name() == "VBlock" || fn.Name() == "BodyStart"):
						st |= bQuietBlock
					case fn != nil && isGogenMethod(fn) && fn.Name() == "End":
						// gogen attaches the pending comment group to the statement an End emits (if/for/switch/case/block…);
						// after a nested list that group is the last inner statement's directive until it is restored
						if st&bQuietBlock != 0 {
							st &^= bQuietBlock
						} else if st&bNested != 0 && st&(bRestored|bFresh) == 0 {
							st |= bStaleEmit
						}
					}
				}
				return st
			}
			res := flow.Solve(p)
			ok := len(res.Exits) > 0
			stale := false
			for _, e := range res.Exits {
				if e.State&bNested != 0 && (e.State&bNestedUnsaved != 0 || e.State&(bRestored|bDeferredRestore) == 0) {
					ok = false
				}
				if e.State&bStaleEmit != 0 {
					stale = true
				}
			}
			c.Decide(!stale, "restore-before-emit", name, fd.Pos(), "no statement is emitted (End of an if/for/switch/case block) between the nested list and the restore", "cl."+name+" closes a gogen block that emits a statement (End) after lowering a nested statement list and before restoring the saved //line directive: the emitted statement (the synthesized `if`, the loop, the clause) carries the directive of the last inner statement, so its own code is attributed to that line")
			c.Decide(ok, "nested-restore", name, fd.Pos(), "saves the pending comment group before the nested statements and restores it afterwards on every path", "cl."+name+" lowers a nested statement list without saving the pending //line directive first and restoring it afterwards (BackupComments … SetComments): the inner statements' directives replace the one of the enclosing statement, whose remaining code is then attributed to the last inner line")
		}
		c.Floor("nested-restore", 8)
		c.Floor("restore-before-emit", 8)
		_ = loadFuncBody
	}
	// ---------- (2) origin of the directive text
	c09Origin(c, pk, commentStmtEx, "commentStmtEx", paramObj(commentStmtEx, info, 2), obj(checkStmtDoc), "")
	c09Origin(c, pk, commentFunc, "commentFunc", paramObj(commentFunc, info, 2), nil, "Name")
	// checkStmtDoc returns only the Doc of the statement's own declaration
	{
		stmtParam := paramObj(checkStmtDoc, info, 0)
		ok := true
		n := 0
		ast.Inspect(checkStmtDoc.Body, func(m ast.Node) bool {
			r, isRet := m.(*ast.ReturnStmt)
			if !isRet || len(r.Results) != 1 {
				return true
			}
			n++
			if id, isId := r.Results[0].(*ast.Ident); isId && id.Name == "nil" {
				return true
			}
			sel, isSel := r.Results[0].(*ast.SelectorExpr)
			if !isSel || sel.Sel.Name != "Doc" || !derivedFrom(info, checkStmtDoc, sel.X, stmtParam, 3) {
				ok = false
			}
			return true
		})
		c.Decide(ok && n > 0, "line-origin", "checkStmtDoc", checkStmtDoc.Pos(), "returns nil or the Doc of the declaration inside the statement", "checkStmtDoc returns something other than the Doc group of the statement's own declaration: the directive may name a line that is not in front of the statement")
	}
	// ---------- (2b) the directive is computed afresh for every statement: inside commentStmtEx every SetComments call
	// passes nil (statement without position) or the group built from this call's own `line` — never a group kept
	// from an earlier statement (a cache keyed by line number confuses statements of different files)
	{
		ok := true
		n := 0
		var lineVars = map[types.Object]bool{}
		ast.Inspect(commentStmtEx.Body, func(m ast.Node) bool {
			if as, isAs := m.(*ast.AssignStmt); isAs && len(as.Lhs) == 1 && len(as.Rhs) == 1 {
				if call, isCall := as.Rhs[0].(*ast.CallExpr); isCall {
					if fn, isFn := calleeObj(info, call).(*types.Func); isFn && fn.Name() == "Sprintf" {
						lineVars[identObj(info, as.Lhs[0])] = true
					}
				}
			}
			return true
		})
		ast.Inspect(commentStmtEx.Body, func(m ast.Node) bool {
			call, isCall := m.(*ast.CallExpr)
			if !isCall || len(call.Args) != 2 {
				return true
			}
			if fn, isFn := calleeObj(info, call).(*types.Func); !isFn || fn.Name() != "SetComments" {
				return true
			}
			n++
			a := ast.Unparen(call.Args[0])
			if id, isId := a.(*ast.Ident); isId && id.Name == "nil" {
				return true
			}
			o := identObj(info, a)
			fresh := false
			if o != nil {
				for lv := range lineVars {
					if lv != nil && holdsLine(info, commentStmtEx, o, lv) {
						fresh = true
					}
				}
				// and it has no other definition (field read, map lookup, parameter)
				for _, d := range varDefs(info, commentStmtEx, o) {
					if d == nil {
						continue
					}
					if _, isLit := ast.Unparen(d).(*ast.UnaryExpr); !isLit {
						if _, isCL := ast.Unparen(d).(*ast.CompositeLit); !isCL {
							fresh = false
						}
					}
				}
			}
			if !fresh {
				ok = false
			}
			return true
		})
		c.Decide(ok && n >= 2, "line-fresh", "commentStmtEx", commentStmtEx.Pos(), "every SetComments in commentStmtEx passes nil or the group built from this call's own position", "commentStmtEx installs a comment group that was not built from this statement's own position in this call (a cached or shared group): a statement can carry the //line directive computed for another statement — of another file when only the line number is compared")
	}
	// ---------- (3) census of CodeBuilder.SetComments
	nSet := 0
	for _, fd := range core.AllFuncDecls(pk) {
		if fd.Body == nil || fd == commentStmtEx {
			continue
		}
		ast.Inspect(fd.Body, func(n ast.Node) bool {
			call, ok := n.(*ast.CallExpr)
			if !ok {
				return true
			}
			fn, ok := calleeObj(info, call).(*types.Func)
			if !ok || fn.Name() != "SetComments" || len(call.Args) != 2 {
				return true
			}
			recv := fn.Type().(*types.Signature).Recv()
			if recv == nil || namedOf(recv.Type()) == nil || namedOf(recv.Type()).Obj().Name() != "CodeBuilder" {
				return true
			}
			nSet++
			a := ast.Unparen(call.Args[0])
			if id, ok := a.(*ast.Ident); ok && id.Name == "nil" {
				return true
			}
			restored := false
			if o := identObj(info, a); o != nil {
				defs := varDefs(info, fd, o)
				restored = len(defs) > 0
				for _, d := range defs {
					dc, ok := ast.Unparen(d).(*ast.CallExpr)
					if !ok {
						restored = false
						continue
					}
					if f2, ok := calleeObj(info, dc).(*types.Func); !ok || f2.Name() != "BackupComments" {
						restored = false
					}
				}
			}
			if !restored {
				c.Bad("comments-census", core.FuncName(fd), call.Pos(), "installs a comment group on the code builder that is neither nil nor the value saved by BackupComments: it replaces the pending //line directive of the current statement")
			}
			return true
		})
	}
	c.Decide(nSet >= 8, "comments-census", "sites", 0, core.Sprintf("%d CodeBuilder.SetComments calls outside commentStmtEx pass nil or restore a BackupComments value", nSet), "fewer SetComments sites than confirmed by hand: the census no longer sees them")
}

// defsOf: the right-hand sides of every definition/assignment of a local variable inside fd.
func varDefs(info *types.Info, fd *ast.FuncDecl, o types.Object) []ast.Expr {
	var out []ast.Expr
	ast.Inspect(fd.Body, func(n ast.Node) bool {
		switch x := n.(type) {
		case *ast.AssignStmt:
			for i, l := range x.Lhs {
				if identObj(info, l) != o {
					continue
				}
				if len(x.Rhs) == len(x.Lhs) {
					out = append(out, x.Rhs[i])
				} else if len(x.Rhs) == 1 {
					out = append(out, x.Rhs[0])
				}
			}
		case *ast.ValueSpec:
			for i, id := range x.Names {
				if info.Defs[id] == o {
					if i < len(x.Values) {
						out = append(out, x.Values[i])
					} else {
						out = append(out, nil)
					}
				}
			}
		}
		return true
	})
	return out
}

// derivedFrom: e is the variable root, or a local whose definitions are type assertions / field selections of something derived from root.
func derivedFrom(info *types.Info, fd *ast.FuncDecl, e ast.Expr, root types.Object, depth int) bool {
	e = ast.Unparen(e)
	switch x := e.(type) {
	case *ast.Ident:
		o := info.ObjectOf(x)
		if o == root {
			return true
		}
		if depth == 0 || o == nil {
			return false
		}
		defs := varDefs(info, fd, o)
		if len(defs) == 0 {
			return false
		}
		for _, d := range defs {
			if d == nil || !derivedFrom(info, fd, d, root, depth-1) {
				return false
			}
		}
		return true
	case *ast.TypeAssertExpr:
		return derivedFrom(info, fd, x.X, root, depth)
	case *ast.SelectorExpr:
		if _, isField := info.Selections[x]; isField {
			return derivedFrom(info, fd, x.X, root, depth)
		}
	}
	return false
}

// c09Origin checks the //line Sprintf of one routine. node is the parameter holding the statement / declaration;
// docFn, when set, is a function whose result on node is an acceptable second source of positions; nameField, when
// set, is the field of node whose Pos() is the primary position (decl.Name.Pos()).
func c09Origin(c *core.Check, pk *packages.Package, fd *ast.FuncDecl, name string, node types.Object, docFn types.Object, nameField string) {
	info := pk.TypesInfo
	var sprintfs []*ast.CallExpr
	ast.Inspect(fd.Body, func(n ast.Node) bool {
		if call, ok := n.(*ast.CallExpr); ok {
			if fn, ok := calleeObj(info, call).(*types.Func); ok && fn.Pkg() != nil && fn.Pkg().Path() == "fmt" && fn.Name() == "Sprintf" && len(call.Args) >= 1 {
				if tv := info.Types[call.Args[0]]; tv.Value != nil && tv.Value.Kind() == constant.String {
					sprintfs = append(sprintfs, call)
				}
			}
		}
		return true
	})
	if len(sprintfs) == 0 {
		c.Bad("line-origin", name+":format", fd.Pos(), "no fmt.Sprintf with a constant //line format found: the directive text is built in a way this rule cannot follow")
		return
	}
	var lineVar types.Object
	for i, call := range sprintfs {
		format := constant.StringVal(info.Types[call.Args[0]].Value)
		key := name + ":format"
		if len(sprintfs) > 1 {
			key = core.Sprintf("%s:format#%d", name, i+1)
		}
		c.Decide(c09LineFormat.MatchString(format), "line-origin", key, call.Pos(), core.Sprintf("%q", format), core.Sprintf("the directive format %q is not `//line %%s:%%d[:1]`: the Go toolchain will not read it as filename:line[:col]", format))
		// args
		okArgs := len(call.Args) == 3
		var posVar types.Object
		if okArgs {
			a1, ok1 := ast.Unparen(call.Args[1]).(*ast.SelectorExpr)
			a2, ok2 := ast.Unparen(call.Args[2]).(*ast.SelectorExpr)
			okArgs = ok1 && ok2 && a1.Sel.Name == "Filename" && a2.Sel.Name == "Line" && identObj(info, a1.X) != nil && identObj(info, a1.X) == identObj(info, a2.X)
			if okArgs {
				posVar = identObj(info, a1.X)
			}
		}
		akey := name + ":args"
		c.Decide(okArgs, "line-origin", akey, call.Pos(), "arguments are pos.Filename, pos.Line of one token.Position", "the arguments of the //line format are not the Filename and the Line field of one and the same token.Position: the directive names another line (or column) than the statement's")
		if !okArgs {
			continue
		}
		// pos := X.fset.Position(start)
		var startVar types.Object
		pdefs := varDefs(info, fd, posVar)
		okPos := len(pdefs) == 1
		if okPos {
			pc, ok := ast.Unparen(pdefs[0]).(*ast.CallExpr)
			okPos = ok && len(pc.Args) == 1
			if okPos {
				fn, ok := calleeObj(info, pc).(*types.Func)
				okPos = ok && fn.Name() == "Position" && fn.Pkg() != nil && fn.Pkg().Path() == "go/token"
				startVar = identObj(info, pc.Args[0])
				okPos = okPos && startVar != nil
			}
		}
		// field writes to pos: only Filename = fileLineFile(…, pos.Filename)
		ast.Inspect(fd.Body, func(n ast.Node) bool {
			as, ok := n.(*ast.AssignStmt)
			if !ok {
				return true
			}
			for j, l := range as.Lhs {
				sel, ok := l.(*ast.SelectorExpr)
				if !ok || identObj(info, sel.X) != posVar {
					continue
				}
				good := false
				if sel.Sel.Name == "Filename" && j < len(as.Rhs) {
					if rc, ok := as.Rhs[j].(*ast.CallExpr); ok {
						if fn, ok := calleeObj(info, rc).(*types.Func); ok && fn.Name() == "fileLineFile" && len(rc.Args) == 2 {
							if s2, ok := rc.Args[1].(*ast.SelectorExpr); ok && s2.Sel.Name == "Filename" && identObj(info, s2.X) == posVar {
								good = true
							}
						}
					}
				}
				if !good {
					okPos = false
				}
			}
			return true
		})
		c.Decide(okPos, "line-origin", name+":pos", call.Pos(), "pos is fset.Position(start); only its Filename is rewritten, by fileLineFile", "the token.Position used for the directive is not exactly fset.Position(start) (its Line is rewritten, or it is computed from something else)")
		if !okPos {
			continue
		}
		// every definition of start is <node>.Pos(), <node>.<nameField>.Pos(), <node>.Doc.Pos() or doc.Pos() with doc := docFn(node)
		sdefs := varDefs(info, fd, startVar)
		okStart := len(sdefs) > 0
		primary := false
		var why string
		for _, d := range sdefs {
			dc, ok := ast.Unparen(d).(*ast.CallExpr)
			if !ok || len(dc.Args) != 0 {
				okStart, why = false, "a definition is not a Pos() call"
				continue
			}
			sel, ok := dc.Fun.(*ast.SelectorExpr)
			if !ok || sel.Sel.Name != "Pos" {
				okStart, why = false, "start is defined by "+core.ExprStr(d)+", not by a Pos() call"
				continue
			}
			recv := ast.Unparen(sel.X)
			switch {
			case nameField == "" && identObj(info, recv) == node:
				primary = true
			case nameField != "" && isFieldOf(info, recv, node, nameField):
				primary = true
			case isFieldOf(info, recv, node, "Doc"):
			case docFn != nil && isResultOf(info, fd, recv, docFn, node):
			default:
				okStart, why = false, "start is also defined by "+core.ExprStr(d)
			}
		}
		c.Decide(okStart && primary, "line-origin", name+":start", fd.Pos(), "start is the Pos() of the node (or of its doc comment)", "the position the directive is computed from does not originate from the Pos() of the statement/declaration or of its doc comment ("+why+"): the directive names a line other than the one the statement starts on")
		if i == 0 {
			if as := enclosingAssign(fd, call); as != nil && len(as.Lhs) == 1 {
				lineVar = identObj(info, as.Lhs[0])
			}
		}
	}
	// the directive is the first comment of the group handed to SetComments
	if lineVar == nil {
		c.Undecided("line-first", name, fd.Pos(), "the Sprintf result is not assigned to a local variable")
		return
	}
	first, found := c09FirstComment(info, fd, lineVar)
	c.Decide(found && first, "line-first", name, fd.Pos(), "the directive is the first comment of the installed group", "the //line comment is not the first element of the comment group handed to SetComments (other comment lines precede it): the directive then applies from the wrong output line and every line after it is shifted")
	// SetComments reached on every path that computed the directive
	{
		const (
			bLine flow.State = 1 << iota
			bSet
		)
		p := &flow.Problem{Body: fd.Body, Info: info}
		p.Node = func(n ast.Node, st flow.State, record bool) flow.State {
			if as, ok := n.(*ast.AssignStmt); ok {
				for _, l := range as.Lhs {
					if identObj(info, l) == lineVar {
						st |= bLine
					}
				}
			}
			if vs, ok := n.(*ast.ValueSpec); ok {
				_ = vs
			}
			for _, call := range flow.Calls(n) {
				if fn, ok := calleeObj(info, call).(*types.Func); ok && fn.Name() == "SetComments" && st&bLine != 0 {
					// the group passed must be the one that holds the directive
					for _, a := range call.Args {
						if o := identObj(info, a); o != nil && holdsLine(info, fd, o, lineVar) {
							st |= bSet
						}
					}
				}
			}
			return st
		}
		res := flow.Solve(p)
		ok, seen := true, false
		for _, e := range res.Exits {
			if e.State&bLine != 0 {
				seen = true
				if e.State&bSet == 0 {
					ok = false
				}
			}
		}
		c.Decide(ok && seen, "line-installed", name, fd.Pos(), "every path that builds the directive hands it to SetComments", "a path builds the //line text and returns without installing it with SetComments")
	}
}

func isFieldOf(info *types.Info, e ast.Expr, root types.Object, field string) bool {
	sel, ok := ast.Unparen(e).(*ast.SelectorExpr)
	return ok && sel.Sel.Name == field && identObj(info, sel.X) == root
}

// isResultOf: e is a local whose only definition is docFn(node).
func isResultOf(info *types.Info, fd *ast.FuncDecl, e ast.Expr, fn, node types.Object) bool {
	o := identObj(info, e)
	if o == nil {
		return false
	}
	defs := varDefs(info, fd, o)
	if len(defs) != 1 || defs[0] == nil {
		return false
	}
	call, ok := ast.Unparen(defs[0]).(*ast.CallExpr)
	return ok && calleeObj(info, call) == fn && len(call.Args) == 1 && identObj(info, call.Args[0]) == node
}

func enclosingAssign(fd *ast.FuncDecl, e ast.Expr) *ast.AssignStmt {
	var out *ast.AssignStmt
	ast.Inspect(fd.Body, func(n ast.Node) bool {
		if as, ok := n.(*ast.AssignStmt); ok {
			for _, r := range as.Rhs {
				if r == e {
					out = as
				}
			}
		}
		return true
	})
	return out
}

// c09FirstComment: the Comment{Text: line} literal is element 0 of a []*Comment literal, or the first append to a fresh group.
func c09FirstComment(info *types.Info, fd *ast.FuncDecl, lineVar types.Object) (first, found bool) {
	isLineComment := func(e ast.Expr) bool {
		e = ast.Unparen(e)
		if u, ok := e.(*ast.UnaryExpr); ok && u.Op == token.AND {
			e = u.X
		}
		cl, ok := e.(*ast.CompositeLit)
		if !ok {
			return false
		}
		for _, el := range cl.Elts {
			if kv, ok := el.(*ast.KeyValueExpr); ok {
				if k, ok := kv.Key.(*ast.Ident); ok && k.Name == "Text" && identObj(info, kv.Value) == lineVar {
					return true
				}
			}
		}
		return false
	}
	// form 1: List: []*Comment{{Text: line}, …}
	ast.Inspect(fd.Body, func(n ast.Node) bool {
		cl, ok := n.(*ast.CompositeLit)
		if !ok {
			return true
		}
		if t := info.TypeOf(cl); t != nil {
			if _, isSlice := t.Underlying().(*types.Slice); isSlice {
				for i, el := range cl.Elts {
					if isLineComment(el) {
						found = true
						first = i == 0
					}
				}
			}
		}
		return true
	})
	if found {
		return
	}
	// form 2: appends to X.List in source order; the first append statement must be the directive
	type app struct {
		pos  token.Pos
		line bool
	}
	var apps []app
	ast.Inspect(fd.Body, func(n ast.Node) bool {
		as, ok := n.(*ast.AssignStmt)
		if !ok || len(as.Rhs) != 1 {
			return true
		}
		call, ok := as.Rhs[0].(*ast.CallExpr)
		if !ok {
			return true
		}
		if id, ok := call.Fun.(*ast.Ident); !ok || id.Name != "append" || len(call.Args) < 2 {
			return true
		}
		if sel, ok := call.Args[0].(*ast.SelectorExpr); !ok || sel.Sel.Name != "List" {
			return true
		}
		apps = append(apps, app{as.Pos(), isLineComment(call.Args[1])})
		return true
	})
	sort.Slice(apps, func(i, j int) bool { return apps[i].pos < apps[j].pos })
	for i, a := range apps {
		if a.line {
			found = true
			first = i == 0
		}
	}
	return
}

// holdsLine: the variable is the comment group built from lineVar (its literal or its appends mention lineVar).
func holdsLine(info *types.Info, fd *ast.FuncDecl, group, lineVar types.Object) bool {
	holds := false
	ast.Inspect(fd.Body, func(n ast.Node) bool {
		as, ok := n.(*ast.AssignStmt)
		if !ok {
			return true
		}
		for i, l := range as.Lhs {
			root := l
			if sel, ok := l.(*ast.SelectorExpr); ok {
				root = sel.X
			}
			if identObj(info, root) == group && i < len(as.Rhs) && mentions(info, as.Rhs[i], lineVar) {
				holds = true
			}
		}
		return true
	})
	return holds
}

// isGogenMethod: a method of gogen's CodeBuilder (or of a type of that module).
func isGogenMethod(fn *types.Func) bool {
	return fn.Pkg() != nil && strings.HasSuffix(fn.Pkg().Path(), "goplus/gogen")
}
