package props

import (
	"go/ast"
	"go/constant"
	"go/token"
	"go/types"
	"sort"
	"strings"

	"verif/checker/internal/core"
	"verif/checker/internal/flow"
)

func init() {
	f := "tool/imp.go"
	register(&Prop{
		ID:        "C36",
		Title:     "The import cache key changes exactly when package sources change",
		Technique: "value-origin and control-dependence analysis of tool.dirHash on go/cfg, must-pass-through (freshness) analysis from Importer.PkgHash to os.ReadDir, extension-table agreement with the parser",
		Explanation: "Decides for every history of file-system operations the structural facts the property needs: (a) inside the directory loop of dirHash exactly one write feeds the hash and its operands are the entry's Name(), its Info().Size() and its Info().ModTime() at full resolution (UnixNano), rendered by verbs without precision and separated by literal bytes (injective encoding) — nothing else that varies; " +
			"(b) that write is control-dependent on exactly: not a directory, no '_' prefix, canCl, Info() succeeded — no other filter; (c) entries come from os.ReadDir(dir) of the dir parameter and are hashed in ReadDir's (sorted) order by a plain range; " +
			"(d) every return of PkgHash that yields a directory hash calls, on every path, down to os.ReadDir — no memoised value can be returned after the directory changed; (e) no clock/random/environment input; (f) canCl accepts every extension the parser compiles.",
		NotCovered: "hash collisions of SHA-256, file systems whose mtime granularity is coarser than a change, non-regular non-directory entries, and the module lookup (mod.Lookup) that maps a package path to its directory.",
		Run:        runC36,
		Controls: []Control{
			{Name: "mtime-seconds", File: f, Old: "v.ModTime().UnixNano()", New: "v.ModTime().Unix()", Expect: "hash-input/mtime"},
			{Name: "drop-size", File: f, Old: "fmt.Fprintf(h, \"file\\t%s\\t%x\\t%x\\n\", fname, v.Size(), v.ModTime().UnixNano())", New: "fmt.Fprintf(h, \"file\\t%s\\t%x\\n\", fname, v.ModTime().UnixNano())", Expect: "hash-input/size"},
			{Name: "hash-mode", File: f, Old: "fmt.Fprintf(h, \"file\\t%s\\t%x\\t%x\\n\", fname, v.Size(), v.ModTime().UnixNano())", New: "fmt.Fprintf(h, \"file\\t%s\\t%x\\t%x\\t%x\\n\", fname, v.Size(), v.ModTime().UnixNano(), uint32(v.Mode()))", Expect: "hash-input/extra"},
			{Name: "no-separator", File: f, Old: "\"file\\t%s\\t%x\\t%x\\n\"", New: "\"file\\t%s%x\\t%x\\n\"", Expect: "hash-input/encoding"},
			{Name: "skip-big-files", File: f, Old: "\t\t\tif v, e := fi.Info(); e == nil {", New: "\t\t\tif v, e := fi.Info(); e == nil && v.Size() < 1<<20 {", Expect: "hash-guard/extra-filter"},
			{Name: "hash-underscore-files", File: f, Old: "if strings.HasPrefix(fname, \"_\") || !canCl(mod, fname) {", New: "if !canCl(mod, fname) {", Expect: "hash-guard/underscore"},
			{Name: "hash-dirs", File: f, Old: "\t\t\tif fi.IsDir() {\n\t\t\t\tcontinue\n\t\t\t}\n", New: "", Expect: "hash-guard/not-dir"},
			{Name: "memoize", File: f, Old: "\t\t\treturn dirHash(p.mod, p.xgo, pkg.Dir, self)", New: "\t\t\treturn cachedDirHash(p.mod, p.xgo, pkg.Dir, self)",
				Old2: "func dirHash(", New2: "var hashMemo = map[string]string{}\n\nfunc cachedDirHash(mod *xgomod.Module, xgo *env.XGo, dir string, self bool) string {\n\tif h, ok := hashMemo[dir]; ok {\n\t\treturn h\n\t}\n\th := dirHash(mod, xgo, dir, self)\n\thashMemo[dir] = h\n\treturn h\n}\n\nfunc dirHash(", Expect: "freshness/PkgHash:cachedDirHash"},
			{Name: "clock", File: f, Old: "\t\tfmt.Fprintf(h, \"xgo\\t%s\\n\", xgo.Version)", New: "\t\tfmt.Fprintf(h, \"xgo\\t%s\\t%d\\n\", xgo.Version, os.Getpid())", Expect: "nondeterminism/dirHash"},
			{Name: "canCl-drops-gox", File: f, Old: "case \".go\", \".xgo\", \".gop\", \".gox\":", New: "case \".go\", \".xgo\", \".gop\":", Expect: "ext-agreement/.gox"},
		},
	})
}

func runC36(c *core.Check) {
	prog := c.Load("./tool", "./parser")
	pk := prog.Pkg("./tool")
	if pk == nil {
		return
	}
	deadStateRule(c, pk) // no unexported field is read without a writer (a cache flag never set, a saved value never saved)
	info := pk.TypesInfo
	c.Trust("golang.org/x/tools@v0.29.0 go/cfg", "os.ReadDir returns entries sorted by name")
	dh := prog.FuncDecl("./tool", "dirHash")
	ph := prog.FuncDecl("./tool", "Importer.PkgHash")
	cc := prog.FuncDecl("./tool", "canCl")
	if dh == nil || ph == nil || cc == nil {
		return
	}
	canClObj := pk.Types.Scope().Lookup("canCl")
	dhObj := pk.Types.Scope().Lookup("dirHash")

	// locate the hash variable, the ReadDir call and the range loop
	var hashVar types.Object
	var readDir *ast.CallExpr
	var entries types.Object
	ast.Inspect(dh.Body, func(n ast.Node) bool {
		as, ok := n.(*ast.AssignStmt)
		if !ok || len(as.Rhs) != 1 {
			return true
		}
		call, ok := ast.Unparen(as.Rhs[0]).(*ast.CallExpr)
		if !ok {
			return true
		}
		switch pkgFuncName(info, call) {
		case "crypto/sha256.New", "crypto/sha1.New", "crypto/md5.New", "crypto/sha512.New":
			hashVar = identObj(info, as.Lhs[0])
		case "os.ReadDir":
			readDir = call
			entries = identObj(info, as.Lhs[0])
		}
		return true
	})
	if hashVar == nil || readDir == nil || entries == nil {
		c.Undecided("shape", "dirHash", dh.Pos(), "cannot find the hash object and the os.ReadDir call")
		return
	}
	var dirParam types.Object
	k := 0
	for _, f := range dh.Type.Params.List {
		for _, nm := range f.Names {
			if nm.Name == "dir" || (info.Defs[nm].Type().String() == "string" && dirParam == nil) {
				dirParam = info.Defs[nm]
			}
			k++
		}
	}
	c.Decide(len(readDir.Args) == 1 && identObj(info, readDir.Args[0]) == dirParam && dirParam != nil, "entries", "ReadDir(dir)", readDir.Pos(), "the listing is os.ReadDir of the dir parameter", "the directory listing is not os.ReadDir(<the dir parameter>)")
	var loop *ast.RangeStmt
	ast.Inspect(dh.Body, func(n ast.Node) bool {
		if r, ok := n.(*ast.RangeStmt); ok && identObj(info, r.X) == entries {
			loop = r
		}
		return true
	})
	if loop == nil {
		c.Bad("entries", "range-in-order", dh.Pos(), "the entries returned by os.ReadDir are not consumed by a plain range loop (order of hashing is not ReadDir's sorted order)")
		return
	}
	// the entries slice must not be reordered/filtered between ReadDir and the loop
	mutated := false
	ast.Inspect(dh.Body, func(n ast.Node) bool {
		if call, ok := n.(*ast.CallExpr); ok && call.Pos() > readDir.End() && call.End() < loop.Pos() {
			for _, a := range call.Args {
				if identObj(info, a) == entries {
					mutated = true
				}
			}
		}
		if as, ok := n.(*ast.AssignStmt); ok && as.Pos() > readDir.End() && as.End() < loop.Pos() {
			for _, l := range as.Lhs {
				if identObj(info, l) == entries {
					mutated = true
				}
			}
		}
		return true
	})
	c.Decide(!mutated, "entries", "range-in-order", loop.Pos(), "plain range over the ReadDir result", "the ReadDir result is passed to a function or reassigned before the loop: entries may be reordered or dropped")
	entry := identObj(info, loop.Value)
	defs := defsOf(info, dh.Body)

	// helpers to classify operand origins
	isEntryCall := func(e ast.Expr, method string) bool {
		call, ok := ast.Unparen(e).(*ast.CallExpr)
		if !ok {
			return false
		}
		sel, ok := call.Fun.(*ast.SelectorExpr)
		return ok && sel.Sel.Name == method && identObj(info, sel.X) == entry
	}
	nameLike := func(e ast.Expr) bool {
		if isEntryCall(e, "Name") {
			return true
		}
		if o := identObj(info, e); o != nil {
			ds := defs[o]
			if len(ds) == 0 {
				return false
			}
			for _, d := range ds {
				if !isEntryCall(d, "Name") {
					return false
				}
			}
			return true
		}
		return false
	}
	infoVar := func(o types.Object) bool {
		ds := defs[o]
		if len(ds) == 0 {
			return false
		}
		for _, d := range ds {
			if !isEntryCall(d, "Info") {
				return false
			}
		}
		return true
	}
	infoCall := func(e ast.Expr, method string) (ast.Expr, bool) { // X.method() with X an Info() value
		call, ok := ast.Unparen(e).(*ast.CallExpr)
		if !ok {
			return nil, false
		}
		sel, ok := call.Fun.(*ast.SelectorExpr)
		if !ok || sel.Sel.Name != method {
			return nil, false
		}
		if o := identObj(info, sel.X); o != nil && infoVar(o) {
			return sel.X, true
		}
		return nil, false
	}

	// ---------- (b) control dependence + (a) operands, via path facts inside the loop body
	const (
		gNotDir flow.State = 1 << iota
		gIsDir
		gNoUnderscore
		gUnderscore
		gCanCl
		gNotCanCl
		gInfoOK
		gExtra
	)
	type writeObs struct {
		call *ast.CallExpr
		st   flow.State
	}
	var writes []writeObs
	var infoErr types.Object
	ast.Inspect(loop.Body, func(n ast.Node) bool {
		if as, ok := n.(*ast.AssignStmt); ok && len(as.Rhs) == 1 && len(as.Lhs) == 2 && isEntryCall(as.Rhs[0], "Info") {
			infoErr = identObj(info, as.Lhs[1])
		}
		return true
	})
	isHashWrite := func(call *ast.CallExpr) bool {
		name := pkgFuncName(info, call)
		if (name == "fmt.Fprintf" || name == "fmt.Fprint" || name == "fmt.Fprintln" || name == "io.WriteString") && len(call.Args) > 0 && identObj(info, call.Args[0]) == hashVar {
			return true
		}
		if sel, ok := call.Fun.(*ast.SelectorExpr); ok && identObj(info, sel.X) == hashVar && strings.HasPrefix(sel.Sel.Name, "Write") {
			return true
		}
		return false
	}
	p := &flow.Problem{Body: loop.Body, Info: info}
	p.Node = func(n ast.Node, st flow.State, record bool) flow.State {
		if record {
			for _, call := range flow.Calls(n) {
				if isHashWrite(call) {
					writes = append(writes, writeObs{call, st})
				}
			}
		}
		return st
	}
	var classify func(e ast.Expr, truth bool, st flow.State) flow.State
	classify = func(e ast.Expr, truth bool, st flow.State) flow.State {
		e = ast.Unparen(e)
		if u, ok := e.(*ast.UnaryExpr); ok && u.Op == token.NOT {
			return classify(u.X, !truth, st)
		}
		if be, ok := e.(*ast.BinaryExpr); ok {
			if be.Op == token.LOR && !truth {
				return classify(be.Y, false, classify(be.X, false, st))
			}
			if be.Op == token.LAND && truth {
				return classify(be.Y, true, classify(be.X, true, st))
			}
			if be.Op == token.LOR || be.Op == token.LAND {
				return st // the taken side is unknown: no fact
			}
			if x, nonNilOnTrue, ok := flow.NilTest(e); ok && infoErr != nil && identObj(info, x) == infoErr {
				if truth != nonNilOnTrue {
					return st | gInfoOK
				}
				return st
			}
			return st | gExtra
		}
		if isEntryCall(e, "IsDir") {
			if truth {
				return st | gIsDir
			}
			return st | gNotDir
		}
		if call, ok := e.(*ast.CallExpr); ok {
			if pkgFuncName(info, call) == "strings.HasPrefix" && len(call.Args) == 2 && nameLike(call.Args[0]) {
				if tv := info.Types[call.Args[1]]; tv.Value != nil && constant.StringVal(tv.Value) == "_" {
					if truth {
						return st | gUnderscore
					}
					return st | gNoUnderscore
				}
			}
			if calleeObj(info, call) == canClObj && len(call.Args) == 2 && nameLike(call.Args[1]) {
				if truth {
					return st | gCanCl
				}
				return st | gNotCanCl
			}
		}
		return st | gExtra
	}
	p.Edge = func(cond ast.Expr, truth bool, st flow.State) (flow.State, bool) {
		return classify(cond, truth, st), true
	}
	res := flow.Solve(p)
	c.Analysed("cfg_blocks_loop", res.Blocks)
	if len(writes) == 0 {
		c.Bad("hash-input", "write-present", loop.Pos(), "nothing is written to the hash inside the directory loop: the key ignores the directory's files")
		return
	}
	guardOK := func(bit flow.State) bool {
		for _, w := range writes {
			if w.st&bit == 0 {
				return false
			}
		}
		return true
	}
	wpos := writes[0].call.Pos()
	c.Decide(guardOK(gNotDir), "hash-guard", "not-dir", wpos, "", "a directory entry can reach the hash write: changes to sub-directories alter the key")
	c.Decide(guardOK(gNoUnderscore), "hash-guard", "underscore", wpos, "", "an entry whose name starts with '_' can reach the hash write: ignored files alter the key")
	c.Decide(guardOK(gCanCl), "hash-guard", "canCl", wpos, "", "an entry that canCl rejects can reach the hash write: non-source files alter the key")
	extra := false
	for _, w := range writes {
		if w.st&gExtra != 0 {
			extra = true
		}
	}
	c.Decide(!extra, "hash-guard", "extra-filter", wpos, "the write depends on no condition besides IsDir / '_' prefix / canCl / Info() error",
		"the hash write is control-dependent on an additional condition: some compilable, non-underscore regular files are left out of the key, so changing them does not change it")
	// one syntactic write site
	sites := map[*ast.CallExpr]bool{}
	for _, w := range writes {
		sites[w.call] = true
	}
	c.Decide(len(sites) == 1, "hash-input", "single-write", wpos, "", "several writes feed the hash inside the loop; the injective-encoding argument covers exactly one formatted write")

	// operands
	w := writes[0].call
	var operands []ast.Expr
	format := ""
	switch pkgFuncName(info, w) {
	case "fmt.Fprintf":
		if len(w.Args) >= 2 {
			if tv := info.Types[w.Args[1]]; tv.Value != nil && tv.Value.Kind() == constant.String {
				format = constant.StringVal(tv.Value)
			}
			operands = w.Args[2:]
		}
	default:
		c.Undecided("hash-input", "encoding", w.Pos(), "the hash write is not a fmt.Fprintf with a constant format; the encoding rule knows only that form")
		return
	}
	hasName, hasSize, hasMtime, extraOp := false, false, false, ""
	mtimeWhy := ""
	for _, op := range operands {
		switch {
		case nameLike(op):
			hasName = true
		default:
			if _, ok := infoCall(op, "Size"); ok {
				hasSize = true
				continue
			}
			// X.ModTime().<render>()
			if call, ok := ast.Unparen(op).(*ast.CallExpr); ok {
				if sel, ok := call.Fun.(*ast.SelectorExpr); ok {
					if _, ok := infoCall(sel.X, "ModTime"); ok {
						if sel.Sel.Name == "UnixNano" {
							hasMtime = true
						} else {
							mtimeWhy = "the modification time is rendered with ." + sel.Sel.Name + "(), which drops resolution: an edit within the same " + sel.Sel.Name + " unit that keeps the size leaves the key unchanged"
						}
						continue
					}
				}
				if _, ok := infoCall(op, "ModTime"); ok {
					hasMtime = true // the time.Time value itself (formatted with its full String())
					continue
				}
			}
			extraOp = core.ExprStr(op)
		}
	}
	c.Decide(hasName, "hash-input", "name", w.Pos(), "", "the entry's name is not an operand of the hash write: renames do not change the key")
	c.Decide(hasSize, "hash-input", "size", w.Pos(), "", "Info().Size() is not an operand of the hash write: a size change with a preserved mtime does not change the key")
	if mtimeWhy == "" {
		mtimeWhy = "Info().ModTime() is not an operand of the hash write: edits that keep the size do not change the key"
	}
	c.Decide(hasMtime, "hash-input", "mtime", w.Pos(), "ModTime().UnixNano()", mtimeWhy)
	c.Decide(extraOp == "", "hash-input", "extra", w.Pos(), "no operand besides name, size, mtime", "the hash write has an operand that is none of name/size/mtime ("+extraOp+"): the key changes on events the property says must not change it (or depends on something unstable)")
	// encoding: verbs == operands, no precision/width truncation, literal separator between verbs
	verbs, encOK := 0, true
	lastVerbEnd := -2
	for i := 0; i < len(format); i++ {
		if format[i] != '%' {
			continue
		}
		if i+1 < len(format) && format[i+1] == '%' {
			i++
			continue
		}
		if i == lastVerbEnd {
			encOK = false // two verbs with nothing in between
		}
		j := i + 1
		for j < len(format) && strings.ContainsRune("+-# 0123456789.*[]", rune(format[j])) {
			if format[j] == '.' || format[j] == '*' {
				encOK = false
			}
			j++
		}
		if j >= len(format) || !strings.ContainsRune("sxXdvq", rune(format[j])) {
			encOK = false
		}
		verbs++
		lastVerbEnd = j + 1
		i = j
	}
	if verbs != len(operands) {
		encOK = false
	}
	if !strings.HasSuffix(format, "\n") && !strings.HasSuffix(format, "\t") && !strings.HasSuffix(format, "\x00") {
		encOK = false // records must be delimited
	}
	c.Decide(encOK, "hash-input", "encoding", w.Pos(), core.Sprintf("format %q: %d verbs for %d operands, no precision, separators between fields, record terminated", format, verbs, len(operands)),
		core.Sprintf("the format %q does not encode the operands injectively (verb/operand mismatch, precision/truncation, adjacent verbs without a separator, or unterminated record): distinct directory states can produce the same bytes", format))

	// ---------- (e) nondeterminism census in dirHash
	bad := ""
	ast.Inspect(dh.Body, func(n ast.Node) bool {
		if call, ok := n.(*ast.CallExpr); ok {
			switch name := pkgFuncName(info, call); {
			case name == "time.Now", name == "os.Getpid", name == "os.Getenv", name == "os.Hostname", strings.HasPrefix(name, "math/rand"), strings.HasPrefix(name, "crypto/rand"):
				bad = name
			}
		}
		if r, ok := n.(*ast.RangeStmt); ok {
			if _, isMap := types.Unalias(info.TypeOf(r.X)).Underlying().(*types.Map); isMap {
				bad = "range over a map"
			}
		}
		return true
	})
	c.Decide(bad == "", "nondeterminism", "dirHash", dh.Pos(), "no clock, pid, environment, random or map-order input", "dirHash uses "+bad+": the key changes although no source changed")

	// ---------- (d) freshness: must reach os.ReadDir from PkgHash's hash returns
	mustRead := map[types.Object]bool{}
	var mustReadDir func(obj types.Object, depth int) bool
	mustReadDir = func(obj types.Object, depth int) bool {
		if v, ok := mustRead[obj]; ok {
			return v
		}
		mustRead[obj] = false
		fn, _ := obj.(*types.Func)
		if fn == nil || fn.Pkg() != pk.Types || depth > 4 {
			return false
		}
		fd := core.FindFuncDecl(pk, core.FuncObjName(fn))
		if fd == nil || fd.Body == nil {
			return false
		}
		const did flow.State = 1
		pp := &flow.Problem{Body: fd.Body, Info: info}
		pp.Node = func(n ast.Node, st flow.State, record bool) flow.State {
			for _, call := range flow.Calls(n) {
				if pkgFuncName(info, call) == "os.ReadDir" {
					st |= did
				} else if o := calleeObj(info, call); o != nil && o != obj && o.Pkg() == pk.Types {
					if mustReadDir(o, depth+1) {
						st |= did
					}
				}
			}
			return st
		}
		r := flow.Solve(pp)
		ok := len(r.Exits) > 0
		for _, e := range r.Exits {
			if e.State&did == 0 {
				ok = false
			}
		}
		mustRead[obj] = ok
		return ok
	}
	c.Decide(mustReadDir(dhObj, 0), "freshness", "dirHash->os.ReadDir", dh.Pos(), "every path through dirHash lists the directory", "some path through dirHash returns without calling os.ReadDir")
	nHashReturns := 0
	ast.Inspect(ph.Body, func(n ast.Node) bool {
		r, ok := n.(*ast.ReturnStmt)
		if !ok || len(r.Results) != 1 {
			return true
		}
		e := ast.Unparen(r.Results[0])
		// constant results and the pinned module version are not directory hashes
		if tv := info.Types[e]; tv.Value != nil {
			return true
		}
		if sel, ok := e.(*ast.SelectorExpr); ok {
			if _, isConst := info.Uses[sel.Sel].(*types.Const); isConst {
				return true
			}
		}
		call, isCall := e.(*ast.CallExpr)
		if isCall {
			if o := calleeObj(info, call); o != nil && o.Pkg() != pk.Types {
				return true // e.g. pkg.Real.String(): the pinned version of an external module
			}
			nHashReturns++
			o := calleeObj(info, call)
			c.Decide(o != nil && mustReadDir(o, 0), "freshness", "PkgHash:"+core.ExprStr(call.Fun), r.Pos(), "the returned hash is recomputed from a fresh directory listing on every call",
				"PkgHash returns the result of "+core.ExprStr(call.Fun)+", which does not list the directory on every path (memoised or short-circuited): after files change the old key is still returned and stale compiled packages are reused")
			return true
		}
		nHashReturns++
		c.Bad("freshness", "PkgHash:"+core.ExprStr(e), r.Pos(), "PkgHash returns a stored value instead of calling dirHash: the key cannot follow later changes of the directory")
		return true
	})
	c.Decide(nHashReturns >= 1, "freshness", "PkgHash:returns", ph.Pos(), "", "no return of PkgHash computes a directory hash")

	// ---------- (f) canCl ⊇ parser's extension table
	var canExts []string
	ast.Inspect(cc.Body, func(n ast.Node) bool {
		if cl, ok := n.(*ast.CaseClause); ok {
			for _, e := range cl.List {
				if tv := info.Types[e]; tv.Value != nil && tv.Value.Kind() == constant.String {
					if len(cl.Body) == 1 {
						if r, ok := cl.Body[0].(*ast.ReturnStmt); ok && len(r.Results) == 1 {
							if id, ok := r.Results[0].(*ast.Ident); ok && id.Name == "true" {
								canExts = append(canExts, constant.StringVal(tv.Value))
							}
						}
					}
				}
			}
		}
		return true
	})
	sort.Strings(canExts)
	c.Analysed("canCl_extensions", canExts)
	ppk := prog.Pkg("./parser")
	if ppk != nil {
		pexts := parserSourceExts(c, prog)
		c.Analysed("parser_extensions", pexts)
		for _, e := range pexts {
			found := false
			for _, x := range canExts {
				if x == e {
					found = true
				}
			}
			c.Decide(found, "ext-agreement", e, cc.Pos(), "canCl accepts it", "the parser compiles files with extension "+e+" (ParseFSDir) but canCl does not list it: edits to such files never change the cache key")
		}
		c.Floor("ext-agreement", 3)
	}
}

// parserSourceExts extracts the literal extensions that parser.ParseFSDir's `switch ext` treats as sources.
func parserSourceExts(c *core.Check, prog *core.Prog) []string {
	ppk := prog.Pkg("./parser")
	fd := prog.FuncDecl("./parser", "ParseFSDir")
	if ppk == nil || fd == nil {
		return nil
	}
	var out []string
	ast.Inspect(fd.Body, func(n ast.Node) bool {
		if cl, ok := n.(*ast.CaseClause); ok {
			for _, e := range cl.List {
				if tv := ppk.TypesInfo.Types[e]; tv.Value != nil && tv.Value.Kind() == constant.String {
					s := constant.StringVal(tv.Value)
					if strings.HasPrefix(s, ".") {
						out = append(out, s)
					}
				}
			}
		}
		return true
	})
	sort.Strings(out)
	return out
}
