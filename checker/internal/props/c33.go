package props

import (
	"go/ast"
	"go/constant"
	"go/token"
	"go/types"
	"sort"
	"strings"
	"unicode"

	"golang.org/x/tools/go/packages"

	"verif/checker/internal/core"
)

func init() {
	register(&Prop{
		ID:        "C33",
		Title:     "Token spellings round-trip through the scanners",
		Technique: "exhaustive table agreement: the spelling→token trie extracted from each scanner's Scan (abstract interpretation of its operator switch) against the token spelling tables, the keyword-table construction, String/Len indexing and the IsOperator range predicate folded over every token with a precedence",
		Explanation: "Decides for ALL tokens (finite universe, enumerated completely) of XGo (scanner ↔ token) and of TPL (tpl/scanner ↔ tpl/token) that: every operator/delimiter spelling in the token table is consumed whole by Scan's operator switch and yields exactly that token, and conversely every spelling the switch produces is that token's table entry; " +
			"every keyword spelling is entered into the keyword map (the init loop runs over keyword_beg+1 … keyword_end-1 and indexes the same table) and the identifier arm of Scan consults Lookup for identifiers longer than one letter while every keyword is longer than one letter; String() (and TPL's Len()) read the same table; every token with Precedence() > 0 satisfies IsOperator's range predicate.",
		NotCovered: "maximal-munch interaction between adjacent lexemes (C16/C32 compare the tries themselves), and literal classes (IDENT, INT, …) whose spelling is a class name.",
		Run:        runC33,
		Controls: []Control{
			{Name: "scanner-drops-tilde", File: "scanner/scanner.go", Old: "\t\tcase '~':\n\t\t\ttok = token.TILDE\n", New: "", Expect: "spelling→token/xgo:~"},
			{Name: "scanner-wrong-token", File: "scanner/scanner.go", Old: "tok = s.switch2(token.XOR, token.XOR_ASSIGN)", New: "tok = s.switch2(token.XOR, token.OR_ASSIGN)", Expect: "spelling→token/xgo:^="},
			{Name: "table-misspelled", File: "token/token.go", Old: "\tAND_NOT_ASSIGN: \"&^=\",", New: "\tAND_NOT_ASSIGN: \"&^^=\",", Expect: "spelling→token/xgo:&^^="},
			{Name: "keyword-loop-short", File: "token/token.go", Old: "for i := keyword_beg + 1; i < keyword_end; i++ {", New: "for i := keyword_beg + 1; i < keyword_end-1; i++ {", Expect: "keywords/xgo:init-loop"},
			{Name: "precedence-without-operator", File: "token/token.go", Old: "return operator_beg <= tok && tok <= operator_end || tok >= additional_beg && tok <= additional_end2", New: "return operator_beg <= tok && tok <= operator_end", Expect: "precedence⇒operator/xgo:SRARROW"},
			{Name: "tpl-scanner-wrong-token", File: "tpl/scanner/scanner.go", Old: "t.Tok = s.switch3(token.MUL, token.MUL_ASSIGN, '*', token.POW)", New: "t.Tok = s.switch3(token.MUL, token.MUL_ASSIGN, '*', token.MUL)", Expect: "spelling→token/tpl:**"},
			{Name: "switch4-wrong-token", File: "scanner/scanner.go", Old: "\t\tif s.ch == '=' {\n\t\t\ts.next()\n\t\t\treturn tok3\n\t\t}\n\t\treturn tok2", New: "\t\tif s.ch == '=' {\n\t\t\ts.next()\n\t\t\treturn tok1\n\t\t}\n\t\treturn tok2", Expect: "switch-helper/xgo:Scanner.switch4"},
			{Name: "tpl-len-short-range", File: "tpl/token/token.go", Old: "\tif tok > ' ' && tok < Token(len(tokens)) {\n\t\treturn len(tokens[tok])", New: "\tif tok > ' ' && tok < SHL_ASSIGN {\n\t\treturn len(tokens[tok])", Expect: "string-len/tpl:Len"},
			{Name: "xgo-string-offbyone", File: "token/token.go", Old: "\tif 0 <= tok && tok < Token(len(tokens)) {\n\t\ts = tokens[tok]", New: "\tif 0 <= tok && tok < Token(len(tokens))/2 {\n\t\ts = tokens[tok]", Expect: "string-len/xgo:String"},
			{Name: "tpl-len-other-table", File: "tpl/token/token.go", Old: "\t\treturn len(tokens[tok])\n", New: "\t\treturn 1\n", Expect: "string-len/tpl:Len"},
		},
	})
}

type tokenFamily struct {
	label      string
	tokPath    string
	scanPath   string
	hasKeyword bool
}

func runC33(c *core.Check) {
	prog := c.Load("./token", "./scanner", "./tpl/token", "./tpl/scanner", "go/scanner")
	c.Exhaustive()
	for _, fam := range []tokenFamily{{"xgo", "./token", "./scanner", true}, {"tpl", "./tpl/token", "./tpl/scanner", false}} {
		tpk, spk := prog.Pkg(fam.tokPath), prog.Pkg(fam.scanPath)
		if tpk == nil || spk == nil {
			continue
		}
		tt := readTokenTable(tpk, "tokens", "Token")
		scanFD := prog.FuncDecl(fam.scanPath, "Scanner.Scan")
		if scanFD == nil {
			continue
		}
		tr := extractTrie(spk, scanFD)
		if tr == nil {
			c.Undecided("trie", fam.label, scanFD.Pos(), "cannot find the operator switch of Scan")
			continue
		}
		for _, u := range tr.Unknown {
			c.Undecided("trie", fam.label+":"+u, scanFD.Pos(), "two arms of Scan yield different tokens for the same spelling")
		}
		c.Analysed(fam.label+"_table_entries", len(tt.Spelling))
		c.Analysed(fam.label+"_trie_spellings", len(tr.Ops))

		// operator spellings of the table: spelling starts with a punctuation character
		byName := map[string]*types.Const{}
		var ops []*types.Const
		for k, s := range tt.Spelling {
			byName[k.Name()] = k
			if s != "" && !unicode.IsLetter(rune(s[0])) && !unicode.IsDigit(rune(s[0])) && k.Exported() {
				ops = append(ops, k)
			}
		}
		sort.Slice(ops, func(i, j int) bool { return tt.Spelling[ops[i]] < tt.Spelling[ops[j]] })
		for _, k := range ops {
			sp := tt.Spelling[k]
			got, ok := tr.Ops[sp]
			key := fam.label + ":" + sp
			switch {
			case !ok:
				c.Bad("spelling→token", key, k.Pos(), core.Sprintf("token %s is spelled %q in the table but no path of Scan's operator switch consumes exactly %q: scanning the spelling yields other tokens (or ILLEGAL)", k.Name(), sp, sp))
			case got.Tok != k.Name():
				c.Bad("spelling→token", key, tr.ArmPos[sp[:1]], core.Sprintf("scanning %q yields %s, the table spells %s that way", sp, got.Tok, k.Name()))
			default:
				c.Ok("spelling→token", key, tr.ArmPos[sp[:1]], k.Name())
			}
		}
		// converse
		var sps []string
		for sp := range tr.Ops {
			sps = append(sps, sp)
		}
		sort.Strings(sps)
		for _, sp := range sps {
			k := byName[tr.Ops[sp].Tok]
			key := fam.label + ":" + sp
			if k == nil || tt.Spelling[k] != sp {
				have := "<no table entry>"
				if k != nil {
					have = tt.Spelling[k]
				}
				c.Bad("token→spelling", key, tr.ArmPos[sp[:1]], core.Sprintf("Scan yields %s for %q but the table (String()) spells that token %q", tr.Ops[sp].Tok, sp, have))
			} else {
				c.Ok("token→spelling", key, tr.ArmPos[sp[:1]], "")
			}
		}

		// the operator switch is interpreted assuming the switch2/3/4 helpers have go/scanner's meaning: establish that
		if gs := prog.Pkg("go/scanner"); gs != nil {
			for _, h := range []string{"Scanner.switch2", "Scanner.switch3", "Scanner.switch4"} {
				xf, gf := core.FindFuncDecl(spk, h), core.FindFuncDecl(gs, h)
				if xf == nil {
					continue // not used by this scanner (the trie extractor reports unknown helpers itself)
				}
				if gf == nil {
					c.Bad("anchor", "go/scanner."+h, 0, "reference helper not found")
					continue
				}
				c.Decide(normFunc(spk, xf) == normFunc(gs, gf), "switch-helper", fam.label+":"+h, xf.Pos(), "alpha-equivalent to go/scanner."+h,
					"the trie of Scan is read assuming "+h+"(tok0, tok1, …) returns tok1 after '=', tok2 after ch2, tok3 after ch2 '=' and tok0 otherwise, as in go/scanner; the helper no longer matches the reference, so the spellings Scan recognises are no longer the ones in the table")
			}
		}

		// String / Len read the same table
		tableVar := tpk.Types.Scope().Lookup("tokens")
		for _, m := range []string{"String", "Len"} {
			fd := core.FindFuncDecl(tpk, "Token."+m)
			if fd == nil {
				if m == "Len" && fam.label == "xgo" {
					continue
				}
				c.Bad("anchor", fam.tokPath+".Token."+m, 0, "method not found")
				continue
			}
			recv := tpk.TypesInfo.Defs[fd.Recv.List[0].Names[0]]
			// fold the method over every token that has a spelling: the result must come from tokens[tok]
			var bad []string
			undecided := false
			n := 0
			for _, k := range tt.Consts {
				sp := tt.Spelling[k]
				if sp == "" {
					continue
				}
				if m == "Len" && (unicode.IsLetter(rune(sp[0])) || unicode.IsDigit(rune(sp[0])) || !k.Exported()) {
					continue // Len is specified for operators only
				}
				kv, _ := constant.Int64Val(constant.ToInt(k.Val()))
				n++
				switch foldTableRead(tpk.TypesInfo, fd, recv, tableVar, kv, m == "Len") {
				case "table":
				case "unknown":
					undecided = true
				default:
					bad = append(bad, k.Name())
				}
			}
			c.Analysed(fam.label+"_"+m+"_folded_over_tokens", n)
			if undecided {
				c.Undecided("string-len", fam.label+":"+m, fd.Pos(), "Token."+m+" is not a foldable guard around tokens[tok]")
			} else {
				c.Decide(len(bad) == 0 && n > 0, "string-len", fam.label+":"+m, fd.Pos(), core.Sprintf("returns the table entry of the receiver for each of the %d tokens with a spelling", n),
					"Token."+m+" does not return (the length of) its receiver's entry in the spelling table for: "+strings.Join(bad, ", ")+" — it disagrees with the spelling the scanner recognises")
			}
		}

		// Precedence > 0 ⇒ IsOperator
		if pfd, ofd := core.FindFuncDecl(tpk, "Token.Precedence"), core.FindFuncDecl(tpk, "Token.IsOperator"); pfd != nil && ofd != nil {
			info := tpk.TypesInfo
			recv := info.Defs[ofd.Recv.List[0].Names[0]]
			var pred ast.Expr
			ast.Inspect(ofd.Body, func(n ast.Node) bool {
				if r, ok := n.(*ast.ReturnStmt); ok && len(r.Results) == 1 {
					pred = r.Results[0]
				}
				return true
			})
			ast.Inspect(pfd.Body, func(n ast.Node) bool {
				cc, ok := n.(*ast.CaseClause)
				if !ok || len(cc.Body) != 1 {
					return true
				}
				r, ok := cc.Body[0].(*ast.ReturnStmt)
				if !ok || len(r.Results) != 1 {
					return true
				}
				tv := info.Types[r.Results[0]]
				if tv.Value == nil || tv.Value.Kind() != constant.Int {
					return true
				}
				if v, _ := constant.Int64Val(tv.Value); v <= 0 {
					return true
				}
				for _, e := range cc.List {
					k := constOf(info, e)
					if k == nil {
						continue
					}
					kv, _ := constant.Int64Val(constant.ToInt(k.Val()))
					res, known := evalPred(info, pred, recv, kv)
					key := fam.label + ":" + k.Name()
					if !known {
						c.Undecided("precedence⇒operator", key, ofd.Pos(), "IsOperator is not a constant range predicate")
						continue
					}
					c.Decide(res, "precedence⇒operator", key, e.Pos(), "", "token "+k.Name()+" has a binary-operator precedence but IsOperator() is false for it")
				}
				return true
			})
		}

		// keywords
		if fam.hasKeyword {
			c33Keywords(c, fam, tpk, spk, tt, scanFD)
		}
	}
	c.Floor("spelling→token", 95)
	c.Floor("token→spelling", 95)
}

// evalPred folds a boolean predicate over the receiver bound to a constant.
func evalPred(info *types.Info, e ast.Expr, recv types.Object, v int64) (bool, bool) {
	if e == nil {
		return false, false
	}
	switch x := ast.Unparen(e).(type) {
	case *ast.BinaryExpr:
		switch x.Op {
		case token.LOR, token.LAND:
			a, ka := evalPred(info, x.X, recv, v)
			b, kb := evalPred(info, x.Y, recv, v)
			if !ka || !kb {
				return false, false
			}
			if x.Op == token.LOR {
				return a || b, true
			}
			return a && b, true
		case token.LSS, token.LEQ, token.GTR, token.GEQ, token.EQL, token.NEQ:
			val := func(e ast.Expr) (int64, bool) {
				if identObj(info, e) == recv {
					return v, true
				}
				if tv := info.Types[e]; tv.Value != nil {
					return constant.Int64Val(constant.ToInt(tv.Value))
				}
				return 0, false
			}
			a, ka := val(x.X)
			b, kb := val(x.Y)
			if !ka || !kb {
				return false, false
			}
			switch x.Op {
			case token.LSS:
				return a < b, true
			case token.LEQ:
				return a <= b, true
			case token.GTR:
				return a > b, true
			case token.GEQ:
				return a >= b, true
			case token.EQL:
				return a == b, true
			default:
				return a != b, true
			}
		}
	}
	return false, false
}

func c33Keywords(c *core.Check, fam tokenFamily, tpk, spk *packages.Package, tt *tokenTable, scanFD *ast.FuncDecl) {
	info := tpk.TypesInfo
	sc := tpk.Types.Scope()
	kb, _ := sc.Lookup("keyword_beg").(*types.Const)
	ke, _ := sc.Lookup("keyword_end").(*types.Const)
	if kb == nil || ke == nil {
		c.Bad("anchor", fam.tokPath+".keyword_beg/keyword_end", 0, "keyword range markers not found")
		return
	}
	lo, _ := constant.Int64Val(kb.Val())
	hi, _ := constant.Int64Val(ke.Val())
	// init loop: for i := keyword_beg + 1; i < keyword_end; i++ { keywords[tokens[i]] = i }
	loopOK := false
	var loopPos token.Pos
	for _, fd := range core.AllFuncDecls(tpk) {
		if fd.Name.Name != "init" || fd.Recv != nil {
			continue
		}
		ast.Inspect(fd.Body, func(n ast.Node) bool {
			f, ok := n.(*ast.ForStmt)
			if !ok || f.Init == nil || f.Cond == nil {
				return true
			}
			loopPos = f.Pos()
			as, ok := f.Init.(*ast.AssignStmt)
			if !ok || len(as.Rhs) != 1 {
				return true
			}
			iv := identObj(info, as.Lhs[0])
			start, ok1 := constInt(info, as.Rhs[0])
			be, ok2 := f.Cond.(*ast.BinaryExpr)
			if !ok1 || !ok2 || identObj(info, be.X) != iv {
				return true
			}
			end, ok3 := constInt(info, be.Y)
			if !ok3 {
				return true
			}
			last := end - 1
			if be.Op == token.LEQ {
				last = end
			} else if be.Op != token.LSS {
				return true
			}
			// body stores keywords[tokens[i]] = i
			stores := false
			ast.Inspect(f.Body, func(m ast.Node) bool {
				if a2, ok := m.(*ast.AssignStmt); ok && len(a2.Lhs) == 1 && len(a2.Rhs) == 1 && identObj(info, a2.Rhs[0]) == iv {
					if ix, ok := a2.Lhs[0].(*ast.IndexExpr); ok {
						if inner, ok := ix.Index.(*ast.IndexExpr); ok && identObj(info, inner.Index) == iv && identObj(info, inner.X) == sc.Lookup("tokens") {
							stores = true
						}
					}
				}
				return true
			})
			if start == lo+1 && last == hi-1 && stores {
				loopOK = true
			}
			return true
		})
	}
	c.Decide(loopOK, "keywords", fam.label+":init-loop", loopPos, "the keyword map is filled from tokens[keyword_beg+1 … keyword_end-1]", "the init loop does not enter every token between keyword_beg and keyword_end into the keyword map from the spelling table: some keyword scans as IDENT")
	// every keyword constant has a spelling longer than one letter and lies inside the range
	nkw := 0
	for _, k := range tt.Consts {
		v, _ := constant.Int64Val(k.Val())
		if v <= lo || v >= hi || !k.Exported() {
			continue
		}
		nkw++
		sp := tt.Spelling[k]
		c.Decide(len(sp) > 1, "keywords", fam.label+":"+k.Name(), k.Pos(), sp, "keyword has no spelling of at least two letters: Scan only consults Lookup for identifiers longer than one letter")
	}
	c.Analysed(fam.label+"_keywords", nkw)
	// Scan's identifier arm calls token.Lookup under len(lit) > 1
	lookup := sc.Lookup("Lookup")
	callsLookup := false
	sinfo := spk.TypesInfo
	par := parentMap(scanFD)
	ast.Inspect(scanFD.Body, func(n ast.Node) bool {
		call, ok := n.(*ast.CallExpr)
		if !ok || calleeObj(sinfo, call) != lookup {
			return true
		}
		for p := par[n]; p != nil; p = par[p] {
			if ifs, ok := p.(*ast.IfStmt); ok {
				cs := strings.ReplaceAll(core.ExprStr(ifs.Cond), " ", "")
				if strings.HasPrefix(cs, "len(") && strings.HasSuffix(cs, ")>1") {
					callsLookup = true
				}
			}
		}
		return true
	})
	c.Decide(callsLookup, "keywords", fam.label+":Scan-uses-Lookup", scanFD.Pos(), "identifiers longer than one letter go through token.Lookup", "Scan's identifier arm no longer maps identifiers longer than one letter through token.Lookup: keywords scan as IDENT")
}

func constInt(info *types.Info, e ast.Expr) (int64, bool) {
	if tv := info.Types[e]; tv.Value != nil && tv.Value.Kind() == constant.Int {
		return constant.Int64Val(tv.Value)
	}
	return 0, false
}

// foldTableRead interprets a small accessor (if-guards over the receiver, assignments, returns) for receiver value v and
// reports where its result comes from: "table" (tokens[recv], or len(tokens[recv]) when wantLen), "other", or "unknown".
func foldTableRead(info *types.Info, fd *ast.FuncDecl, recv, table types.Object, v int64, wantLen bool) string {
	state := map[types.Object]string{}
	isTableRead := func(e ast.Expr) bool {
		e = ast.Unparen(e)
		if wantLen {
			call, ok := e.(*ast.CallExpr)
			if !ok || len(call.Args) != 1 {
				return false
			}
			if id, ok := call.Fun.(*ast.Ident); !ok || id.Name != "len" {
				return false
			}
			e = ast.Unparen(call.Args[0])
		}
		ix, ok := e.(*ast.IndexExpr)
		return ok && identObj(info, ix.X) == table && identObj(info, ix.Index) == recv
	}
	classify := func(e ast.Expr) string {
		if isTableRead(e) {
			return "table"
		}
		if o := identObj(info, e); o != nil {
			if st, ok := state[o]; ok {
				return st
			}
		}
		return "other"
	}
	var result string
	var results *ast.FieldList = fd.Type.Results
	var exec func(list []ast.Stmt) bool // true = returned
	cond := func(e ast.Expr) (bool, bool) {
		if r, ok := evalPred(info, e, recv, v); ok {
			return r, true
		}
		// `s == ""` / `s != ""` on a tracked local: a table entry of a token with a spelling is not empty
		if be, ok := ast.Unparen(e).(*ast.BinaryExpr); ok && (be.Op == token.EQL || be.Op == token.NEQ) {
			if o := identObj(info, be.X); o != nil {
				if tv := info.Types[be.Y]; tv.Value != nil && tv.Value.Kind() == constant.String && constant.StringVal(tv.Value) == "" {
					switch state[o] {
					case "table":
						return be.Op == token.NEQ, true
					case "empty":
						return be.Op == token.EQL, true
					}
				}
			}
		}
		return false, false
	}
	unknown := false
	exec = func(list []ast.Stmt) bool {
		for _, s := range list {
			switch x := s.(type) {
			case *ast.IfStmt:
				if x.Init != nil {
					unknown = true
					return true
				}
				r, ok := cond(x.Cond)
				if !ok {
					unknown = true
					return true
				}
				if r {
					if exec(x.Body.List) {
						return true
					}
				} else if x.Else != nil {
					var el []ast.Stmt
					if b, ok := x.Else.(*ast.BlockStmt); ok {
						el = b.List
					} else {
						el = []ast.Stmt{x.Else}
					}
					if exec(el) {
						return true
					}
				}
			case *ast.SwitchStmt:
				if x.Tag != nil || x.Init != nil {
					unknown = true
					return true
				}
				var chosen *ast.CaseClause
				var def *ast.CaseClause
				for _, cs := range x.Body.List {
					cc := cs.(*ast.CaseClause)
					if cc.List == nil {
						def = cc
						continue
					}
					hit := false
					for _, e := range cc.List {
						r, ok := cond(e)
						if !ok {
							unknown = true
							return true
						}
						if r {
							hit = true
						}
					}
					if hit {
						chosen = cc
						break
					}
				}
				if chosen == nil {
					chosen = def
				}
				if chosen != nil && exec(chosen.Body) {
					return true
				}
			case *ast.AssignStmt:
				if len(x.Lhs) != 1 || len(x.Rhs) != 1 {
					unknown = true
					return true
				}
				if o := identObj(info, x.Lhs[0]); o != nil {
					st := classify(x.Rhs[0])
					if tv := info.Types[x.Rhs[0]]; tv.Value != nil && tv.Value.Kind() == constant.String && constant.StringVal(tv.Value) == "" {
						st = "empty"
					}
					state[o] = st
				}
			case *ast.ReturnStmt:
				switch {
				case len(x.Results) == 1:
					result = classify(x.Results[0])
				case len(x.Results) == 0 && results != nil && len(results.List) == 1 && len(results.List[0].Names) == 1:
					result = state[info.Defs[results.List[0].Names[0]]]
					if result == "" {
						result = "other"
					}
				default:
					unknown = true
				}
				return true
			case *ast.DeclStmt:
				// var s string
			default:
				unknown = true
				return true
			}
		}
		return false
	}
	if !exec(fd.Body.List) {
		return "other"
	}
	if unknown {
		return "unknown"
	}
	return result
}
