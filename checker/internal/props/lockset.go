package props

import (
	"go/ast"
	"go/token"
	"go/types"

	"golang.org/x/tools/go/packages"

	"verif/checker/internal/core"
	"verif/checker/internal/flow"
)

// K4: guarded-by / lockset on the CFG. One mutex field, a set of guarded fields.

const (
	lkHeld   flow.State = 1 << 60 // the mutex is held
	lkDefer  flow.State = 1 << 61 // a deferred Unlock is registered
	lkDouble flow.State = 1 << 62 // Lock while held was seen on this path
)

type lockSpec struct {
	pk      *packages.Package
	mutex   *types.Var
	guarded map[*types.Var]string // field -> display name
}

// mutexOp classifies a call as "lock"/"unlock" on the spec's mutex field ("" otherwise).
func (l *lockSpec) mutexOp(call *ast.CallExpr) string {
	sel, ok := ast.Unparen(call.Fun).(*ast.SelectorExpr)
	if !ok {
		return ""
	}
	inner, ok := ast.Unparen(sel.X).(*ast.SelectorExpr)
	if !ok {
		return ""
	}
	s := l.pk.TypesInfo.Selections[inner]
	if s == nil || s.Obj() != l.mutex {
		return ""
	}
	switch sel.Sel.Name {
	case "Lock", "RLock":
		return "lock"
	case "Unlock", "RUnlock":
		return "unlock"
	}
	return ""
}

// fieldAccesses lists selector expressions that denote guarded fields inside n (function literals excluded).
func (l *lockSpec) fieldAccesses(n ast.Node) []*ast.SelectorExpr {
	var out []*ast.SelectorExpr
	ast.Inspect(n, func(m ast.Node) bool {
		switch x := m.(type) {
		case *ast.FuncLit:
			return false
		case *ast.SelectorExpr:
			if s := l.pk.TypesInfo.Selections[x]; s != nil {
				if v, ok := s.Obj().(*types.Var); ok {
					if _, g := l.guarded[v]; g {
						out = append(out, x)
					}
				}
			}
		}
		return true
	})
	return out
}

// lockTransfer applies Lock/Unlock/defer Unlock of one CFG node to the state.
func (l *lockSpec) lockTransfer(n ast.Node, st flow.State) flow.State {
	if d, ok := n.(*ast.DeferStmt); ok {
		if l.mutexOp(d.Call) == "unlock" {
			st |= lkDefer
		}
		return st
	}
	for _, call := range flow.Calls(n) {
		switch l.mutexOp(call) {
		case "lock":
			if st&lkHeld != 0 {
				st |= lkDouble
			}
			st |= lkHeld
		case "unlock":
			st &^= lkHeld
		}
	}
	return st
}

type unguarded struct {
	fn   *ast.FuncDecl
	sel  *ast.SelectorExpr
	name string
}

type lockReport struct {
	unguarded   []unguarded
	accesses    int
	leaks       []token.Pos // exits with the lock still held (no deferred unlock)
	doubles     []*ast.FuncDecl
	heldAtCall  map[*ast.CallExpr]bool // for every call in the package: lock held on every path
	funcsWithLk int
}

// analyse runs the lockset over every function of the package. extra (optional) lets a property
// piggy-back its own facts: it is called after the lock transfer for every node.
func (l *lockSpec) analyse(c *core.Check, extra func(fd *ast.FuncDecl, n ast.Node, st flow.State, record bool) flow.State,
	edge func(fd *ast.FuncDecl, cond ast.Expr, truth bool, st flow.State) (flow.State, bool),
	exits func(fd *ast.FuncDecl, ex []flow.Exit)) *lockReport {
	rep := &lockReport{heldAtCall: map[*ast.CallExpr]bool{}}
	info := l.pk.TypesInfo
	for _, fd := range core.AllFuncDecls(l.pk) {
		fd := fd
		seenCall := map[*ast.CallExpr]bool{}
		unheld := map[*ast.SelectorExpr]bool{}
		seenSel := map[*ast.SelectorExpr]bool{}
		p := &flow.Problem{Body: fd.Body, Info: info}
		p.Node = func(n ast.Node, st flow.State, record bool) flow.State {
			if record {
				for _, s := range l.fieldAccesses(n) {
					seenSel[s] = true
					if st&lkHeld == 0 {
						unheld[s] = true
					}
				}
				if _, isDefer := n.(*ast.DeferStmt); !isDefer {
					for _, call := range flow.Calls(n) {
						if !seenCall[call] {
							seenCall[call] = true
							rep.heldAtCall[call] = true
						}
						if st&lkHeld == 0 {
							rep.heldAtCall[call] = false
						}
					}
				}
			}
			st = l.lockTransfer(n, st)
			if extra != nil {
				st = extra(fd, n, st, record)
			}
			return st
		}
		if edge != nil {
			p.Edge = func(cond ast.Expr, truth bool, st flow.State) (flow.State, bool) { return edge(fd, cond, truth, st) }
		}
		res := flow.Solve(p)
		c.AddAnalysed("cfg_blocks", res.Blocks)
		c.AddAnalysed("functions", 1)
		if res.Overflow {
			c.Undecided("lockset", core.FuncName(fd), fd.Pos(), "state space overflow")
		}
		usesLock := false
		for _, e := range res.Exits {
			if e.State&lkHeld != 0 && e.State&lkDefer == 0 {
				rep.leaks = append(rep.leaks, e.Pos)
			}
			if e.State&lkDouble != 0 {
				rep.doubles = append(rep.doubles, fd)
			}
			if e.State&(lkHeld|lkDefer) != 0 {
				usesLock = true
			}
		}
		if usesLock {
			rep.funcsWithLk++
		}
		for s := range seenSel {
			rep.accesses++
			if unheld[s] {
				v := info.Selections[s].Obj().(*types.Var)
				rep.unguarded = append(rep.unguarded, unguarded{fd, s, l.guarded[v]})
			}
		}
		if exits != nil {
			exits(fd, res.Exits)
		}
		// function literals: accesses inside them are judged with the lock state of nobody (not held),
		// unless the literal is an argument of a call made while the lock is held (synchronous callback).
		ast.Inspect(fd.Body, func(n ast.Node) bool {
			fl, ok := n.(*ast.FuncLit)
			if !ok {
				return true
			}
			for _, s := range l.fieldAccessesDeep(fl.Body) {
				rep.accesses++
				v := info.Selections[s].Obj().(*types.Var)
				rep.unguarded = append(rep.unguarded, unguarded{fd, s, l.guarded[v] + " (inside a function literal)"})
			}
			return false
		})
	}
	return rep
}

func (l *lockSpec) fieldAccessesDeep(n ast.Node) []*ast.SelectorExpr {
	var out []*ast.SelectorExpr
	ast.Inspect(n, func(m ast.Node) bool {
		if x, ok := m.(*ast.SelectorExpr); ok {
			if s := l.pk.TypesInfo.Selections[x]; s != nil {
				if v, ok := s.Obj().(*types.Var); ok {
					if _, g := l.guarded[v]; g {
						out = append(out, x)
					}
				}
			}
		}
		return true
	})
	return out
}

// fieldVar finds a struct field object.
func fieldVar(n *types.Named, name string) *types.Var {
	if n == nil {
		return nil
	}
	st, _ := n.Underlying().(*types.Struct)
	if st == nil {
		return nil
	}
	for i := 0; i < st.NumFields(); i++ {
		if st.Field(i).Name() == name {
			return st.Field(i)
		}
	}
	return nil
}

// callSitesOf lists the calls to fn inside the package.
func callSitesOf(pk *packages.Package, fn types.Object) []*ast.CallExpr {
	var out []*ast.CallExpr
	for _, f := range pk.Syntax {
		ast.Inspect(f, func(n ast.Node) bool {
			if call, ok := n.(*ast.CallExpr); ok && calleeObj(pk.TypesInfo, call) == fn {
				out = append(out, call)
			}
			return true
		})
	}
	return out
}
