package props

import (
	"go/ast"
	"go/types"
	"strings"

	"golang.org/x/tools/go/packages"

	"verif/checker/internal/core"
)

func init() {
	register(&Prop{
		ID:        "C12",
		Title:     "Recorded type information obeys its documented invariants",
		Technique: "value-origin analysis of every recorder call site of package cl: the object handed to Def is traced to its constructor and the constructor's position argument is compared with the identifier handed to Def; the object handed to Use must not be constructed at the use site",
		Explanation: "Decides, for every site of package cl that records a definition or a use, the structural part of 'a definition's object is declared at the identifier's own position, a use refers to an object declared elsewhere': " +
			"(1) at each `rec.Def(id, obj)` whose obj is built in the same function by a go/types or gogen constructor (NewField, NewParam, NewVar, NewFunc, NewTypeName, NewPkgName, …), the position argument of that constructor is the position of that very identifier (`id.Pos()`, `id.NamePos`, or a variable assigned from it); sites whose object comes from elsewhere (a lookup, an object gogen created from the identifier) are listed, not decided; " +
			"(2) at each `rec.Use(id, obj)` the object is obtained by a lookup (scope, field, method, import) and never constructed on the spot. Short variable declarations (rule def-only-new): the identifiers compileAssignStmt hands to defNames for `:=` are collected by appends guarded by `scope.Lookup(name) == nil`, so a name that is merely re-assigned is not recorded as a definition. Converted Go nodes (rule go-node-guard): every recording goxRecorder.Member makes for a selector stays inside the fromgo.CheckIdent guard, so nodes converted from a mixed package's Go files never enter Types/Uses.",
		NotCovered: "objects created inside gogen (their positions are whatever cl passed to gogen's constructors, which rule 1 covers only when the constructor call is in the same function), the Types/Scopes maps, and the agreement with go/types on name, kind and type of every object.",
		Run:        runC12,
		Controls: []Control{
			{Name: "elided-literal-type-recorded", File: "cl/recorder.go", Old: "\tif v.Type != nil { // the type is elided in {1, 2} of []P{{1, 2}}\n\t\trec.Type(v.Type, typesutil.NewTypeAndValueForType(typ))\n\t}\n", New: "\trec.Type(v.Type, typesutil.NewTypeAndValueForType(typ))\n", Expect: "types-key-guard/goxRecorder.recordCompositeLit:v.Type"},
			{Name: "short-var-decl-records-all-names", File: "cl/stmt.go", Old: "\t\t\t\tif scope.Lookup(v.Name) == nil {\n\t\t\t\t\tnewNames = append(newNames, v)\n\t\t\t\t}\n", New: "\t\t\t\tnewNames = append(newNames, v)\n", Expect: "def-only-new/compileAssignStmt"},
			{Name: "member-type-recorded-for-go-nodes", File: "cl/recorder.go", Old: "\t\t\tp.Use(sel, obj)\n\t\t\tp.Type(v, tv)\n\t\t}\n", New: "\t\t\tp.Use(sel, obj)\n\t\t\t_ = tv\n\t\t}\n\t\tp.Type(v, typesutil.NewTypeAndValueForObject(obj))\n", Expect: "go-node-guard/goxRecorder.Member"},
			{Name: "field-def-at-type-pos", File: "cl/func_type_and_var.go", Old: "\t\t\tfld := types.NewField(name.NamePos, pkg, name.Name, typ, false)\n\t\t\tfields = append(fields, fld)", New: "\t\t\tfld := types.NewField(field.Type.Pos(), pkg, name.Name, typ, false)\n\t\t\tfields = append(fields, fld)", Expect: "def-position/toStructType:name"},
			{Name: "param-def-at-field-pos", File: "cl/func_type_and_var.go", Old: "\t\tparam := pkg.NewParam(name.Pos(), name.Name, typ)\n\t\targs = append(args, param)", New: "\t\tparam := pkg.NewParam(fld.Type.Pos(), name.Name, typ)\n\t\targs = append(args, param)", Expect: "def-position/toParam:name"},
			{Name: "use-of-fresh-object", File: "cl/expr.go", Old: "\t\t\trec.Use(name, t.Field(idx))", New: "\t\t\trec.Use(name, types.NewField(name.Pos(), ctx.pkg.Types, name.Name, t.Field(idx).Type(), false))", Expect: "use-elsewhere/compileStructLitInKeyVal:name"},
			{Name: "pkgname-cached-across-files", File: "cl/compile.go", Old: "\tpkgName := types.NewPkgName(pos, ctx.pkg.Types, name, pkg.Types)\n", New: "\tpkgName, cachedName := pkgNameCache[name]\n\tif !cachedName {\n\t\tpkgName = types.NewPkgName(pos, ctx.pkg.Types, name, pkg.Types)\n\t\tpkgNameCache[name] = pkgName\n\t}\n", Old2: "func loadImport(ctx *blockCtx, spec *ast.ImportSpec) {", New2: "var pkgNameCache = map[string]*types.PkgName{}\n\nfunc loadImport(ctx *blockCtx, spec *ast.ImportSpec) {", Expect: "def-fresh/loadImport:specName"},
			{Name: "const-defs-in-current-scope", File: "cl/compile.go", Old: "\tcdecl.New(fn, iotav, v.Pos(), typ, names...)\n\tdefNames(ctx, v.Names, scope)", New: "\tcdecl.New(fn, iotav, v.Pos(), typ, names...)\n\tdefNames(ctx, v.Names, nil)", Expect: "def-scope/loadConsts:v.Names"},
			{Name: "embedded-class-field-at-star", File: "cl/compile.go", Old: "\t\t\t\t\t\t\tfld := types.NewField(name.Pos(), pkg, name.Name, typ, true)", New: "\t\t\t\t\t\t\tfld := types.NewField(spec.Type.Pos(), pkg, name.Name, typ, true)", Expect: "def-position/preloadGopFile:name"},
		},
	})
}

// c12Reviewed: Def sites whose position argument is the identifier's position by an argument the rule cannot follow
// (key → {position expression as reviewed, reason}).
var c12Reviewed = map[string][2]string{
	"toRecv:names[0]": {"v.Pos()", "v is the receiver field recv.List[0] and the Def is guarded by len(names) == 1; ast.Field.Pos() returns Names[0].Pos() when the field has names"},
}

var c12Constructors = map[string]bool{"NewField": true, "NewParam": true, "NewVar": true, "NewFunc": true, "NewTypeName": true, "NewPkgName": true, "NewConst": true, "NewLabel": true}

func runC12(c *core.Check) {
	prog := c.Load("./cl")
	pk := prog.Pkg("./cl")
	if pk == nil {
		return
	}
	info := pk.TypesInfo
	c12ShortVarDecl(c, pk)
	c12GoIdentGuard(c, pk)
	c12TypesKeys(c, prog, pk)
	nDef, nUse := 0, 0
	for _, fd := range core.AllFuncDecls(pk) {
		if fd.Body == nil {
			continue
		}
		fname := core.FuncName(fd)
		seen := map[string]int{}
		ast.Inspect(fd.Body, func(n ast.Node) bool {
			call, ok := n.(*ast.CallExpr)
			if !ok || len(call.Args) != 2 {
				return true
			}
			sel, ok := call.Fun.(*ast.SelectorExpr)
			if !ok || (sel.Sel.Name != "Def" && sel.Sel.Name != "Use") {
				return true
			}
			fn, ok := calleeObj(info, call).(*types.Func)
			if !ok || fn.Pkg() != pk.Types {
				return true
			}
			id, obj := call.Args[0], call.Args[1]
			idStr := core.ExprStr(id)
			key := fname + ":" + idStr
			seen[key]++
			if seen[key] > 1 {
				key = core.Sprintf("%s#%d", key, seen[key])
			}
			ctor := c12Constructor(pk, fd, obj)
			if sel.Sel.Name == "Use" {
				nUse++
				if ctor != nil {
					c.Bad("use-elsewhere", key, call.Pos(), "the object recorded as the *use* of `"+idStr+"` is constructed right here ("+core.ExprStr(ctor.Fun)+"): a use must refer to an object declared elsewhere")
				} else {
					c.Ok("use-elsewhere", key, call.Pos(), "")
				}
				return true
			}
			nDef++
			if cached := c12CacheRead(pk, fd, obj); cached != "" {
				c.Bad("def-fresh", key, call.Pos(), "the object recorded as the definition of `"+idStr+"` can come from the cache `"+cached+"`: an object created for another identifier (another file, an earlier declaration) is then recorded here, so Defs["+idStr+"].Pos() is that other identifier's position")
				return true
			}
			if ctor == nil {
				c.Note("def-indirect", key, call.Pos(), "the object comes from a lookup or from gogen (created from the identifier elsewhere): its position is not decided here")
				return true
			}
			posArg := ctor.Args[0]
			if why, ok := c12Reviewed[key]; ok && core.ExprStr(posArg) == why[0] {
				c.Ok("def-position", key, call.Pos(), "reviewed: "+why[1])
				return true
			}
			if c12PosOf(pk, fd, posArg, id) {
				c.Ok("def-position", key, call.Pos(), "constructed at "+core.ExprStr(posArg))
			} else {
				c.Bad("def-position", key, call.Pos(), "the object recorded as the definition of `"+idStr+"` is constructed at position `"+core.ExprStr(posArg)+"`, not at the identifier's own position: Info.Defs["+idStr+"].Pos() != "+idStr+".Pos(), which breaks the documented invariant of the Defs map (and go-to-definition lands elsewhere)")
			}
			return true
		})
	}
	// (3) definitions are looked up in the scope they were declared in: defNames(ctx, names, scope) falls back to the
	// builder's *current* scope when scope is nil — for a package-level declaration that is loaded lazily while a function
	// body is being compiled, that is the function's scope (a local of the same name is recorded, or nothing)
	for _, fd := range core.AllFuncDecls(pk) {
		if fd.Body == nil {
			continue
		}
		ast.Inspect(fd.Body, func(n ast.Node) bool {
			call, ok := n.(*ast.CallExpr)
			if !ok || len(call.Args) != 3 {
				return true
			}
			if fn, ok := calleeObj(info, call).(*types.Func); !ok || fn.Name() != "defNames" {
				return true
			}
			key := core.FuncName(fd) + ":" + core.ExprStr(call.Args[1])
			id, isNil := ast.Unparen(call.Args[2]).(*ast.Ident)
			c.Decide(!(isNil && id.Name == "nil"), "def-scope", key, call.Pos(), "the declaring scope is passed explicitly", "cl."+core.FuncName(fd)+" records the definitions of "+core.ExprStr(call.Args[1])+" by looking the names up in whatever scope the code builder is in at that moment (nil scope): when the declaration is loaded on first use from inside a function body, Defs gets a local variable of the same name — or nothing — instead of the declared object")
			return true
		})
	}
	c.Floor("def-scope", 6)
	// (4) objects created by gogen for several names at once: gogen's declaring calls take ONE position (or none) for a
	// whole name list, so in `a, b := …` / `var a, b T` / `const a, b = …` every object sits at the first name's position,
	// and range / type-switch variables are declared without a position
	for _, fd := range core.AllFuncDecls(pk) {
		if fd.Body == nil {
			continue
		}
		hasDef := false
		ast.Inspect(fd.Body, func(n ast.Node) bool {
			if call, ok := n.(*ast.CallExpr); ok {
				if fn, ok := calleeObj(info, call).(*types.Func); ok && fn.Name() == "defNames" {
					hasDef = true
				}
			}
			return true
		})
		if !hasDef {
			continue
		}
		seenKey := map[string]bool{}
		ast.Inspect(fd.Body, func(n ast.Node) bool {
			call, ok := n.(*ast.CallExpr)
			if !ok || !call.Ellipsis.IsValid() || len(call.Args) == 0 {
				return true
			}
			fn, ok := calleeObj(info, call).(*types.Func)
			if !ok || fn.Pkg() == nil || fn.Pkg().Path() != "github.com/goplus/gogen" {
				return true
			}
			sig := fn.Type().(*types.Signature)
			last := sig.Params().At(sig.Params().Len() - 1)
			if sl, ok := last.Type().(*types.Slice); !ok || !types.Identical(sl.Elem(), types.Typ[types.String]) {
				return true
			}
			hasPos := false
			for i := 0; i < sig.Params().Len(); i++ {
				if strings.HasSuffix(sig.Params().At(i).Type().String(), "token.Pos") {
					hasPos = true
				}
			}
			key := core.FuncName(fd) + ":" + fn.Name()
			if seenKey[key] {
				return true
			}
			seenKey[key] = true
			if hasPos {
				c.Bad("def-multi-name", key, call.Pos(), "gogen."+fn.Name()+" declares a whole list of names at one position: for `a, b := …` (or `var a, b T`, `const a, b = …`) the objects recorded for b, c, … sit at a's position, so Defs[b].Pos() != b.Pos()")
			} else {
				c.Bad("def-no-position", key, call.Pos(), "gogen."+fn.Name()+" declares the names without any position: the objects recorded for these identifiers have Pos() == NoPos")
			}
			return true
		})
	}
	c.Analysed("def_sites", nDef)
	c.Analysed("use_sites", nUse)
	c.Floor("def-position", 7)
	c.Floor("use-elsewhere", 10)
}

// c12Constructor: the constructor call that builds obj in this function (obj is the call itself, or a local with exactly
// one definition that is such a call).
func c12Constructor(pk *packages.Package, fd *ast.FuncDecl, obj ast.Expr) *ast.CallExpr {
	info := pk.TypesInfo
	isCtor := func(e ast.Expr) *ast.CallExpr {
		call, ok := ast.Unparen(e).(*ast.CallExpr)
		if !ok || len(call.Args) == 0 {
			return nil
		}
		if fn, ok := calleeObj(info, call).(*types.Func); ok && c12Constructors[fn.Name()] {
			// first parameter is a token.Pos
			sig := fn.Type().(*types.Signature)
			if sig.Params().Len() > 0 && strings.HasSuffix(sig.Params().At(0).Type().String(), "token.Pos") {
				return call
			}
		}
		return nil
	}
	if c := isCtor(obj); c != nil {
		return c
	}
	o := identObj(info, obj)
	if o == nil {
		return nil
	}
	defs := varDefs(info, fd, o)
	if len(defs) != 1 || defs[0] == nil {
		return nil
	}
	return isCtor(defs[0])
}

// c12PosOf: pos is the position of the identifier expression id: id.Pos(), id.NamePos, or a local assigned only from one of them
// (possibly as one side of a tuple assignment).
func c12PosOf(pk *packages.Package, fd *ast.FuncDecl, pos, id ast.Expr) bool {
	info := pk.TypesInfo
	idStr := core.ExprStr(id)
	direct := func(e ast.Expr) bool {
		e = ast.Unparen(e)
		switch x := e.(type) {
		case *ast.CallExpr:
			if sel, ok := x.Fun.(*ast.SelectorExpr); ok && sel.Sel.Name == "Pos" && len(x.Args) == 0 && core.ExprStr(sel.X) == idStr {
				return true
			}
		case *ast.SelectorExpr:
			if x.Sel.Name == "NamePos" && core.ExprStr(x.X) == idStr {
				return true
			}
		}
		return false
	}
	if direct(pos) {
		return true
	}
	o := identObj(info, pos)
	if o == nil {
		return false
	}
	// every definition of the variable on a path where id is non-nil must be id's position: accept when at least one
	// definition is, and the others are guarded alternatives (`if specName != nil {…} else {…}`) that do not reach a Def of id
	defs := varDefs(info, fd, o)
	for _, d := range defs {
		if d != nil && direct(d) {
			return true
		}
	}
	return false
}

// c12CacheRead: obj is a local one of whose definitions reads a map (a cache lookup).
func c12CacheRead(pk *packages.Package, fd *ast.FuncDecl, obj ast.Expr) string {
	info := pk.TypesInfo
	o := identObj(info, obj)
	if o == nil {
		return ""
	}
	for _, d := range varDefs(info, fd, o) {
		if d == nil {
			continue
		}
		if ix, ok := ast.Unparen(d).(*ast.IndexExpr); ok {
			if t := info.TypeOf(ix.X); t != nil {
				if _, isMap := t.Underlying().(*types.Map); isMap {
					return core.ExprStr(ix.X)
				}
			}
		}
	}
	return ""
}
