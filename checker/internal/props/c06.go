package props

import (
	"go/ast"
	"go/token"
	"go/types"
	"sort"
	"strings"

	"golang.org/x/tools/go/packages"

	"verif/checker/internal/core"
	"verif/checker/internal/flow"
)

func init() {
	f := "cl/compile.go"
	register(&Prop{
		ID:        "C06",
		Title:     "Compiler success implies valid, well-typed Go output",
		Technique: "census of every recover() site of package cl with a path-sensitive must-convert analysis of its non-nil branch (go/cfg), an error-discipline rule over every call of a cl function that returns error, and must-assign analysis of NewPackage's error result",
		Explanation: "Decides for every input the structural necessary condition of 'success is never reported for an incomplete package': no failure inside the compiler is swallowed. " +
			"(1) every recover() in package cl is bound to a variable and, on every path on which that variable is non-nil, the handler records an error (handleRecover / handleErr / handleErrorf), re-panics, or assigns a non-nil value to a named error result of the enclosing function; " +
			"(2) every call of a function declared in cl that returns an error uses that result (returned, tested, passed on, or stored) — a dropped error is a lowering that stopped half-way without anybody knowing; reviewed exceptions are table lines; " +
			"(3) pkgCtx.handleErr appends unconditionally to pkgCtx.errs, pkgCtx.complete returns errs.ToError(), and NewPackage's err result is assigned from ctx.complete() on the normal path after the last loader ran, and from ctx.errs.ToError() after handleRecover on the recovered path; " +
			"(4) no function of cl other than handleErr's callers truncates or replaces pkgCtx.errs.",
		NotCovered: "whether what is generated type-checks when no failure occurred (gogen's own checks), and errors reported through gogen's HandleErr callback (they reach handleErr by configuration, which rule 3 checks).",
		Run:        runC06,
		Controls: []Control{
			{Name: "recover-swallowed", File: f, Old: "\t\t\tif e := recover(); e != nil {\n\t\t\t\tctx.handleRecover(e, spec)\n\t\t\t}", New: "\t\t\tif e := recover(); e != nil {\n\t\t\t\tlog.Println(\"loadImport:\", e)\n\t\t\t}", Expect: "recover-converts/loadImport"},
			{Name: "recover-filtered", File: "cl/stmt.go", Old: "\t\t\tif e := recover(); e != nil {\n\t\t\t\tctx.handleRecover(e, stmt)\n\t\t\t\tctx.cb.ResetStmt()\n\t\t\t}", New: "\t\t\tif e := recover(); e != nil {\n\t\t\t\tif _, ok := e.(error); ok {\n\t\t\t\t\tctx.handleRecover(e, stmt)\n\t\t\t\t}\n\t\t\t\tctx.cb.ResetStmt()\n\t\t\t}", Expect: "recover-converts/compileStmt"},
			{Name: "handleErr-dedups", File: f, Old: "func (p *pkgCtx) handleErr(err error) {\n\tp.errs = append(p.errs, err)\n}", New: "func (p *pkgCtx) handleErr(err error) {\n\tif len(p.errs) < 10 {\n\t\tp.errs = append(p.errs, err)\n\t}\n}", Expect: "error-sink/handleErr"},
			{Name: "complete-forgets", File: f, Old: "\terr = ctx.complete()\n", New: "\tctx.complete()\n", Expect: "result/NewPackage"},
			{Name: "newpackage-recover-no-err", File: f, Old: "\t\t\t\tctx.handleRecover(e, nil)\n\t\t\t\terr = ctx.errs.ToError()\n", New: "\t\t\t\tctx.handleRecover(e, nil)\n", Expect: "result/NewPackage:recovered"},
			{Name: "maplit-error-dropped", File: "cl/expr.go", Old: "\terr = ctx.cb.MapLitEx(typ, n<<1, v)\n", New: "\tctx.cb.MapLitEx(typ, n<<1, v)\n", Expect: "result/compileMapLitEx"},
			{Name: "typeswitch-dup-by-pointer", File: "cl/stmt.go", Old: "\t\t\tif !haserr {\n\t\t\t\tseen[T] = citem\n\t\t\t}", New: "\t\t\tif _, dup := seen[T]; !dup && !haserr {\n\t\t\t\tseen[T] = citem\n\t\t\t}", Expect: "type-identity/compileTypeSwitchStmt:seen"},
			{Name: "blank-forin-two-blanks", File: "cl/stmt.go", Old: "\tif v.Key == nil && v.Value != nil && v.Value.Name == \"_\" {\n\t\tnames = nil // for _ <- x: nothing is defined (`for _, _ := range x` is not valid Go)\n\t}\n", New: "", Expect: "valid-go/for-blank"},
			{Name: "main-lookup-before-gofiles", File: f, Old: "\tgopSyms := make(map[string]bool) // TODO: remove this map", New: "\t_, hasMainEarly := ctx.syms[\"main\"]\n\t_ = hasMainEarly\n\tgopSyms := make(map[string]bool) // TODO: remove this map", Expect: "result/NewPackage:main-after-preload"},
			{Name: "errs-reset", File: f, Old: "\tfor _, load := range ctx.inits {\n\t\tload()\n\t}", New: "\tfor _, load := range ctx.inits {\n\t\tload()\n\t}\n\tif conf.Outline {\n\t\tctx.errs = nil\n\t}", Expect: "error-sink/errs-writers"},
		},
	})
}

// c06Dropped: reviewed call sites that drop the error of a cl function.
var c06Dropped = map[string]string{
	"compileDomainTextLit→compileLambdaExpr2": "the lambda passed is built by lambdaRetFunc with exactly one parameter against a one-parameter signature — the only condition under which compileLambdaExpr2 returns an error (parameter-count mismatch) cannot arise",
}

type recoverSite struct {
	Fn    *ast.FuncDecl // enclosing declaration
	Lit   *ast.FuncLit
	Var   types.Object // variable bound to recover()
	Pos   token.Pos
	Guard string // "enableRecover", "noPanic != nil", "" (unconditional) …
}

// recoverSites lists every recover() call of a package with its deferred closure.
func recoverSites(pk *packages.Package) (sites []recoverSite, unbound []token.Pos) {
	info := pk.TypesInfo
	for _, fd := range core.AllFuncDecls(pk) {
		if fd.Body == nil {
			continue
		}
		par := parentMap(fd)
		ast.Inspect(fd.Body, func(n ast.Node) bool {
			call, ok := n.(*ast.CallExpr)
			if !ok {
				return true
			}
			id, ok := call.Fun.(*ast.Ident)
			if !ok || id.Name != "recover" {
				return true
			}
			if _, isB := info.Uses[id].(*types.Builtin); !isB {
				return true
			}
			var lit *ast.FuncLit
			for p := par[call]; p != nil; p = par[p] {
				if l, ok := p.(*ast.FuncLit); ok {
					lit = l
					break
				}
			}
			var v types.Object
			if as, ok := par[call].(*ast.AssignStmt); ok && len(as.Lhs) == 1 {
				v = identObj(info, as.Lhs[0])
			}
			if lit == nil || v == nil {
				unbound = append(unbound, call.Pos())
				return true
			}
			guard := ""
			for p := par[lit]; p != nil; p = par[p] {
				if is, ok := p.(*ast.IfStmt); ok {
					guard = core.ExprStr(is.Cond)
					break
				}
			}
			sites = append(sites, recoverSite{fd, lit, v, call.Pos(), guard})
			return true
		})
	}
	return
}

// recoverConverts: on every path of the closure on which the recovered value is non-nil, an error is recorded,
// the panic is re-raised, or a named error result of the enclosing function gets a non-nil value.
func recoverConverts(info *types.Info, s recoverSite, sinks map[string]bool) (ok bool, how string, bad token.Pos) {
	const (
		bNonNil flow.State = 1 << iota
		bNil
		bConverted
	)
	results := map[types.Object]bool{}
	if s.Fn.Type.Results != nil {
		for _, f := range s.Fn.Type.Results.List {
			for _, n := range f.Names {
				if o := info.Defs[n]; o != nil && types.Identical(o.Type(), types.Universe.Lookup("error").Type()) {
					results[o] = true
				}
			}
		}
	}
	hows := map[string]bool{}
	p := &flow.Problem{Body: s.Lit.Body, Info: info}
	p.Node = func(n ast.Node, st flow.State, record bool) flow.State {
		if st&bNonNil == 0 {
			return st
		}
		for _, call := range flow.Calls(n) {
			if id, ok := call.Fun.(*ast.Ident); ok && id.Name == "panic" {
				st |= bConverted
				hows["re-panics"] = true
			}
			if fn, ok := calleeObj(info, call).(*types.Func); ok && sinks[fn.Name()] {
				// the recovered value must be what is recorded
				for _, a := range call.Args {
					if identObj(info, a) == s.Var {
						st |= bConverted
						hows["records an error ("+fn.Name()+")"] = true
					}
				}
			}
		}
		if as, ok := n.(*ast.AssignStmt); ok {
			for i, l := range as.Lhs {
				if o := identObj(info, l); o != nil && results[o] && i < len(as.Rhs) {
					if id, isId := ast.Unparen(as.Rhs[i]).(*ast.Ident); isId && id.Name == "nil" {
						continue
					}
					st |= bConverted
					hows["assigns the named result "+o.Name()] = true
				}
			}
		}
		return st
	}
	p.Edge = func(cond ast.Expr, truth bool, st flow.State) (flow.State, bool) {
		if x, nonNil, ok := flow.NilTest(cond); ok && identObj(info, x) == s.Var {
			if nonNil == truth {
				if st&bNil != 0 {
					return st, false
				}
				return st | bNonNil, true
			}
			if st&bNonNil != 0 {
				return st, false
			}
			return st | bNil, true
		}
		return st, true
	}
	res := flow.Solve(p)
	ok = true
	seen := false
	for _, e := range res.Exits {
		if e.State&bNil != 0 {
			continue
		}
		seen = true
		if e.State&bNonNil == 0 || e.State&bConverted == 0 {
			ok = false
			bad = e.Pos
		}
	}
	if !seen && ok {
		// no returning path with a non-nil value: every such path ends in panic(…) — accept when the closure re-raises the recovered value
		ast.Inspect(s.Lit.Body, func(n ast.Node) bool {
			if call, isCall := n.(*ast.CallExpr); isCall {
				if id, isId := call.Fun.(*ast.Ident); isId && id.Name == "panic" && len(call.Args) == 1 && identObj(info, call.Args[0]) == s.Var {
					seen = true
					hows["re-panics with the recovered value"] = true
				}
			}
			return true
		})
	}
	var hs []string
	for h := range hows {
		hs = append(hs, h)
	}
	sort.Strings(hs)
	return ok && seen, strings.Join(hs, "; "), bad
}

func runC06(c *core.Check) {
	prog := c.Load("./cl")
	pk := prog.Pkg("./cl")
	if pk == nil {
		return
	}
	deadStateRule(c, pk) // no unexported field is read without a writer (a cache flag never set, a saved value never saved)
	info := pk.TypesInfo
	c.Trust("golang.org/x/tools@v0.29.0 go/cfg")
	sinks := map[string]bool{"handleRecover": true, "handleErr": true, "recoverErr": false}

	// ---------- (1) recover sites
	sites, unbound := recoverSites(pk)
	for _, u := range unbound {
		c.Bad("recover-converts", "unbound@"+c.Rel(u), u, "recover() whose value is not bound to a variable inside a deferred closure: the panic is swallowed without a trace")
	}
	seenKey := map[string]int{}
	for _, s := range sites {
		key := core.FuncName(s.Fn)
		seenKey[key]++
		if seenKey[key] > 1 {
			key = core.Sprintf("%s#%d", key, seenKey[key])
		}
		ok, how, bad := recoverConverts(info, s, sinks)
		if !bad.IsValid() {
			bad = s.Pos
		}
		c.Decide(ok, "recover-converts", key, bad, how, "a path through this recover handler leaves with the recovered value non-nil and neither records an error (handleRecover/handleErr), re-panics, nor assigns a named error result: the lowering that panicked is abandoned half-way and NewPackage can still report success")
	}
	c.Floor("recover-converts", 9)

	// ---------- (2) errors of cl functions are used
	errT := types.Universe.Lookup("error").Type()
	returnsErr := func(fn *types.Func) int {
		sig := fn.Type().(*types.Signature)
		for i := 0; i < sig.Results().Len(); i++ {
			if types.Identical(sig.Results().At(i).Type(), errT) {
				return i
			}
		}
		return -1
	}
	nCalls := 0
	for _, fd := range core.AllFuncDecls(pk) {
		if fd.Body == nil {
			continue
		}
		par := parentMap(fd)
		ast.Inspect(fd.Body, func(n ast.Node) bool {
			call, ok := n.(*ast.CallExpr)
			if !ok {
				return true
			}
			fn, ok := calleeObj(info, call).(*types.Func)
			if !ok || fn.Pkg() != pk.Types {
				return true
			}
			idx := returnsErr(fn)
			if idx < 0 {
				return true
			}
			nCalls++
			key := core.FuncName(fd) + "→" + fn.Name()
			dropped := false
			switch p := par[call].(type) {
			case *ast.ExprStmt:
				dropped = true
			case *ast.AssignStmt:
				if len(p.Rhs) == 1 && idx < len(p.Lhs) {
					if id, ok := p.Lhs[idx].(*ast.Ident); ok && id.Name == "_" {
						dropped = true
					}
				}
			case *ast.GoStmt, *ast.DeferStmt:
				dropped = true
			}
			if !dropped {
				c.Ok("error-used", key, call.Pos(), "")
				return true
			}
			if why, ok := c06Dropped[key]; ok {
				c.Note("error-dropped-reviewed", key, call.Pos(), why)
				return true
			}
			if cd := core.FindFuncDecl(pk, core.FuncObjName(fn)); cd != nil && !mayReturnErr(info, cd, call) {
				c.Ok("error-used", key, call.Pos(), "in the mode it is called in here the callee panics instead of returning an error (its error result is provably nil on every return)")
				return true
			}
			c.Bad("error-used", key, call.Pos(), "the error returned by cl."+fn.Name()+" is discarded here: when that lowering fails nothing is recorded, and the package is reported as compiled")
			return true
		})
	}
	c.Analysed("calls_of_cl_functions_returning_error", nCalls)
	c.Floor("error-used", 15)

	// ---------- (2b) type identity: go/types creates a fresh object for every occurrence of an unnamed type ([]int, *T,
	// map[K]V, func types), so identity must be decided by types.Identical; a map lookup keyed by types.Type compares
	// pointers and misses duplicates the Go compiler then rejects (duplicate case in a type switch, …)
	nTypeMaps, nTypeReads := 0, 0
	typesType := func(t types.Type) bool {
		nt, ok := types.Unalias(t).(*types.Named)
		return ok && nt.Obj().Pkg() != nil && nt.Obj().Pkg().Path() == "go/types" && nt.Obj().Name() == "Type"
	}
	for _, fd := range core.AllFuncDecls(pk) {
		if fd.Body == nil {
			continue
		}
		par := parentMap(fd)
		ast.Inspect(fd.Body, func(n ast.Node) bool {
			ix, ok := n.(*ast.IndexExpr)
			if !ok {
				return true
			}
			mt, ok := info.TypeOf(ix.X).Underlying().(*types.Map)
			if !ok || !typesType(mt.Key()) {
				return true
			}
			nTypeMaps++
			// a store `m[T] = v` is fine; any read decides identity by pointer
			if as, isAs := par[ix].(*ast.AssignStmt); isAs {
				isLHS := false
				for _, l := range as.Lhs {
					if l == ast.Expr(ix) {
						isLHS = true
					}
				}
				if isLHS {
					return true
				}
			}
			nTypeReads++
			c.Bad("type-identity", core.FuncName(fd)+":"+core.ExprStr(ix.X), ix.Pos(), "a map keyed by types.Type is read with `"+core.ExprStr(ix)+"`: the lookup compares type objects by pointer, so two occurrences of the same unnamed type ([]int, *T, map[K]V …) are different keys — a check built on it lets through what the Go compiler rejects (e.g. duplicate cases in a type switch)")
			return true
		})
	}
	c.Analysed("maps_keyed_by_types_Type_index_sites", nTypeMaps)
	c.Decide(nTypeReads == 0 && nTypeMaps > 0, "type-identity", "census", 0, core.Sprintf("%d index sites on maps keyed by types.Type, all stores; identity is decided by ranging and types.Identical", nTypeMaps), "maps keyed by types.Type are read by key (see the sites above) or no such map was found (the census lost its subject)")

	// ---------- (2c) constructs whose straightforward lowering is not valid Go
	// `for _ <- x`: both range variables blank must become `for range x` (`for _, _ := range x` declares nothing new)
	if fp := prog.FuncDecl("./cl", "compileForPhraseStmt"); fp != nil {
		ok := false
		ast.Inspect(fp.Body, func(n ast.Node) bool {
			is, isIf := n.(*ast.IfStmt)
			if !isIf {
				return true
			}
			cond := nows(core.ExprStr(is.Cond))
			if strings.Contains(cond, `v.Key==nil`) && strings.Contains(cond, `v.Value.Name=="_"`) {
				for _, st := range is.Body.List {
					if nows(stmtStr(st)) == "names=nil" {
						ok = true
					}
				}
			}
			return true
		})
		c.Decide(ok, "valid-go", "for-blank", fp.Pos(), "`for _ <- x` defines no range variables", "cl.compileForPhraseStmt passes the names `_`, `_` to ForRange for `for _ <- x`: the generated `for _, _ := range x` is rejected by Go (no new variables on left side of :=) although the compiler reported success")
	} else {
		c.Bad("anchor", "cl.compileForPhraseStmt", 0, "not found")
	}
	// `expr?` as a statement: the values it yields must be discarded explicitly
	if cs := prog.FuncDecl("./cl", "compileStmt"); cs != nil {
		ok := false
		ast.Inspect(cs.Body, func(n ast.Node) bool {
			cc, isCC := n.(*ast.CaseClause)
			if !isCC || len(cc.List) != 1 || core.ExprStr(cc.List[0]) != "*ast.ExprStmt" {
				return true
			}
			ast.Inspect(&ast.BlockStmt{List: cc.Body}, func(m ast.Node) bool {
				if call, isCall := m.(*ast.CallExpr); isCall {
					if fn, isFn := calleeObj(info, call).(*types.Func); isFn && fn.Name() == "discardErrWrapValues" {
						ok = true
					}
				}
				return true
			})
			return true
		})
		// … for both spellings of the statement: `g()?` (an ErrWrapExpr) and the command style `mk? "a"` (a call whose
		// function is the ErrWrapExpr, which compileCallExpr turns inside out)
		guardTxt := ""
		ast.Inspect(cs.Body, func(n ast.Node) bool {
			is, isIf := n.(*ast.IfStmt)
			if !isIf {
				return true
			}
			calls := false
			ast.Inspect(is.Body, func(m ast.Node) bool {
				if call, isCall := m.(*ast.CallExpr); isCall {
					if fn, isFn := calleeObj(info, call).(*types.Func); isFn && fn.Name() == "discardErrWrapValues" {
						calls = true
					}
				}
				return true
			})
			if !calls {
				return true
			}
			guardTxt += nows(nodeTextAll(is.Cond))
			ast.Inspect(is.Cond, func(m ast.Node) bool {
				if call, isCall := m.(*ast.CallExpr); isCall {
					if fn, isFn := calleeObj(info, call).(*types.Func); isFn && fn.Pkg() == pk.Types {
						if hd := core.FindFuncDecl(pk, core.FuncObjName(fn)); hd != nil && hd.Body != nil {
							guardTxt += nows(nodeTextAll(hd.Body))
						}
					}
				}
				return true
			})
			return true
		})
		plain := strings.Contains(guardTxt, "*ast.ErrWrapExpr") && strings.Contains(guardTxt, "token.QUESTION") && strings.Contains(guardTxt, ".Default==nil")
		command := strings.Contains(guardTxt, "*ast.CallExpr") && strings.Contains(guardTxt, ".Fun")
		c.Decide(ok && plain && command, "valid-go", "exprstmt-errwrap-command", cs.Pos(), "the guard recognises `expr?` and the command style `cmd? args`", "the guard of the discard in cl.compileStmt does not recognise both spellings of an error-wrap statement (`g()?` — an *ast.ErrWrapExpr with `?` and no default — and the command style `mk? \"a\"` — an *ast.CallExpr whose Fun is that expression): for the unrecognised one the generated code keeps a lone `_autoGo_N` statement, which Go rejects")
		c.Decide(ok, "valid-go", "exprstmt-errwrap", cs.Pos(), "the values of `expr?` used as a statement are assigned to blanks", "cl.compileStmt no longer discards the values an `expr?` statement leaves on the operand stack: the generated code contains a lone `_autoGo_1` expression statement, which Go rejects, although the compiler reported success")
	}

	// `"${1/3.0}"`: an untyped float constant has no `string` member of its own; gogen treats it as an int and emits
	// strconv.Itoa(1 / 3.0), which Go rejects — compileStringLitEx gives it the type float64 first
	if sl := prog.FuncDecl("./cl", "compileStringLitEx"); sl != nil {
		txt := nows(nodeTextAll(sl.Body))
		ok := strings.Contains(txt, "constant.Float") && strings.Contains(txt, "types.Typ[types.Float64]") && strings.Contains(txt, "IsUntyped")
		c.Decide(ok, "valid-go", "interp-untyped-float", sl.Pos(), "an untyped float constant part is converted to float64 before its string member is taken", "cl.compileStringLitEx takes the `string` member of an untyped float constant as it is: gogen resolves it like an int's and the generated code contains strconv.Itoa(1 / 3.0), which Go rejects")
	}

	// ---------- (3) the sink and the result
	pkgCtx := prog.NamedType("./cl", "pkgCtx")
	if pkgCtx == nil {
		c.Bad("anchor", "cl.pkgCtx", 0, "type not found")
		return
	}
	fErrs := fieldVar(pkgCtx, "errs")
	isErrs := func(e ast.Expr) bool {
		sel, ok := ast.Unparen(e).(*ast.SelectorExpr)
		if !ok {
			return false
		}
		s := info.Selections[sel]
		return s != nil && s.Obj() == fErrs && fErrs != nil
	}
	if he := prog.FuncDecl("./cl", "pkgCtx.handleErr"); he != nil {
		// body must be exactly one unconditional `p.errs = append(p.errs, err)`
		good := false
		if len(he.Body.List) == 1 {
			if as, ok := he.Body.List[0].(*ast.AssignStmt); ok && len(as.Lhs) == 1 && len(as.Rhs) == 1 && isErrs(as.Lhs[0]) {
				if call, ok := as.Rhs[0].(*ast.CallExpr); ok && len(call.Args) == 2 {
					if id, ok := call.Fun.(*ast.Ident); ok && id.Name == "append" && isErrs(call.Args[0]) && identObj(info, call.Args[1]) == paramObj(he, info, 0) {
						good = true
					}
				}
			}
		}
		c.Decide(good, "error-sink", "handleErr", he.Pos(), "appends its argument to pkgCtx.errs unconditionally", "pkgCtx.handleErr no longer appends every error to pkgCtx.errs unconditionally: some reported failures do not reach NewPackage's result")
	} else {
		c.Bad("anchor", "cl.pkgCtx.handleErr", 0, "not found")
	}
	if cf := prog.FuncDecl("./cl", "pkgCtx.complete"); cf != nil {
		good := false
		if len(cf.Body.List) == 1 {
			if r, ok := cf.Body.List[0].(*ast.ReturnStmt); ok && len(r.Results) == 1 {
				if call, ok := r.Results[0].(*ast.CallExpr); ok {
					if sel, ok := call.Fun.(*ast.SelectorExpr); ok && sel.Sel.Name == "ToError" && isErrs(sel.X) {
						good = true
					}
				}
			}
		}
		c.Decide(good, "error-sink", "complete", cf.Pos(), "returns errs.ToError()", "pkgCtx.complete no longer returns pkgCtx.errs.ToError()")
	} else {
		c.Bad("anchor", "cl.pkgCtx.complete", 0, "not found")
	}
	// writers of errs: only handleErr
	var writers []string
	for _, fd := range core.AllFuncDecls(pk) {
		if fd.Body == nil {
			continue
		}
		ast.Inspect(fd.Body, func(n ast.Node) bool {
			if as, ok := n.(*ast.AssignStmt); ok {
				for _, l := range as.Lhs {
					if isErrs(l) && core.FuncName(fd) != "pkgCtx.handleErr" {
						writers = append(writers, core.FuncName(fd)+"@"+c.Rel(as.Pos()))
					}
				}
			}
			return true
		})
	}
	c.Decide(len(writers) == 0, "error-sink", "errs-writers", 0, "pkgCtx.errs is written only by handleErr", "pkgCtx.errs is assigned outside handleErr ("+strings.Join(writers, ", ")+"): recorded errors can be dropped before NewPackage returns")

	// NewPackage: err = ctx.complete() on the normal path, after the last loader
	np := prog.FuncDecl("./cl", "NewPackage")
	if np == nil {
		c.Bad("anchor", "cl.NewPackage", 0, "not found")
		return
	}
	var errRes types.Object
	if np.Type.Results != nil {
		for _, f := range np.Type.Results.List {
			for _, n := range f.Names {
				if o := info.Defs[n]; o != nil && types.Identical(o.Type(), errT) {
					errRes = o
				}
			}
		}
	}
	if errRes == nil {
		c.Undecided("result", "NewPackage", np.Pos(), "no named error result")
		return
	}
	{
		const (
			bCompleted flow.State = 1 << iota // err = ctx.complete() seen, nothing that can record errors since
			bStale                            // a call that can reach handleErr ran after the last complete()
		)
		mayRecord := func(call *ast.CallExpr) bool {
			fn, ok := calleeObj(info, call).(*types.Func)
			if !ok {
				return true // function values: the loaders
			}
			if fn.Pkg() != pk.Types {
				return false
			}
			switch fn.Name() {
			case "genMainFunc": // emits the entry point; reports through panics only (recovered above)
				return false
			}
			return true
		}
		p := &flow.Problem{Body: np.Body, Info: info}
		p.Node = func(n ast.Node, st flow.State, record bool) flow.State {
			isComplete := false
			if as, ok := n.(*ast.AssignStmt); ok && len(as.Lhs) == 1 && len(as.Rhs) == 1 && identObj(info, as.Lhs[0]) == errRes {
				if call, ok := as.Rhs[0].(*ast.CallExpr); ok {
					if fn, ok := calleeObj(info, call).(*types.Func); ok && fn.Name() == "complete" {
						isComplete = true
					}
				}
			}
			if isComplete {
				return (st | bCompleted) &^ bStale
			}
			for _, call := range flow.Calls(n) {
				if mayRecord(call) {
					st |= bStale
				}
			}
			return st
		}
		res := flow.Solve(p)
		ok := len(res.Exits) > 0
		bad := token.NoPos
		for _, e := range res.Exits {
			if e.State&bCompleted == 0 || e.State&bStale != 0 {
				ok = false
				bad = e.Pos
			}
		}
		c.Decide(ok, "result", "NewPackage", bad, "every return is preceded by err = ctx.complete() with no loader in between", "NewPackage returns on a path where its err result was not assigned from ctx.complete() after the last call that can record an error: failures recorded in pkgCtx.errs are not reported and the caller sees success")
	}
	// symbol-table queries come after every file was preloaded: NewPackage decides things from ctx.syms (is there a
	// `main`? which names are XGo's?) — a query placed before the Go files (or the XGo files) are preloaded misses their
	// declarations, and the compiler then emits what Go rejects (a second `func main`)
	{
		// the Go files are preloaded in a loop that may run zero times: require the lookup to come after that loop in source order
		var lookupPos, goLoopEnd, gopLoopEnd token.Pos
		ast.Inspect(np.Body, func(n ast.Node) bool {
			if ix, ok := n.(*ast.IndexExpr); ok && nows(core.ExprStr(ix.X)) == "ctx.syms" {
				if s2, ok := stringConst(info, ix.Index); ok && s2 == "main" {
					if !lookupPos.IsValid() || ix.Pos() < lookupPos {
						lookupPos = ix.Pos() // the earliest lookup decides
					}
				}
			}
			if rs, ok := n.(*ast.RangeStmt); ok {
				ast.Inspect(rs.Body, func(m ast.Node) bool {
					if call, ok := m.(*ast.CallExpr); ok {
						if fn, ok := calleeObj(info, call).(*types.Func); ok && fn.Name() == "preloadFile" {
							goLoopEnd = rs.End()
						}
						if fn, ok := calleeObj(info, call).(*types.Func); ok && fn.Name() == "preloadGopFile" {
							gopLoopEnd = rs.End()
						}
					}
					return true
				})
			}
			return true
		})
		c.Decide(lookupPos.IsValid() && goLoopEnd.IsValid() && gopLoopEnd.IsValid() && lookupPos > goLoopEnd && lookupPos > gopLoopEnd, "result", "NewPackage:main-after-preload", lookupPos, "ctx.syms[\"main\"] is consulted after the XGo files and the Go files were preloaded", "NewPackage asks ctx.syms whether the package has a `main` before every file (XGo and Go) was preloaded: a `main` declared in a file preloaded later is not seen and a second, empty `func main` is generated — Go rejects the package although the compiler reported success")
	}
	// recovered path: err = ctx.errs.ToError() inside the recover closure
	for _, s := range sites {
		if s.Fn != np {
			continue
		}
		assigned := false
		ast.Inspect(s.Lit.Body, func(n ast.Node) bool {
			if as, ok := n.(*ast.AssignStmt); ok && len(as.Lhs) == 1 && identObj(info, as.Lhs[0]) == errRes && len(as.Rhs) == 1 {
				if call, ok := as.Rhs[0].(*ast.CallExpr); ok {
					if sel, ok := call.Fun.(*ast.SelectorExpr); ok && sel.Sel.Name == "ToError" && isErrs(sel.X) {
						assigned = true
					}
				}
			}
			return true
		})
		c.Decide(assigned, "result", "NewPackage:recovered", s.Pos, "the recover handler assigns err = ctx.errs.ToError()", "NewPackage's recover handler records the panic but does not assign the err result: a compilation that panicked returns (p, nil)")
	}
	// compile*LitEx style helpers: the named error result of the functions whose recover assigns it must also be assigned from the work they wrap
	if fd := prog.FuncDecl("./cl", "compileMapLitEx"); fd != nil {
		res := namedErrResult(info, fd)
		assigned := false
		ast.Inspect(fd.Body, func(n ast.Node) bool {
			if _, isLit := n.(*ast.FuncLit); isLit {
				return false
			}
			if as, ok := n.(*ast.AssignStmt); ok {
				for _, l := range as.Lhs {
					if identObj(info, l) == res && res != nil {
						assigned = true
					}
				}
			}
			if r, ok := n.(*ast.ReturnStmt); ok && len(r.Results) > 0 {
				assigned = true
			}
			return true
		})
		c.Decide(assigned, "result", "compileMapLitEx", fd.Pos(), "the error of MapLitEx is propagated", "compileMapLitEx no longer propagates the error of cb.MapLitEx: an invalid map literal compiles 'successfully'")
	}
}

func namedErrResult(info *types.Info, fd *ast.FuncDecl) types.Object {
	errT := types.Universe.Lookup("error").Type()
	if fd.Type.Results == nil {
		return nil
	}
	for _, f := range fd.Type.Results.List {
		for _, n := range f.Names {
			if o := info.Defs[n]; o != nil && types.Identical(o.Type(), errT) {
				return o
			}
		}
	}
	return nil
}

// mayReturnErr: can the callee return a non-nil error when called with these arguments? Constant bool arguments and an
// omitted variadic parameter are assumed while following the callee's paths (the `panicErr bool` / `noPanic ...bool` idioms).
func mayReturnErr(info *types.Info, fd *ast.FuncDecl, call *ast.CallExpr) bool {
	errT := types.Universe.Lookup("error").Type()
	sig := info.Defs[fd.Name].Type().(*types.Signature)
	errIdx := -1
	for i := 0; i < sig.Results().Len(); i++ {
		if types.Identical(sig.Results().At(i).Type(), errT) {
			errIdx = i
		}
	}
	errRes := namedErrResult(info, fd)
	assumeTrue, assumeFalse, assumeNil := map[types.Object]bool{}, map[types.Object]bool{}, map[types.Object]bool{}
	np := sig.Params().Len()
	for i := 0; i < np; i++ {
		po := sig.Params().At(i)
		if sig.Variadic() && i == np-1 {
			if len(call.Args) <= i && !call.Ellipsis.IsValid() {
				assumeNil[po] = true
			}
			continue
		}
		if i < len(call.Args) {
			if id, ok := ast.Unparen(call.Args[i]).(*ast.Ident); ok {
				switch id.Name {
				case "true":
					assumeTrue[po] = true
				case "false":
					assumeFalse[po] = true
				}
			}
		}
	}
	const (
		bMaybe flow.State = 1 << iota
		bDeferred
	)
	p := &flow.Problem{Body: fd.Body, Info: info}
	p.Node = func(n ast.Node, st flow.State, record bool) flow.State {
		switch x := n.(type) {
		case *ast.DeferStmt:
			if lit, ok := x.Call.Fun.(*ast.FuncLit); ok && errRes != nil {
				ast.Inspect(lit.Body, func(m ast.Node) bool {
					if as, ok := m.(*ast.AssignStmt); ok {
						for _, l := range as.Lhs {
							if identObj(info, l) == errRes {
								st |= bDeferred
							}
						}
					}
					return true
				})
			}
		case *ast.AssignStmt:
			for i, l := range x.Lhs {
				if errRes != nil && identObj(info, l) == errRes {
					if len(x.Rhs) == len(x.Lhs) {
						if id, ok := ast.Unparen(x.Rhs[i]).(*ast.Ident); ok && id.Name == "nil" {
							st &^= bMaybe
							continue
						}
					}
					st |= bMaybe
				}
			}
		}
		return st
	}
	p.Edge = func(cond ast.Expr, truth bool, st flow.State) (flow.State, bool) {
		if o := identObj(info, cond); o != nil {
			if assumeTrue[o] && !truth || assumeFalse[o] && truth {
				return st, false
			}
		}
		if x, nonNil, ok := flow.NilTest(cond); ok {
			o := identObj(info, x)
			if o != nil && assumeNil[o] && nonNil == truth {
				return st, false
			}
			if errRes != nil && o == errRes && nonNil != truth {
				return st &^ bMaybe, true
			}
		}
		return st, true
	}
	res := flow.Solve(p)
	for _, e := range res.Exits {
		if e.State&bDeferred != 0 {
			return true
		}
		if e.Ret != nil && len(e.Ret.Results) > errIdx && errIdx >= 0 && len(e.Ret.Results) == sig.Results().Len() {
			r := ast.Unparen(e.Ret.Results[errIdx])
			if id, ok := r.(*ast.Ident); ok && id.Name == "nil" {
				continue
			}
			if errRes != nil && identObj(info, r) == errRes && e.State&bMaybe == 0 {
				continue
			}
			return true
		}
		if e.Ret != nil && len(e.Ret.Results) > 0 && len(e.Ret.Results) != sig.Results().Len() {
			return true // return f(): unknown
		}
		if e.State&bMaybe != 0 {
			return true
		}
	}
	return false
}
