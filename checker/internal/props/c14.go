package props

import (
	"go/ast"
	"go/token"
	"sort"
	"strings"

	"golang.org/x/tools/go/packages"

	"verif/checker/internal/core"
)

// tokLabels collects the token constants a parser function dispatches on: case labels of switches over p.tok and
// operands of p.tok == / != comparisons.
func tokLabels(pk *packages.Package, fd *ast.FuncDecl) map[string]bool {
	out := map[string]bool{}
	if fd == nil {
		return out
	}
	info := pk.TypesInfo
	isTok := func(e ast.Expr) bool {
		sel, ok := ast.Unparen(e).(*ast.SelectorExpr)
		return ok && sel.Sel.Name == "tok"
	}
	ast.Inspect(fd.Body, func(n ast.Node) bool {
		switch x := n.(type) {
		case *ast.SwitchStmt:
			if x.Tag != nil && isTok(x.Tag) {
				for _, s := range x.Body.List {
					for _, e := range s.(*ast.CaseClause).List {
						if k := constOf(info, e); k != nil {
							out[k.Name()] = true
						}
					}
				}
			}
		case *ast.BinaryExpr:
			if (x.Op == token.EQL || x.Op == token.NEQ) && isTok(x.X) {
				if k := constOf(info, x.Y); k != nil {
					out[k.Name()] = true
				}
			}
		}
		return true
	})
	return out
}

// c14Groups maps a dispatch point of go/parser to the XGo parser functions that play its role.
var c14Groups = map[string][]string{
	"parseUnaryExpr":   {"parseUnaryExpr"},
	"parseStmt":        {"parseStmt"},
	"parseOperand":     {"parseOperand"},
	"parseSimpleStmt":  {"parseSimpleStmt", "parseSimpleStmtEx"},
	"tryIdentOrType":   {"tryIdentOrType"},
	"parseDecl":        {"parseDecl", "parseFile"},
	"parseTypeSpec":    {"parseTypeSpec"},
	"parseFuncDecl":    {"parseFuncDeclOrCall"},
	"parseParameters":  {"parseParameters"},
	"parsePrimaryExpr": {"parsePrimaryExpr"},
	"parseBinaryExpr":  {"parseBinaryExpr"},
	"parseGenDecl":     {"parseGenDecl"},
	"parseForStmt":     {"parseForStmt"},
	"parseIfHeader":    {"parseIfHeader"},
	"parseSwitchStmt":  {"parseSwitchStmt"},
	"parseCaseClause":  {"parseCaseClause"},
	"parseCommClause":  {"parseCommClause"},
	"parseReturnStmt":  {"parseReturnStmt"},
	"parseChanType":    {"parseChanType"},
	"parseFieldDecl":   {"parseFieldDecl"},
	"parseImportSpec":  {"parseImportSpec"},
}

// c14Reviewed: tokens go/parser tests at that point which XGo handles elsewhere or not at all for a stated reason.
var c14Reviewed = map[string]string{
	"parsePrimaryExpr RBRACE": "go/parser tests RBRACE only to diagnose `T{…}` vs block ambiguity in its error path (isLiteralType handling is inlined differently); composite literals are recognised through LBRACE in both",
	"parseFuncDecl LBRACK":    "",
}

func init() {
	pp := "parser/parser.go"
	register(&Prop{
		ID:        "C14",
		Title:     "Valid Go files parse to the same syntax tree as with go/parser",
		Technique: "table agreement between sibling implementations: operator precedence tables (token.Precedence vs go/token.Precedence), token numbering, and dispatch-token inclusion between homonymous decision points of $GOROOT/src/go/parser and parser/parser.go",
		Explanation: "Decides the table-shaped necessary conditions of 'every valid Go file parses to the same tree': (1) token.Token.Precedence returns for every operator of go/token the precedence go/token.Precedence returns (binary-expression tree shape depends on nothing else), and XGo-only operators do not sit between Go levels; (2) every constant name shared by go/token and xgo/token has the same numeric value; " +
			"(3) at each decision point the XGo parser inherited from go/parser (parseStmt, parseSimpleStmt, parseUnaryExpr, parseOperand, tryIdentOrType, parseDecl, parseTypeSpec, parseFuncDecl, parseParameters, …) every token go/parser dispatches on (case labels of switches over p.tok and p.tok ==/!= tests) is also dispatched on by the XGo function(s) playing that role — a missing token means a Go production XGo cannot start.",
		NotCovered: "everything about what each production does after it is entered (tree construction), and productions XGo restructured beyond a homonymous decision point.",
		Run:        runC14,
		Controls: []Control{
			{Name: "precedence-shifted", File: "token/token.go", Old: "\tcase ADD, SUB, OR, XOR:\n\t\treturn 4\n\tcase MUL, QUO, REM, SHL, SHR, AND, AND_NOT:\n\t\treturn 5", New: "\tcase ADD, SUB, OR:\n\t\treturn 4\n\tcase MUL, QUO, REM, SHL, SHR, AND, AND_NOT, XOR:\n\t\treturn 5", Expect: "precedence/XOR"},
			{Name: "slice-lit-keeps-level-raised", File: pp, Old: "\t\t\t\tsliceLit := p.parseSliceOrMatrixLit(lbrack, len)\n\t\t\t\tp.exprLev--\n", New: "\t\t\t\tsliceLit := p.parseSliceOrMatrixLit(lbrack, len)\n", Expect: "level-balance/parser.parseArrayTypeOrSliceLit"},
			{Name: "unary-drops-arrow", File: pp, Old: "\tcase token.ARROW:\n\t\t// channel type or receive expression\n\t\tarrow := p.pos", New: "\tcase token.ILLEGAL:\n\t\t// channel type or receive expression\n\t\tarrow := p.pos", Expect: "dispatch/parseUnaryExpr ARROW"},
			{Name: "call-args-at-outer-level", File: pp, Old: "func (p *parser) parseCallOrConversion(fun ast.Expr, isCmd bool) *ast.CallExpr {", New: "func (p *parser) parseCallOrConversion(fun ast.Expr, isCmd bool) *ast.CallExpr {\n\tp.exprLev--\n\tdefer func() { p.exprLev++ }()", Expect: "expr-level/parseCallOrConversion parserhs"},
			{Name: "if-header-level-kept", File: pp, Old: "\t// p.tok != token.LBRACE\n\n\touter := p.exprLev\n\tp.exprLev = -1\n", New: "\t// p.tok != token.LBRACE\n\n\touter := p.exprLev\n", Expect: "expr-level/parseIfHeader parsesimplestmt"},
			{Name: "scanner-number-edit", File: "scanner/scanner.go", Old: "\tif e := lower(s.ch); e == 'e' || e == 'p' {", New: "\tif e := lower(s.ch); e == 'e' || e == 'p' || e == 'd' {", Expect: "deviation/Scanner.scanNumber"},
			{Name: "branch-needs-semicolon", File: pp, Old: "\tif p.tok != token.SEMICOLON && p.tok != token.RBRACE { // XGo: goto command", New: "\tif p.tok != token.SEMICOLON { // XGo: goto command", Expect: "stmt-end/parser.parseBranchStmt:p.tok"},
			{Name: "stmt-drops-select", File: pp, Old: "\tcase token.SELECT:\n\t\ts = p.parseSelectStmt()", New: "\tcase token.ILLEGAL:\n\t\ts = p.parseSelectStmt()", Expect: "dispatch/parseStmt SELECT"},
		},
	})
}

// c14LevelReviewed: routines that leave exprLev changed on purpose.
var c14LevelReviewed = map[string]string{}

func runC14(c *core.Check) {
	prog := c.Load("./parser", "go/parser", "./token", "go/token", "./scanner", "go/scanner")
	x, g := prog.Pkg("./parser"), prog.Pkg("go/parser")
	xt, gt := prog.Pkg("./token"), prog.Pkg("go/token")
	if x == nil || g == nil || xt == nil || gt == nil {
		return
	}
	c.Trust("the Go 1.23.5 standard library sources of go/parser and go/token as the reference siblings")
	// exprLev is restored by every routine that changes it (a raised level makes a later `{` a composite literal)
	c.Analysed("exprLev_changing_routines", counterBalanceRule(c, x, "level-balance", "exprLev", c14LevelReviewed))
	c.Floor("level-balance", 12)
	c.Analysed("inRHS_changing_routines", counterBalanceRule(c, x, "rhs-flag-balance", "inRHS", map[string]string{}))

	// ---------- (1) precedence tables
	gp, xp := precTable(gt), precTable(xt)
	if gp == nil || xp == nil {
		c.Undecided("precedence", "table", 0, "cannot read Token.Precedence as a switch returning constants")
	} else {
		var names []string
		for k := range gp {
			names = append(names, k)
		}
		sort.Strings(names)
		for _, k := range names {
			c.Decide(xp[k] == gp[k], "precedence", k, 0, core.Sprintf("%d", gp[k]), core.Sprintf("go/token gives %s precedence %d, xgo/token gives %d: every Go expression mixing it with a neighbouring level parses to a different tree", k, gp[k], xp[k]))
		}
		for k, v := range xp {
			if _, inGo := gp[k]; !inGo {
				c.Note("precedence-extension", k, 0, core.Sprintf("XGo-only operator at level %d", v))
			}
		}
		c.Floor("precedence", 19)
	}
	// ---------- (2) numbering
	tokenNumbering(c, prog, "token-numbering")

	// ---------- (3) dispatch inclusion
	var gnames []string
	for k := range c14Groups {
		gnames = append(gnames, k)
	}
	sort.Strings(gnames)
	for _, gname := range gnames {
		gf := core.FindFuncDecl(g, "parser."+gname)
		if gf == nil {
			c.Note("dispatch-skip", gname, 0, "go/parser has no such function in this Go version")
			continue
		}
		gl := tokLabels(g, gf)
		xl := map[string]bool{}
		found := false
		var xpos = gf.Pos()
		for _, xn := range c14Groups[gname] {
			if xf := core.FindFuncDecl(x, "parser."+xn); xf != nil {
				found = true
				xpos = xf.Pos()
				for k := range tokLabels(x, xf) {
					xl[k] = true
				}
			}
		}
		if !found {
			c.Bad("anchor", "parser."+strings.Join(c14Groups[gname], "/"), 0, "the XGo counterpart of go/parser."+gname+" was not found")
			continue
		}
		var toks []string
		for k := range gl {
			toks = append(toks, k)
		}
		sort.Strings(toks)
		for _, k := range toks {
			key := gname + " " + k
			if xl[k] {
				c.Ok("dispatch", key, xpos, "")
				continue
			}
			if why, ok := c14Reviewed[key]; ok && why != "" {
				c.Note("dispatch-reviewed", key, xpos, why)
				continue
			}
			c.Bad("dispatch", key, xpos, core.Sprintf("go/parser.%s dispatches on token %s; the XGo function(s) %v never test it: the Go production that %s starts there cannot be parsed (or is parsed as something else)", gname, k, c14Groups[gname], k))
		}
	}
	c.Floor("dispatch", 120)

	// ---------- (4) expression-level context: composite literals are recognised only at exprLev >= 0, so the level at
	// which each sub-parser runs decides how `T{` is parsed in if/for/switch headers and inside ( ) [ ] and calls
	var lnames []string
	for k := range c14LevGroups {
		lnames = append(lnames, k)
	}
	sort.Strings(lnames)
	for _, gname := range lnames {
		gf := core.FindFuncDecl(g, "parser."+gname)
		if gf == nil {
			c.Bad("anchor", "go/parser."+gname, 0, "reference function not found")
			continue
		}
		gsum := levSets(exprLevCalls(gf))
		xsum := map[string]map[string]bool{}
		var xpos = gf.Pos()
		for _, xn := range c14LevGroups[gname] {
			xf := core.FindFuncDecl(x, "parser."+xn)
			if xf == nil {
				c.Bad("anchor", "parser."+xn, 0, "the XGo counterpart of go/parser."+gname+" was not found")
				continue
			}
			xpos = xf.Pos()
			calls := exprLevCalls(xf)
			// inline the helpers that continue the production
			for _, cl := range append([]levCall{}, calls...) {
				if c14LevInline[gname+":"+cl.name] {
					if hf := core.FindFuncDecl(x, "parser."+cl.name); hf != nil {
						for _, hc := range exprLevCalls(hf) {
							calls = append(calls, levCall{hc.name, hc.at.shift(cl.at)})
						}
					}
				}
			}
			for k, v := range levSets(calls) {
				if xsum[k] == nil {
					xsum[k] = map[string]bool{}
				}
				for l := range v {
					xsum[k][l] = true
				}
			}
		}
		var callees []string
		for k := range gsum {
			callees = append(callees, k)
		}
		sort.Strings(callees)
		for _, k := range callees {
			xv, ok := xsum[k]
			if !ok {
				continue // the XGo function does not call this sub-parser (restructured or not supported: see the dispatch rule)
			}
			key := gname + " " + k
			c.Decide(setStr(xv) == setStr(gsum[k]), "expr-level", key, xpos, "level "+setStr(xv),
				core.Sprintf("go/parser.%s runs %s at expression level {%s} (relative to its entry; =-1 is the control-clause level); the XGo counterpart %v runs it at {%s}: whether `T{` starts a composite literal or a block there now differs from go/parser", gname, k, setStr(gsum[k]), c14LevGroups[gname], setStr(xv)))
		}
	}
	c.Floor("expr-level", 18)

	// ---------- (4b) statement ends: Go lets the last statement of a block end at `}` without a semicolon
	// (go/parser.expectSemi accepts `)` and `}`); an XGo-specific look-ahead that asks "does the statement go on?"
	// by testing for SEMICOLON alone misreads `{ break }`, `{ return }`, …
	nEnd := 0
	for _, fd := range core.AllFuncDecls(x) {
		if fd.Body == nil || !callsMethod(fd, "expectSemi") || strings.Contains(core.FuncName(fd), "Header") {
			continue
		}
		if strings.Contains(nodeText(fd.Body), "p.exprLev=") || strings.Contains(nows(nodeText(fd.Body)), "p.exprLev=") {
			continue // statements with a header (if/for/switch): `;` there separates the header clauses, `{` follows
		}
		ast.Inspect(fd.Body, func(n ast.Node) bool {
			is, ok := n.(*ast.IfStmt)
			if !ok {
				return true
			}
			conj := conjuncts(is.Cond)
			for _, cj := range conj {
				be, ok := ast.Unparen(cj).(*ast.BinaryExpr)
				if !ok || be.Op != token.NEQ {
					continue
				}
				if k := constOf(x.TypesInfo, be.Y); k == nil || k.Name() != "SEMICOLON" {
					continue
				}
				subj := core.ExprStr(be.X)
				if subj != "p.tok" && subj != "next" {
					continue
				}
				// only look-aheads that decide between "statement ends here" and an XGo continuation: the body
				// re-parses (unget) or parses more of the same statement
				if !strings.Contains(nodeText(is.Body), "unget(") && !strings.Contains(nodeText(is.Body), "parse") {
					continue
				}
				nEnd++
				hasBrace := false
				for _, c2 := range conj {
					if b2, ok := ast.Unparen(c2).(*ast.BinaryExpr); ok && b2.Op == token.NEQ && core.ExprStr(b2.X) == subj {
						if k := constOf(x.TypesInfo, b2.Y); k != nil && k.Name() == "RBRACE" {
							hasBrace = true
						}
					}
				}
				key := core.FuncName(fd) + ":" + subj
				c.Decide(hasBrace, "stmt-end", key, is.Pos(), "stops at `}` as well as at `;`",
					"parser."+core.FuncName(fd)+" decides that the statement continues whenever the next token is not a semicolon; Go allows the last statement of a block to be followed directly by `}` (`if x { break }`), which is then parsed as an XGo command/identifier instead of the Go statement")
			}
			return true
		})
	}
	c.Analysed("statement_end_lookaheads", nEnd)
	c.Floor("stmt-end", 2)

	// ---------- (4c) command-style calls vs. Go statements: XGo reads `f -x` (blank before, none after the operator) at
	// statement level as the call f(-x). Of the operators it does this for, `<-` also starts a valid Go statement
	// continuation: `ch <-v` is a send in Go
	if cf := core.FindFuncDecl(x, "parser.checkCmd"); cf != nil {
		ast.Inspect(cf.Body, func(n ast.Node) bool {
			cc, ok := n.(*ast.CaseClause)
			if !ok {
				return true
			}
			tight := strings.Contains(nodeText(&ast.BlockStmt{List: cc.Body}), "unget(")
			if !tight {
				return true
			}
			for _, e := range cc.List {
				if k := constOf(x.TypesInfo, e); k != nil {
					// binary operators that can continue a Go *statement* whose left side is a complete expression statement start
					conflict := k.Name() == "ARROW"
					c.Decide(!conflict, "cmd-vs-go", k.Name(), e.Pos(), "`f "+k.Name()+"x` is not a valid Go statement, reading it as a command-style call loses nothing",
						"`ch <-v` (a Go send statement written without a blank after the arrow) is parsed as the command-style call ch(<-v): a valid Go file parses to another tree")
				}
			}
			return true
		})
	} else {
		c.Bad("anchor", "parser.checkCmd", 0, "not found")
	}
	c.Floor("cmd-vs-go", 5)

	// ---------- (5) the token stream: the scanner agrees with go/scanner on Go lexemes (rules shared with C16)
	scannerAgreement(c, prog, false)
}

// c14LevGroups: go/parser functions that change p.exprLev and the XGo functions playing their role.
var c14LevGroups = map[string][]string{
	"parseArrayType":                {"parseArrayTypeOrSliceLit"},
	"parseArrayFieldOrTypeInstance": {"parseArrayFieldOrTypeInstance"},
	"parseTypeInstance":             {"parseTypeInstance"},
	"parseFuncTypeOrLit":            {"parseFuncTypeOrLit"},
	"parseOperand":                  {"parseOperand"},
	"parseIndexOrSliceOrInstance":   {"parseIndexOrSlice"},
	"parseCallOrConversion":         {"parseCallOrConversion"},
	"parseLiteralValue":             {"parseLiteralValue", "parseLiteralValueOrMapComprehension"},
	"parseIfHeader":                 {"parseIfHeader"},
	"parseSwitchStmt":               {"parseSwitchStmt"},
	"parseForStmt":                  {"parseForStmt"},
}

// helpers that continue a production of their caller (their calls count at the caller's level)
var c14LevInline = map[string]bool{"parseIndexOrSliceOrInstance:parseIndexOrSliceContinue": true}

// precTable reads `func (op Token) Precedence() int { switch op { case A, B: return n … } }`.
func precTable(pk *packages.Package) map[string]int {
	fd := core.FindFuncDecl(pk, "Token.Precedence")
	if fd == nil {
		return nil
	}
	out := map[string]int{}
	ast.Inspect(fd.Body, func(n ast.Node) bool {
		cc, ok := n.(*ast.CaseClause)
		if !ok || len(cc.Body) != 1 {
			return true
		}
		r, ok := cc.Body[0].(*ast.ReturnStmt)
		if !ok || len(r.Results) != 1 {
			return true
		}
		v, ok := constInt(pk.TypesInfo, r.Results[0])
		if !ok {
			return true
		}
		for _, e := range cc.List {
			if k := constOf(pk.TypesInfo, e); k != nil {
				out[k.Name()] = int(v)
			}
		}
		return true
	})
	if len(out) == 0 {
		return nil
	}
	return out
}

func callsMethod(fd *ast.FuncDecl, name string) bool {
	found := false
	ast.Inspect(fd.Body, func(n ast.Node) bool {
		if call, ok := n.(*ast.CallExpr); ok {
			if sel, ok := call.Fun.(*ast.SelectorExpr); ok && sel.Sel.Name == name {
				found = true
			}
		}
		return !found
	})
	return found
}

func conjuncts(e ast.Expr) []ast.Expr {
	e = ast.Unparen(e)
	if be, ok := e.(*ast.BinaryExpr); ok && be.Op == token.LAND {
		return append(conjuncts(be.X), conjuncts(be.Y)...)
	}
	return []ast.Expr{e}
}
