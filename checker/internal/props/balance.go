package props

import (
	"go/ast"
	"go/token"
	"go/types"

	"golang.org/x/tools/go/packages"

	"verif/checker/internal/core"
	"verif/checker/internal/flow"
)

// Exit balance of a nesting counter (parser.exprLev, printer.level …): a routine that changes the counter puts it back
// on every path to a normal exit — `c++ … c--`, or `saved := c; c = K; …; c = saved`. A path that leaves it changed
// shifts the context of everything parsed or printed afterwards. Paths ending in a panic / bail-out are not exits.
//
// State per path: the counter relative to entry (−3…+3), or "absolute" after an assignment of anything but a saved
// copy; a saved copy remembers the relative value it was taken at.
func counterBalanceRule(c *core.Check, pk *packages.Package, rule, field string, reviewed map[string]string) int {
	info := pk.TypesInfo
	isCtr := func(e ast.Expr) bool {
		sel, ok := ast.Unparen(e).(*ast.SelectorExpr)
		if !ok || sel.Sel.Name != field {
			return false
		}
		s := info.Selections[sel]
		return s != nil && s.Kind() == types.FieldVal
	}
	type result struct {
		touches bool
		deltas  map[int]bool // relative deltas at normal exits (only when no abs/overflow)
		bad     token.Pos
		detail  string
		exits   int
	}
	analyse := func(fd *ast.FuncDecl, summary map[types.Object]int) result {
		var r result
		savedVars := map[types.Object]bool{}
		ast.Inspect(fd.Body, func(m ast.Node) bool {
			switch x := m.(type) {
			case *ast.FuncLit:
				return false
			case *ast.IncDecStmt:
				if isCtr(x.X) {
					r.touches = true
				}
			case *ast.CallExpr:
				if o := calleeObj(info, x); o != nil {
					if _, ok := summary[o]; ok {
						r.touches = true
					}
				}
			case *ast.AssignStmt:
				for i, l := range x.Lhs {
					if isCtr(l) {
						r.touches = true
					}
					if i < len(x.Rhs) && len(x.Lhs) == len(x.Rhs) && isCtr(x.Rhs[i]) {
						if o := identObj(info, l); o != nil {
							savedVars[o] = true
						}
					}
				}
			}
			return true
		})
		if !r.touches {
			return r
		}
		// encoding: bits 0-2 delta+3, bit 3 abs, bits 4-6 saved delta+3, bit 7 saved valid, bit 8 overflow, bit 9 deferred restore
		const (
			mDelta             = 7
			bAbs    flow.State = 1 << 3
			sSave              = 4
			bSaveOK flow.State = 1 << 7
			bOver   flow.State = 1 << 8
			bDefer  flow.State = 1 << 9
		)
		get := func(st flow.State) int { return int(st&mDelta) - 3 }
		set := func(st flow.State, d int) flow.State {
			if d < -3 || d > 3 {
				return st | bOver
			}
			return st&^mDelta | flow.State(d+3)
		}
		p := &flow.Problem{Body: fd.Body, Info: info, Init: 3}
		p.Node = func(nd ast.Node, st flow.State, record bool) flow.State {
			for _, call := range flow.Calls(nd) {
				if o := calleeObj(info, call); o != nil {
					if d, ok := summary[o]; ok {
						st = set(st, get(st)+d)
					}
				}
			}
			switch x := nd.(type) {
			case *ast.IncDecStmt:
				if isCtr(x.X) {
					if x.Tok == token.INC {
						return set(st, get(st)+1)
					}
					return set(st, get(st)-1)
				}
			case *ast.AssignStmt:
				for i, l := range x.Lhs {
					if len(x.Lhs) != len(x.Rhs) {
						break
					}
					r := x.Rhs[i]
					if isCtr(r) {
						if o := identObj(info, l); o != nil && savedVars[o] {
							// saved := c
							st = st&^(mDelta<<sSave) | (st&mDelta)<<sSave | bSaveOK
							if st&bAbs != 0 {
								st &^= bSaveOK // a copy of an absolute value restores nothing known
							}
						}
						continue
					}
					if isCtr(l) {
						if o := identObj(info, r); o != nil && savedVars[o] && st&bSaveOK != 0 {
							st = st&^(mDelta|bAbs) | (st>>sSave)&mDelta // c = saved
						} else if x.Tok == token.ADD_ASSIGN || x.Tok == token.SUB_ASSIGN {
							st |= bOver
						} else {
							st |= bAbs
						}
					}
				}
			case *ast.DeferStmt:
				// defer func(v int) { c = v }(c): the value at registration is restored at exit
				if lit, ok := x.Call.Fun.(*ast.FuncLit); ok && len(x.Call.Args) == 1 && isCtr(x.Call.Args[0]) {
					ast.Inspect(lit.Body, func(m ast.Node) bool {
						if as, ok := m.(*ast.AssignStmt); ok && len(as.Lhs) == 1 && isCtr(as.Lhs[0]) {
							st |= bDefer
						}
						return true
					})
				}
			}
			return st
		}
		res := flow.Solve(p)
		r.deltas = map[int]bool{}
		r.exits = len(res.Exits)
		for _, e := range res.Exits {
			if e.State&bDefer != 0 {
				r.deltas[0] = true
				continue
			}
			switch {
			case e.State&bOver != 0:
				r.bad, r.detail = e.Pos, "changes it by more than the rule tracks"
			case e.State&bAbs != 0:
				r.bad, r.detail = e.Pos, "leaves it set to a value of its own"
			default:
				r.deltas[get(e.State)] = true
				if get(e.State) != 0 {
					r.bad, r.detail = e.Pos, core.Sprintf("leaves it changed by %+d", get(e.State))
				}
			}
		}
		return r
	}
	// pass 1: routines that shift the counter by the same non-zero amount on every exit are the second half of a split
	// routine (parseIndexOrSlice raises, parseIndexOrSliceContinue lowers); their shift is applied at their call sites
	summary := map[types.Object]int{}
	uniformShift := func(r result) (int, bool) {
		if r.touches && r.detail != "" && len(r.deltas) == 1 && !r.deltas[0] && r.exits > 0 {
			for d := range r.deltas {
				return d, true
			}
		}
		return 0, false
	}
	decls := map[types.Object]*ast.FuncDecl{}
	for _, fd := range core.AllFuncDecls(pk) {
		if fd.Body == nil {
			continue
		}
		if d, ok := uniformShift(analyse(fd, nil)); ok {
			if obj := info.Defs[fd.Name]; obj != nil {
				summary[obj] = d
				decls[obj] = fd
			}
		}
	}
	// a candidate that is balanced once the other candidates' shifts are applied at its call sites is an ordinary
	// routine (the first half of the split), not a helper
	for changed := true; changed; {
		changed = false
		for obj, fd := range decls {
			if _, still := summary[obj]; !still {
				continue
			}
			others := map[types.Object]int{}
			for o, d := range summary {
				if o != obj {
					others[o] = d
				}
			}
			if d, ok := uniformShift(analyse(fd, others)); !ok {
				delete(summary, obj)
				changed = true
			} else if d != summary[obj] {
				summary[obj] = d
				changed = true
			}
		}
	}
	n := 0
	for _, fd := range core.AllFuncDecls(pk) {
		if fd.Body == nil {
			continue
		}
		name := core.FuncName(fd)
		if d, isHelper := summary[info.Defs[fd.Name]]; isHelper {
			n++
			c.Note(rule+"-helper", name, fd.Pos(), core.Sprintf("shifts %s by %+d on every exit; the shift is applied at its call sites", field, d))
			continue
		}
		r := analyse(fd, summary)
		if !r.touches {
			continue
		}
		n++
		if why, ok := reviewed[name]; ok {
			if r.bad.IsValid() {
				c.Note(rule, name, r.bad, "reviewed: "+why)
			} else {
				c.Bad(rule, name, fd.Pos(), "listed as a reviewed exception but the routine is balanced now: remove the stale entry")
			}
			continue
		}
		c.Decide(!r.bad.IsValid() && r.exits > 0, rule, name, r.bad, "every normal exit leaves "+field+" as it was on entry", name+" "+r.detail+" on the path leaving at "+c.Rel(r.bad)+": "+field+" is a nesting counter that every routine restores before it returns; from here on everything is handled at the wrong level")
	}
	return n
}
