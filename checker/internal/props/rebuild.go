package props

import (
	"go/ast"
	"go/types"
	"sort"
	"strings"

	"golang.org/x/tools/go/packages"

	"verif/checker/internal/core"
)

// rebuildRule: a routine that rebuilds a syntax node from another node of the same type — a composite literal of type T
// in which at least one element is copied from `x.F` with x a *T — carries over every syntax-bearing field of T (child
// nodes, operator tokens, syntax flags; bare positions are not required) or sets it itself. A field left out silently
// becomes its zero value: `cmd? args` rebuilt without Tok turns into another operator, a call rebuilt without Ellipsis
// loses its `...`.
func rebuildRule(c *core.Check, pk *packages.Package, node *types.Interface, rule string, reviewed map[string]string) int {
	info := pk.TypesInfo
	n := 0
	docs := map[*types.Var]string{}
	for _, dep := range pk.Imports {
		if strings.HasSuffix(dep.PkgPath, "xgo/ast") {
			docs = fieldDocs(dep)
		}
	}
	for _, fd := range core.AllFuncDecls(pk) {
		if fd.Body == nil {
			continue
		}
		perType := map[string]int{}
		ast.Inspect(fd.Body, func(nd ast.Node) bool {
			cl, ok := nd.(*ast.CompositeLit)
			if !ok || len(cl.Elts) == 0 {
				return true
			}
			nt := namedOf(info.TypeOf(cl))
			if nt == nil || nt.Obj().Pkg() == nil || !strings.HasSuffix(nt.Obj().Pkg().Path(), "/ast") {
				return true
			}
			st, ok := nt.Underlying().(*types.Struct)
			if !ok {
				return true
			}
			set := map[string]bool{}
			var src types.Object
			for _, el := range cl.Elts {
				kv, ok := el.(*ast.KeyValueExpr)
				if !ok {
					return true
				}
				id, ok := kv.Key.(*ast.Ident)
				if !ok {
					continue
				}
				set[id.Name] = true
				if sel, ok := ast.Unparen(kv.Value).(*ast.SelectorExpr); ok && sel.Sel.Name == id.Name {
					if o := identObj(info, sel.X); o != nil {
						if snt := namedOf(derefType(o.Type())); snt != nil && snt.Obj() == nt.Obj() {
							src = o
						}
					}
				}
			}
			if src == nil {
				return true
			}
			perType[nt.Obj().Name()]++
			var missing []string
			for i := 0; i < st.NumFields(); i++ {
				f := st.Field(i)
				if f.Name() == "Doc" || f.Name() == "Comment" || f.Name() == "Obj" {
					continue
				}
				if f.Type().String() == "github.com/goplus/xgo/token.Pos" {
					// a bare position is not required — except where the position's validity IS the syntax: `...` present or
					// not, command style or not
					if !(f.Name() == "Ellipsis" || f.Name() == "NoParenEnd" || strings.Contains(docs[f], "NoPos")) {
						continue
					}
				} else if !syntaxField(f, node) {
					continue
				}
				if !set[f.Name()] {
					missing = append(missing, f.Name())
				}
			}
			sort.Strings(missing)
			n++
			key := core.FuncName(fd) + ":" + nt.Obj().Name()
			if perType[nt.Obj().Name()] > 1 {
				key += core.Sprintf("#%d", perType[nt.Obj().Name()])
			}
			if why, ok := reviewed[key]; ok {
				if len(missing) > 0 {
					c.Note(rule, key, cl.Pos(), "reviewed: "+why)
				} else {
					c.Bad(rule, key, cl.Pos(), "listed as a reviewed exception but the literal carries every field now: remove the stale entry")
				}
				return true
			}
			c.Decide(len(missing) == 0, rule, key, cl.Pos(), "every syntax-bearing field is carried over or set", core.FuncName(fd)+" rebuilds an *ast."+nt.Obj().Name()+" from `"+src.Name()+"` but leaves out "+strings.Join(missing, ", ")+": the rebuilt node silently gets the zero value there (another operator, no `...`, no default …)")
			return true
		})
	}
	return n
}
