package props

import (
	"go/ast"
	"go/constant"
	"go/token"
	"go/types"
	"sort"
	"strings"

	"verif/checker/internal/core"
	"verif/checker/internal/flow"
)

func init() {
	f, g := "x/format/format.go", "x/format/gopstyle.go"
	register(&Prop{
		ID:        "C25",
		Title:     "Go-to-XGo style conversion preserves behaviour",
		Technique: "cross-table agreement between the formatter's fmt→builtin rewrite table and the compiler's builtin bindings, inverse-rule check of the lower-casing of called names against the compiler's capitalisation rule, and scope push/pop typestate of the shadowing tracker",
		Explanation: "Decides the table- and shape-level necessary conditions of 'the converted program means the same': (1) every pair {fmt.G → x} of x/format.printFuncs (with the formatter's println→echo substitution) names a builtin that cl/builtin.go binds to exactly fmt.G (the initBuiltinFns list under its first-letter title-casing rule, plus the explicit echo→Println), so a rewritten call still calls the same function; " +
			"(2) startWithLowerCase changes the FIRST letter only (A–Z → a–z) — the exact inverse of the compiler's lookup rule, which upper-cases only the first letter of a lower-case member name; (3) the shadowing tracker always pushes a NEW child scope in enterBlock (every path assigns ctx.scope = NewScope(previous,…) and returns the previous one), leaveBlock restores exactly its argument, and every enterBlock call is paired with a deferred leaveBlock of its result. Block scopes (rule block-scope): every routine of x/format that walks a statement list (formatStmts) opens a scope of its own (enterBlock) on every path before the walk, so blocks, case clauses and communication clauses never share declarations with their siblings. Walk coverage (rule format-walk-field): every child node of every node kind with a case in formatStmt/formatExpr/formatType is read by that case or by the routine the node is handed to — the converter decides from the calls it visits whether an import is still used. Header statements (rule header-call-style): the init/post statement of an if/for/switch header never reaches formatStmt directly, whose command-style rewriting cannot be followed by `;` or `{`. Lambda arity (rule lambda-arity): every *ast.LambdaExpr the formatter builds is built under the guard len(Rhs) == the literal's result count, the requirement cl.checkLambdaFuncType enforces.",
		NotCovered: "lambda conversion beyond the arity guard, command-style calls, import removal, and the precision of the shadowing test itself.",
		Run:        runC25,
		Controls: []Control{
			{Name: "table-renames-sprint", File: f, Old: "\t{\"Sprint\", \"sprint\"},", New: "\t{\"Sprint\", \"sprintln\"},", Expect: "builtin-agreement/Sprint"},
			{Name: "compiler-drops-errorf", File: "cl/builtin.go", Old: "\t\t\t\"print\", \"println\", \"printf\", \"errorf\",", New: "\t\t\t\"print\", \"println\", \"printf\",", Expect: "builtin-agreement/Errorf"},
			{Name: "echo-rebound", File: "cl/builtin.go", Old: "gogen.NewOverloadFunc(token.NoPos, builtin, \"echo\", fmt.Ref(\"Println\"))", New: "gogen.NewOverloadFunc(token.NoPos, builtin, \"echo\", fmt.Ref(\"Print\"))", Expect: "builtin-agreement/Println"},
			{Name: "lowercase-acronyms", File: g, Old: "\tif c := v.Name[0]; c >= 'A' && c <= 'Z' {\n\t\tv.Name = string(c+('a'-'A')) + v.Name[1:]\n\t}", New: "\tn := 0\n\tfor n < len(v.Name) && v.Name[n] >= 'A' && v.Name[n] <= 'Z' {\n\t\tn++\n\t}\n\tv.Name = strings.ToLower(v.Name[:n]) + v.Name[n:]", Expect: "load/github.com/goplus/xgo/x/format"},
			{Name: "lowercase-two-letters", File: g, Old: "\t\tv.Name = string(c+('a'-'A')) + v.Name[1:]", New: "\t\tv.Name = string(c+('a'-'A')) + string(v.Name[1]|0x20) + v.Name[2:]", Expect: "lowercase-inverse/startWithLowerCase"},
			{Name: "lambda-forwarding-return", File: f, Old: "ok && len(stmt.Results) == nres {", New: "ok && (len(stmt.Results) == nres || len(stmt.Results) == 1) {", Expect: "lambda-arity/funcLitToLambdaExpr"},
			{Name: "clause-body-in-switch-scope", File: "x/format/stmt_expr_or_type.go", Old: "\t\tformatExprs(ctx, v.List)\n\t\tformatClause(ctx, nil, v.Body)\n", New: "\t\tformatExprs(ctx, v.List)\n\t\tformatStmts(ctx, v.Body)\n", Expect: "block-scope/formatStmt"},
			{Name: "for-post-not-walked", File: "x/format/stmt_expr_or_type.go", Old: "\tformatSimpleStmt(ctx, v.Post)\n", New: "", Expect: "format-walk-field/ForStmt.Post"},
			{Name: "if-init-in-command-style", File: "x/format/stmt_expr_or_type.go", Old: "\tformatSimpleStmt(ctx, v.Init)\n\tformatExpr(ctx, v.Cond, &v.Cond)\n\tformatBlockStmt(ctx, v.Body)\n\tformatStmt(ctx, v.Else)", New: "\tformatStmt(ctx, v.Init)\n\tformatExpr(ctx, v.Cond, &v.Cond)\n\tformatBlockStmt(ctx, v.Body)\n\tformatStmt(ctx, v.Else)", Expect: "header-call-style/formatIfStmt.Init"},
			{Name: "scope-reused", File: g, Old: "\told := ctx.scope\n\tctx.scope = types.NewScope(old, token.NoPos, token.NoPos, \"\")\n\treturn old", New: "\told := ctx.scope\n\tif old.Parent() != nil && old.Len() == 0 {\n\t\treturn old\n\t}\n\tctx.scope = types.NewScope(old, token.NoPos, token.NoPos, \"\")\n\treturn old", Expect: "scope-discipline/enterBlock"},
			{Name: "leave-not-deferred", File: "x/format/stmt_expr_or_type.go", Old: "\t\told := ctx.enterBlock()\n\t\tdefer ctx.leaveBlock(old)\n\t\tformatStmts(ctx, stmt.List)\n", New: "\t\tctx.enterBlock()\n\t\tformatStmts(ctx, stmt.List)\n", Expect: "scope-discipline/pairing"},
		},
	})
}

func runC25(c *core.Check) {
	prog := c.Load("./x/format", "./cl", "./parser", "./ast")
	fpk, cpk := prog.Pkg("./x/format"), prog.Pkg("./cl")
	if fpk == nil || cpk == nil {
		return
	}
	finfo, cinfo := fpk.TypesInfo, cpk.TypesInfo
	c25LambdaArity(c, fpk, cpk)
	// header statements: the init/post statement of an if/for/switch header never reaches formatStmt directly — that
	// route turns a call into command style (`for echo "x"; …`), which cannot be followed by `;` or `{`
	{
		fstmt := fpk.Types.Scope().Lookup("formatStmt")
		nHdr := 0
		for _, fd := range core.AllFuncDecls(fpk) {
			if fd.Body == nil {
				continue
			}
			ast.Inspect(fd.Body, func(n ast.Node) bool {
				call, ok := n.(*ast.CallExpr)
				if !ok || len(call.Args) != 2 {
					return true
				}
				sel, ok := ast.Unparen(call.Args[1]).(*ast.SelectorExpr)
				if !ok || (sel.Sel.Name != "Init" && sel.Sel.Name != "Post") {
					return true
				}
				if s := finfo.Selections[sel]; s == nil || s.Kind() != types.FieldVal {
					return true
				}
				// Go's header statements only: ForPhrase.Init is XGo syntax that Go input never contains
				if nt := namedOf(derefType(finfo.TypeOf(sel.X))); nt == nil || !isOneOf(nt.Obj().Name(), []string{"IfStmt", "ForStmt", "SwitchStmt", "TypeSwitchStmt"}) {
					return true
				}
				if fn, ok := calleeObj(finfo, call).(*types.Func); ok && fn.Pkg() == fpk.Types {
					nHdr++
					key := core.FuncName(fd) + "." + sel.Sel.Name
					c.Decide(calleeObj(finfo, call) != fstmt, "header-call-style", key, call.Pos(), "handled by "+fn.Name(), core.FuncName(fd)+" hands the header's "+sel.Sel.Name+" statement to formatStmt: a call there is rewritten in command style (`if echo \"x\"; cond {`), which does not parse")
				}
				return true
			})
		}
		c.Floor("header-call-style", 5)
		c.Floor("format-walk-field", 60)
		if ss := core.FindFuncDecl(fpk, "formatSimpleStmt"); ss != nil {
			usesCmd := false
			ast.Inspect(ss.Body, func(n ast.Node) bool {
				if call, ok := n.(*ast.CallExpr); ok {
					if fn, ok := calleeObj(finfo, call).(*types.Func); ok && (fn.Name() == "commandStyleFirst" || fn.Name() == "formatExprStmt") {
						usesCmd = true
					}
				}
				return true
			})
			c.Decide(!usesCmd, "header-call-style", "formatSimpleStmt", ss.Pos(), "formats the call without the command-style conversion", "formatSimpleStmt applies the command-style conversion to a header statement")
		}
	}
	// walk coverage: the formatter decides whether an import is still used from the calls it visits; a child it does not
	// visit keeps its fmt.Println while `import "fmt"` is removed. Every child node of every node kind with a case in
	// formatStmt / formatExpr / formatType is read by the case (or by the routine the node is handed to).
	if xpk, apk := prog.Pkg("./parser"), prog.Pkg("./ast"); xpk != nil && apk != nil {
		nodeI := ifaceOf(apk.Types.Scope().Lookup("Node").Type())
		for _, d := range []string{"formatStmt", "formatExpr", "formatType"} {
			fd := prog.FuncDecl("./x/format", d)
			if fd == nil || nodeI == nil {
				continue
			}
			ts := typeSwitchOn(fd.Body, finfo, paramObj(fd, finfo, 1))
			if ts == nil {
				c.Undecided("format-walk-field", d, fd.Pos(), "no type switch over the node parameter")
				continue
			}
			for _, s := range ts.Body.List {
				cc := s.(*ast.CaseClause)
				if len(cc.List) != 1 || finfo.Implicits[cc] == nil {
					continue
				}
				if nt := namedOf(finfo.TypeOf(cc.List[0])); nt != nil && nt.Obj().Pkg() == apk.Types {
					checkFieldsRead(c, fpk, xpk, nodeI, nt, cc, finfo.Implicits[cc], fieldReadRule{prefix: "format-walk", verb: "walks", omitted: c25WalkOmitted, derived: map[string]string{}, childrenOnly: true})
				}
			}
		}
	}
	c.Floor("lambda-arity", 2)

	// ---------- (1) tables
	// formatter side
	var pairs [][2]string
	for _, f := range fpk.Syntax {
		ast.Inspect(f, func(n ast.Node) bool {
			vs, ok := n.(*ast.ValueSpec)
			if !ok || len(vs.Names) != 1 || vs.Names[0].Name != "printFuncs" || len(vs.Values) != 1 {
				return true
			}
			cl, ok := vs.Values[0].(*ast.CompositeLit)
			if !ok {
				return true
			}
			for _, el := range cl.Elts {
				if row, ok := el.(*ast.CompositeLit); ok && len(row.Elts) == 2 {
					a, b := finfo.Types[row.Elts[0]], finfo.Types[row.Elts[1]]
					if a.Value != nil && b.Value != nil {
						pairs = append(pairs, [2]string{constant.StringVal(a.Value), constant.StringVal(b.Value)})
					}
				}
			}
			return true
		})
	}
	// the println → echo substitution in fmtToBuiltin
	subst := map[string]string{}
	if fd := prog.FuncDecl("./x/format", "fmtToBuiltin"); fd != nil {
		ast.Inspect(fd.Body, func(n ast.Node) bool {
			ifs, ok := n.(*ast.IfStmt)
			if !ok {
				return true
			}
			be, ok := ifs.Cond.(*ast.BinaryExpr)
			if !ok || be.Op != token.EQL {
				return true
			}
			tv := finfo.Types[be.Y]
			if tv.Value == nil || tv.Value.Kind() != constant.String || len(ifs.Body.List) != 1 {
				return true
			}
			if as, ok := ifs.Body.List[0].(*ast.AssignStmt); ok && len(as.Rhs) == 1 && identObj(finfo, as.Lhs[0]) == identObj(finfo, be.X) {
				if rv := finfo.Types[as.Rhs[0]]; rv.Value != nil && rv.Value.Kind() == constant.String {
					subst[constant.StringVal(tv.Value)] = constant.StringVal(rv.Value)
				}
			}
			return true
		})
	}
	c.Analysed("formatter_pairs", len(pairs))
	c.Analysed("formatter_substitutions", subst)
	// compiler side: builtin name -> fmt function
	bind := map[string]string{}
	ib := prog.FuncDecl("./cl", "initBuiltin")
	ifns := prog.FuncDecl("./cl", "initBuiltinFns")
	if ib == nil || ifns == nil {
		return
	}
	// title-casing rule of initBuiltinFns: first letter only
	titleFirstOnly := false
	ast.Inspect(ifns.Body, func(n ast.Node) bool {
		if as, ok := n.(*ast.AssignStmt); ok && len(as.Rhs) == 1 {
			s := strings.ReplaceAll(core.ExprStr(as.Rhs[0]), " ", "")
			if strings.HasPrefix(s, "string(") && strings.Contains(s, "[0]-'a'+'A')+") && strings.HasSuffix(s, "[1:]") {
				titleFirstOnly = true
			}
		}
		return true
	})
	c.Decide(titleFirstOnly, "builtin-agreement", "title-rule", ifns.Pos(), "initBuiltinFns binds name → pkg.Title(name) by upper-casing the first letter only", "initBuiltinFns no longer derives the bound function by upper-casing only the first letter: the table comparison below would be meaningless")
	var fmtParam types.Object
	for _, fl := range ib.Type.Params.List {
		for _, nm := range fl.Names {
			if nm.Name == "fmt" {
				fmtParam = cinfo.Defs[nm]
			}
		}
	}
	ifnsObj := cinfo.Defs[ifns.Name]
	ast.Inspect(ib.Body, func(n ast.Node) bool {
		call, ok := n.(*ast.CallExpr)
		if !ok {
			return true
		}
		// initBuiltinFns(builtin, scope, fmt, []string{…})
		if calleeObj(cinfo, call) == ifnsObj && len(call.Args) == 4 && identObj(cinfo, call.Args[2]) == fmtParam {
			if cl, ok := call.Args[3].(*ast.CompositeLit); ok {
				for _, el := range cl.Elts {
					if tv := cinfo.Types[el]; tv.Value != nil {
						name := constant.StringVal(tv.Value)
						bind[name] = strings.ToUpper(name[:1]) + name[1:]
					}
				}
			}
		}
		// gogen.NewOverloadFunc(pos, builtin, "echo", fmt.Ref("Println"))
		if fn, ok := calleeObj(cinfo, call).(*types.Func); ok && fn.Name() == "NewOverloadFunc" && len(call.Args) == 4 {
			if ref, ok := call.Args[3].(*ast.CallExpr); ok && len(ref.Args) == 1 {
				if sel, ok := ref.Fun.(*ast.SelectorExpr); ok && sel.Sel.Name == "Ref" && identObj(cinfo, sel.X) == fmtParam {
					nv, rv := cinfo.Types[call.Args[2]], cinfo.Types[ref.Args[0]]
					if nv.Value != nil && rv.Value != nil {
						bind[constant.StringVal(nv.Value)] = constant.StringVal(rv.Value)
					}
				}
			}
		}
		return true
	})
	c.Analysed("compiler_fmt_builtins", len(bind))
	c.Floor("builtin-agreement", 10)
	sort.Slice(pairs, func(i, j int) bool { return pairs[i][0] < pairs[j][0] })
	for _, p := range pairs {
		goName, x := p[0], p[1]
		if s, ok := subst[x]; ok {
			x = s
		}
		bound, ok := bind[x]
		switch {
		case !ok:
			c.Bad("builtin-agreement", goName, 0, core.Sprintf("the formatter rewrites fmt.%s to `%s`, which the compiler does not define as a fmt builtin: the converted program does not compile", goName, x))
		case bound != goName:
			c.Bad("builtin-agreement", goName, 0, core.Sprintf("the formatter rewrites fmt.%s to `%s`, which the compiler binds to fmt.%s: the converted program calls a different function", goName, x, bound))
		default:
			c.Ok("builtin-agreement", goName, 0, x+" → fmt."+bound)
		}
	}

	// ---------- (2) lower-casing is the inverse of the first-letter capitalisation
	if fd := prog.FuncDecl("./x/format", "startWithLowerCase"); fd != nil {
		good := false
		nAssign := 0
		ast.Inspect(fd.Body, func(n ast.Node) bool {
			as, ok := n.(*ast.AssignStmt)
			if !ok || len(as.Lhs) != 1 || len(as.Rhs) != 1 {
				return true
			}
			if sel, ok := as.Lhs[0].(*ast.SelectorExpr); !ok || sel.Sel.Name != "Name" {
				return true
			}
			nAssign++
			s := strings.ReplaceAll(core.ExprStr(as.Rhs[0]), " ", "")
			// string(c+('a'-'A')) + v.Name[1:]
			if strings.HasPrefix(s, "string(") && strings.Contains(s, "+('a'-'A'))+") && strings.HasSuffix(s, ".Name[1:]") {
				good = true
			}
			return true
		})
		hasLoop := false
		ast.Inspect(fd.Body, func(n ast.Node) bool {
			switch n.(type) {
			case *ast.ForStmt, *ast.RangeStmt:
				hasLoop = true
			}
			return true
		})
		c.Decide(good && nAssign == 1 && !hasLoop, "lowercase-inverse", "startWithLowerCase", fd.Pos(), "only the first letter is lower-cased; the rest of the name is kept (Name[1:])",
			"startWithLowerCase changes more than the first letter (or not by the fixed 'a'-'A' offset): XGo resolves a lower-case member only by upper-casing its FIRST letter, so `template.htmlEscapeString` no longer finds HTMLEscapeString and the converted program does not compile")
	}

	// ---------- (3) scope discipline
	fctx := prog.NamedType("./x/format", "formatCtx")
	if fctx != nil {
		fScope := fieldVar(fctx, "scope")
		enter, leave := findMethod(fctx, "enterBlock"), findMethod(fctx, "leaveBlock")
		if efd := prog.FuncDecl("./x/format", "formatCtx.enterBlock"); efd != nil && fScope != nil {
			const (
				bPushed flow.State = 1 << iota
			)
			var prev types.Object
			ast.Inspect(efd.Body, func(n ast.Node) bool {
				if as, ok := n.(*ast.AssignStmt); ok && len(as.Lhs) == 1 && len(as.Rhs) == 1 {
					if sel, ok := as.Rhs[0].(*ast.SelectorExpr); ok {
						if s := finfo.Selections[sel]; s != nil && s.Obj() == fScope && prev == nil {
							prev = identObj(finfo, as.Lhs[0])
						}
					}
				}
				return true
			})
			p := &flow.Problem{Body: efd.Body, Info: finfo}
			p.Node = func(n ast.Node, st flow.State, record bool) flow.State {
				if as, ok := n.(*ast.AssignStmt); ok && len(as.Lhs) == 1 && len(as.Rhs) == 1 {
					if sel, ok := as.Lhs[0].(*ast.SelectorExpr); ok {
						if s := finfo.Selections[sel]; s != nil && s.Obj() == fScope {
							if call, ok := as.Rhs[0].(*ast.CallExpr); ok && pkgFuncName(finfo, call) == "go/types.NewScope" && len(call.Args) >= 1 && identObj(finfo, call.Args[0]) == prev && prev != nil {
								st |= bPushed
							}
						}
					}
				}
				return st
			}
			res := flow.Solve(p)
			good := len(res.Exits) > 0 && prev != nil
			for _, e := range res.Exits {
				if e.State&bPushed == 0 {
					good = false
				}
				if e.Ret == nil || len(e.Ret.Results) != 1 || identObj(finfo, e.Ret.Results[0]) != prev {
					good = false
				}
			}
			c.Decide(good, "scope-discipline", "enterBlock", efd.Pos(), "every path pushes a fresh child scope and returns the previous one",
				"enterBlock does not, on every path, install a NEW child scope of the current one and return the previous scope: a declaration inside a nested block is recorded in (and survives in) the enclosing scope, so a later `fmt.Println` of the outer block is wrongly treated as shadowed, left unconverted, and its import removed — the converted program does not compile")
		}
		if lfd := prog.FuncDecl("./x/format", "formatCtx.leaveBlock"); lfd != nil && fScope != nil {
			good := false
			arg := paramObj(lfd, finfo, 0)
			if len(lfd.Body.List) == 1 {
				if as, ok := lfd.Body.List[0].(*ast.AssignStmt); ok && len(as.Lhs) == 1 && len(as.Rhs) == 1 && identObj(finfo, as.Rhs[0]) == arg {
					if sel, ok := as.Lhs[0].(*ast.SelectorExpr); ok {
						if s := finfo.Selections[sel]; s != nil && s.Obj() == fScope {
							good = true
						}
					}
				}
			}
			c.Decide(good, "scope-discipline", "leaveBlock", lfd.Pos(), "restores exactly its argument", "leaveBlock does not restore ctx.scope to exactly its argument")
		}
		// pairing: x := ctx.enterBlock(); defer ctx.leaveBlock(x) as consecutive statements
		nEnter, bad := 0, token.NoPos
		for _, fd := range core.AllFuncDecls(fpk) {
			ast.Inspect(fd.Body, func(n ast.Node) bool {
				blk, ok := n.(*ast.BlockStmt)
				if !ok {
					return true
				}
				for i, s := range blk.List {
					var call *ast.CallExpr
					var res types.Object
					switch x := s.(type) {
					case *ast.AssignStmt:
						if len(x.Rhs) == 1 {
							call, _ = x.Rhs[0].(*ast.CallExpr)
							if len(x.Lhs) == 1 {
								res = identObj(finfo, x.Lhs[0])
							}
						}
					case *ast.ExprStmt:
						call, _ = x.X.(*ast.CallExpr)
					}
					if call == nil || calleeObj(finfo, call) != enter || enter == nil {
						continue
					}
					nEnter++
					okPair := false
					if i+1 < len(blk.List) && res != nil {
						if d, ok := blk.List[i+1].(*ast.DeferStmt); ok && calleeObj(finfo, d.Call) == leave && len(d.Call.Args) == 1 && identObj(finfo, d.Call.Args[0]) == res {
							okPair = true
						}
					}
					if !okPair {
						bad = s.Pos()
					}
				}
				return true
			})
		}
		// block-scope: every statement list Go scopes as a block — BlockStmt.List, CaseClause.Body, CommClause.Body — is walked
		// (formatStmts) by a routine that has opened a scope of its own on every path before the walk. Walking it in the
		// enclosing scope lets `var fmt = …` of one branch shadow the package in its siblings.
		if fs := fpk.Types.Scope().Lookup("formatStmts"); fs != nil && enter != nil {
			nWalk := 0
			for _, fd := range core.AllFuncDecls(fpk) {
				if fd.Body == nil {
					continue
				}
				var walks []*ast.CallExpr
				ast.Inspect(fd.Body, func(n ast.Node) bool {
					if call, ok := n.(*ast.CallExpr); ok && calleeObj(finfo, call) == fs {
						walks = append(walks, call)
					}
					return true
				})
				if len(walks) == 0 {
					continue
				}
				const bEntered flow.State = 1
				unscoped := token.NoPos
				p := &flow.Problem{Body: fd.Body, Info: finfo}
				p.Node = func(n ast.Node, st flow.State, record bool) flow.State {
					for _, call := range flow.Calls(n) {
						switch calleeObj(finfo, call) {
						case enter:
							st |= bEntered
						case fs:
							if record && st&bEntered == 0 {
								unscoped = call.Pos()
							}
						}
					}
					return st
				}
				flow.Solve(p)
				nWalk++
				name := core.FuncName(fd)
				if why, ok := c25WalksInCallerScope[name]; ok {
					c.Note("block-scope", name, fd.Pos(), "reviewed: "+why)
					continue
				}
				c.Decide(!unscoped.IsValid(), "block-scope", name, unscoped, "opens a scope before walking the statement list", name+" walks a statement list (formatStmts) on a path where it has not opened a scope of its own (enterBlock): a block, case clause or communication clause is then formatted in the enclosing scope, and a declaration inside it (var fmt = …) is taken to shadow the package in the statements that follow the block")
			}
			c.Analysed("statement_list_walkers", nWalk)
			c.Floor("block-scope", 2)
		}
		c.Analysed("enterBlock_sites", nEnter)
		c.Decide(!bad.IsValid() && nEnter >= 6, "scope-discipline", "pairing", bad, core.Sprintf("%d enterBlock sites, each immediately followed by `defer leaveBlock(<its result>)`", nEnter),
			"an enterBlock call is not immediately followed by `defer ctx.leaveBlock(<its result>)`: the block's declarations leak into the rest of the function (later fmt calls are treated as shadowed)")
	}
}

// c25WalksInCallerScope: routines that walk a statement list without a scope of their own, reviewed.
var c25WalksInCallerScope = map[string]string{}

// c25WalkOmitted: children the style converter deliberately does not visit, by field name.
var c25WalkOmitted = map[string]string{
	"Doc":     "comments contain no calls",
	"Comment": "comments contain no calls",
	"Label":   "a label is a bare identifier: it contains no calls and shadows nothing",
	"Lhs":     "lambda parameters are bare identifiers; Go input has no lambdas (they are produced by this pass from function literals whose parameters were recorded through formatFuncType)",
}

func derefType(t types.Type) types.Type {
	if pt, ok := t.(*types.Pointer); ok {
		return pt.Elem()
	}
	return t
}
