package props

import (
	"fmt"
	"go/ast"
	"go/constant"
	"go/token"
	"go/types"
	"reflect"
	"strings"

	"golang.org/x/tools/go/packages"
)

// K5: clone equivalence. A function is serialised with positions and comments dropped, local names replaced by
// their order of first appearance, package qualifiers reduced to the package NAME, and non-Token constants folded
// to their values; two forks are alpha-equivalent iff the serialisations are equal.

type normalizer struct {
	info   *types.Info
	pkg    *types.Package
	locals map[types.Object]int
	b      strings.Builder
}

func normFunc(pk *packages.Package, fd *ast.FuncDecl) string {
	n := &normalizer{info: pk.TypesInfo, pkg: pk.Types, locals: map[types.Object]int{}}
	if fd.Recv != nil {
		n.node(reflect.ValueOf(fd.Recv))
	}
	n.node(reflect.ValueOf(fd.Type))
	n.node(reflect.ValueOf(fd.Body))
	return n.b.String()
}

// normStmts serialises each top-level statement of the body separately (same local numbering), for diffs.
func normStmts(pk *packages.Package, fd *ast.FuncDecl) []string {
	n := &normalizer{info: pk.TypesInfo, pkg: pk.Types, locals: map[types.Object]int{}}
	if fd.Recv != nil {
		n.node(reflect.ValueOf(fd.Recv))
	}
	n.node(reflect.ValueOf(fd.Type))
	var out []string
	for _, s := range fd.Body.List {
		n.b.Reset()
		n.node(reflect.ValueOf(s))
		out = append(out, n.b.String())
	}
	return out
}

var posType = reflect.TypeOf(token.NoPos)

func (n *normalizer) ident(id *ast.Ident) {
	obj := n.info.Uses[id]
	if obj == nil {
		obj = n.info.Defs[id]
	}
	switch o := obj.(type) {
	case nil:
		fmt.Fprintf(&n.b, "id:%s", id.Name)
	case *types.Const:
		if nt, ok := types.Unalias(o.Type()).(*types.Named); ok && nt.Obj().Name() == "Token" {
			fmt.Fprintf(&n.b, "tok:%s", o.Name())
			return
		}
		if o.Val().Kind() == constant.Int || o.Val().Kind() == constant.String || o.Val().Kind() == constant.Bool {
			fmt.Fprintf(&n.b, "const:%s", o.Val().ExactString())
			return
		}
		fmt.Fprintf(&n.b, "id:%s", o.Name())
	case *types.Var:
		if o.IsField() {
			fmt.Fprintf(&n.b, "f:%s", o.Name())
			return
		}
		if o.Parent() == nil || o.Parent() == o.Pkg().Scope() {
			fmt.Fprintf(&n.b, "g:%s", o.Name())
			return
		}
		k, ok := n.locals[o]
		if !ok {
			k = len(n.locals) + 1
			n.locals[o] = k
		}
		fmt.Fprintf(&n.b, "$%d", k)
	case *types.PkgName:
		fmt.Fprintf(&n.b, "pkg:%s", o.Imported().Name())
	case *types.Label:
		k, ok := n.locals[o]
		if !ok {
			k = len(n.locals) + 1
			n.locals[o] = k
		}
		fmt.Fprintf(&n.b, "L%d", k)
	default:
		fmt.Fprintf(&n.b, "id:%s", obj.Name())
	}
}

func (n *normalizer) node(v reflect.Value) {
	if !v.IsValid() {
		n.b.WriteString("nil")
		return
	}
	switch v.Kind() {
	case reflect.Interface:
		if v.IsNil() {
			n.b.WriteString("nil")
			return
		}
		n.node(v.Elem())
	case reflect.Ptr:
		if v.IsNil() {
			n.b.WriteString("nil")
			return
		}
		if e, ok := v.Interface().(ast.Expr); ok {
			if _, isIdent := e.(*ast.Ident); !isIdent {
				if tv, ok := n.info.Types[e]; ok && tv.Value != nil && !tv.IsType() {
					isTok := false
					if nt, ok := types.Unalias(tv.Type).(*types.Named); ok && nt.Obj().Name() == "Token" {
						isTok = true
					}
					if _, isSel := e.(*ast.SelectorExpr); !isTok && !isSel {
						switch tv.Value.Kind() {
						case constant.Int, constant.Bool:
							fmt.Fprintf(&n.b, "const:%s", tv.Value.ExactString())
							return
						}
					}
				}
			}
			// a conversion to the operand's own type changes nothing
			if call, ok := e.(*ast.CallExpr); ok && len(call.Args) == 1 {
				if tv, ok := n.info.Types[call.Fun]; ok && tv.IsType() {
					if at := n.info.TypeOf(call.Args[0]); at != nil && types.Identical(at, tv.Type) {
						n.node(reflect.ValueOf(call.Args[0]))
						return
					}
				}
			}
		}
		switch x := v.Interface().(type) {
		case *ast.Ident:
			n.ident(x)
			return
		case *ast.BasicLit:
			if tv, ok := n.info.Types[x]; ok && tv.Value != nil && (x.Kind == token.CHAR || x.Kind == token.INT) {
				fmt.Fprintf(&n.b, "const:%s", tv.Value.ExactString())
				return
			}
			fmt.Fprintf(&n.b, "lit:%s", x.Value)
			return
		case *ast.CommentGroup, *ast.Comment, *ast.Object, *ast.Scope:
			return
		case *ast.ParenExpr:
			n.node(reflect.ValueOf(x.X))
			return
		case *ast.SelectorExpr:
			// constant selected from a package: fold like an identifier
			if c, ok := n.info.Uses[x.Sel].(*types.Const); ok {
				if _, isPkg := n.info.Uses[identOf(x.X)].(*types.PkgName); isPkg {
					_ = c
					n.ident(x.Sel)
					return
				}
			}
		}
		n.b.WriteString(v.Elem().Type().Name())
		n.b.WriteString("{")
		n.node(v.Elem())
		n.b.WriteString("}")
	case reflect.Struct:
		t := v.Type()
		for i := 0; i < v.NumField(); i++ {
			f := t.Field(i)
			if f.Type == posType || f.Name == "Obj" || f.Name == "Doc" || f.Name == "Comment" {
				continue
			}
			fmt.Fprintf(&n.b, "%s=", f.Name)
			n.node(v.Field(i))
			n.b.WriteString(";")
		}
	case reflect.Slice:
		n.b.WriteString("[")
		for i := 0; i < v.Len(); i++ {
			n.node(v.Index(i))
			n.b.WriteString(",")
		}
		n.b.WriteString("]")
	case reflect.String:
		fmt.Fprintf(&n.b, "%q", v.String())
	case reflect.Bool:
		fmt.Fprintf(&n.b, "%v", v.Bool())
	case reflect.Int, reflect.Int64, reflect.Int32:
		if v.Type().Name() == "Token" {
			fmt.Fprintf(&n.b, "%s", token.Token(v.Int()).String())
		} else {
			fmt.Fprintf(&n.b, "%d", v.Int())
		}
	default:
		fmt.Fprintf(&n.b, "?%s", v.Kind())
	}
}

func identOf(e ast.Expr) *ast.Ident {
	id, _ := ast.Unparen(e).(*ast.Ident)
	if id == nil {
		return &ast.Ident{}
	}
	return id
}
