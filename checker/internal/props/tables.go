package props

import (
	"go/ast"
	"go/constant"
	"go/token"
	"go/types"
	"sort"

	"golang.org/x/tools/go/packages"
)

// K2: constant tables read off the type-checked syntax tree.

// tokenTable reads `var tokens = [...]string{K: "spelling", …}` of a token package:
// constant object -> spelling, plus the constants in declaration order.
type tokenTable struct {
	Spelling map[*types.Const]string
	ByValue  map[int64]*types.Const
	Consts   []*types.Const // every constant of the Token type, in value order
	Pos      token.Pos
}

func readTokenTable(pk *packages.Package, varName, typeName string) *tokenTable {
	tt := &tokenTable{Spelling: map[*types.Const]string{}, ByValue: map[int64]*types.Const{}}
	info := pk.TypesInfo
	for _, f := range pk.Syntax {
		for _, d := range f.Decls {
			gd, ok := d.(*ast.GenDecl)
			if !ok || gd.Tok != token.VAR {
				continue
			}
			for _, sp := range gd.Specs {
				vs := sp.(*ast.ValueSpec)
				for i, nm := range vs.Names {
					if nm.Name != varName || i >= len(vs.Values) {
						continue
					}
					cl, ok := vs.Values[i].(*ast.CompositeLit)
					if !ok {
						continue
					}
					tt.Pos = cl.Pos()
					for _, el := range cl.Elts {
						kv, ok := el.(*ast.KeyValueExpr)
						if !ok {
							continue
						}
						var kc *types.Const
						switch k := kv.Key.(type) {
						case *ast.Ident:
							kc, _ = info.Uses[k].(*types.Const)
						case *ast.SelectorExpr:
							kc, _ = info.Uses[k.Sel].(*types.Const)
						}
						if tv := info.Types[kv.Value]; kc != nil && tv.Value != nil && tv.Value.Kind() == constant.String {
							tt.Spelling[kc] = constant.StringVal(tv.Value)
						}
					}
				}
			}
		}
	}
	sc := pk.Types.Scope()
	for _, name := range sc.Names() {
		if c, ok := sc.Lookup(name).(*types.Const); ok {
			if n, ok := types.Unalias(c.Type()).(*types.Named); ok && n.Obj().Name() == typeName && n.Obj().Pkg() == pk.Types {
				tt.Consts = append(tt.Consts, c)
				if v, ok := constant.Int64Val(c.Val()); ok {
					if _, dup := tt.ByValue[v]; !dup || ast.IsExported(name) {
						tt.ByValue[v] = c
					}
				}
			}
		}
	}
	sort.Slice(tt.Consts, func(i, j int) bool {
		a, _ := constant.Int64Val(tt.Consts[i].Val())
		b, _ := constant.Int64Val(tt.Consts[j].Val())
		if a != b {
			return a < b
		}
		return tt.Consts[i].Name() < tt.Consts[j].Name()
	})
	return tt
}

// constOf resolves an expression to a constant object (ident or pkg.Sel).
func constOf(info *types.Info, e ast.Expr) *types.Const {
	switch x := ast.Unparen(e).(type) {
	case *ast.Ident:
		c, _ := info.Uses[x].(*types.Const)
		return c
	case *ast.SelectorExpr:
		c, _ := info.Uses[x.Sel].(*types.Const)
		return c
	}
	return nil
}
