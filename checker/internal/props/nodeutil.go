package props

import (
	"go/ast"
	"go/types"
	"sort"

	"golang.org/x/tools/go/packages"
)

// nodeUniverse lists every type name of pkg's scope (aliases resolved) whose
// pointer (or itself) implements iface, sorted by name.
type nodeType struct {
	Name  string       // name in the package scope
	Named *types.Named // resolved through aliases
	Obj   types.Object
}

func implementers(pk *packages.Package, iface *types.Interface) []nodeType {
	var out []nodeType
	sc := pk.Types.Scope()
	for _, name := range sc.Names() {
		tn, ok := sc.Lookup(name).(*types.TypeName)
		if !ok {
			continue
		}
		n, ok := types.Unalias(tn.Type()).(*types.Named)
		if !ok {
			continue
		}
		if _, isIface := n.Underlying().(*types.Interface); isIface {
			continue
		}
		if types.Implements(types.NewPointer(n), iface) || types.Implements(n, iface) {
			out = append(out, nodeType{Name: name, Named: n, Obj: tn})
		}
	}
	sort.Slice(out, func(i, j int) bool { return out[i].Name < out[j].Name })
	return out
}

func ifaceOf(t types.Type) *types.Interface {
	if t == nil {
		return nil
	}
	i, _ := types.Unalias(t).Underlying().(*types.Interface)
	return i
}

// nodeKind classifies a field type with respect to the Node interface:
// "node" (pointer to implementing struct, or interface extending Node),
// "list" (slice/array/map of node, any depth), "" otherwise.
func nodeKind(t types.Type, node *types.Interface) string {
	t = types.Unalias(t)
	switch u := t.(type) {
	case *types.Slice:
		if nodeKind(u.Elem(), node) != "" {
			return "list"
		}
		return ""
	case *types.Array:
		if nodeKind(u.Elem(), node) != "" {
			return "list"
		}
		return ""
	case *types.Map:
		if nodeKind(u.Elem(), node) != "" {
			return "list"
		}
		return ""
	}
	if i, ok := t.Underlying().(*types.Interface); ok {
		if i.NumMethods() > 0 && types.Implements(t, node) {
			return "node"
		}
		return ""
	}
	if types.Implements(t, node) {
		return "node"
	}
	return ""
}

func structOf(t types.Type) *types.Struct {
	t = types.Unalias(t)
	if p, ok := t.(*types.Pointer); ok {
		t = types.Unalias(p.Elem())
	}
	s, _ := t.Underlying().(*types.Struct)
	return s
}

func namedOf(t types.Type) *types.Named {
	t = types.Unalias(t)
	if p, ok := t.(*types.Pointer); ok {
		t = types.Unalias(p.Elem())
	}
	n, _ := t.(*types.Named)
	return n
}

func isEmptyInterface(t types.Type) bool {
	i, ok := types.Unalias(t).Underlying().(*types.Interface)
	return ok && i.NumMethods() == 0 && i.NumEmbeddeds() == 0
}

// typeSwitchOf finds the first type switch in a function body whose subject is the named parameter.
func typeSwitchOn(body *ast.BlockStmt, info *types.Info, param types.Object) *ast.TypeSwitchStmt {
	var found *ast.TypeSwitchStmt
	ast.Inspect(body, func(n ast.Node) bool {
		if found != nil {
			return false
		}
		ts, ok := n.(*ast.TypeSwitchStmt)
		if !ok {
			return true
		}
		if subj := typeSwitchSubject(ts); subj != nil {
			if id, ok := ast.Unparen(subj).(*ast.Ident); ok && info.Uses[id] == param {
				found = ts
				return false
			}
		}
		return true
	})
	return found
}

func typeSwitchSubject(ts *ast.TypeSwitchStmt) ast.Expr {
	var x ast.Expr
	switch a := ts.Assign.(type) {
	case *ast.AssignStmt:
		if len(a.Rhs) == 1 {
			x = a.Rhs[0]
		}
	case *ast.ExprStmt:
		x = a.X
	}
	if ta, ok := ast.Unparen(x).(*ast.TypeAssertExpr); ok {
		return ta.X
	}
	return nil
}

// paramObj returns the object of the i-th parameter of a declaration.
func paramObj(fd *ast.FuncDecl, info *types.Info, i int) types.Object {
	k := 0
	for _, f := range fd.Type.Params.List {
		for _, nm := range f.Names {
			if k == i {
				return info.Defs[nm]
			}
			k++
		}
	}
	return nil
}
