package props

import (
	"go/token"
	"go/types"
	"sort"
	"strings"

	"golang.org/x/tools/go/callgraph"
	"golang.org/x/tools/go/callgraph/cha"
	"golang.org/x/tools/go/callgraph/vta"
	"golang.org/x/tools/go/ssa"
	"golang.org/x/tools/go/ssa/ssautil"

	"verif/checker/internal/core"
)

// K6: call-graph census. SSA for the whole loaded closure, CHA call graph, optionally refined by VTA.

type cgraph struct {
	c     *core.Check
	prog  *ssa.Program
	graph *callgraph.Graph
	pkgs  map[string]*ssa.Package
}

func buildCG(c *core.Check, p *core.Prog, refine bool) *cgraph {
	prog, _ := ssautil.AllPackages(p.Root, ssa.InstantiateGenerics)
	prog.Build()
	g := &cgraph{c: c, prog: prog, pkgs: map[string]*ssa.Package{}}
	for _, sp := range prog.AllPackages() {
		g.pkgs[sp.Pkg.Path()] = sp
	}
	g.graph = cha.CallGraph(prog)
	kind := "cha"
	if refine {
		g.graph = vta.CallGraph(ssautil.AllFunctions(prog), g.graph)
		kind = "cha+vta"
	}
	c.Analysed("callgraph", kind)
	c.Analysed("callgraph_nodes", len(g.graph.Nodes))
	c.Trust("golang.org/x/tools@v0.29.0 go/ssa, callgraph/cha, callgraph/vta")
	return g
}

// fn finds a function or method ("F" or "T.M") of a package.
func (g *cgraph) fn(pkgPath, name string) *ssa.Function {
	if strings.HasPrefix(pkgPath, "./") {
		pkgPath = core.Mod + pkgPath[1:]
	}
	sp := g.pkgs[pkgPath]
	if sp == nil {
		g.c.Bad("anchor", pkgPath+"."+name, token.NoPos, "package not in the SSA program")
		return nil
	}
	if i := strings.Index(name, "."); i >= 0 {
		tn, mn := name[:i], name[i+1:]
		if t, ok := sp.Members[tn].(*ssa.Type); ok {
			for _, typ := range []types.Type{t.Type(), types.NewPointer(t.Type())} {
				ms := g.prog.MethodSets.MethodSet(typ)
				for j := 0; j < ms.Len(); j++ {
					if ms.At(j).Obj().Name() == mn {
						if f := g.prog.MethodValue(ms.At(j)); f != nil {
							return f
						}
					}
				}
			}
		}
	} else if f, ok := sp.Members[name].(*ssa.Function); ok {
		return f
	}
	g.c.Bad("anchor", pkgPath+"."+name, token.NoPos, "anchor function not found in the SSA program")
	return nil
}

// inModule reports whether a function belongs to the analysed module (optionally plus extra package prefixes).
func inModule(f *ssa.Function, extra ...string) bool {
	pk := f.Package()
	if pk == nil {
		if f.Parent() != nil {
			return inModule(f.Parent(), extra...)
		}
		if o := f.Origin(); o != nil && o != f {
			return inModule(o, extra...)
		}
		return false
	}
	p := pk.Pkg.Path()
	if p == core.Mod || strings.HasPrefix(p, core.Mod+"/") {
		return true
	}
	for _, e := range extra {
		if p == e || strings.HasPrefix(p, e+"/") {
			return true
		}
	}
	return false
}

// reachable computes the functions reachable from roots; traversal continues only through functions accepted by keep.
// pred records one predecessor per function so a witness path can be printed.
func (g *cgraph) reachable(roots []*ssa.Function, keep func(*ssa.Function) bool) (map[*ssa.Function]bool, map[*ssa.Function]*ssa.Function) {
	seen := map[*ssa.Function]bool{}
	pred := map[*ssa.Function]*ssa.Function{}
	var work []*ssa.Function
	for _, r := range roots {
		if r != nil && !seen[r] {
			seen[r] = true
			work = append(work, r)
		}
	}
	for len(work) > 0 {
		f := work[0]
		work = work[1:]
		n := g.graph.Nodes[f]
		if n == nil {
			continue
		}
		for _, e := range n.Out {
			callee := e.Callee.Func
			if callee == nil || seen[callee] {
				continue
			}
			if !keep(callee) {
				continue
			}
			seen[callee] = true
			pred[callee] = f
			work = append(work, callee)
		}
		// anonymous functions defined inside f are reachable when f is (closures may be called later)
		for _, anon := range f.AnonFuncs {
			if !seen[anon] {
				seen[anon] = true
				pred[anon] = f
				work = append(work, anon)
			}
		}
	}
	return seen, pred
}

func witness(pred map[*ssa.Function]*ssa.Function, f *ssa.Function) string {
	var parts []string
	for x := f; x != nil && len(parts) < 12; x = pred[x] {
		parts = append([]string{shortFn(x)}, parts...)
	}
	return strings.Join(parts, " → ")
}

func shortFn(f *ssa.Function) string {
	s := f.String()
	s = strings.ReplaceAll(s, core.Mod+"/", "")
	return s
}

// censusSite is one instruction of interest.
type censusSite struct {
	Fn   *ssa.Function
	Kind string // panic | log.Panic | log.Fatal | os.Exit | go | recover | typeassert
	Pos  token.Pos
	Text string
}

// census lists the sites of the given kinds inside the functions of set.
func (g *cgraph) census(set map[*ssa.Function]bool, kinds map[string]bool) []censusSite {
	var out []censusSite
	for f := range set {
		for _, b := range f.Blocks {
			for _, ins := range b.Instrs {
				switch x := ins.(type) {
				case *ssa.Panic:
					if kinds["panic"] {
						out = append(out, censusSite{f, "panic", x.Pos(), x.X.String()})
					}
				case *ssa.Go:
					if kinds["go"] {
						out = append(out, censusSite{f, "go", x.Pos(), x.Call.String()})
					}
				case *ssa.TypeAssert:
					if kinds["typeassert"] && !x.CommaOk {
						out = append(out, censusSite{f, "typeassert", x.Pos(), x.String()})
					}
				case ssa.CallInstruction:
					com := x.Common()
					if b, ok := com.Value.(*ssa.Builtin); ok && b.Name() == "recover" && kinds["recover"] {
						out = append(out, censusSite{f, "recover", x.Pos(), "recover()"})
					}
					if callee := com.StaticCallee(); callee != nil && callee.Pkg != nil {
						p, n := callee.Pkg.Pkg.Path(), callee.Name()
						switch {
						case isLogPkg(p) && strings.HasPrefix(n, "Panic") && kinds["log.Panic"]:
							out = append(out, censusSite{f, "log.Panic", x.Pos(), "log." + n})
						case isLogPkg(p) && strings.HasPrefix(n, "Fatal") && kinds["log.Fatal"]:
							out = append(out, censusSite{f, "log.Fatal", x.Pos(), "log." + n})
						case p == "os" && n == "Exit" && kinds["os.Exit"]:
							out = append(out, censusSite{f, "os.Exit", x.Pos(), "os.Exit"})
						}
					}
				}
			}
		}
	}
	sort.Slice(out, func(i, j int) bool {
		if out[i].Pos != out[j].Pos {
			return out[i].Pos < out[j].Pos
		}
		return out[i].Kind < out[j].Kind
	})
	return out
}

// isLogPkg: the standard log package or a drop-in replacement (the repository uses github.com/qiniu/x/log).
func isLogPkg(path string) bool { return path == "log" || strings.HasSuffix(path, "/log") }

// isPkgInit: a package initialiser (init, init#1 …), not a method that happens to be called init.
func isPkgInit(f *ssa.Function) bool {
	if f.Signature != nil && f.Signature.Recv() != nil {
		return false
	}
	return f.Name() == "init" || strings.HasPrefix(f.Name(), "init#")
}
