package props

import (
	"go/ast"
	"go/constant"
	"go/token"
	"go/types"
	"sort"
	"strings"

	"golang.org/x/tools/go/packages"

	"verif/checker/internal/core"
	"verif/checker/internal/flow"
)

func init() {
	e := "cl/expr.go"
	register(&Prop{
		ID:        "C01",
		Title:     "A valid Go program means the same thing when compiled as XGo",
		Technique: "type-switch exhaustiveness of the compiler's dispatchers (cl.compileStmt, compileExpr, compileExprLHS, toType) against the node kinds go/ast shares with xgo/ast, token-numbering agreement at every go/token←xgo/token conversion site of cl, and operand-order tables for the lowering routines of binary/index/slice/if/for nodes",
		Explanation: "Decides for every Go program the table-shaped necessary conditions of 'Go code keeps its meaning': " +
			"(1) every statement/expression/type node kind that exists in both go/ast and xgo/ast (the Go subset of the tree; derived, not listed) has a case in the dispatcher that lowers it — cl.compileStmt for statements, cl.compileExpr for expressions, cl.toType for type expressions, cl.compileExprLHS for the assignable forms (identifier, index, selector, dereference, and parentheses around them) — or is consumed by a parent handler through a type assertion/switch that the rule locates; a missing case is `compile… failed: unknown` for a valid Go program; " +
			"(2) cl lowers operators and literal kinds by converting the xgo token to a go/token value (gotoken.Token(v.Op)); every constant name of go/token that xgo/token shares has the same numeric value, so the conversion is the identity on Go's operators; every conversion site is listed; " +
			"(3a) operand coverage: an optional operand of a node (v.Key, v.Init, v.Else, v.Tag, … — every syntax-node-typed field) that a lowering routine hands to another lowering routine on some path is, on every path to a normal (non-error) exit of that routine, either mentioned or known to be nil through a nil test on that path (path-sensitive over go/cfg; reviewed exceptions in opCoverReviewed) — a path that may carry the operand and never lowers it drops that part of the program silently (`for k = range m` compiled as `for range m`); " +
			"(3b) field coverage: every syntax-bearing field (child node, Op/Tok/Dir token, syntax flag) that the parser sets on a node kind of the Go subset is read by the code that lowers that kind — the dispatcher's case or a routine that receives the node, up to three calls deep (reviewed exceptions: c01FieldDerived) — a field nobody reads is a part of the program the compiler cannot be taking into account; " +
			"(3) the routines that lower a node with several operands compile the operands in Go's evaluation order (X before Y, X before Index, X Low High Max, Init Cond Body Else, …) — swapping two of them swaps the operands of a non-commutative operator or the order of side effects.",
		NotCovered: "everything a handler does beyond dispatch and operand order (the lowering itself happens in gogen), scoping/type inference differences, and XGo's documented deviations (println, string interpolation, auto-capitalised members), which the property excludes.",
		Run:        runC01,
		Controls: []Control{
			{Name: "lhs-paren-case-removed", File: e, Old: "\tcase *ast.ParenExpr:\n\t\tcompileExprLHS(ctx, v.X)\n", New: "", Expect: "handler/compileExprLHS:ParenExpr"},
			{Name: "expr-typeassert-case-removed", File: e, Old: "\tcase *ast.TypeAssertExpr:\n\t\tcompileTypeAssertExpr(ctx, v, twoValue(inFlags))\n", New: "", Expect: "handler/compileExpr:TypeAssertExpr"},
			{Name: "stmt-select-case-removed", File: "cl/stmt.go", Old: "\tcase *ast.SelectStmt:\n\t\tcompileSelectStmt(ctx, v)\n", New: "", Expect: "handler/compileStmt:SelectStmt"},
			{Name: "totype-chan-case-removed", File: "cl/func_type_and_var.go", Old: "\tcase *ast.ChanType:\n\t\treturn toChanType(ctx, v)\n", New: "", Expect: "handler/toType:ChanType"},
			{Name: "binary-operands-swapped", File: e, Old: "\tcompileExpr(ctx, v.X)\n\tcompileExpr(ctx, v.Y)\n\tctx.cb.BinaryOp(gotoken.Token(v.Op), v)", New: "\tcompileExpr(ctx, v.Y)\n\tcompileExpr(ctx, v.X)\n\tctx.cb.BinaryOp(gotoken.Token(v.Op), v)", Expect: "operand-order/compileBinaryExpr"},
			{Name: "slice-high-low-swapped", File: e, Old: "\tcompileExprOrNone(ctx, v.Low)\n\tcompileExprOrNone(ctx, v.High)\n", New: "\tcompileExprOrNone(ctx, v.High)\n\tcompileExprOrNone(ctx, v.Low)\n", Expect: "operand-order/compileSliceExpr"},
			{Name: "comma-ok-leaks-to-operand", File: e, Old: "\tcompileExpr(ctx, v.X, xFlags...)\n", New: "\tcompileExpr(ctx, v.X, inFlags...)\n", Expect: "two-value-scope/compileIndexExpr"},
			{Name: "types-resolved-package-first", File: "cl/func_type_and_var.go", Old: "\tat, o := ctx.cb.Scope().LookupParent(name, token.NoPos)\n\tif o != nil && at != types.Universe {\n\t\tif debugLookup {\n\t\t\tlog.Println(\"==> LookupParent\", name, \"=>\", o)\n\t\t}\n\t\treturn o, nil\n\t}\n\tif ctx.loadSymbol(name) {", New: "\tif ctx.loadSymbol(name) {\n\t\tif v := ctx.pkg.Types.Scope().Lookup(name); v != nil {\n\t\t\treturn v, nil\n\t\t}\n\t}\n\tat, o := ctx.cb.Scope().LookupParent(name, token.NoPos)\n\tif o != nil && at != types.Universe {\n\t\tif debugLookup {\n\t\t\tlog.Println(\"==> LookupParent\", name, \"=>\", o)\n\t\t}\n\t\treturn o, nil\n\t}\n\tif ctx.loadSymbol(name) {", Expect: "resolution-order/lookupType"},
			{Name: "dup-case-bools", File: "cl/stmt.go", Old: "\tswitch val.Kind() {\n\tcase constant.Int:\n\t\tif x, ok := constant.Int64Val(val); ok {", New: "\tswitch val.Kind() {\n\tcase constant.Bool:\n\t\treturn constant.BoolVal(val)\n\tcase constant.Int:\n\t\tif x, ok := constant.Int64Val(val); ok {", Expect: "sibling/goVal"},
			{Name: "range-key-only-dropped", File: "cl/stmt.go", Old: "\t\t} else {\n\t\t\tcompileExprLHS(ctx, v.Key)\n\t\t\tn++\n\t\t}\n", New: "\t\t} else if v.Value != nil {\n\t\t\tcompileExprLHS(ctx, v.Key)\n\t\t\tn++\n\t\t}\n", Expect: "operand-coverage/compileRangeStmt.Key"},
			{Name: "if-else-only-with-init", File: "cl/stmt.go", Old: "\tif e := v.Else; e != nil {\n\t\tcb.Else(e)", New: "\tif e := v.Else; e != nil && v.Init != nil {\n\t\tcb.Else(e)", Expect: "operand-coverage/compileIfStmt.Else"},
			{Name: "chan-dir-ignored", File: "cl/func_type_and_var.go", Old: "types.NewChan(typesChanDirs[v.Dir], toType(ctx, v.Value))", New: "types.NewChan(types.SendRecv, toType(ctx, v.Value))", Expect: "lower-field/ChanType.Dir"},
			{Name: "gopexec-call-loses-ellipsis", File: e, Old: "v = &ast.CallExpr{Fun: fn, Args: args, Ellipsis: v.Ellipsis, NoParenEnd: v.NoParenEnd}", New: "v = &ast.CallExpr{Fun: fn, Args: args, NoParenEnd: v.NoParenEnd}", Expect: "rebuild-keeps-fields/compileCallExpr:CallExpr"},
			{Name: "token-renumbered", File: "token/token.go", Old: "\tADD // +\n\tSUB // -\n", New: "\tSUB // -\n\tADD // +\n", Expect: "token-value/ADD"},
		},
	})
}

// c01ParentConsumed: Go node kinds that never reach the dispatcher because a parent handler takes them apart.
// The rule verifies the parent mentions the type in a type assertion or a type-switch case.
var c01ParentConsumed = map[string]struct{ parents, why string }{
	"compileStmt:CaseClause":   {"compileSwitchStmt,compileTypeSwitchStmt", "clauses of switch statements are lowered by the switch handlers"},
	"compileStmt:CommClause":   {"compileSelectStmt", "clauses of select are lowered by compileSelectStmt"},
	"compileExpr:KeyValueExpr": {"compileCompositeLit,compileStructLitInKeyVal,compileCompositeLitElts,compileMapLitEx,compileStructLit", "key: value pairs are taken apart by the composite-literal handlers"},
	"compileExpr:Ellipsis":     {"toType,compileCompositeLit,compileCompositeLitEx,toArrayType", "`...` occurs only as [...]T length and in parameter types, handled by the type lowering"},
}

// c01Excluded: Go node kinds outside the property's subset.
var c01Excluded = map[string]string{
	"compileStmt:BadStmt": "produced only for syntax errors (the property quantifies over well-typed programs)",
	"compileExpr:BadExpr": "produced only for syntax errors",
}

// c01LHS / c01Types: the Go forms of an assignment target and of a type expression (Go spec), by node kind.
var c01LHS = []string{"Ident", "IndexExpr", "SelectorExpr", "StarExpr", "ParenExpr"}
var c01Types = []string{"Ident", "ParenExpr", "SelectorExpr", "StarExpr", "ArrayType", "StructType", "FuncType", "InterfaceType", "MapType", "ChanType", "Ellipsis"}

// c01FieldOmitted / c01FieldDerived: fields of Go node kinds the compiler deliberately does not read (by field name /
// by Type.Field), reviewed.
var c01FieldOmitted = map[string]string{}
var c01FieldDerived = map[string]string{
	"EmptyStmt.Implicit":  "records whether the semicolon was written; an empty statement means nothing either way",
	"RangeStmt.NoRangeOp": "surface syntax only: `for k, v := range x` and `for k, v in x` (no `range` keyword) mean the same loop",
}

// c01RebuildReviewed: node literals of cl that rebuild a node from another and deliberately leave fields out.
var c01RebuildReviewed = map[string]string{}

// c01Order: the operand fields in Go's evaluation order, per lowering routine.
var c01Order = map[string][]string{
	"compileBinaryExpr":   {"X", "Y"},
	"compileIndexExpr":    {"X", "Index"},
	"compileIndexExprLHS": {"X", "Index"},
	"compileSliceExpr":    {"X", "Low", "High", "Max"},
	"compileIfStmt":       {"Init", "Cond", "Body"},
	"compileForStmt":      {"Init", "Cond", "Body"},
	"compileSwitchStmt":   {"Init", "Tag"},
}

func runC01(c *core.Check) {
	prog := c.Load("./cl", "./ast", "./token", "./parser", "go/ast", "go/token", "go/types")
	pk, apk, gapk, tpk, gtpk := prog.Pkg("./cl"), prog.Pkg("./ast"), prog.Pkg("go/ast"), prog.Pkg("./token"), prog.Pkg("go/token")
	if pk == nil || apk == nil || gapk == nil || tpk == nil || gtpk == nil {
		return
	}
	info := pk.TypesInfo
	c.Trust("the Go 1.23.5 standard library's go/ast and go/token as the definition of Go's node kinds and token numbering")

	caseSet := func(fn string, paramIdx int) (map[string]bool, *ast.FuncDecl) {
		fd := prog.FuncDecl("./cl", fn)
		if fd == nil {
			c.Bad("anchor", "cl."+fn, 0, "dispatcher not found")
			return nil, nil
		}
		ts := typeSwitchOn(fd.Body, info, paramObj(fd, info, paramIdx))
		if ts == nil {
			c.Undecided("handler", fn, fd.Pos(), "no type switch over the node parameter")
			return nil, fd
		}
		out := map[string]bool{}
		for _, s := range ts.Body.List {
			for _, e := range s.(*ast.CaseClause).List {
				if nt := namedOf(info.TypeOf(e)); nt != nil && nt.Obj().Pkg() == apk.Types {
					out[nt.Obj().Name()] = true
				}
			}
		}
		return out, fd
	}
	// Go subset of a category: implementers of the xgo interface whose name also implements the go/ast interface
	goSubset := func(cat string) []string {
		xi, gi := apk.Types.Scope().Lookup(cat), gapk.Types.Scope().Lookup(cat)
		if xi == nil || gi == nil {
			return nil
		}
		gnames := map[string]bool{}
		for _, nt := range implementers(gapk, ifaceOf(gi.Type())) {
			gnames[nt.Name] = true
		}
		var out []string
		for _, nt := range implementers(apk, ifaceOf(xi.Type())) {
			if gnames[nt.Name] {
				out = append(out, nt.Name)
			}
		}
		sort.Strings(out)
		return out
	}
	mentions := func(parents, typ string) (bool, string) {
		for _, pn := range strings.Split(parents, ",") {
			fd := prog.FuncDecl("./cl", pn)
			if fd == nil {
				continue
			}
			found := false
			ast.Inspect(fd.Body, func(n ast.Node) bool {
				var te ast.Expr
				switch x := n.(type) {
				case *ast.TypeAssertExpr:
					te = x.Type
				case *ast.CaseClause:
					for _, e := range x.List {
						if nt := namedOf(info.TypeOf(e)); nt != nil && nt.Obj().Name() == typ && nt.Obj().Pkg() == apk.Types {
							found = true
						}
					}
				}
				if te != nil {
					if nt := namedOf(info.TypeOf(te)); nt != nil && nt.Obj().Name() == typ && nt.Obj().Pkg() == apk.Types {
						found = true
					}
				}
				return true
			})
			if found {
				return true, pn
			}
		}
		return false, ""
	}
	check := func(fn string, paramIdx int, required []string) {
		have, fd := caseSet(fn, paramIdx)
		if have == nil {
			return
		}
		for _, name := range required {
			key := fn + ":" + name
			switch {
			case have[name]:
				c.Ok("handler", key, fd.Pos(), "")
			case c01Excluded[key] != "":
				c.Note("handler-excluded", key, fd.Pos(), c01Excluded[key])
			default:
				if pc, ok := c01ParentConsumed[key]; ok {
					if okp, where := mentions(pc.parents, name); okp {
						c.Ok("handler", key, fd.Pos(), "consumed by cl."+where+": "+pc.why)
						continue
					}
					c.Bad("handler", key, fd.Pos(), "*ast."+name+" has no case in cl."+fn+" and none of the parent handlers that should take it apart ("+pc.parents+") mentions it any more")
					continue
				}
				c.Bad("handler", key, fd.Pos(), "*ast."+name+" is a Go node kind (it exists in go/ast) but cl."+fn+" has no case for it: a valid Go program that contains this construct fails with `"+fn+" failed: unknown`")
			}
		}
	}
	stmts, exprs := goSubset("Stmt"), goSubset("Expr")
	c.Analysed("go_statement_kinds", len(stmts))
	c.Analysed("go_expression_kinds", len(exprs))
	if len(stmts) < 20 || len(exprs) < 22 {
		c.Bad("anchor", "go-subset", 0, core.Sprintf("only %d statement and %d expression kinds shared with go/ast were found", len(stmts), len(exprs)))
	}
	check("compileStmt", 1, stmts)
	check("compileExpr", 1, exprs)
	check("compileExprLHS", 1, c01LHS)
	check("toType", 1, c01Types)
	c.Floor("handler", 55)

	// ---------- (2) token numbering at conversion sites
	gtT := gtpk.Types.Scope().Lookup("Token").Type()
	xtT := tpk.Types.Scope().Lookup("Token").Type()
	nConv := 0
	for _, fd := range core.AllFuncDecls(pk) {
		if fd.Body == nil {
			continue
		}
		ast.Inspect(fd.Body, func(n ast.Node) bool {
			call, ok := n.(*ast.CallExpr)
			if !ok || len(call.Args) != 1 {
				return true
			}
			if tv := info.Types[call.Fun]; !tv.IsType() || !types.Identical(tv.Type, gtT) {
				return true
			}
			if at := info.TypeOf(call.Args[0]); at != nil && types.Identical(at, xtT) {
				nConv++
				c.Note("token-conversion-site", core.FuncName(fd)+":"+core.ExprStr(call.Args[0]), call.Pos(), "xgo token converted to go/token by value")
			}
			return true
		})
	}
	c.Analysed("token_conversion_sites", nConv)
	c.Decide(nConv >= 4, "token-value", "conversion-sites", 0, core.Sprintf("%d conversion sites", nConv), "fewer go/token←xgo/token conversions than confirmed by reading: the rule no longer sees how operators are lowered")
	gsc, xsc := gtpk.Types.Scope(), tpk.Types.Scope()
	for _, name := range gsc.Names() {
		gk, ok := gsc.Lookup(name).(*types.Const)
		if !ok || !types.Identical(gk.Type(), gtT) || !gk.Exported() {
			continue
		}
		xk, ok := xsc.Lookup(name).(*types.Const)
		if !ok {
			c.Bad("token-value", name, 0, "go/token."+name+" has no counterpart in xgo/token: the conversion gotoken.Token(tok) cannot produce it")
			continue
		}
		gv, _ := constant.Int64Val(gk.Val())
		xv, _ := constant.Int64Val(constant.ToInt(xk.Val()))
		c.Decide(gv == xv, "token-value", name, xk.Pos(), "", core.Sprintf("go/token.%s = %d but xgo/token.%s = %d: cl converts operator tokens by value, so every `%s` in a Go program is lowered as another operator", name, gv, name, xv, name))
	}
	c.Floor("token-value", 80)

	// ---------- (3) operand order
	var fns []string
	for fn := range c01Order {
		fns = append(fns, fn)
	}
	sort.Strings(fns)
	for _, fn := range fns {
		fd := prog.FuncDecl("./cl", fn)
		if fd == nil {
			c.Bad("anchor", "cl."+fn, 0, "lowering routine not found")
			continue
		}
		got := c01OperandOrder(pk, fd)
		want := c01Order[fn]
		// compare the relative order of the fields both mention
		idx := map[string]int{}
		for i, f := range got {
			if _, seen := idx[f]; !seen {
				idx[f] = i
			}
		}
		ok, missing := true, ""
		prev := -1
		for _, f := range want {
			i, seen := idx[f]
			if !seen {
				ok, missing = false, f
				break
			}
			if i < prev {
				ok = false
			}
			prev = i
		}
		detail := "operands are compiled in the order " + strings.Join(got, ", ") + "; Go evaluates " + strings.Join(want, ", ")
		if missing != "" {
			detail = "operand " + missing + " is no longer compiled by cl." + fn + " (seen: " + strings.Join(got, ", ") + ")"
		}
		c.Decide(ok, "operand-order", fn, fd.Pos(), strings.Join(want, " → "), "cl."+fn+": "+detail+" — the operands of a non-commutative operation (or the order of their side effects) are swapped")
	}
	c.Floor("operand-order", 7)

	// ---------- (3a) operand coverage: an optional operand lowered on one path is lowered or nil on every path
	nR, nO := opCoverRule(c, pk, "operand-coverage", "compile", "load", "to")
	c.Analysed("operand_coverage_routines", nR)
	c.Analysed("operand_coverage_operands", nO)
	c.Floor("operand-coverage", 55)

	// ---------- (3a') field coverage: every syntax-bearing field the parser sets on a Go node kind is read by the code
	// that lowers that kind (the dispatcher's case, or a routine that receives the node, three calls deep)
	if xpk := prog.Pkg("./parser"); xpk != nil {
		nodeI := ifaceOf(apk.Types.Scope().Lookup("Node").Type())
		for _, d := range []struct {
			fn  string
			idx int
		}{{"compileStmt", 1}, {"compileExpr", 1}, {"compileExprLHS", 1}, {"toType", 1}} {
			fd := prog.FuncDecl("./cl", d.fn)
			if fd == nil || nodeI == nil {
				continue
			}
			ts := typeSwitchOn(fd.Body, info, paramObj(fd, info, d.idx))
			if ts == nil {
				continue
			}
			for _, s := range ts.Body.List {
				cc := s.(*ast.CaseClause)
				if len(cc.List) != 1 || info.Implicits[cc] == nil {
					continue
				}
				nt := namedOf(info.TypeOf(cc.List[0]))
				if nt == nil || nt.Obj().Pkg() != apk.Types || gapk.Types.Scope().Lookup(nt.Obj().Name()) == nil {
					continue // XGo-only node kinds belong to C02–C05
				}
				checkFieldsRead(c, pk, xpk, nodeI, nt, cc, info.Implicits[cc], fieldReadRule{prefix: "lower", verb: "lowers", omitted: c01FieldOmitted, derived: c01FieldDerived, compareIsUse: true})
			}
		}
	}

	c.Floor("lower-field", 60)
	if nodeI := ifaceOf(apk.Types.Scope().Lookup("Node").Type()); nodeI != nil {
		c.Analysed("rebuilt_node_literals", rebuildRule(c, pk, nodeI, "rebuild-keeps-fields", c01RebuildReviewed))
		c.Floor("rebuild-keeps-fields", 2)
	}

	// ---------- (3b) name resolution: the scope chain is consulted before the package-level symbol loaders
	// (Go: the innermost declaration wins; a function-local type or variable shadows a package-level one)
	nRes := 0
	for _, fd := range core.AllFuncDecls(pk) {
		if fd.Body == nil {
			continue
		}
		const (
			bScoped flow.State = 1 << iota
			bLoadedFirst
		)
		calls := map[string]bool{}
		ast.Inspect(fd.Body, func(n ast.Node) bool {
			if call, ok := n.(*ast.CallExpr); ok {
				if sel, ok := call.Fun.(*ast.SelectorExpr); ok {
					calls[sel.Sel.Name] = true
				}
			}
			return true
		})
		if !calls["LookupParent"] || !calls["loadSymbol"] {
			continue
		}
		nRes++
		p := &flow.Problem{Body: fd.Body, Info: info}
		p.Node = func(n ast.Node, st flow.State, record bool) flow.State {
			for _, call := range flow.Calls(n) {
				sel, ok := call.Fun.(*ast.SelectorExpr)
				if !ok {
					continue
				}
				switch sel.Sel.Name {
				case "LookupParent":
					st |= bScoped
				case "loadSymbol":
					if st&bScoped == 0 {
						st |= bLoadedFirst
					}
				}
			}
			return st
		}
		res := flow.Solve(p)
		bad := token.NoPos
		for _, ex := range res.Exits {
			if ex.State&bLoadedFirst != 0 {
				bad = ex.Pos
			}
		}
		c.Decide(!bad.IsValid() && len(res.Exits) > 0, "resolution-order", core.FuncName(fd), fd.Pos(), "the scope chain (LookupParent) is consulted before the package-level loaders (loadSymbol)",
			"cl."+core.FuncName(fd)+" asks the package-level symbol loaders before walking the scope chain: a function-local declaration no longer shadows a package-level one of the same name (Go resolves to the innermost scope)")
	}
	c.Floor("resolution-order", 2)

	// ---------- (3b') initialisation order: Go initialises package-level variables in declaration order (subject to
	// dependencies); the generated file declares them in the order their loaders run, so no function body may be
	// compiled — and thereby pull in the variables it mentions — while declarations are still being loaded
	if lf := prog.FuncDecl("./cl", "loadFunc"); lf != nil {
		par := parentMap(lf)
		immediate := token.NoPos
		n := 0
		ast.Inspect(lf.Body, func(m ast.Node) bool {
			call, ok := m.(*ast.CallExpr)
			if !ok {
				return true
			}
			if fn, ok := calleeObj(info, call).(*types.Func); !ok || fn.Name() != "loadFuncBody" {
				return true
			}
			n++
			deferred := false
			for p := par[call]; p != nil; p = par[p] {
				if _, ok := p.(*ast.FuncLit); ok {
					deferred = true
				}
			}
			if !deferred {
				immediate = call.Pos()
			}
			return true
		})
		c.Decide(n > 0 && !immediate.IsValid(), "init-order", "loadFunc", immediate, "function bodies are compiled after all declarations were loaded (deferred through ctx.inits)",
			"cl.loadFunc compiles the body of a plain function immediately, while the declarations of the file are still being loaded in source order: a package-level variable mentioned in that body is loaded — and emitted — at that moment, ahead of variables declared before it, and Go initialises the generated declarations in their new order")
	} else {
		c.Bad("anchor", "cl.loadFunc", 0, "not found")
	}

	// ---------- (3c) duplicate switch cases are rejected for exactly the constants Go rejects: goVal is go/types' goVal
	if gtypes := prog.Pkg("go/types"); gtypes != nil {
		xf, gf := core.FindFuncDecl(pk, "goVal"), core.FindFuncDecl(gtypes, "goVal")
		if xf == nil || gf == nil {
			c.Bad("anchor", "goVal", 0, "cl.goVal or go/types.goVal not found")
		} else {
			c.Decide(normFunc(pk, xf) == normFunc(gtypes, gf), "sibling", "goVal", xf.Pos(), "alpha-equivalent to go/types.goVal",
				"cl.goVal (the key used to detect duplicate switch cases) is no longer the routine go/types uses: XGo now rejects switches Go accepts (or accepts duplicates Go rejects) — gc only checks duplicates for integer, floating-point and string constants")
		}
	} else {
		c.Bad("anchor", "go/types", 0, "package not loaded")
	}

	// ---------- (4) the comma-ok request applies to one node only
	// `v, ok := x[i]` / `x.(T)` / `<-ch` hand a two-value flag to the routine that lowers that node; a routine that
	// consumes the flag itself must not pass the same flags on to an operand (the operand would be asked for two values too)
	nTwo := 0
	for _, fd := range core.AllFuncDecls(pk) {
		if fd.Body == nil || fd.Type.Params == nil {
			continue
		}
		var flags types.Object
		for _, f := range fd.Type.Params.List {
			if _, ok := f.Type.(*ast.Ellipsis); ok && len(f.Names) == 1 && f.Names[0].Name == "inFlags" {
				flags = info.Defs[f.Names[0]]
			}
		}
		if flags == nil {
			continue
		}
		consumes := false
		var forwards []*ast.CallExpr
		ast.Inspect(fd.Body, func(n ast.Node) bool {
			call, ok := n.(*ast.CallExpr)
			if !ok {
				return true
			}
			if fn, ok := calleeObj(info, call).(*types.Func); ok {
				if fn.Name() == "twoValue" && len(call.Args) == 1 && identObj(info, call.Args[0]) == flags {
					consumes = true
				}
				if strings.HasPrefix(fn.Name(), "compileExpr") && call.Ellipsis.IsValid() && len(call.Args) >= 3 && identObj(info, call.Args[len(call.Args)-1]) == flags {
					forwards = append(forwards, call)
				}
			}
			return true
		})
		if !consumes {
			continue
		}
		nTwo++
		name := core.FuncName(fd)
		if len(forwards) == 0 {
			c.Ok("two-value-scope", name, fd.Pos(), "consumes the comma-ok request and does not forward it")
			continue
		}
		if why, ok := c01TwoValueForward[name]; ok {
			c.Note("two-value-scope-reviewed", name, forwards[0].Pos(), why)
			continue
		}
		c.Bad("two-value-scope", name, forwards[0].Pos(), "cl."+name+" uses twoValue(inFlags) for its own node and also passes inFlags on to the operand "+core.ExprStr(forwards[0].Args[1])+": in `v, ok := a[i][j]` the inner index is asked for two values and the statement fails to compile (`type (T, bool) does not support indexing`)")
	}
	c.Analysed("routines_consuming_two_value", nTwo)
}

// c01TwoValueForward: routines that consume the comma-ok flag and still forward the flags, reviewed.
var c01TwoValueForward = map[string]string{
	"compileExpr":          "the dispatcher: it hands the flags to exactly one handler per node kind (ParenExpr forwards them to its operand by design: `v, ok := (m[k])`)",
	"compileIndexListExpr": "generic instantiation f[T1, T2]: a comma-ok request cannot reach it in a well-typed program (an instantiated function is not a map index); X is a function name, for which the flag is ignored",
}

// c01OperandOrder: the fields of the node parameter in the order they are first handed to a compile* routine.
func c01OperandOrder(pk *packages.Package, fd *ast.FuncDecl) []string {
	info := pk.TypesInfo
	var node types.Object
	for i := 0; i < 4; i++ {
		if p := paramObj(fd, info, i); p != nil {
			if pt, ok := p.Type().(*types.Pointer); ok {
				if nt := namedOf(pt.Elem()); nt != nil && nt.Obj().Pkg() != nil && strings.HasSuffix(nt.Obj().Pkg().Path(), "/ast") {
					node = p
				}
			}
		}
	}
	if node == nil {
		return nil
	}
	var out []string
	seen := map[string]bool{}
	ast.Inspect(fd.Body, func(n ast.Node) bool {
		call, ok := n.(*ast.CallExpr)
		if !ok {
			return true
		}
		fn, ok := calleeObj(info, call).(*types.Func)
		if !ok || fn.Pkg() != pk.Types || !strings.HasPrefix(fn.Name(), "compile") {
			return true
		}
		for _, a := range call.Args {
			ast.Inspect(a, func(m ast.Node) bool {
				if sel, ok := m.(*ast.SelectorExpr); ok && identObj(info, sel.X) == node {
					if s := info.Selections[sel]; s != nil && s.Kind() == types.FieldVal && !seen[sel.Sel.Name] {
						seen[sel.Sel.Name] = true
						out = append(out, sel.Sel.Name)
					}
					return false
				}
				return true
			})
		}
		return true
	})
	return out
}
