package props

import (
	"go/ast"
	"go/token"
	"go/types"
	"strings"

	"golang.org/x/tools/go/packages"

	"verif/checker/internal/core"
)

func init() {
	f := "tpl/matcher/match.go"
	register(&Prop{
		ID:        "C29",
		Title:     "Grammar matching follows the documented TPL semantics",
		Technique: "decision-table check of the combinators of tpl/matcher (Choices, gSequence, gRepeat0/1/01, List, gAdjoin) against the result shapes and consumption rules the README prescribes: loop direction and exit conditions, result constructors (arity, element origin and order), failure returns, and the composition that defines R1 % R2",
		Explanation: "Decides, combinator by combinator, the structural facts the documented semantics consist of (for every grammar and input, because they are facts about the only code that builds results): " +
			"ordered choice — Choices.Match tries p.options in slice order and returns inside the loop as soon as an option's error is nil; sequence — gSequence.Match returns a list with exactly len(items) elements, element i being the result of item i, every item matched at src[n:] where n is the sum of what the earlier items consumed; " +
			"greedy repetition without backtracking — gRepeat0/gRepeat1 append every successful result, add every consumption, never reset them, and stop only on a failure (or an empty match), gRepeat1 failing when the first match fails; option — gRepeat01 returns (0, nil, nil) when its operand fails; " +
			"R1 % R2 is Sequence(R1, Repeat0(Sequence(R2, R1))), which gives the documented two-level list; R1 ++ R2 — gAdjoin returns the pair [ret(R1), ret(R2)], consumes both, and fails with `not adjoin` unless the last token of R1 ends where the first token of R2 starts.",
		NotCovered: "error positions and the 'stops' optimisation of Choices (an option that consumed input and cannot conflict with later ones ends the choice), dynamic errors of user callbacks, and Var/RetProc post-processing (C30).",
		Run:        runC29,
		Controls: []Control{
			{Name: "choice-last-wins", File: f, Old: "\t\tif n, result, err = g.Match(src, ctx); err == nil || (n > 0 && stops[i]) {\n\t\t\treturn\n\t\t}", New: "\t\tif n, result, err = g.Match(src, ctx); err == nil && i == len(p.options)-1 || (n > 0 && stops[i]) {\n\t\t\treturn\n\t\t}", Expect: "choice/first-success-returns"},
			{Name: "sequence-restarts-at-zero", File: f, Old: "\t\tn1, ret1, err1 := g.Match(src[n:], ctx)\n\t\tif err1 != nil {\n\t\t\tif isDyn(err1) {\n\t\t\t\terr = err1\n\t\t\t} else {\n\t\t\t\treturn n + n1, nil, err1", New: "\t\tn1, ret1, err1 := g.Match(src, ctx)\n\t\tif err1 != nil {\n\t\t\tif isDyn(err1) {\n\t\t\t\terr = err1\n\t\t\t} else {\n\t\t\t\treturn n + n1, nil, err1", Expect: "sequence/item-starts-after-previous"},
			{Name: "first-set-cache-flag-never-set", File: f, Old: "func (p *Var) First(in []any) (first []any, mayEmpty bool) {\n\telem := p.Elem\n", New: "func (p *Var) First(in []any) (first []any, mayEmpty bool) {\n\tif p.cached {\n\t\treturn in, false\n\t}\n\telem := p.Elem\n", Old2: "\tRetProc any\n}", New2: "\tRetProc any\n\tcached  bool\n}", Expect: "dead-state/Var.cached"},
			{Name: "option-consumes-on-failure", File: f, Old: "\tif err != nil {\n\t\treturn 0, nil, nil\n\t}\n\treturn\n}\n\nfunc (p *gRepeat01) First", New: "\tif err != nil {\n\t\treturn n, nil, nil\n\t}\n\treturn\n}\n\nfunc (p *gRepeat01) First", Expect: "option/absent-is-nil-and-consumes-nothing"},
			{Name: "list-flat", File: f, Old: "\treturn Sequence(a, Repeat0(Sequence(b, a)))", New: "\treturn Sequence(a, Repeat0(b), Repeat0(a))", Expect: "list/composition"},
			{Name: "adjoin-pair-swapped", File: f, Old: "\tresult = []any{ret0, ret1}\n\treturn\n}\n\nfunc (p *gAdjoin) First", New: "\tresult = []any{ret1, ret0}\n\treturn\n}\n\nfunc (p *gAdjoin) First", Expect: "adjoin/pair"},
			{Name: "adjoin-gap-allowed", File: f, Old: "\tif src[n-1].End() != src[n].Pos {", New: "\tif src[n-1].End() > src[n].Pos {", Expect: "adjoin/touching"},
			{Name: "repeat1-empty-ok", File: f, Old: "\tn, ret0, err := g.Match(src, ctx)\n\tif err != nil {\n\t\treturn\n\t}\n\n\trets := make([]any, 1, 2)", New: "\tn, ret0, err := g.Match(src, ctx)\n\tif err != nil {\n\t\treturn 0, []any{}, nil\n\t}\n\n\trets := make([]any, 1, 2)", Expect: "repeat1/first-failure-fails"},
			{Name: "class-ignores-keyword-literal", File: f, Old: "\t\tcase *MatchToken:\n\t\t\tif n.Tok == me {\n\t\t\t\treturn true\n\t\t\t}\n\t\tcase token.Token:\n\t\t\tif n == me {", New: "\t\tcase *MatchToken:\n\t\tcase token.Token:\n\t\t\tif n == me {", Expect: "conflict/class-vs-literal"},
			{Name: "repeat0-drops-result", File: f, Old: "\t\trets = append(rets, ret1)\n\t\tn += n1\n\t\tsrc = src[n1:]", New: "\t\tif ret1 != nil {\n\t\t\trets = append(rets, ret1)\n\t\t}\n\t\tn += n1\n\t\tsrc = src[n1:]", Expect: "repeat0/accumulates-every-result"},
		},
	})
}

func runC29(c *core.Check) {
	prog := c.Load("./tpl/matcher")
	pk := prog.Pkg("./tpl/matcher")
	if pk == nil {
		return
	}
	info := pk.TypesInfo
	deadStateRule(c, pk) // e.g. a cached first set whose "may be empty" flag is never stored
	get := func(name string) *ast.FuncDecl {
		fd := core.FindFuncDecl(pk, name)
		if fd == nil {
			c.Bad("anchor", "matcher."+name, 0, "not found")
		}
		return fd
	}
	// ---------- ordered choice
	if fd := get("Choices.Match"); fd != nil {
		var loop *ast.RangeStmt
		for _, st := range fd.Body.List {
			if rs, ok := st.(*ast.RangeStmt); ok && nows(core.ExprStr(rs.X)) == "p.options" {
				loop = rs
			}
		}
		c.Decide(loop != nil, "choice", "options-in-order", fd.Pos(), "forward range over p.options", "Choices.Match no longer tries p.options in slice order with a forward range")
		if loop != nil {
			ok := false
			for _, st := range loop.Body.List {
				is, isIf := st.(*ast.IfStmt)
				if !isIf || len(is.Body.List) != 1 {
					continue
				}
				if _, isRet := is.Body.List[0].(*ast.ReturnStmt); !isRet {
					continue
				}
				// the condition is a disjunction with the plain disjunct `err == nil`
				for _, d := range disjuncts(is.Cond) {
					if nows(core.ExprStr(d)) == "err==nil" {
						ok = true
					}
				}
			}
			c.Decide(ok, "choice", "first-success-returns", loop.Pos(), "returns inside the loop as soon as err == nil", "Choices.Match no longer returns as soon as an option matches without error (the plain `err == nil` alternative of the in-loop return is gone): a later option can win over an earlier one that matched — the choice is no longer ordered")
		}
	}
	// ---------- first-set conflicts: an alternative may end the choice after consuming input (stops[i]) only if no later
	// alternative can start with the same token; a token class must therefore conflict with the same class AND with any
	// literal of that token kind (a keyword literal is scanned as an IDENT token), a literal with the same literal
	conflictArm := func(fd *ast.FuncDecl, typ string) string {
		out := ""
		ast.Inspect(fd.Body, func(n ast.Node) bool {
			cc, ok := n.(*ast.CaseClause)
			if !ok || len(cc.List) != 1 || core.ExprStr(cc.List[0]) != typ {
				return true
			}
			out = nows(nodeText(&ast.BlockStmt{List: cc.Body}))
			return true
		})
		return out
	}
	if fd := get("hasConflictToken"); fd != nil {
		c.Decide(conflictArm(fd, "*MatchToken") == "ifn.Tok==me;returntrue;", "conflict", "class-vs-literal", fd.Pos(), "a token class conflicts with every literal of that token kind", "hasConflictToken no longer reports a conflict between a token class and a later literal of the same token kind: `IDENT … | \"if\" …` ends the choice after the IDENT alternative consumed the keyword, so the keyword alternative is never tried — the choice is no longer ordered")
		c.Decide(conflictArm(fd, "token.Token") == "ifn==me;returntrue;", "conflict", "class-vs-class", fd.Pos(), "a token class conflicts with the same class", "hasConflictToken no longer reports a conflict between two alternatives starting with the same token class")
	}
	if fd := get("hasConflictMatchToken"); fd != nil {
		c.Decide(conflictArm(fd, "*MatchToken") == "ifn.Tok==me.Tok&&n.Lit==me.Lit;returntrue;", "conflict", "literal-vs-literal", fd.Pos(), "a literal conflicts with the same literal", "hasConflictMatchToken no longer reports a conflict between two alternatives starting with the same literal")
	}
	if fd := get("Choices.CheckConflicts"); fd != nil {
		txt := nows(nodeText(fd.Body))
		ok := strings.Contains(txt, "at:=conflictWith(me,firsts,i+1);") && strings.Contains(txt, "ifat>=0;") && strings.Contains(txt, "stops[i]=true;")
		c.Decide(ok, "conflict", "stops-only-without-conflict", fd.Pos(), "stops[i] is set only when alternative i conflicts with no later alternative", "CheckConflicts no longer sets stops[i] exactly when alternative i has no first-set conflict with a later alternative")
	}

	// ---------- sequence
	if fd := get("gSequence.Match"); fd != nil {
		txt := nows(nodeText(fd.Body))
		arity := strings.Contains(txt, "nitems:=len(p.items);") && strings.Contains(txt, "rets:=make([]any,nitems);") && strings.Contains(txt, "rets[i]=ret1;") && strings.Contains(txt, "result=rets;")
		c.Decide(arity, "sequence", "n-element-list", fd.Pos(), "the result is a list with one element per item, in item order", "gSequence.Match no longer returns a list of exactly len(items) elements with element i holding the result of item i")
		starts := strings.Contains(txt, "n1,ret1,err1:=g.Match(src[n:],ctx);") && strings.Contains(txt, "n+=n1;")
		var loop *ast.RangeStmt
		for _, st := range fd.Body.List {
			if rs, ok := st.(*ast.RangeStmt); ok && nows(core.ExprStr(rs.X)) == "p.items" {
				loop = rs
			}
		}
		c.Decide(starts && loop != nil, "sequence", "item-starts-after-previous", fd.Pos(), "item i is matched at src[n:], n the sum of earlier consumptions, items in order", "gSequence.Match no longer matches each item where the previous one stopped (src[n:] with n accumulated over a forward range of p.items)")
	}
	// ---------- repetition
	for _, name := range []string{"gRepeat0.Match", "gRepeat1.Match"} {
		fd := get(name)
		if fd == nil {
			continue
		}
		short := strings.ToLower(strings.TrimSuffix(strings.TrimPrefix(name, "g"), ".Match"))
		var loop *ast.ForStmt
		ast.Inspect(fd.Body, func(n ast.Node) bool {
			if fs, ok := n.(*ast.ForStmt); ok && fs.Cond == nil && loop == nil {
				loop = fs
			}
			return true
		})
		if loop == nil {
			c.Bad(short, "greedy-loop", fd.Pos(), "no unconditional loop: repetition is not greedy")
			continue
		}
		// in the loop: top-level statements `rets = append(rets, ret1)` and `n += n1`, unconditional
		appendOK, addOK := false, false
		for _, st := range loop.Body.List {
			s := nows(stmtStr(st))
			if s == "rets=append(rets,ret1)" {
				appendOK = true
			}
			if s == "n+=n1" {
				addOK = true
			}
		}
		c.Decide(appendOK, short, "accumulates-every-result", loop.Pos(), "every successful match is appended", name+" no longer appends the result of every successful match unconditionally: elements are missing from the repetition list")
		c.Decide(addOK, short, "accumulates-consumption", loop.Pos(), "every consumption is added", name+" no longer adds every match's consumption to n unconditionally")
		// exits: only inside `if err1 != nil` (non-dynamic) or `if n1 == 0`
		exitsOK := true
		ast.Inspect(loop.Body, func(n ast.Node) bool {
			if _, ok := n.(*ast.FuncLit); ok {
				return false
			}
			r, ok := n.(*ast.ReturnStmt)
			if !ok {
				return true
			}
			guard := enclosingConds(loop.Body, r)
			good := false
			for _, g := range guard {
				g = nows(g)
				if g == "err1!=nil" || g == "n1==0" {
					good = true
				}
			}
			if !good {
				exitsOK = false
			}
			return true
		})
		c.Decide(exitsOK, short, "stops-only-on-failure", loop.Pos(), "the loop ends only when a match fails or consumes nothing", name+" leaves its loop on a path that is neither a failed match nor an empty match: repetition is no longer greedy")
		// no backtracking: n and rets are never reset inside the loop
		reset := false
		ast.Inspect(loop.Body, func(n ast.Node) bool {
			if as, ok := n.(*ast.AssignStmt); ok && as.Tok == token.ASSIGN {
				for i, l := range as.Lhs {
					nm := core.ExprStr(l)
					if (nm == "n" || nm == "rets") && i < len(as.Rhs) && !strings.HasPrefix(nows(core.ExprStr(as.Rhs[i])), "append(rets,") {
						reset = true
					}
				}
			}
			return true
		})
		c.Decide(!reset, short, "no-backtracking", loop.Pos(), "n and the result list are never reset", name+" resets its consumption or its result list inside the loop")
		if name == "gRepeat1.Match" {
			first := false
			for i, st := range fd.Body.List {
				if nows(stmtStr(st)) == "n,ret0,err:=g.Match(src,ctx)" && i+1 < len(fd.Body.List) {
					if is, ok := fd.Body.List[i+1].(*ast.IfStmt); ok && nows(core.ExprStr(is.Cond)) == "err!=nil" && len(is.Body.List) == 1 {
						if r, ok := is.Body.List[0].(*ast.ReturnStmt); ok && len(r.Results) == 0 {
							first = true
						}
					}
				}
			}
			c.Decide(first, short, "first-failure-fails", fd.Pos(), "+R fails when the first R fails", "gRepeat1.Match no longer fails (returns the error) when its first match fails: +R accepts zero occurrences")
		}
	}
	// ---------- option
	if fd := get("gRepeat01.Match"); fd != nil {
		ok := false
		for _, st := range fd.Body.List {
			if is, isIf := st.(*ast.IfStmt); isIf && nows(core.ExprStr(is.Cond)) == "err!=nil" && len(is.Body.List) == 1 {
				if r, isRet := is.Body.List[0].(*ast.ReturnStmt); isRet && len(r.Results) == 3 && nows(core.ExprStr(r.Results[0])) == "0" && core.ExprStr(r.Results[1]) == "nil" && core.ExprStr(r.Results[2]) == "nil" {
					ok = true
				}
			}
		}
		c.Decide(ok, "option", "absent-is-nil-and-consumes-nothing", fd.Pos(), "on failure: (0, nil, nil)", "gRepeat01.Match no longer returns (0, nil, nil) when its operand fails: an absent ?R consumes input or yields a non-nil result")
	}
	// ---------- list
	if fd := get("List"); fd != nil {
		ok := false
		if len(fd.Body.List) == 1 {
			if r, isRet := fd.Body.List[0].(*ast.ReturnStmt); isRet && len(r.Results) == 1 {
				a, b := "", ""
				if fd.Type.Params != nil && len(fd.Type.Params.List) == 1 && len(fd.Type.Params.List[0].Names) == 2 {
					a, b = fd.Type.Params.List[0].Names[0].Name, fd.Type.Params.List[0].Names[1].Name
				}
				ok = a != "" && nows(core.ExprStr(r.Results[0])) == "Sequence("+a+",Repeat0(Sequence("+b+","+a+")))"
			}
		}
		c.Decide(ok, "list", "composition", fd.Pos(), "R1 % R2 = Sequence(R1, Repeat0(Sequence(R2, R1)))", "List(a, b) is no longer Sequence(a, Repeat0(Sequence(b, a))): the result of R1 % R2 is no longer the documented two-level list [r1, [[sep, r1]…]]")
	}
	// ---------- adjoin
	if fd := get("gAdjoin.Match"); fd != nil {
		txt := nows(nodeText(fd.Body))
		pair := strings.Contains(txt, "n,ret0,err:=p.a.Match(src,ctx);") && strings.Contains(txt, "n1,ret1,err:=p.b.Match(src[n:],ctx);") && pairLit(fd, "ret0", "ret1")
		c.Decide(pair, "adjoin", "pair", fd.Pos(), "the result is the pair [ret(R1), ret(R2)], R2 matched where R1 stopped", "gAdjoin.Match no longer returns [ret(R1), ret(R2)] with R2 matched at src[n:]")
		touching := false
		ast.Inspect(fd.Body, func(n ast.Node) bool {
			if is, ok := n.(*ast.IfStmt); ok && nows(core.ExprStr(is.Cond)) == "src[n-1].End()!=src[n].Pos" {
				ast.Inspect(is.Body, func(m ast.Node) bool {
					if _, isRet := m.(*ast.ReturnStmt); isRet {
						touching = true
					}
					return true
				})
			}
			return true
		})
		c.Decide(touching, "adjoin", "touching", fd.Pos(), "fails unless the last token of R1 ends exactly where the first token of R2 starts", "gAdjoin.Match no longer fails when src[n-1].End() != src[n].Pos: R1 ++ R2 accepts tokens that do not touch (or rejects tokens that do)")
		consumes := strings.Contains(txt, "n+=n1;")
		c.Decide(consumes, "adjoin", "consumes-both", fd.Pos(), "consumes n + n1 tokens", "gAdjoin.Match no longer consumes the tokens of both operands")
	}
	_ = info
	c.Floor("choice", 2)
	c.Floor("repeat0", 4)
	c.Floor("repeat1", 5)
}

func disjuncts(e ast.Expr) []ast.Expr {
	e = ast.Unparen(e)
	if be, ok := e.(*ast.BinaryExpr); ok && be.Op == token.LOR {
		return append(disjuncts(be.X), disjuncts(be.Y)...)
	}
	return []ast.Expr{e}
}

// enclosingConds: the conditions of the if statements (inside root) that enclose n.
func enclosingConds(root ast.Node, n ast.Node) []string {
	var out []string
	var stack []ast.Node
	ast.Inspect(root, func(m ast.Node) bool {
		if m == nil {
			stack = stack[:len(stack)-1]
			return true
		}
		stack = append(stack, m)
		if m == n {
			for _, s := range stack {
				if is, ok := s.(*ast.IfStmt); ok {
					out = append(out, core.ExprStr(is.Cond))
				}
			}
		}
		return true
	})
	return out
}

var _ = packages.NeedName
var _ types.Type

// pairLit: `result = []any{a, b}` with exactly these two identifiers in this order.
func pairLit(fd *ast.FuncDecl, a, b string) bool {
	ok := false
	ast.Inspect(fd.Body, func(n ast.Node) bool {
		as, isAs := n.(*ast.AssignStmt)
		if !isAs || len(as.Lhs) != 1 || len(as.Rhs) != 1 || core.ExprStr(as.Lhs[0]) != "result" {
			return true
		}
		if cl, isCl := as.Rhs[0].(*ast.CompositeLit); isCl && len(cl.Elts) == 2 && core.ExprStr(cl.Elts[0]) == a && core.ExprStr(cl.Elts[1]) == b {
			ok = true
		}
		return true
	})
	return ok
}
