package props

import (
	"go/ast"
	"go/token"
	"go/types"
	"sort"
	"strings"

	"verif/checker/internal/core"
	"verif/checker/internal/flow"
)

func init() {
	register(&Prop{
		ID:        "C26",
		Title:     "xgo fmt never loses a file at any crash point and keeps its mode",
		Technique: "typestate/ordering analysis of file-system effects on the CFG of gopfmt.writeFileWithBackup and gopfmt.gopfmt, plus a who-may-mutate census of package gopfmt",
		Explanation: "Decides for every crash point at once that the only mutation of a formatted file's path is one atomic os.Rename of a sibling temporary file: " +
			"no call that destroys the destination (Remove/WriteFile/Create/OpenFile/Truncate on path) exists in writeFileWithBackup; on every path reaching the rename the temp file was created by os.CreateTemp in the destination's directory, written, its write error tested, closed, and given the permission bits read from os.Stat(path); " +
			"every non-error exit passes the rename; in the -mvgo branch the new file is written (error checked) before the old is removed; no other function of the package mutates the file system.",
		NotCovered: "durability (fsync) of the temp file and of the directory entry, behaviour of os.Rename on non-POSIX file systems, and crashes inside the kernel's rename.",
		Run:        runC26,
		Controls: []Control{
			{Name: "remove-before-rename", File: "cmd/internal/gopfmt/fmt.go", Old: "\treturn os.Rename(tmpfile, path)", New: "\tif err = os.Remove(path); err != nil {\n\t\treturn\n\t}\n\treturn os.Rename(tmpfile, path)", Expect: "never-destroy/writeFileWithBackup:os.Remove(path)"},
			{Name: "drop-chmod", File: "cmd/internal/gopfmt/fmt.go", Old: "err = f.Chmod(fi.Mode().Perm())", New: "err = nil", Expect: "mode/chmod-before-rename"},
			{Name: "chmod-constant", File: "cmd/internal/gopfmt/fmt.go", Old: "err = f.Chmod(fi.Mode().Perm())", New: "err = f.Chmod(0644)", Expect: "mode/chmod-before-rename"},
			{Name: "write-error-unchecked", File: "cmd/internal/gopfmt/fmt.go", Old: "\t_, err = f.Write(target)\n\tif err == nil {", New: "\tf.Write(target)\n\tif err == nil {", Expect: "temp-complete/write-error-checked"},
			{Name: "write-in-place", File: "cmd/internal/gopfmt/fmt.go", Old: "\treturn writeFileWithBackup(path, target)\n}", New: "\treturn os.WriteFile(path, target, 0666)\n}", Expect: "never-destroy/gopfmt:os.WriteFile(path)"},
			{Name: "mvgo-remove-first", File: "cmd/internal/gopfmt/fmt.go", Old: "\t\tif err = os.WriteFile(newPath, target, 0666); err != nil {\n\t\t\treturn\n\t\t}\n\t\treturn os.Remove(path)", New: "\t\tif err = os.Remove(path); err != nil {\n\t\t\treturn\n\t\t}\n\t\treturn os.WriteFile(newPath, target, 0666)", Expect: "mvgo/write-before-remove"},
			{Name: "temp-in-tmpdir", File: "cmd/internal/gopfmt/fmt.go", Old: "os.CreateTemp(dir, file)", New: "os.CreateTemp(\"\", file)", Expect: "temp-complete/same-directory"},
			{Name: "rename-after-failed-write", File: "cmd/internal/gopfmt/fmt.go", Old: "\tif err != nil {\n\t\tos.Remove(tmpfile)\n\t\treturn\n\t}\n\treturn os.Rename(tmpfile, path)", New: "\tif err != nil {\n\t\tos.Remove(tmpfile)\n\t}\n\treturn os.Rename(tmpfile, path)", Expect: "temp-complete/write-error-checked"},
		},
	})
}

var fsMutators = map[string]bool{
	"os.Remove": true, "os.RemoveAll": true, "os.WriteFile": true, "os.Create": true, "os.OpenFile": true,
	"os.Rename": true, "os.Truncate": true, "os.Chmod": true, "os.CreateTemp": true, "os.Mkdir": true,
	"os.MkdirAll": true, "os.MkdirTemp": true, "os.Symlink": true, "os.Link": true, "os.Chtimes": true,
	"io/ioutil.WriteFile": true, "io/ioutil.TempFile": true,
}

// destroyers can leave the destination path empty, truncated or partially written.
var destroyers = map[string]bool{
	"os.Remove": true, "os.RemoveAll": true, "os.WriteFile": true, "os.Create": true, "os.OpenFile": true,
	"os.Truncate": true, "io/ioutil.WriteFile": true,
}

func pkgFuncName(info *types.Info, call *ast.CallExpr) string {
	fn, ok := calleeObj(info, call).(*types.Func)
	if !ok || fn.Pkg() == nil {
		return ""
	}
	if sig, _ := fn.Type().(*types.Signature); sig != nil && sig.Recv() != nil {
		return fn.Pkg().Path() + "." + core.FuncObjName(fn)
	}
	return fn.Pkg().Path() + "." + fn.Name()
}

func identObj(info *types.Info, e ast.Expr) types.Object {
	if id, ok := ast.Unparen(e).(*ast.Ident); ok {
		if o := info.Uses[id]; o != nil {
			return o
		}
		return info.Defs[id]
	}
	return nil
}

// defsOf maps each local variable to the right-hand sides assigned to it in fn (call results keep the call).
func defsOf(info *types.Info, body ast.Node) map[types.Object][]ast.Expr {
	out := map[types.Object][]ast.Expr{}
	ast.Inspect(body, func(n ast.Node) bool {
		switch s := n.(type) {
		case *ast.AssignStmt:
			for i, l := range s.Lhs {
				o := identObj(info, l)
				if o == nil {
					continue
				}
				if len(s.Rhs) == len(s.Lhs) {
					out[o] = append(out[o], s.Rhs[i])
				} else if len(s.Rhs) == 1 {
					out[o] = append(out[o], s.Rhs[0])
				}
			}
		case *ast.ValueSpec:
			for i, nm := range s.Names {
				if o := info.Defs[nm]; o != nil && i < len(s.Values) {
					out[o] = append(out[o], s.Values[i])
				}
			}
		}
		return true
	})
	return out
}

func runC26(c *core.Check) {
	prog := c.Load("./cmd/internal/gopfmt")
	pk := prog.Pkg("./cmd/internal/gopfmt")
	if pk == nil {
		return
	}
	deadStateRule(c, pk) // no unexported field is read without a writer
	info := pk.TypesInfo
	wfd := prog.FuncDecl("./cmd/internal/gopfmt", "writeFileWithBackup")
	gfd := prog.FuncDecl("./cmd/internal/gopfmt", "gopfmt")
	if wfd == nil || gfd == nil {
		return
	}
	c.Trust("golang.org/x/tools@v0.29.0 go/cfg", "os.Rename replaces its destination atomically (POSIX rename(2))")

	// ---- who-may-mutate census over the whole package
	type site struct {
		fn, callee string
		call       *ast.CallExpr
	}
	var sites []site
	nfuncs := 0
	for _, fd := range core.AllFuncDecls(pk) {
		nfuncs++
		ast.Inspect(fd.Body, func(n ast.Node) bool {
			if call, ok := n.(*ast.CallExpr); ok {
				if name := pkgFuncName(info, call); fsMutators[name] {
					sites = append(sites, site{core.FuncName(fd), name, call})
				}
			}
			return true
		})
	}
	c.Analysed("functions", nfuncs)
	allowed := map[string]string{
		"writeFileWithBackup:os.CreateTemp": "creates the sibling temp file",
		"writeFileWithBackup:os.Rename":     "the single atomic replacement",
		"writeFileWithBackup:os.Remove":     "only the temp file (argument checked below)",
		"writeFileWithBackup:os.Chmod":      "mode of the temp file",
		"gopfmt:os.WriteFile":               "-mvgo branch: writes the NEW .xgo path (argument checked below)",
		"gopfmt:os.Remove":                  "-mvgo branch: removes the .go file after the .xgo file is written (order checked below)",
	}
	c.Floor("fs-census", 4)
	for _, s := range sites {
		key := s.fn + ":" + s.callee
		short := s.fn + ":" + strings.TrimPrefix(s.callee, "io/ioutil.")
		_ = short
		if why, ok := allowed[key]; ok {
			c.Ok("fs-census", key, s.call.Pos(), why)
		} else {
			c.Bad("fs-census", key, s.call.Pos(), "file-system mutation outside the reviewed write path: a formatted file may be modified other than by the atomic rename")
		}
	}

	// ---- writeFileWithBackup
	dest := paramObj(wfd, info, 0)
	if dest == nil {
		c.Undecided("shape", "writeFileWithBackup", wfd.Pos(), "cannot identify the destination parameter")
		return
	}
	defs := defsOf(info, wfd.Body)
	isDest := func(e ast.Expr) bool { return identObj(info, e) == dest }
	// dirOfDest: expression derived from filepath.Split(dest) / filepath.Dir(dest)
	dirOfDest := func(e ast.Expr) bool {
		check := func(x ast.Expr) bool {
			call, ok := ast.Unparen(x).(*ast.CallExpr)
			if !ok || len(call.Args) != 1 || !isDest(call.Args[0]) {
				return false
			}
			n := pkgFuncName(info, call)
			return n == "path/filepath.Split" || n == "path/filepath.Dir"
		}
		if check(e) {
			return true
		}
		if o := identObj(info, e); o != nil {
			ds := defs[o]
			if len(ds) == 0 {
				return false
			}
			for _, d := range ds {
				if !check(d) {
					return false
				}
			}
			// for Split the directory is result 0
			return true
		}
		return false
	}
	// statOfDest: variable assigned only from os.Stat(dest)/os.Lstat(dest)
	statVar := func(o types.Object) bool {
		ds := defs[o]
		if len(ds) == 0 {
			return false
		}
		for _, d := range ds {
			call, ok := ast.Unparen(d).(*ast.CallExpr)
			if !ok || len(call.Args) != 1 || !isDest(call.Args[0]) {
				return false
			}
			if n := pkgFuncName(info, call); n != "os.Stat" && n != "os.Lstat" {
				return false
			}
		}
		return true
	}
	modeFromDest := func(e ast.Expr) bool {
		found := false
		ast.Inspect(e, func(n ast.Node) bool {
			call, ok := n.(*ast.CallExpr)
			if !ok {
				return true
			}
			if sel, ok := call.Fun.(*ast.SelectorExpr); ok && sel.Sel.Name == "Mode" {
				if o := identObj(info, sel.X); o != nil && statVar(o) {
					found = true
				}
			}
			return true
		})
		if !found {
			if o := identObj(info, e); o != nil {
				for _, d := range defs[o] {
					ok := false
					ast.Inspect(d, func(n ast.Node) bool {
						if call, isCall := n.(*ast.CallExpr); isCall {
							if sel, isSel := call.Fun.(*ast.SelectorExpr); isSel && sel.Sel.Name == "Mode" {
								if so := identObj(info, sel.X); so != nil && statVar(so) {
									ok = true
								}
							}
						}
						return true
					})
					found = ok
				}
			}
		}
		return found
	}

	// find the CreateTemp call, the temp file variable and the temp name variables
	var tmpFile types.Object
	tmpNames := map[types.Object]bool{}
	var createTemp *ast.CallExpr
	ast.Inspect(wfd.Body, func(n ast.Node) bool {
		as, ok := n.(*ast.AssignStmt)
		if !ok || len(as.Rhs) != 1 {
			return true
		}
		call, ok := ast.Unparen(as.Rhs[0]).(*ast.CallExpr)
		if !ok {
			return true
		}
		if pkgFuncName(info, call) == "os.CreateTemp" && len(as.Lhs) >= 1 {
			tmpFile = identObj(info, as.Lhs[0])
			createTemp = call
		}
		return true
	})
	if tmpFile == nil {
		c.Bad("temp-complete/created-by-CreateTemp", "writeFileWithBackup", wfd.Pos(), "no os.CreateTemp call whose result is kept: the replacement file is not a fresh sibling temp file")
		return
	}
	isTmpFile := func(e ast.Expr) bool { return identObj(info, e) == tmpFile }
	isTmpNameCall := func(e ast.Expr) bool {
		call, ok := ast.Unparen(e).(*ast.CallExpr)
		if !ok {
			return false
		}
		sel, ok := call.Fun.(*ast.SelectorExpr)
		return ok && sel.Sel.Name == "Name" && isTmpFile(sel.X)
	}
	for o, ds := range defs {
		all := len(ds) > 0
		for _, d := range ds {
			if !isTmpNameCall(d) {
				all = false
			}
		}
		if all {
			tmpNames[o] = true
		}
	}
	isTmpName := func(e ast.Expr) bool {
		return isTmpNameCall(e) || (identObj(info, e) != nil && tmpNames[identObj(info, e)])
	}
	c.Decide(len(createTemp.Args) == 2 && dirOfDest(createTemp.Args[0]), "temp-complete", "same-directory", createTemp.Pos(),
		"temp file is created in the destination's directory (rename stays on one file system)",
		"the temp file is not created in the directory of the destination: os.Rename may cross file systems (fails or is not atomic)")

	// destructive calls on the destination: none allowed anywhere in the function
	nDestroy := 0
	ast.Inspect(wfd.Body, func(n ast.Node) bool {
		call, ok := n.(*ast.CallExpr)
		if !ok || len(call.Args) == 0 {
			return true
		}
		name := pkgFuncName(info, call)
		if destroyers[name] && isDest(call.Args[0]) {
			nDestroy++
			c.Bad("never-destroy", "writeFileWithBackup:"+strings.TrimPrefix(name, "io/ioutil.")+"("+dest.Name()+")", call.Pos(),
				"the destination path is removed/truncated/overwritten in place: a crash right after this call leaves neither the original nor the formatted content at the path")
		}
		if name == "os.Remove" && !isDest(call.Args[0]) {
			c.Decide(isTmpName(call.Args[0]), "fs-arg", "writeFileWithBackup:os.Remove(temp)", call.Pos(), "removes only the temp file", "os.Remove on something that is neither the temp file nor provably harmless")
		}
		return true
	})
	if nDestroy == 0 {
		c.Ok("never-destroy", "writeFileWithBackup", wfd.Pos(), "no call destroys the destination path; its only mutation is the rename")
	}

	// path-sensitive typestate up to the rename
	const (
		bTmp = 1 << iota
		bWritten
		bClosed
		bChmod
		bRenamed
		bPendW // write error not yet tested
		bErrNil
		bErrNonNil
		bErrSeen // some tested error was non-nil on this path (error exit)
	)
	var errVar types.Object
	ast.Inspect(wfd.Body, func(n ast.Node) bool {
		as, ok := n.(*ast.AssignStmt)
		if !ok || len(as.Rhs) != 1 {
			return true
		}
		call, ok := ast.Unparen(as.Rhs[0]).(*ast.CallExpr)
		if !ok {
			return true
		}
		if sel, ok := call.Fun.(*ast.SelectorExpr); ok && isTmpFile(sel.X) && strings.HasPrefix(sel.Sel.Name, "Write") && len(as.Lhs) == 2 {
			errVar = identObj(info, as.Lhs[1])
		}
		return true
	})
	type renameObs struct {
		call *ast.CallExpr
		st   flow.State
	}
	var renames []renameObs
	writeAssigned := map[*ast.CallExpr]bool{}
	if errVar != nil {
		ast.Inspect(wfd.Body, func(n ast.Node) bool {
			if as, ok := n.(*ast.AssignStmt); ok && len(as.Rhs) == 1 && len(as.Lhs) == 2 && identObj(info, as.Lhs[1]) == errVar {
				if call, ok := ast.Unparen(as.Rhs[0]).(*ast.CallExpr); ok {
					writeAssigned[call] = true
				}
			}
			return true
		})
	}
	prob := &flow.Problem{Body: wfd.Body, Info: info}
	prob.Node = func(n ast.Node, st flow.State, record bool) flow.State {
		if _, isDefer := n.(*ast.DeferStmt); isDefer {
			return st
		}
		for _, call := range flow.Calls(n) {
			name := pkgFuncName(info, call)
			switch {
			case name == "os.CreateTemp":
				st |= bTmp
			case name == "os.Rename" && len(call.Args) == 2 && isDest(call.Args[1]):
				if record {
					renames = append(renames, renameObs{call, st})
				}
				st |= bRenamed
			case name == "os.Chmod" && len(call.Args) == 2 && isTmpName(call.Args[0]) && modeFromDest(call.Args[1]):
				st |= bChmod
			default:
				if sel, ok := call.Fun.(*ast.SelectorExpr); ok && isTmpFile(sel.X) {
					switch {
					case strings.HasPrefix(sel.Sel.Name, "Write"):
						st |= bWritten | bPendW
						_ = writeAssigned
					case sel.Sel.Name == "Close":
						st |= bClosed
					case sel.Sel.Name == "Chmod" && len(call.Args) == 1 && modeFromDest(call.Args[0]):
						st |= bChmod
					}
				}
			}
		}
		for _, o := range flow.AssignedVars(n, info) {
			if o == errVar && errVar != nil {
				st &^= bErrNil | bErrNonNil
			}
		}
		return st
	}
	prob.Edge = func(cond ast.Expr, truth bool, st flow.State) (flow.State, bool) {
		x, nonNilOnTrue, ok := flow.NilTest(cond)
		if !ok || errVar == nil || identObj(info, x) != errVar {
			return st, true
		}
		nonNil := truth == nonNilOnTrue
		if nonNil {
			if st&bErrNil != 0 {
				return st, false
			}
			return st | bErrNonNil | bErrSeen, true
		}
		if st&bErrNonNil != 0 {
			return st, false
		}
		// err is nil here: if the value tested is still the write's error (or a later one assigned only when it was nil) the write succeeded
		return (st | bErrNil) &^ bPendW, true
	}
	res := flow.Solve(prob)
	c.Analysed("cfg_blocks_writeFileWithBackup", res.Blocks)
	if res.Overflow {
		c.Undecided("shape", "writeFileWithBackup", wfd.Pos(), "state space overflow")
	}
	if len(renames) == 0 {
		c.Bad("replace", "rename-present", wfd.Pos(), "no os.Rename(temp, path) found: the destination is not replaced atomically")
		return
	}
	all := func(bit flow.State) bool {
		for _, r := range renames {
			if r.st&bit == 0 {
				return false
			}
		}
		return true
	}
	none := func(bit flow.State) bool {
		for _, r := range renames {
			if r.st&bit != 0 {
				return false
			}
		}
		return true
	}
	rpos := renames[0].call.Pos()
	srcOK := true
	for _, r := range renames {
		if !isTmpName(r.call.Args[0]) {
			srcOK = false
		}
	}
	c.Decide(srcOK && all(bTmp), "temp-complete", "rename-source-is-temp", rpos, "the rename's source is the os.CreateTemp file", "the rename's source is not the file made by os.CreateTemp on every path")
	c.Decide(all(bWritten), "temp-complete", "written-before-rename", rpos, "", "some path reaches the rename without writing the formatted content to the temp file")
	c.Decide(all(bClosed), "temp-complete", "closed-before-rename", rpos, "", "some path reaches the rename with the temp file still open (unflushed/locked)")
	c.Decide(errVar != nil && none(bPendW) && none(bErrNonNil), "temp-complete", "write-error-checked", rpos, "the write's error is tested and the rename is unreachable when it is non-nil",
		"some path reaches the rename although the write to the temp file may have failed (error dropped, overwritten before being tested, or not returned): a truncated file would replace the original")
	c.Decide(all(bChmod), "mode", "chmod-before-rename", rpos, "permission bits from os.Stat(path).Mode() are applied to the temp file on every path to the rename",
		"some path reaches the rename without applying the original file's permission bits (from os.Stat/Lstat(path).Mode()) to the temp file: os.CreateTemp's 0600 replaces the file's mode")
	okExits, nExits := true, 0
	var badExit token.Pos
	for _, e := range res.Exits {
		nExits++
		if e.State&bRenamed == 0 && e.State&bErrSeen == 0 {
			// allowed: exits where the function returns before doing anything on an error of an earlier call not bound to errVar
			if !returnsErrOfFailedCall(info, wfd, e.Ret, e.State&bTmp != 0) {
				okExits = false
				badExit = e.Pos
			}
		}
	}
	c.Analysed("exits_writeFileWithBackup", nExits)
	c.Decide(okExits, "replace", "every-success-exit-renamed", badExit, "every exit either performed the rename or is an error exit", "an exit that reports success is reachable without the rename: the formatted content is silently not installed")

	// ---- -mvgo branch of gopfmt: WriteFile(newPath) checked, then Remove(path)
	gdest := paramObj(gfd, info, 0)
	const (
		gWrote = 1 << iota
		gPend
		gNil
		gNonNil
	)
	var gerr types.Object
	type rmObs struct {
		call *ast.CallExpr
		st   flow.State
	}
	var removes []rmObs
	ast.Inspect(gfd.Body, func(n ast.Node) bool {
		if as, ok := n.(*ast.AssignStmt); ok && len(as.Rhs) == 1 && len(as.Lhs) == 1 {
			if call, ok := ast.Unparen(as.Rhs[0]).(*ast.CallExpr); ok && pkgFuncName(info, call) == "os.WriteFile" {
				gerr = identObj(info, as.Lhs[0])
			}
		}
		return true
	})
	gp := &flow.Problem{Body: gfd.Body, Info: info}
	gp.Node = func(n ast.Node, st flow.State, record bool) flow.State {
		for _, call := range flow.Calls(n) {
			switch pkgFuncName(info, call) {
			case "os.WriteFile", "io/ioutil.WriteFile":
				if len(call.Args) > 0 && identObj(info, call.Args[0]) != gdest {
					st |= gWrote | gPend
				}
			case "os.Remove":
				if len(call.Args) == 1 && identObj(info, call.Args[0]) == gdest && record {
					removes = append(removes, rmObs{call, st})
				}
			}
		}
		for _, o := range flow.AssignedVars(n, info) {
			if o == gerr && gerr != nil {
				st &^= gNil | gNonNil
			}
		}
		return st
	}
	gp.Edge = func(cond ast.Expr, truth bool, st flow.State) (flow.State, bool) {
		x, nonNilOnTrue, ok := flow.NilTest(cond)
		if !ok || gerr == nil || identObj(info, x) != gerr {
			return st, true
		}
		if truth == nonNilOnTrue {
			if st&gNil != 0 {
				return st, false
			}
			return st | gNonNil, true
		}
		if st&gNonNil != 0 {
			return st, false
		}
		return (st | gNil) &^ gPend, true
	}
	flow.Solve(gp)
	for _, r := range removes {
		good := r.st&gWrote != 0 && r.st&gPend == 0 && r.st&gNonNil == 0
		if !good {
			c.Bad("mvgo", "write-before-remove", r.call.Pos(), "os.Remove(path) is reachable before the new file has been written successfully: a crash or write failure loses the source")
		} else {
			c.Ok("mvgo", "write-before-remove", r.call.Pos(), "the .go file is removed only after the .xgo file was written and its error tested")
		}
	}
	// the write in gopfmt must not target the formatted path itself
	ast.Inspect(gfd.Body, func(n ast.Node) bool {
		if call, ok := n.(*ast.CallExpr); ok && len(call.Args) > 0 {
			if name := pkgFuncName(info, call); destroyers[name] && name != "os.Remove" && identObj(info, call.Args[0]) == gdest {
				c.Bad("never-destroy", "gopfmt:"+name+"("+gdest.Name()+")", call.Pos(), "the formatted file is overwritten in place: a crash during the write leaves a truncated file")
			}
		}
		return true
	})
	// the normal path hands over to writeFileWithBackup
	handsOver := false
	ast.Inspect(gfd.Body, func(n ast.Node) bool {
		if call, ok := n.(*ast.CallExpr); ok && core.IsFunc(calleeObj(info, call), pk.PkgPath, "writeFileWithBackup") && len(call.Args) == 2 && identObj(info, call.Args[0]) == gdest {
			handsOver = true
		}
		return true
	})
	c.Decide(handsOver, "replace", "gopfmt->writeFileWithBackup", gfd.Pos(), "", "gopfmt no longer installs the result through writeFileWithBackup(path, …)")
	_ = sort.Strings
}

// returnsErrOfFailedCall accepts early error exits of the form `if err != nil { return }` that happen before
// the error variable tracked by the typestate exists (e.g. after os.Stat or os.CreateTemp failed).
func returnsErrOfFailedCall(info *types.Info, fd *ast.FuncDecl, ret *ast.ReturnStmt, tmpCreated bool) bool {
	if ret == nil {
		return false
	}
	// find the enclosing if statement whose condition is a non-nil test on an error variable
	var ok bool
	ast.Inspect(fd.Body, func(n ast.Node) bool {
		ifs, isIf := n.(*ast.IfStmt)
		if !isIf {
			return true
		}
		x, nonNilOnTrue, isTest := flow.NilTest(ifs.Cond)
		if !isTest || !nonNilOnTrue {
			return true
		}
		if t := info.TypeOf(x); t == nil || t.String() != "error" {
			return true
		}
		for _, s := range ifs.Body.List {
			if s == ast.Stmt(ret) {
				ok = true
			}
		}
		return true
	})
	return ok
}
