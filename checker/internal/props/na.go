package props

// NotApplicable lists the properties static analysis cannot decide, not even in part (DESIGN.md §5).
var NotApplicable = [][2]string{}
