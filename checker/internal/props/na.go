package props

// NotApplicable lists the properties static analysis cannot decide, not even in part (DESIGN.md §5).
var NotApplicable = [][2]string{
	{"C20", "Idempotence of the printer depends on line/column arithmetic over arbitrary inputs (layout decisions based on source positions); not a shape-of-code fact."},
}
