package props

// NotApplicable lists the properties static analysis cannot decide, not even in part (DESIGN.md §5).
var NotApplicable = [][2]string{
	{"C10", "Overload resolution is performed by gogen at type-check time over runtime type sets; cl only registers the candidates, so nothing in /repo's source shape determines which candidate is chosen."},
	{"C20", "Idempotence of the printer depends on line/column arithmetic over arbitrary inputs (layout decisions based on source positions); not a shape-of-code fact."},
}
