package props

import (
	"go/ast"
	"go/token"
	"go/types"

	"verif/checker/internal/core"
	"verif/checker/internal/flow"
)

func init() {
	register(&Prop{
		ID:        "C41",
		Title:     "Closing a fake connection unblocks pending I/O",
		Technique: "channel-operation census with select/done-arm shape rules, close-once typestate under the feeder mutex, and value-origin checks, over x/fakenet",
		Explanation: "Decides for every schedule that (1) every channel send/receive of x/fakenet is an arm of a select that also has a `<-done` arm, so no goroutine can block on the feeder channels once done is closed; " +
			"(2) every done arm of connFeeder.do returns a non-nil error that is io.EOF and every done arm of run returns; (3) close(done) is executed only in connFeeder.close, under mu, dominated by !closed, with closed set to true before the unlock (at most once; no other channel is ever closed); " +
			"(4) fakeConn.Close closes both feeders on every path, before closing the streams; (5) run hands to source exactly the slice received from input and sends back exactly source's results, do sends its argument and returns exactly the received result; " +
			"(6) input/result are unbuffered and exactly one run goroutine per feeder is started, by NewConn (ordering).",
		NotCovered: "promptness when the underlying Read/Write itself blocks forever inside source (run is then stuck, do is not), and the random choice of select when both arms are ready.",
		Run:        runC41,
		Controls: []Control{
			{Name: "bare-send", File: "x/fakenet/conn.go", Old: "\tselect {\n\tcase f.input <- b:\n\tcase <-f.done:\n\t\treturn 0, io.EOF\n\t}", New: "\tf.input <- b", Expect: "chan-select/connFeeder.do:input"},
			{Name: "done-arm-returns-nil", File: "x/fakenet/conn.go", Old: "\tcase r := <-f.result:\n\t\treturn r.n, r.err\n\tcase <-f.done:\n\t\treturn 0, io.EOF", New: "\tcase r := <-f.result:\n\t\treturn r.n, r.err\n\tcase <-f.done:\n\t\treturn 0, nil", Expect: "done-arm/connFeeder.do"},
			{Name: "close-without-flag", File: "x/fakenet/conn.go", Old: "\tif !f.closed {\n\t\tf.closed = true\n\t\tclose(f.done)\n\t}", New: "\tclose(f.done)", Expect: "close-once/connFeeder.close"},
			{Name: "flag-not-set", File: "x/fakenet/conn.go", Old: "\t\tf.closed = true\n\t\tclose(f.done)", New: "\t\tclose(f.done)", Expect: "close-once/connFeeder.close"},
			{Name: "close-outside-lock", File: "x/fakenet/conn.go", Old: "\tf.mu.Lock()\n\tif !f.closed {\n\t\tf.closed = true\n\t\tclose(f.done)\n\t}\n\tf.mu.Unlock()", New: "\tif !f.closed {\n\t\tf.closed = true\n\t\tclose(f.done)\n\t}", Expect: "close-once/connFeeder.close"},
			{Name: "Close-skips-writer", File: "x/fakenet/conn.go", Old: "\tc.reader.close()\n\tc.writer.close()\n", New: "\tc.reader.close()\n", Expect: "conn-close/both-feeders"},
			{Name: "run-wrong-slice", File: "x/fakenet/conn.go", Old: "n, err := f.source(b)", New: "n, err := f.source(b[:0])", Expect: "data-origin/connFeeder.run:source-arg"},
			{Name: "run-drops-err", File: "x/fakenet/conn.go", Old: "case f.result <- feedResult{n: n, err: err}:", New: "case f.result <- feedResult{n: n}:", Expect: "data-origin/connFeeder.run:result"},
			{Name: "buffered-input", File: "x/fakenet/conn.go", Old: "input:  make(chan []byte),", New: "input:  make(chan []byte, 1),", Expect: "unbuffered/input"},
			{Name: "run-ignores-done-on-result", File: "x/fakenet/conn.go", Old: "\t\tselect {\n\t\tcase f.result <- feedResult{n: n, err: err}:\n\t\tcase <-f.done:\n\t\t\treturn\n\t\t}", New: "\t\tf.result <- feedResult{n: n, err: err}", Expect: "chan-select/connFeeder.run:result"},
			{Name: "second-run-goroutine", File: "x/fakenet/conn.go", Old: "\tgo c.writer.run()\n", New: "\tgo c.writer.run()\n\tgo c.writer.run()\n", Expect: "goroutines/NewConn"},
		},
	})
}

func parentMap(root ast.Node) map[ast.Node]ast.Node {
	m := map[ast.Node]ast.Node{}
	var stack []ast.Node
	ast.Inspect(root, func(n ast.Node) bool {
		if n == nil {
			stack = stack[:len(stack)-1]
			return true
		}
		if len(stack) > 0 {
			m[n] = stack[len(stack)-1]
		}
		stack = append(stack, n)
		return true
	})
	return m
}

func runC41(c *core.Check) {
	prog := c.Load("./x/fakenet")
	pk := prog.Pkg("./x/fakenet")
	if pk == nil {
		return
	}
	deadStateRule(c, pk) // no unexported field is read without a writer (a cache flag never set, a saved value never saved)
	info := pk.TypesInfo
	c.Trust("golang.org/x/tools@v0.29.0 go/cfg", "Go select/close semantics")
	feeder := prog.NamedType("./x/fakenet", "connFeeder")
	conn := prog.NamedType("./x/fakenet", "fakeConn")
	if feeder == nil || conn == nil {
		return
	}
	fInput, fResult, fDone, fMu, fClosed, fSource := fieldVar(feeder, "input"), fieldVar(feeder, "result"), fieldVar(feeder, "done"), fieldVar(feeder, "mu"), fieldVar(feeder, "closed"), fieldVar(feeder, "source")
	if fInput == nil || fResult == nil || fDone == nil || fMu == nil || fClosed == nil || fSource == nil {
		c.Bad("anchor", "connFeeder fields", feeder.Obj().Pos(), "anchor fields input/result/done/mu/closed/source not all found")
		return
	}
	fieldOf := func(e ast.Expr) *types.Var {
		sel, ok := ast.Unparen(e).(*ast.SelectorExpr)
		if !ok {
			return nil
		}
		if s := info.Selections[sel]; s != nil {
			v, _ := s.Obj().(*types.Var)
			return v
		}
		return nil
	}
	isChan := func(e ast.Expr) bool {
		t := info.TypeOf(e)
		if t == nil {
			return false
		}
		_, ok := types.Unalias(t).Underlying().(*types.Chan)
		return ok
	}
	ioEOF := func(e ast.Expr) bool {
		sel, ok := ast.Unparen(e).(*ast.SelectorExpr)
		if !ok {
			return false
		}
		o := info.Uses[sel.Sel]
		return o != nil && o.Pkg() != nil && o.Pkg().Path() == "io" && o.Name() == "EOF"
	}

	// ---- (1) channel-operation census
	c.Floor("chan-select", 4)
	nops := 0
	for _, fd := range core.AllFuncDecls(pk) {
		par := parentMap(fd)
		fname := core.FuncName(fd)
		ast.Inspect(fd.Body, func(n ast.Node) bool {
			var ch ast.Expr
			switch x := n.(type) {
			case *ast.SendStmt:
				ch = x.Chan
			case *ast.UnaryExpr:
				if x.Op == token.ARROW {
					ch = x.X
				}
			case *ast.RangeStmt:
				if isChan(x.X) {
					c.Bad("chan-select", fname+":range", x.Pos(), "ranging over a channel blocks without observing done")
				}
			}
			if ch == nil || !isChan(ch) {
				return true
			}
			nops++
			fv := fieldOf(ch)
			label := "?"
			if fv != nil {
				label = fv.Name()
			}
			// climb to the comm clause
			var cc *ast.CommClause
			for p := par[n]; p != nil; p = par[p] {
				if x, ok := p.(*ast.CommClause); ok {
					// n must be inside the Comm statement, not the body
					if x.Comm != nil && x.Comm.Pos() <= n.Pos() && n.End() <= x.Comm.End() {
						cc = x
					}
					break
				}
				if _, ok := p.(ast.Stmt); ok {
					if _, isAssign := p.(*ast.AssignStmt); !isAssign {
						if _, isExpr := p.(*ast.ExprStmt); !isExpr {
							break
						}
					}
				}
			}
			if fv == fDone {
				// receiving from done is never blocking after close; outside a select it would block before close
				if cc == nil {
					c.Bad("chan-select", fname+":done", n.Pos(), "a bare receive from done blocks until Close")
				}
				return true
			}
			if cc == nil {
				c.Bad("chan-select", fname+":"+label, n.Pos(), "channel operation outside a select: it blocks forever once the peer goroutine has left because done was closed (pending Read/Write never returns after Close)")
				return true
			}
			sel, _ := par[par[cc]].(*ast.SelectStmt)
			hasDone, hasDefault := false, false
			if sel != nil {
				for _, s := range sel.Body.List {
					oc := s.(*ast.CommClause)
					if oc.Comm == nil {
						hasDefault = true
						continue
					}
					ast.Inspect(oc.Comm, func(m ast.Node) bool {
						if u, ok := m.(*ast.UnaryExpr); ok && u.Op == token.ARROW && fieldOf(u.X) == fDone {
							hasDone = true
						}
						return true
					})
				}
			}
			c.Decide(hasDone || hasDefault, "chan-select", fname+":"+label, n.Pos(), "select arm with a sibling <-done arm",
				"the select containing this channel operation has no <-done arm: the operation cannot be aborted by Close")
			return true
		})
	}
	c.Analysed("channel_operations", nops)

	// ---- (2) done arms
	checkDoneArms := func(name string, wantErr bool) {
		fd := prog.FuncDecl("./x/fakenet", name)
		if fd == nil {
			return
		}
		n, good := 0, true
		var bad token.Pos
		ast.Inspect(fd.Body, func(m ast.Node) bool {
			cc, ok := m.(*ast.CommClause)
			if !ok || cc.Comm == nil {
				return true
			}
			isDone := false
			ast.Inspect(cc.Comm, func(k ast.Node) bool {
				if u, ok := k.(*ast.UnaryExpr); ok && u.Op == token.ARROW && fieldOf(u.X) == fDone {
					isDone = true
				}
				return true
			})
			if !isDone {
				return true
			}
			n++
			armOK := false
			if len(cc.Body) > 0 {
				if r, ok := cc.Body[len(cc.Body)-1].(*ast.ReturnStmt); ok {
					if !wantErr {
						armOK = true
					} else if len(r.Results) >= 1 && ioEOF(r.Results[len(r.Results)-1]) {
						armOK = true
					}
				}
			}
			if !armOK {
				good = false
				bad = cc.Pos()
			}
			return true
		})
		if n == 0 {
			c.Bad("done-arm", name, fd.Pos(), "no <-done arm found")
			return
		}
		msg := "a <-done arm does not end in `return …, io.EOF`: a Read/Write interrupted by Close would report success or hang"
		if !wantErr {
			msg = "a <-done arm of the worker does not return: the feeder goroutine keeps running after Close"
		}
		c.Decide(good, "done-arm", name, bad, core.Sprintf("%d done arms all return (with io.EOF where an error is expected)", n), msg)
	}
	checkDoneArms("connFeeder.do", true)
	checkDoneArms("connFeeder.run", false)

	// ---- (3) close-once
	spec := &lockSpec{pk: pk, mutex: fMu, guarded: map[*types.Var]string{fClosed: "closed"}}
	const (
		bNotClosed flow.State = 1 << iota // !closed established in this critical section
		bSetClosed
		bDidClose
		bBadClose
	)
	closeFns := map[*ast.FuncDecl]token.Pos{}
	extra := func(fd *ast.FuncDecl, n ast.Node, st flow.State, record bool) flow.State {
		if _, isDefer := n.(*ast.DeferStmt); isDefer {
			return st
		}
		for _, call := range flow.Calls(n) {
			if spec.mutexOp(call) == "unlock" {
				if st&bDidClose != 0 && st&bSetClosed == 0 {
					st |= bBadClose
				}
				st &^= bNotClosed
			}
			if id, ok := call.Fun.(*ast.Ident); ok && id.Name == "close" && len(call.Args) == 1 {
				if _, isB := info.Uses[id].(*types.Builtin); isB {
					if record {
						closeFns[fd] = call.Pos()
					}
					if fieldOf(call.Args[0]) != fDone || st&lkHeld == 0 || st&bNotClosed == 0 || st&bDidClose != 0 {
						st |= bBadClose
					}
					st |= bDidClose
				}
			}
		}
		if as, ok := n.(*ast.AssignStmt); ok {
			for i, l := range as.Lhs {
				if fieldOf(l) == fClosed && i < len(as.Rhs) {
					if id, ok := ast.Unparen(as.Rhs[i]).(*ast.Ident); ok && id.Name == "true" && st&lkHeld != 0 {
						st |= bSetClosed
					} else {
						st |= bBadClose // closed reset to false or set outside the lock
					}
				}
			}
		}
		return st
	}
	edge := func(fd *ast.FuncDecl, cond ast.Expr, truth bool, st flow.State) (flow.State, bool) {
		e := ast.Unparen(cond)
		neg := false
		if u, ok := e.(*ast.UnaryExpr); ok && u.Op == token.NOT {
			neg = true
			e = ast.Unparen(u.X)
		}
		if fieldOf(e) != fClosed {
			return st, true
		}
		closedIsFalse := truth == neg
		if closedIsFalse && st&lkHeld != 0 {
			return st | bNotClosed, true
		}
		return st, true
	}
	exitsByFn := map[*ast.FuncDecl][]flow.Exit{}
	rep := spec.analyse(c, extra, edge, func(fd *ast.FuncDecl, ex []flow.Exit) { exitsByFn[fd] = ex })
	if len(closeFns) == 0 {
		c.Bad("close-once", "connFeeder.close", feeder.Obj().Pos(), "no close(done) anywhere: Close cannot unblock pending I/O")
	}
	for fd, pos := range closeFns {
		bad := false
		for _, e := range exitsByFn[fd] {
			if e.State&bBadClose != 0 || (e.State&bDidClose != 0 && e.State&bSetClosed == 0) {
				bad = true
			}
		}
		name := core.FuncName(fd)
		c.Decide(!bad && name == "connFeeder.close", "close-once", name, pos, "close(done) under mu, dominated by !closed, closed=true set before the unlock",
			"close(…) must be close(f.done) executed under f.mu, only when !f.closed was established in the same critical section, with f.closed = true before the unlock, and only in connFeeder.close: otherwise a second Close panics (close of closed channel) or Close has no effect")
	}
	for _, u := range rep.unguarded {
		c.Bad("guarded-by", core.FuncName(u.fn)+":"+u.name, u.sel.Pos(), "connFeeder.closed is accessed without connFeeder.mu")
	}
	if len(rep.unguarded) == 0 {
		c.Ok("guarded-by", "connFeeder.closed", feeder.Obj().Pos(), core.Sprintf("%d accesses, all under mu", rep.accesses))
	}
	for fd, ex := range exitsByFn {
		for _, e := range ex {
			if e.State&lkHeld != 0 && e.State&lkDefer == 0 {
				c.Bad("lock-release", core.FuncName(fd), e.Pos, "exit with connFeeder.mu held")
			}
		}
	}

	// ---- (4) fakeConn.Close
	if cfd := prog.FuncDecl("./x/fakenet", "fakeConn.Close"); cfd != nil {
		fReader, fWriter := fieldVar(conn, "reader"), fieldVar(conn, "writer")
		closeObj := findMethod(feeder, "close")
		const (
			bR flow.State = 1 << iota
			bW
			bStreamEarly
		)
		p := &flow.Problem{Body: cfd.Body, Info: info}
		p.Node = func(n ast.Node, st flow.State, record bool) flow.State {
			if _, isDefer := n.(*ast.DeferStmt); isDefer {
				return st
			}
			for _, call := range flow.Calls(n) {
				sel, ok := ast.Unparen(call.Fun).(*ast.SelectorExpr)
				if !ok {
					continue
				}
				if calleeObj(info, call) == closeObj && closeObj != nil {
					switch fieldOf(sel.X) {
					case fReader:
						st |= bR
					case fWriter:
						st |= bW
					}
				} else if sel.Sel.Name == "Close" && st&(bR|bW) != bR|bW {
					st |= bStreamEarly
				}
			}
			return st
		}
		res := flow.Solve(p)
		both, early := true, false
		for _, e := range res.Exits {
			if e.State&(bR|bW) != bR|bW {
				both = false
			}
			if e.State&bStreamEarly != 0 {
				early = true
			}
		}
		c.Decide(both && len(res.Exits) > 0, "conn-close", "both-feeders", cfd.Pos(), "reader.close() and writer.close() on every path", "fakeConn.Close does not close both feeders on every path: pending Read or Write is never unblocked")
		c.Decide(!early, "conn-close", "feeders-before-streams", cfd.Pos(), "", "a stream is closed before both feeders are: a pending call sees the stream's error instead of io.EOF")
	}

	// ---- (5) data origin in run / do
	if rfd := prog.FuncDecl("./x/fakenet", "connFeeder.run"); rfd != nil {
		// variable received from input
		var recvVar types.Object
		ast.Inspect(rfd.Body, func(n ast.Node) bool {
			if as, ok := n.(*ast.AssignStmt); ok && len(as.Lhs) == 1 && len(as.Rhs) == 1 {
				if u, ok := ast.Unparen(as.Rhs[0]).(*ast.UnaryExpr); ok && u.Op == token.ARROW && fieldOf(u.X) == fInput {
					recvVar = identObj(info, as.Lhs[0])
				}
			}
			return true
		})
		var srcCall *ast.CallExpr
		var nVar, eVar types.Object
		ast.Inspect(rfd.Body, func(n ast.Node) bool {
			if as, ok := n.(*ast.AssignStmt); ok && len(as.Rhs) == 1 {
				if call, ok := ast.Unparen(as.Rhs[0]).(*ast.CallExpr); ok && fieldOf(call.Fun) == fSource {
					srcCall = call
					if len(as.Lhs) == 2 {
						nVar, eVar = identObj(info, as.Lhs[0]), identObj(info, as.Lhs[1])
					}
				}
			}
			return true
		})
		otherAssign := func(o types.Object) bool { // assigned anywhere else than its defining statement?
			cnt := 0
			ast.Inspect(rfd.Body, func(n ast.Node) bool {
				if _, isDecl := n.(*ast.DeclStmt); isDecl {
					return false // `var b []byte` declares, it does not produce a second value
				}
				for _, v := range flow.AssignedVars(n, info) {
					if v == o {
						cnt++
					}
				}
				return true
			})
			return cnt > 1
		}
		argOK := srcCall != nil && recvVar != nil && len(srcCall.Args) == 1 && identObj(info, srcCall.Args[0]) == recvVar && !otherAssign(recvVar)
		var pos token.Pos = rfd.Pos()
		if srcCall != nil {
			pos = srcCall.Pos()
		}
		c.Decide(argOK, "data-origin", "connFeeder.run:source-arg", pos, "source is called with exactly the slice received from input", "the slice passed to the underlying Read/Write is not exactly the one received from input (data modified or wrong buffer)")
		resOK := false
		var rpos token.Pos = rfd.Pos()
		ast.Inspect(rfd.Body, func(n ast.Node) bool {
			if s, ok := n.(*ast.SendStmt); ok && fieldOf(s.Chan) == fResult {
				rpos = s.Pos()
				if cl, ok := ast.Unparen(s.Value).(*ast.CompositeLit); ok {
					got := map[string]types.Object{}
					for i, el := range cl.Elts {
						if kv, ok := el.(*ast.KeyValueExpr); ok {
							if k, ok := kv.Key.(*ast.Ident); ok {
								got[k.Name] = identObj(info, kv.Value)
							}
						} else if i == 0 {
							got["n"] = identObj(info, el)
						} else if i == 1 {
							got["err"] = identObj(info, el)
						}
					}
					resOK = nVar != nil && eVar != nil && got["n"] == nVar && got["err"] == eVar && !otherAssign(nVar) && !otherAssign(eVar)
				}
			}
			return true
		})
		c.Decide(resOK, "data-origin", "connFeeder.run:result", rpos, "the result sent back is exactly (n, err) returned by source", "the result sent to the requester is not exactly the (n, err) pair returned by the underlying Read/Write")
	}
	if dfd := prog.FuncDecl("./x/fakenet", "connFeeder.do"); dfd != nil {
		param := paramObj(dfd, info, 0)
		sendOK, retOK := false, false
		var rVar types.Object
		ast.Inspect(dfd.Body, func(n ast.Node) bool {
			switch x := n.(type) {
			case *ast.SendStmt:
				if fieldOf(x.Chan) == fInput && identObj(info, x.Value) == param && param != nil {
					sendOK = true
				}
			case *ast.CommClause:
				if as, ok := x.Comm.(*ast.AssignStmt); ok && len(as.Lhs) == 1 && len(as.Rhs) == 1 {
					if u, ok := ast.Unparen(as.Rhs[0]).(*ast.UnaryExpr); ok && u.Op == token.ARROW && fieldOf(u.X) == fResult {
						rVar = identObj(info, as.Lhs[0])
						if len(x.Body) > 0 {
							if r, ok := x.Body[len(x.Body)-1].(*ast.ReturnStmt); ok && len(r.Results) == 2 {
								s0, ok0 := ast.Unparen(r.Results[0]).(*ast.SelectorExpr)
								s1, ok1 := ast.Unparen(r.Results[1]).(*ast.SelectorExpr)
								if ok0 && ok1 && identObj(info, s0.X) == rVar && identObj(info, s1.X) == rVar && s0.Sel.Name == "n" && s1.Sel.Name == "err" {
									retOK = true
								}
							}
						}
					}
				}
			}
			return true
		})
		c.Decide(sendOK, "data-origin", "connFeeder.do:request", dfd.Pos(), "do sends its own argument", "do does not send exactly its argument slice to the worker")
		c.Decide(retOK, "data-origin", "connFeeder.do:result", dfd.Pos(), "do returns the received (n, err)", "do does not return exactly the (n, err) received from the worker")
	}

	// ---- (6) unbuffered channels, goroutines
	for _, f := range []*types.Var{fInput, fResult} {
		sites := fieldStores(prog.Root, f)
		ok := len(sites) > 0
		var pos token.Pos
		for _, s := range sites {
			pos = s.Pos
			call, isCall := ast.Unparen(s.Value).(*ast.CallExpr)
			if !isCall {
				ok = false
				continue
			}
			id, isId := call.Fun.(*ast.Ident)
			if !isId || id.Name != "make" || len(call.Args) > 2 {
				ok = false
				continue
			}
			if len(call.Args) == 2 {
				tv := info.Types[call.Args[1]]
				if tv.Value == nil || tv.Value.String() != "0" {
					ok = false
				}
			}
		}
		c.Decide(ok, "unbuffered", f.Name(), pos, "created by make(chan T) without capacity", "the feeder channel is buffered (or not created by make): a request/result could be queued past Close and ordering/hand-off is no longer one-at-a-time")
	}
	nGo := map[string]int{}
	var goPos token.Pos
	otherGo := false
	runObj := findMethod(feeder, "run")
	for _, fd := range core.AllFuncDecls(pk) {
		ast.Inspect(fd.Body, func(n ast.Node) bool {
			g, ok := n.(*ast.GoStmt)
			if !ok {
				return true
			}
			goPos = g.Pos()
			if calleeObj(info, g.Call) == runObj && runObj != nil && core.FuncName(fd) == "NewConn" {
				if sel, ok := g.Call.Fun.(*ast.SelectorExpr); ok {
					if fv := fieldOf(sel.X); fv != nil {
						nGo[fv.Name()]++
						return true
					}
				}
			}
			otherGo = true
			return true
		})
	}
	c.Decide(!otherGo && nGo["reader"] == 1 && nGo["writer"] == 1 && len(nGo) == 2, "goroutines", "NewConn", goPos, "exactly one run goroutine per feeder",
		"NewConn must start exactly one run goroutine for the reader feeder and one for the writer feeder (two workers on one feeder reorder data; none means every call blocks)")
}

func findMethod(n *types.Named, name string) types.Object {
	for i := 0; i < n.NumMethods(); i++ {
		if n.Method(i).Name() == name {
			return n.Method(i)
		}
	}
	return nil
}
