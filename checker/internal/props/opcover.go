package props

import (
	"go/ast"
	"go/token"
	"go/types"
	"sort"
	"strings"

	"golang.org/x/tools/go/packages"

	"verif/checker/internal/core"
	"verif/checker/internal/flow"
)

// Operand coverage (a contradiction rule in the sense of Engler et al.): a lowering routine that hands an
// optional operand of its node (`v.Key`, `v.Init`, `v.Else` ... — a pointer- or interface-typed field) to some
// routine on one path believes that operand matters; then on EVERY path to a normal exit the operand is either
// handed on (any mention outside a nil comparison counts) or known to be nil (the path went through the nil side of
// a `v.F == nil` / `v.F != nil` test). A path on which the operand may be present and is silently skipped drops
// that part of the user's program: `for k = range m` compiled as `for range m`.
//
// What this decides: presence of every optional operand on every path of the routine. It does not decide that the
// operand is lowered correctly, only that it is not forgotten.

type opCoverFinding struct {
	Field string
	Pos   token.Pos
}

// opCoverReviewed: (routine.Field) pairs where a path legitimately leaves the operand unmentioned, reviewed.
var opCoverReviewed = map[string]string{
	"compileErrWrapExpr.Default": "the `expr!` path: the parser sets Default only for `expr?:default` (Tok is QUESTION there), so Tok == NOT implies Default == nil; the routine tests Tok first",
	"compileType.Type":           "`type _ T` inside a function declares nothing: the type expression of a blank type has no effect on a valid program (Go only type-checks it)",
	"loadFunc.Body":              "the genBody == false path: the caller asked for the declaration only (Config.Outline, or a Go file that is only skimmed for its declarations; genFnBody in preloadFile); bodies are not lowered at all in that mode",
	"compileRangeStmt.Value":     "the `for k <- lo:hi` path: an XGo range expression yields one variable; a second one is never declared, so any use of it is reported as undefined (no Go counterpart exists for this form)",
	"compileSliceExpr.Max":       "Max is present only in a 3-index slice (the parser sets Slice3 together with Max); the routine tests Slice3",
	"loadConsts.Type":            "the implicit-repetition path (no values): Go rejects a typed constant without an initialiser, so no valid Go program reaches it with a type",
	"toFuncType.TypeParams":      "the method path: Go forbids type parameters on methods; the receiver's own parameters are taken from the receiver type instead",
}

// opCover analyses one routine; it returns the optional fields it tracked and those skipped on some path.
func opCover(pk *packages.Package, fd *ast.FuncDecl) (tracked []string, skipped []opCoverFinding) {
	info := pk.TypesInfo
	if fd.Body == nil {
		return nil, nil
	}
	var node types.Object
	var nodeT *types.Struct
	for i := 0; i < 6; i++ {
		p := paramObj(fd, info, i)
		if p == nil {
			continue
		}
		if pt, ok := p.Type().(*types.Pointer); ok {
			if nt := namedOf(pt.Elem()); nt != nil && nt.Obj().Pkg() != nil && strings.HasSuffix(nt.Obj().Pkg().Path(), "/ast") {
				if st, ok := nt.Underlying().(*types.Struct); ok {
					node, nodeT = p, st
					break
				}
			}
		}
	}
	if node == nil {
		return nil, nil
	}
	// cl passes the node itself to gogen only as the source position of the generated code: that hands no operand on
	return opCoverBody(pk, fd.Body, node, nodeT, false, func(fn *types.Func) bool {
		// e.g. the callee expression handed to an error-message helper is not being lowered
		return hasAnyPrefix(fn.Name(), "compile", "to", "load")
	}, "handleErr", "handleErrorf")
}

// opCoverBody is the analysis proper: body is a function body or the body of one case of a type switch, node the
// variable holding the syntax node, lowers says which callees of the package count as handing the operand on, and
// errCalls name the package's error reporters (a path through one rejects the program).
func opCoverBody(pk *packages.Package, body *ast.BlockStmt, node types.Object, nodeT *types.Struct, wholeNode bool, lowers func(*types.Func) bool, errCalls ...string) (tracked []string, skipped []opCoverFinding) {
	info := pk.TypesInfo
	optional := map[string]bool{}
	for i := 0; i < nodeT.NumFields(); i++ {
		f := nodeT.Field(i)
		if f.Embedded() || !isASTNodeType(f.Type()) {
			continue // *ast.Object links, embedded parts and plain data are not operands
		}
		switch f.Type().Underlying().(type) {
		case *types.Pointer, *types.Interface:
			optional[f.Name()] = true
		}
	}
	// field mention = selector on the node parameter; nil comparisons are tests, not uses
	// `e := v.Else` makes e stand for the operand: the definition is not a use, a nil test of e is a nil test of the operand
	alias := map[types.Object]string{}
	aliasDef := map[*ast.AssignStmt]bool{}
	fieldOf := func(e ast.Expr) string {
		if id, ok := ast.Unparen(e).(*ast.Ident); ok {
			if o := info.Uses[id]; o != nil {
				return alias[o]
			}
			return ""
		}
		sel, ok := ast.Unparen(e).(*ast.SelectorExpr)
		if !ok || identObj(info, sel.X) != node || !optional[sel.Sel.Name] {
			return ""
		}
		return sel.Sel.Name
	}
	ast.Inspect(body, func(n ast.Node) bool {
		if as, ok := n.(*ast.AssignStmt); ok && as.Tok == token.DEFINE && len(as.Lhs) == 1 && len(as.Rhs) == 1 {
			if id, ok := as.Lhs[0].(*ast.Ident); ok {
				if f := fieldOf(as.Rhs[0]); f != "" && info.Defs[id] != nil {
					if _, isSel := ast.Unparen(as.Rhs[0]).(*ast.SelectorExpr); isSel {
						alias[info.Defs[id]] = f
						aliasDef[as] = true
					}
				}
			}
		}
		return true
	})
	mentions := func(n ast.Node) []string {
		var out []string
		var walk func(n ast.Node)
		walk = func(n ast.Node) {
			ast.Inspect(n, func(m ast.Node) bool {
				switch x := m.(type) {
				case *ast.AssignStmt:
					if aliasDef[x] {
						return false
					}
				case *ast.BinaryExpr:
					if e, _, ok := flow.NilTest(x); ok && fieldOf(e) != "" {
						return false
					}
				case *ast.Ident:
					if f := fieldOf(x); f != "" {
						out = append(out, f)
					} else if wholeNode && info.Uses[x] == node {
						out = append(out, "*") // the node itself is handed on (p.expr(x)): every operand goes with it
					}
				case *ast.SelectorExpr:
					if f := fieldOf(x); f != "" {
						out = append(out, f)
						return false
					}
					if identObj(info, x.X) == node {
						return false // another field or a method of the node: not the node itself
					}
				}
				return true
			})
		}
		walk(n)
		return out
	}
	// tracked: the operands the routine itself hands to a lowering routine of this package on some path
	used := map[string]bool{}
	ast.Inspect(body, func(n ast.Node) bool {
		call, ok := n.(*ast.CallExpr)
		if !ok {
			return true
		}
		fn, ok := calleeObj(info, call).(*types.Func)
		if !ok || fn.Pkg() != pk.Types || !lowers(fn) {
			return true
		}
		for _, a := range call.Args {
			for _, f := range mentions(a) {
				if f != "*" {
					used[f] = true
				}
			}
		}
		return true
	})
	for f := range used {
		tracked = append(tracked, f)
	}
	sort.Strings(tracked)
	if len(tracked) == 0 || len(tracked) > 20 {
		return tracked, nil
	}
	idx := map[string]uint{}
	for i, f := range tracked {
		idx[f] = uint(i) * 3
	}
	const (
		kUsed   = 1
		kNil    = 2
		kNonNil = 4
	)
	p := &flow.Problem{Body: body, Info: info}
	const kErr flow.State = 1 << 63 // the path reported a compile error (handleErr/handleErrorf): the program is rejected
	p.Node = func(n ast.Node, st flow.State, record bool) flow.State {
		for _, call := range flow.Calls(n) {
			if fn, ok := calleeObj(info, call).(*types.Func); ok && fn.Pkg() == pk.Types && isOneOf(fn.Name(), errCalls) {
				st |= kErr
			}
		}
		for _, f := range mentions(n) {
			if i, isTracked := idx[f]; isTracked {
				st |= kUsed << i
			} else if f == "*" {
				for _, i := range idx {
					st |= kUsed << i
				}
			}
		}
		return st
	}
	p.Edge = func(cond ast.Expr, truth bool, st flow.State) (flow.State, bool) {
		e, nonNilOnTrue, ok := flow.NilTest(cond)
		if !ok {
			return st, true
		}
		f := fieldOf(e)
		if _, isTracked := idx[f]; f == "" || !isTracked {
			return st, true
		}
		nonNil := nonNilOnTrue == truth
		if nonNil {
			if st&(kNil<<idx[f]) != 0 {
				return st, false
			}
			return st | kNonNil<<idx[f], true
		}
		if st&(kNonNil<<idx[f]) != 0 {
			return st, false
		}
		return st | kNil<<idx[f], true
	}
	res := flow.Solve(p)
	bad := map[string]token.Pos{}
	for _, ex := range res.Exits {
		if isErrorReturn(info, ex.Ret) || ex.State&kErr != 0 {
			continue // the program is rejected on this path: nothing is dropped silently
		}
		for _, f := range tracked {
			if ex.State&((kUsed|kNil)<<idx[f]) == 0 {
				if _, seen := bad[f]; !seen {
					bad[f] = ex.Pos
				}
			}
		}
	}
	for _, f := range tracked {
		if pos, isBad := bad[f]; isBad {
			skipped = append(skipped, opCoverFinding{f, pos})
		}
	}
	return tracked, skipped
}

// opCoverRule applies the rule to every routine of the package whose name starts with one of the prefixes.
func opCoverRule(c *core.Check, pk *packages.Package, rule string, prefixes ...string) (routines, operands int) {
	for _, fd := range core.AllFuncDecls(pk) {
		name := core.FuncName(fd)
		match := false
		for _, p := range prefixes {
			if strings.HasPrefix(fd.Name.Name, p) {
				match = true
			}
		}
		if !match {
			continue
		}
		tracked, skipped := opCover(pk, fd)
		if len(tracked) == 0 {
			continue
		}
		routines++
		isSkipped := map[string]token.Pos{}
		for _, s := range skipped {
			isSkipped[s.Field] = s.Pos
		}
		for _, f := range tracked {
			operands++
			key := name + "." + f
			pos, bad := isSkipped[f]
			if why, ok := opCoverReviewed[key]; ok {
				if bad {
					c.Note(rule, key, pos, "reviewed: "+why)
				} else {
					c.Bad(rule, key, fd.Pos(), "listed as a reviewed exception but the routine now covers the operand on every path: remove the stale entry")
				}
				continue
			}
			at := fd.Pos()
			if bad {
				at = pos
			}
			c.Decide(!bad, rule, key, at, "on every path to a normal exit the operand "+f+" is handed on or known to be nil",
				name+" reaches the exit at "+c.Rel(pos)+" on a path where the node's "+f+" may be present but is never lowered (it is lowered on other paths): that part of the user's program is silently dropped")
		}
	}
	return
}

// isASTNodeType: the type (or its pointee) has a Pos() method, i.e. it is a syntax node.
func isASTNodeType(t types.Type) bool {
	for _, name := range []string{"Pos", "End"} {
		obj, _, _ := types.LookupFieldOrMethod(t, true, nil, name)
		if _, ok := obj.(*types.Func); !ok {
			return false
		}
	}
	return true
}

// isErrorReturn: the return statement yields an error value that is not the literal nil.
func isErrorReturn(info *types.Info, ret *ast.ReturnStmt) bool {
	if ret == nil {
		return false
	}
	for _, r := range ret.Results {
		if id, ok := ast.Unparen(r).(*ast.Ident); ok && id.Name == "nil" {
			continue
		}
		if t := info.TypeOf(r); t != nil && types.Identical(t, types.Universe.Lookup("error").Type()) {
			return true
		}
	}
	return false
}

func hasAnyPrefix(s string, prefixes ...string) bool {
	for _, p := range prefixes {
		if strings.HasPrefix(s, p) {
			return true
		}
	}
	return false
}

func isOneOf(s string, list []string) bool {
	for _, l := range list {
		if s == l {
			return true
		}
	}
	return false
}

// opCoverCases applies the rule to every single-type case of every `switch x := n.(type)` over syntax nodes in the
// package's functions selected by pick: the clause body is the routine, x the node. Keys are <func>:<NodeType>.<Field>.
func opCoverCases(c *core.Check, pk *packages.Package, rule string, pick func(*ast.FuncDecl) bool, reviewed map[string]string, errCalls ...string) (clauses, operands int) {
	info := pk.TypesInfo
	seenReviewed := map[string]bool{}
	for _, fd := range core.AllFuncDecls(pk) {
		if fd.Body == nil || !pick(fd) {
			continue
		}
		fname := core.FuncName(fd)
		ast.Inspect(fd.Body, func(n ast.Node) bool {
			ts, ok := n.(*ast.TypeSwitchStmt)
			if !ok {
				return true
			}
			if _, isAssign := ts.Assign.(*ast.AssignStmt); !isAssign {
				return true
			}
			for _, s := range ts.Body.List {
				cc := s.(*ast.CaseClause)
				if len(cc.List) != 1 {
					continue
				}
				obj := info.Implicits[cc]
				if obj == nil {
					continue
				}
				pt, ok := obj.Type().(*types.Pointer)
				if !ok {
					continue
				}
				nt := namedOf(pt.Elem())
				if nt == nil || nt.Obj().Pkg() == nil || !strings.HasSuffix(nt.Obj().Pkg().Path(), "/ast") {
					continue
				}
				st, ok := nt.Underlying().(*types.Struct)
				if !ok {
					continue
				}
				tracked, skipped := opCoverBody(pk, &ast.BlockStmt{Lbrace: cc.Colon, List: cc.Body, Rbrace: cc.End()}, obj, st, true, func(*types.Func) bool { return true }, errCalls...)
				if len(tracked) == 0 {
					continue
				}
				clauses++
				isSkipped := map[string]token.Pos{}
				for _, s := range skipped {
					isSkipped[s.Field] = s.Pos
				}
				for _, f := range tracked {
					operands++
					key := fname + ":" + nt.Obj().Name() + "." + f
					pos, bad := isSkipped[f]
					if why, ok := reviewed[key]; ok {
						seenReviewed[key] = true
						if bad {
							c.Note(rule, key, pos, "reviewed: "+why)
						} else {
							c.Bad(rule, key, cc.Pos(), "listed as a reviewed exception but the case now covers the operand on every path: remove the stale entry")
						}
						continue
					}
					at := cc.Pos()
					if bad {
						at = pos
					}
					c.Decide(!bad, rule, key, at, "on every path through the case the operand "+f+" is handed on or known to be nil",
						fname+", case *ast."+nt.Obj().Name()+": the path leaving at "+c.Rel(pos)+" may carry a "+f+" but never hands it on (other paths of the same case do): that part of the tree is silently dropped")
				}
			}
			return true
		})
	}
	return
}
