package props

import (
	"go/ast"
	"go/constant"
	"go/token"
	"go/types"
	"reflect"
	"sort"

	"golang.org/x/tools/go/packages"
)

// Operator trie extraction (K2): a small abstract interpreter over the `switch ch { case 'x': … }` of a
// Go-derived Scan function. For every operator arm it enumerates the spellings the arm can consume and the
// token each one yields, understanding exactly the idioms these scanners use:
//   tok = token.X                      s.next()
//   tok = s.switchN(…)                 (expanded from the helpers' well-known shape, which is clone-checked)
//   if s.ch == 'c' [&& s.peek() == 'd'] { … } else { … }
//   if tok == token.X { insertSemi = true }
//   insertSemi = true | <expr>         s.nParen++ / --
// Anything else makes the arm "special" (literals, comments, EOF/newline handling) — reported, not guessed.

type trieEntry struct {
	Tok        string // token constant name
	InsertSemi string // "yes" | "no" | "cond"
}

type scanTrie struct {
	Ops     map[string]trieEntry // spelling -> token
	Special map[string]bool      // first characters of arms that are not pure operator arms
	Unknown []string             // arms the interpreter could not understand
	ArmPos  map[string]token.Pos
}

type trieState struct {
	prefix string
	tok    string
	semi   string
}

type trieInterp struct {
	info       *types.Info
	sw         map[string]int // helper name -> arity kind (2,3,4)
	failed     bool
	semiTk     map[string]string // token-conditional insertSemi
	commentArm bool
}

// charLit returns the rune value of a constant expression.
func charLit(info *types.Info, e ast.Expr) (rune, bool) {
	if tv, ok := info.Types[e]; ok && tv.Value != nil && tv.Value.Kind() == constant.Int {
		v, ok := constant.Int64Val(tv.Value)
		return rune(v), ok
	}
	return 0, false
}

// extractTrie finds the operator switch of fd (the switch whose tag is a local named like the scanned character).
func extractTrie(pk *packages.Package, fd *ast.FuncDecl) *scanTrie {
	info := pk.TypesInfo
	var sw *ast.SwitchStmt
	ast.Inspect(fd.Body, func(n ast.Node) bool {
		s, ok := n.(*ast.SwitchStmt)
		if !ok || s.Tag == nil {
			return true
		}
		// the operator switch: tag is an identifier and most case labels are character constants
		if _, ok := s.Tag.(*ast.Ident); !ok {
			return true
		}
		nchar := 0
		for _, c := range s.Body.List {
			for _, e := range c.(*ast.CaseClause).List {
				if _, ok := charLit(info, e); ok {
					nchar++
				}
			}
		}
		if nchar >= 15 && sw == nil {
			sw = s
		}
		return true
	})
	if sw == nil {
		return nil
	}
	tr := &scanTrie{Ops: map[string]trieEntry{}, Special: map[string]bool{}, ArmPos: map[string]token.Pos{}}
	for _, c := range sw.Body.List {
		cc := c.(*ast.CaseClause)
		for _, e := range cc.List {
			r, ok := charLit(info, e)
			if !ok {
				continue
			}
			first := string(r)
			if r < 0 {
				first = "EOF"
			}
			tr.ArmPos[first] = cc.Pos()
			ti := &trieInterp{info: info, semiTk: map[string]string{}}
			outs := ti.block(cc.Body, []trieState{{prefix: first, semi: "no"}})
			if ti.commentArm {
				tr.Special[first] = true // also opens comments
			}
			if ti.failed || r < 0 {
				tr.Special[first] = true
				continue
			}
			pure := true
			for _, o := range outs {
				if o.tok == "" {
					pure = false
				}
			}
			if !pure || len(outs) == 0 {
				tr.Special[first] = true
				continue
			}
			for _, o := range outs {
				semi := o.semi
				if v, ok := ti.semiTk[o.tok]; ok {
					semi = v
				}
				if old, dup := tr.Ops[o.prefix]; dup && old.Tok != o.tok {
					tr.Unknown = append(tr.Unknown, o.prefix)
				}
				tr.Ops[o.prefix] = trieEntry{Tok: o.tok, InsertSemi: semi}
			}
		}
	}
	sort.Strings(tr.Unknown)
	return tr
}

func (ti *trieInterp) tokName(e ast.Expr) string {
	if k := constOf(ti.info, e); k != nil && k.Pkg() != nil {
		if nt, ok := types.Unalias(k.Type()).(*types.Named); ok && nt.Obj().Name() == "Token" {
			return k.Name()
		}
		// tpl/token declares its single-character tokens as untyped rune constants (ADD = '+')
		if k.Pkg().Name() == "token" && k.Exported() {
			return k.Name()
		}
	}
	return ""
}

// block interprets a statement list for every incoming state.
func (ti *trieInterp) block(list []ast.Stmt, in []trieState) []trieState {
	cur := in
	for _, s := range list {
		cur = ti.stmt(s, cur)
		if ti.failed {
			return nil
		}
	}
	return cur
}

func (ti *trieInterp) stmt(s ast.Stmt, in []trieState) []trieState {
	switch x := s.(type) {
	case *ast.AssignStmt:
		if len(x.Lhs) != 1 || len(x.Rhs) != 1 {
			ti.failed = true
			return nil
		}
		lhsName := ""
		switch l := x.Lhs[0].(type) {
		case *ast.Ident:
			lhsName = l.Name
		case *ast.SelectorExpr: // t.Tok / t.Lit of a result struct (TPL scanner)
			if _, isLocal := l.X.(*ast.Ident); isLocal && (l.Sel.Name == "Tok" || l.Sel.Name == "Lit") {
				if v, ok := ti.info.Uses[l.X.(*ast.Ident)].(*types.Var); ok && !v.IsField() && v.Name() != "s" {
					lhsName = map[string]string{"Tok": "tok", "Lit": "lit"}[l.Sel.Name]
				}
			}
		}
		if lhsName == "" {
			// s.insertSemi = … etc: state of the scanner, not of the token
			ti.failed = true
			return nil
		}
		switch lhsName {
		case "tok":
			if name := ti.tokName(x.Rhs[0]); name != "" {
				return mapStates(in, func(st trieState) []trieState { st.tok = name; return []trieState{st} })
			}
			if call, ok := x.Rhs[0].(*ast.CallExpr); ok {
				if sel, ok := call.Fun.(*ast.SelectorExpr); ok {
					switch sel.Sel.Name {
					case "switch2", "switch3", "switch4":
						return ti.switchN(sel.Sel.Name, call.Args, in)
					case "tokSEMICOLON":
						return mapStates(in, func(st trieState) []trieState { st.tok = "SEMICOLON"; return []trieState{st} })
					}
				}
			}
			ti.failed = true
			return nil
		case "insertSemi":
			if id, ok := x.Rhs[0].(*ast.Ident); ok && id.Name == "true" {
				return mapStates(in, func(st trieState) []trieState { st.semi = "yes"; return []trieState{st} })
			}
			return mapStates(in, func(st trieState) []trieState { st.semi = "cond"; return []trieState{st} })
		case "lit":
			if bl, ok := x.Rhs[0].(*ast.BasicLit); ok && bl.Kind == token.STRING {
				return in // lit = ";" : constant literal text of an operator token
			}
			ti.failed = true
			return nil
		}
		ti.failed = true
		return nil
	case *ast.IncDecStmt:
		return in // s.nParen++ / --
	case *ast.ExprStmt:
		if call, ok := x.X.(*ast.CallExpr); ok {
			if sel, ok := call.Fun.(*ast.SelectorExpr); ok && sel.Sel.Name == "next" && len(call.Args) == 0 {
				return in // consumption is accounted for by the condition that guards it
			}
		}
		ti.failed = true
		return nil
	case *ast.IfStmt:
		if x.Init != nil {
			ti.failed = true
			return nil
		}
		// if tok == token.X { insertSemi = true }
		if be, ok := x.Cond.(*ast.BinaryExpr); ok && be.Op == token.EQL {
			isTok := false
			if id, ok := be.X.(*ast.Ident); ok && id.Name == "tok" {
				isTok = true
			}
			if sel, ok := be.X.(*ast.SelectorExpr); ok && sel.Sel.Name == "Tok" {
				isTok = true
			}
			if isTok {
				name := ti.tokName(be.Y)
				if name != "" && x.Else == nil && len(x.Body.List) == 1 {
					if as, ok := x.Body.List[0].(*ast.AssignStmt); ok && len(as.Lhs) == 1 {
						if l, ok := as.Lhs[0].(*ast.Ident); ok && l.Name == "insertSemi" {
							return mapStates(in, func(st trieState) []trieState {
								if st.tok == name {
									st.semi = "yes"
								}
								return []trieState{st}
							})
						}
					}
				}
				ti.failed = true
				return nil
			}
		}
		// if s.ch == 'c' [&& s.peek() == 'd'] { … } else …
		if chars, ok := ti.lookahead(x.Cond); ok {
			var out []trieState
			thenIn := mapStates(in, func(st trieState) []trieState { st.prefix += chars; return []trieState{st} })
			out = append(out, ti.block(x.Body.List, thenIn)...)
			switch e := x.Else.(type) {
			case nil:
				out = append(out, in...)
			case *ast.BlockStmt:
				out = append(out, ti.block(e.List, in)...)
			case *ast.IfStmt:
				out = append(out, ti.stmt(e, in)...)
			}
			return out
		}
		// if s.ch == '/' || s.ch == '*' { …comment… } else { operator }: the comment openers are special, the else is an operator arm
		if be, ok := ast.Unparen(x.Cond).(*ast.BinaryExpr); ok && be.Op == token.LOR {
			_, ok1 := ti.lookahead(be.X)
			_, ok2 := ti.lookahead(be.Y)
			if ok1 && ok2 {
				if e, ok := x.Else.(*ast.BlockStmt); ok {
					ti.commentArm = true
					return ti.block(e.List, in)
				}
			}
		}
		// if s.nParen == 0 { insertSemi = true }: a scanner-state condition on insertSemi only
		if len(x.Body.List) == 1 && x.Else == nil {
			if as, ok := x.Body.List[0].(*ast.AssignStmt); ok && len(as.Lhs) == 1 {
				if l, ok := as.Lhs[0].(*ast.Ident); ok && l.Name == "insertSemi" {
					return mapStates(in, func(st trieState) []trieState { st.semi = "cond"; return []trieState{st} })
				}
			}
		}
		ti.failed = true
		return nil
	}
	ti.failed = true
	return nil
}

// lookahead recognises s.ch == 'c' and s.ch == 'c' && s.peek() == 'd'; returns the characters consumed when true.
func (ti *trieInterp) lookahead(cond ast.Expr) (string, bool) {
	one := func(e ast.Expr, what string) (rune, bool) {
		be, ok := ast.Unparen(e).(*ast.BinaryExpr)
		if !ok || be.Op != token.EQL {
			return 0, false
		}
		r, ok := charLit(ti.info, be.Y)
		if !ok {
			return 0, false
		}
		switch what {
		case "ch":
			if sel, ok := be.X.(*ast.SelectorExpr); ok && sel.Sel.Name == "ch" {
				return r, true
			}
		case "peek":
			if call, ok := be.X.(*ast.CallExpr); ok {
				if sel, ok := call.Fun.(*ast.SelectorExpr); ok && sel.Sel.Name == "peek" {
					return r, true
				}
			}
		}
		return 0, false
	}
	if r, ok := one(cond, "ch"); ok {
		return string(r), true
	}
	if be, ok := ast.Unparen(cond).(*ast.BinaryExpr); ok && be.Op == token.LAND {
		r1, ok1 := one(be.X, "ch")
		r2, ok2 := one(be.Y, "peek")
		if ok1 && ok2 {
			return string(r1) + string(r2), true
		}
	}
	return "", false
}

func (ti *trieInterp) switchN(name string, args []ast.Expr, in []trieState) []trieState {
	t := func(i int) string {
		if i < len(args) {
			return ti.tokName(args[i])
		}
		return ""
	}
	ch := func(i int) string {
		if i < len(args) {
			if r, ok := charLit(ti.info, args[i]); ok {
				return string(r)
			}
		}
		return ""
	}
	return mapStates(in, func(st trieState) []trieState {
		mk := func(suffix, tok string) trieState {
			return trieState{prefix: st.prefix + suffix, tok: tok, semi: st.semi}
		}
		switch name {
		case "switch2":
			if t(0) == "" || t(1) == "" {
				ti.failed = true
				return nil
			}
			return []trieState{mk("", t(0)), mk("=", t(1))}
		case "switch3":
			if t(0) == "" || t(1) == "" || ch(2) == "" || t(3) == "" {
				ti.failed = true
				return nil
			}
			return []trieState{mk("", t(0)), mk("=", t(1)), mk(ch(2), t(3))}
		case "switch4":
			if t(0) == "" || t(1) == "" || ch(2) == "" || t(3) == "" || t(4) == "" {
				ti.failed = true
				return nil
			}
			return []trieState{mk("", t(0)), mk("=", t(1)), mk(ch(2), t(3)), mk(ch(2)+"=", t(4))}
		}
		ti.failed = true
		return nil
	})
}

func mapStates(in []trieState, f func(trieState) []trieState) []trieState {
	var out []trieState
	for _, s := range in {
		out = append(out, f(s)...)
	}
	return out
}

// scanResidualHash hashes Scan with its pure operator arms removed: what is left is the prologue (pending unit,
// identifier/number arms), the literal/comment/EOF/newline arms and the epilogue — the parts the trie does not model.
func scanResidualHash(pk *packages.Package, fd *ast.FuncDecl, tr *scanTrie) string {
	if fd == nil || tr == nil {
		return ""
	}
	info := pk.TypesInfo
	n := &normalizer{info: info, pkg: pk.Types, locals: map[types.Object]int{}}
	var walk func(s ast.Stmt)
	skip := map[*ast.CaseClause]bool{}
	ast.Inspect(fd.Body, func(m ast.Node) bool {
		cc, ok := m.(*ast.CaseClause)
		if !ok {
			return true
		}
		pure := len(cc.List) > 0
		for _, e := range cc.List {
			r, ok := charLit(info, e)
			if !ok || r < 0 || tr.Special[string(r)] {
				pure = false
				continue
			}
			if _, isOp := tr.Ops[string(r)]; !isOp {
				pure = false
			}
		}
		if pure {
			skip[cc] = true
		}
		return true
	})
	_ = walk
	// serialise statement by statement, replacing skipped clauses by a marker
	var ser func(node ast.Node)
	ser = func(node ast.Node) {
		switch x := node.(type) {
		case *ast.BlockStmt:
			for _, s := range x.List {
				ser(s)
			}
		case *ast.LabeledStmt:
			n.b.WriteString("label;")
			ser(x.Stmt)
		case *ast.SwitchStmt:
			n.b.WriteString("switch{")
			if x.Init != nil {
				n.node(reflect.ValueOf(x.Init))
			}
			if x.Tag != nil {
				n.node(reflect.ValueOf(x.Tag))
			}
			for _, s := range x.Body.List {
				cc := s.(*ast.CaseClause)
				if skip[cc] {
					n.b.WriteString("op-arm;")
					continue
				}
				n.b.WriteString("case[")
				for _, e := range cc.List {
					n.node(reflect.ValueOf(e))
					n.b.WriteString(",")
				}
				n.b.WriteString("]{")
				for _, st := range cc.Body {
					ser(st)
				}
				n.b.WriteString("}")
			}
			n.b.WriteString("}")
		default:
			n.node(reflect.ValueOf(node))
			n.b.WriteString(";")
		}
	}
	ser(fd.Body)
	return hash8(n.b.String())
}
