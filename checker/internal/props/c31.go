package props

import (
	"go/ast"
	"go/token"
	"go/types"
	"sort"
	"strings"

	"verif/checker/internal/core"
)

func init() {
	f := "tpl/parser/parser.go"
	register(&Prop{
		ID:        "C31",
		Title:     "TPL grammar text parses with the documented operator precedence",
		Technique: "layering analysis of the recursive-descent functions of tpl/parser: each level is identified by the operator token its loop/switch tests, and the call relation between levels, accumulator position and error reporting are checked on the type-checked AST",
		Explanation: "Decides for every grammar expression the precedence unary(* + ?) > ++ > % > sequence > | and parenthesis override: the parse functions are classified by the operator they test (| : loop on OR; % : loop on REM; ++ : loop on INC; unary/primary: switch with MUL, ADD, QUESTION, LPAREN; sequence: the level between | and %), and the rule requires that each level parses its operands ONLY through the next tighter level (expr→termList→term(%)→term2(++)→factor), that the unary case recurses into factor itself, that the parenthesis case re-enters the loosest level and then expects RPAREN, that the binary levels build left-associative nodes with the operator they tested (accumulator in X, new operand in Y), that the choice level appends alternatives in order, " +
			"and that a missing operand is reported: the sequence level calls p.error on its zero-terms path before returning, and every failed operand parse inside a binary/unary level is followed by p.error.",
		NotCovered: "the scanner producing the operator tokens (C32/C33) and rule-level syntax (`name = expr`, `=> { … }` actions).",
		Run:        runC31,
		Controls: []Control{
			{Name: "percent-operand-too-loose", File: f, Old: "\t\ty, ok := p.parseTerm2()\n\t\tif !ok {\n\t\t\tp.error(p.pos, \"expected factor\")\n\t\t\treturn x, false\n\t\t}\n\t\tx = &ast.BinaryExpr{\n\t\t\tX:     x,\n\t\t\tOpPos: opPos,\n\t\t\tOp:    token.REM,", New: "\t\ty, ok := p.parseTerm()\n\t\tif !ok {\n\t\t\tp.error(p.pos, \"expected factor\")\n\t\t\treturn x, false\n\t\t}\n\t\tx = &ast.BinaryExpr{\n\t\t\tX:     x,\n\t\t\tOpPos: opPos,\n\t\t\tOp:    token.REM,", Expect: "layering/%"},
			{Name: "levels-swapped", File: f, Old: "\tfor p.tok == token.REM {", New: "\tfor p.tok == token.INC {", Old2: "\tfor p.tok == token.INC {\n\t\topPos := p.pos\n\t\tp.next()\n\t\ty, ok := p.parseFactor()", New2: "\tfor p.tok == token.REM {\n\t\topPos := p.pos\n\t\tp.next()\n\t\ty, ok := p.parseFactor()", Expect: "layering/++"},
			{Name: "right-assoc", File: f, Old: "\t\t\tX:     x,\n\t\t\tOpPos: opPos,\n\t\t\tOp:    token.INC,\n\t\t\tY:     y,", New: "\t\t\tX:     y,\n\t\t\tOpPos: opPos,\n\t\t\tOp:    token.INC,\n\t\t\tY:     x,", Expect: "left-assoc/++"},
			{Name: "wrong-operator-node", File: f, Old: "\t\t\tOp:    token.REM,\n", New: "\t\t\tOp:    token.INC,\n", Expect: "left-assoc/%"},
			{Name: "unary-binds-looser", File: f, Old: "\t\tfactor, ok := p.parseFactor()\n\t\tif !ok {", New: "\t\tfactor, ok := p.parseTerm2()\n\t\tif !ok {", Expect: "layering/unary"},
			{Name: "paren-no-rparen", File: f, Old: "\t\texpr := p.parseExpr()\n\t\tp.expect(token.RPAREN)\n", New: "\t\texpr := p.parseExpr()\n", Expect: "paren/expect-RPAREN"},
			{Name: "empty-rule-silent", File: f, Old: "\tcase 0:\n\t\tp.error(p.pos, \"expected factor\")\n\t\tfallthrough // TODO(xsw): BadExpr", New: "\tcase 0:\n\t\tfallthrough // TODO(xsw): BadExpr", Expect: "missing-operand/sequence"},
			{Name: "missing-rhs-silent", File: f, Old: "\t\ty, ok := p.parseFactor()\n\t\tif !ok {\n\t\t\tp.error(p.pos, \"expected factor\")\n\t\t\treturn x, false\n\t\t}", New: "\t\ty, ok := p.parseFactor()\n\t\tif !ok {\n\t\t\treturn x, false\n\t\t}", Expect: "missing-operand/++"},
		},
	})
}

func runC31(c *core.Check) {
	prog := c.Load("./tpl/parser")
	pk := prog.Pkg("./tpl/parser")
	if pk == nil {
		return
	}
	info := pk.TypesInfo
	parserT := prog.NamedType("./tpl/parser", "parser")
	if parserT == nil {
		return
	}
	isTok := func(e ast.Expr) bool {
		sel, ok := ast.Unparen(e).(*ast.SelectorExpr)
		return ok && sel.Sel.Name == "tok"
	}
	// classify
	type level struct {
		fd   *ast.FuncDecl
		obj  types.Object
		loop *ast.ForStmt
	}
	levels := map[string]*level{}
	var all []*ast.FuncDecl
	for _, fd := range core.AllFuncDecls(pk) {
		if core.RecvName(fd) != "parser" || !strings.HasPrefix(fd.Name.Name, "parse") {
			continue
		}
		all = append(all, fd)
		obj := info.Defs[fd.Name]
		ast.Inspect(fd.Body, func(n ast.Node) bool {
			switch x := n.(type) {
			case *ast.ForStmt:
				if be, ok := x.Cond.(*ast.BinaryExpr); ok && be.Op == token.EQL && isTok(be.X) {
					if k := constOf(info, be.Y); k != nil {
						switch k.Name() {
						case "OR":
							levels["|"] = &level{fd, obj, x}
						case "REM":
							levels["%"] = &level{fd, obj, x}
						case "INC":
							levels["++"] = &level{fd, obj, x}
						}
					}
				}
			case *ast.SwitchStmt:
				labels := map[string]bool{}
				for _, s := range x.Body.List {
					for _, e := range s.(*ast.CaseClause).List {
						if k := constOf(info, e); k != nil {
							labels[k.Name()] = true
						}
					}
				}
				if labels["MUL"] && labels["ADD"] && labels["QUESTION"] && labels["LPAREN"] {
					levels["unary"] = &level{fd, obj, nil}
				}
			}
			return true
		})
	}
	for _, l := range []string{"|", "%", "++", "unary"} {
		if levels[l] == nil {
			c.Undecided("layering", l, 0, "no parse function of tpl/parser tests the operator of this level: the precedence chain cannot be identified")
			return
		}
	}
	levelObjs := map[types.Object]string{}
	// calls to parse functions of the same receiver
	callsOf := func(fd *ast.FuncDecl) map[types.Object]int {
		out := map[types.Object]int{}
		ast.Inspect(fd.Body, func(n ast.Node) bool {
			if call, ok := n.(*ast.CallExpr); ok {
				if fn, ok := calleeObj(info, call).(*types.Func); ok && strings.HasPrefix(fn.Name(), "parse") && fn.Pkg() == pk.Types {
					out[fn]++
				}
			}
			return true
		})
		return out
	}
	// sequence level: the only parse function the | level calls
	orCalls := callsOf(levels["|"].fd)
	var seq *level
	for o := range orCalls {
		if o != levels["|"].obj {
			for _, fd := range all {
				if info.Defs[fd.Name] == o {
					if seq != nil {
						seq = &level{} // more than one: ambiguous
					} else {
						seq = &level{fd, o, nil}
					}
				}
			}
		}
	}
	if seq == nil || seq.fd == nil {
		c.Bad("layering", "|", levels["|"].fd.Pos(), "the choice level must parse its alternatives through exactly one (the sequence) level")
		return
	}
	levels["seq"] = seq
	for n, l := range levels {
		levelObjs[l.obj] = n
	}
	names := func(m map[types.Object]int) []string {
		var out []string
		for o := range m {
			if n, ok := levelObjs[o]; ok {
				out = append(out, n)
			} else {
				out = append(out, o.Name())
			}
		}
		sort.Strings(out)
		return out
	}
	want := map[string][]string{"|": {"seq"}, "seq": {"%"}, "%": {"++"}, "++": {"unary"}, "unary": {"unary", "|"}}
	order := []string{"|", "seq", "%", "++", "unary"}
	for _, l := range order {
		got := names(callsOf(levels[l].fd))
		w := append([]string(nil), want[l]...)
		sort.Strings(w)
		key := l
		if l == "seq" {
			key = "sequence"
		}
		c.Decide(strings.Join(got, ",") == strings.Join(w, ","), "layering", key, levels[l].fd.Pos(), core.Sprintf("%s parses its operands through %v", core.FuncName(levels[l].fd), w),
			core.Sprintf("level `%s` (%s) parses operands through %v, the documented precedence requires exactly %v: an operand of this operator may then contain a looser operator without parentheses (or a tighter one is skipped), so the tree differs from unary > ++ > %% > sequence > |", key, core.FuncName(levels[l].fd), got, w))
	}

	// left associativity and operator identity in the binary levels
	for _, l := range []string{"%", "++"} {
		lv := levels[l]
		opName := map[string]string{"%": "REM", "++": "INC"}[l]
		good := false
		var firstVar types.Object
		ast.Inspect(lv.fd.Body, func(n ast.Node) bool {
			if as, ok := n.(*ast.AssignStmt); ok && firstVar == nil && as.Tok == token.DEFINE && len(as.Lhs) == 2 {
				firstVar = identObj(info, as.Lhs[0])
			}
			return true
		})
		ast.Inspect(lv.loop.Body, func(n ast.Node) bool {
			as, ok := n.(*ast.AssignStmt)
			if !ok || len(as.Lhs) != 1 || len(as.Rhs) != 1 || identObj(info, as.Lhs[0]) != firstVar || firstVar == nil {
				return true
			}
			e := ast.Unparen(as.Rhs[0])
			if u, ok := e.(*ast.UnaryExpr); ok {
				e = u.X
			}
			cl, ok := e.(*ast.CompositeLit)
			if !ok {
				return true
			}
			var xOK, yOK, opOK bool
			for _, el := range cl.Elts {
				kv, ok := el.(*ast.KeyValueExpr)
				if !ok {
					continue
				}
				switch kv.Key.(*ast.Ident).Name {
				case "X":
					xOK = identObj(info, kv.Value) == firstVar
				case "Y":
					yo := identObj(info, kv.Value)
					yOK = yo != nil && yo != firstVar
				case "Op":
					if k := constOf(info, kv.Value); k != nil && k.Name() == opName {
						opOK = true
					}
				}
			}
			good = xOK && yOK && opOK
			return true
		})
		c.Decide(good, "left-assoc", l, lv.loop.Pos(), "x = BinaryExpr{X: x, Op: "+opName+", Y: y}", "the "+l+" level does not fold left with its own operator (accumulator in X, new operand in Y, Op = token."+opName+"): `a "+l+" b "+l+" c` gets the wrong shape or the wrong operator")
	}
	// choice appends in order
	{
		lv := levels["|"]
		good := false
		ast.Inspect(lv.loop.Body, func(n ast.Node) bool {
			if as, ok := n.(*ast.AssignStmt); ok && len(as.Rhs) == 1 {
				if call, ok := ast.Unparen(as.Rhs[0]).(*ast.CallExpr); ok && len(call.Args) == 2 {
					if id, ok := call.Fun.(*ast.Ident); ok && id.Name == "append" && identObj(info, as.Lhs[0]) == identObj(info, call.Args[0]) {
						good = true
					}
				}
			}
			return true
		})
		c.Decide(good, "left-assoc", "|", lv.loop.Pos(), "alternatives are appended in source order", "the choice level does not append each alternative to the option list in order")
	}

	// parenthesis case: parseExpr then expect(RPAREN)
	{
		lv := levels["unary"]
		good := false
		ast.Inspect(lv.fd.Body, func(n ast.Node) bool {
			cc, ok := n.(*ast.CaseClause)
			if !ok {
				return true
			}
			isParen := false
			for _, e := range cc.List {
				if k := constOf(info, e); k != nil && k.Name() == "LPAREN" {
					isParen = true
				}
			}
			if !isParen {
				return true
			}
			var exprPos, expectPos token.Pos
			for _, s := range cc.Body {
				ast.Inspect(s, func(m ast.Node) bool {
					if call, ok := m.(*ast.CallExpr); ok {
						if calleeObj(info, call) == levels["|"].obj {
							exprPos = call.Pos()
						}
						if sel, ok := call.Fun.(*ast.SelectorExpr); ok && sel.Sel.Name == "expect" && len(call.Args) == 1 {
							if k := constOf(info, call.Args[0]); k != nil && k.Name() == "RPAREN" {
								expectPos = call.Pos()
							}
						}
					}
					return true
				})
			}
			good = exprPos.IsValid() && expectPos.IsValid() && exprPos < expectPos
			return true
		})
		c.Decide(good, "paren", "expect-RPAREN", lv.fd.Pos(), "( expr ) re-enters the loosest level and then expects ')'", "the parenthesis case of the factor level does not parse a full expression and then expect RPAREN: parentheses no longer override precedence (or an unclosed parenthesis is accepted)")
	}

	// missing operand is reported
	errM := findMethod(parserT, "error")
	callsError := func(n ast.Node) bool {
		found := false
		ast.Inspect(n, func(m ast.Node) bool {
			if call, ok := m.(*ast.CallExpr); ok {
				if o := calleeObj(info, call); o != nil && (o == errM || strings.HasPrefix(o.Name(), "error")) {
					found = true
				}
			}
			return true
		})
		return found
	}
	{
		// sequence: the zero-terms case calls error
		good := false
		ast.Inspect(levels["seq"].fd.Body, func(n ast.Node) bool {
			if cc, ok := n.(*ast.CaseClause); ok {
				for _, e := range cc.List {
					if v, ok := constInt(info, e); ok && v == 0 {
						for _, s := range cc.Body {
							if callsError(s) {
								good = true
							}
						}
					}
				}
			}
			if ifs, ok := n.(*ast.IfStmt); ok {
				cs := strings.ReplaceAll(core.ExprStr(ifs.Cond), " ", "")
				if strings.HasSuffix(cs, "==0") && callsError(ifs.Body) {
					good = true
				}
			}
			return true
		})
		c.Decide(good, "missing-operand", "sequence", levels["seq"].fd.Pos(), "the zero-terms path calls p.error", "the sequence level returns an (empty) node for zero terms without calling p.error: a rule with a missing factor (`a = `, `x | | y`) is accepted as an empty rule")
	}
	for _, l := range []string{"%", "++", "unary"} {
		lv := levels[l]
		// every `if !ok { … }` that follows a parse call inside the loop/unary case must call error
		good, n := true, 0
		scope := ast.Node(lv.fd.Body)
		if lv.loop != nil {
			scope = lv.loop.Body
		}
		ast.Inspect(scope, func(m ast.Node) bool {
			ifs, ok := m.(*ast.IfStmt)
			if !ok {
				return true
			}
			if u, ok := ast.Unparen(ifs.Cond).(*ast.UnaryExpr); ok && u.Op == token.NOT {
				if id, ok := ast.Unparen(u.X).(*ast.Ident); ok && id.Name == "ok" {
					n++
					if !callsError(ifs.Body) {
						good = false
					}
				}
			}
			return true
		})
		c.Decide(good && n > 0, "missing-operand", l, lv.fd.Pos(), core.Sprintf("%d failed-operand path(s), all report an error", n), "a failed operand parse after the `"+l+"` operator is not followed by p.error: `a "+l+"` (or `*` without operand) is accepted silently with a nil/partial node")
	}
}
