package props

import (
	"go/ast"
	"go/types"
	"strings"

	"verif/checker/internal/core"
	"verif/checker/internal/flow"
)

func init() {
	e := "cl/expr.go"
	register(&Prop{
		ID:        "C03",
		Title:     "Error-wrapping operators !, ? and ?: behave as documented",
		Technique: "exactly-once path analysis (go/cfg) of cl.compileErrWrapExpr for the wrapped operand and the default, and a decision-table check of its three-way dispatch (operator token × presence of a default) against the builder calls each arm emits",
		Explanation: "Decides the structural necessary conditions of the documented semantics in the one routine that lowers all three operators: " +
			"(1) the wrapped expression v.X (turned into a call when it is a bare identifier/selector) is handed to compileExpr exactly once on every path, and the default expression exactly once and only in the `?:` arm — evaluated exactly once; " +
			"(2) the emitted test is `_gop_err != nil` (CompareNil with go/token.NEQ on the error variable); " +
			"(3) dispatch: the arm taken when v.Tok == token.NOT emits a call of the builtin `panic` on the error; otherwise, when v.Default == nil, it emits ReturnErr (return the error with zero values); otherwise it compiles the default and returns it (Return(1)); " +
			"(4) the error is wrapped by errors.NewFrame exactly when there is no default, with the text of v.X (sprintAst), the file and line of the expression's own position, and the enclosing function's name; (5) `expr?` outside a function is rejected before anything is emitted.",
		NotCovered: "the code gogen emits for these builder calls (closure construction, zero values of ReturnErr), and the runtime behaviour of errors.NewFrame.",
		Run:        runC03,
		Controls: []Control{
			{Name: "test-inverted", File: e, Old: "\tcb.If().Val(err).CompareNil(gotoken.NEQ).Then()", New: "\tcb.If().Val(err).CompareNil(gotoken.EQL).Then()", Expect: "test/compileErrWrapExpr"},
			{Name: "operand-compiled-twice", File: e, Old: "\tcompileExpr(ctx, expr, inFlags)\n\tx := cb.InternalStack().Pop()", New: "\tcompileExpr(ctx, expr, inFlags)\n\tif v.Default != nil {\n\t\tcb.InternalStack().Pop()\n\t\tcompileExpr(ctx, expr, inFlags)\n\t}\n\tx := cb.InternalStack().Pop()", Expect: "once/compileErrWrapExpr:operand"},
			{Name: "bang-returns-error", File: e, Old: "\tif v.Tok == token.NOT { // expr!\n\t\tcb.Val(pkg.Builtin().Ref(\"panic\")).Val(err).Call(1).EndStmt()", New: "\tif v.Tok == token.NOT && v.Default != nil { // expr!\n\t\tcb.Val(pkg.Builtin().Ref(\"panic\")).Val(err).Call(1).EndStmt()", Expect: "dispatch/compileErrWrapExpr"},
			{Name: "question-panics", File: e, Old: "\t\tcb.Val(err).ReturnErr(true)", New: "\t\tcb.Val(pkg.Builtin().Ref(\"panic\")).Val(err).Call(1).EndStmt()", Expect: "dispatch/compileErrWrapExpr:?"},
			{Name: "frame-text-of-default", File: e, Old: "\t\t\tVal(sprintAst(pkg.Fset, v.X)).", New: "\t\t\tVal(sprintAst(pkg.Fset, v)).", Expect: "frame/compileErrWrapExpr"},
			{Name: "command-form-forces-bang", File: e, Old: "\t\t\tewExpr := *fn\n\t\t\tewExpr.X = &callExpr", New: "\t\t\tewExpr := ast.ErrWrapExpr{X: &callExpr, Tok: token.NOT, TokPos: fn.TokPos}", Expect: "synth-keeps-operator/literal:compileCallExpr"},
			{Name: "default-read-as-binary", File: "parser/parser.go", Old: "\t\t\texpr.Default, _ = p.parseUnaryExpr(false, false, false)", New: "\t\t\texpr.Default, _ = p.parseBinaryExpr(false, token.UnaryPrec-1, false, false)", Expect: "default-binding/parser/printer"},
			{Name: "default-also-wrapped", File: e, Old: "\tcb.If().Val(err).CompareNil(gotoken.NEQ).Then()\n\tif v.Default == nil {", New: "\tcb.If().Val(err).CompareNil(gotoken.NEQ).Then()\n\tif v.Default == nil || v.Tok == token.QUESTION {", Expect: "frame-guard/compileErrWrapExpr"},
		},
	})
}

func runC03(c *core.Check) {
	prog := c.Load("./cl")
	pk := prog.Pkg("./cl")
	if pk == nil {
		return
	}
	info := pk.TypesInfo
	c.Trust("golang.org/x/tools@v0.29.0 go/cfg", "gogen's CodeBuilder emits what its method names say (If/CompareNil/Then/ReturnErr/Return/Call)")
	c.Analysed("lower_field_kinds", lowerFieldsFor(c, map[string]bool{"ErrWrapExpr": true}, map[string]string{}))
	fd := prog.FuncDecl("./cl", "compileErrWrapExpr")
	if fd == nil {
		c.Bad("anchor", "cl.compileErrWrapExpr", 0, "not found")
		return
	}
	node := paramObj(fd, info, 1)
	compileExpr := pk.Types.Scope().Lookup("compileExpr")
	// variables derived from v.X
	operandVars := map[types.Object]bool{}
	ast.Inspect(fd.Body, func(n ast.Node) bool {
		if as, ok := n.(*ast.AssignStmt); ok && len(as.Lhs) == 1 && len(as.Rhs) == 1 {
			if isFieldOf(info, as.Rhs[0], node, "X") {
				operandVars[identObj(info, as.Lhs[0])] = true
			}
		}
		return true
	})
	isOperand := func(e ast.Expr) bool {
		return isFieldOf(info, e, node, "X") || operandVars[identObj(info, e)] && identObj(info, e) != nil
	}
	isDefault := func(e ast.Expr) bool { return isFieldOf(info, e, node, "Default") }

	// ---------- (1) exactly once
	{
		const (
			bOp flow.State = 1 << iota
			bOp2
			bDef
			bDef2
			bHasDefault
			bNoDefault
		)
		p := &flow.Problem{Body: fd.Body, Info: info}
		p.Node = func(n ast.Node, st flow.State, record bool) flow.State {
			for _, call := range flow.Calls(n) {
				if calleeObj(info, call) != compileExpr || len(call.Args) < 2 {
					continue
				}
				switch {
				case isOperand(call.Args[1]):
					if st&bOp != 0 {
						st |= bOp2
					}
					st |= bOp
				case isDefault(call.Args[1]):
					if st&bDef != 0 {
						st |= bDef2
					}
					st |= bDef
				}
			}
			return st
		}
		p.Edge = func(cond ast.Expr, truth bool, st flow.State) (flow.State, bool) {
			if x, nonNil, ok := flow.NilTest(cond); ok && isDefault(x) {
				has := nonNil == truth
				if has {
					if st&bNoDefault != 0 {
						return st, false
					}
					return st | bHasDefault, true
				}
				if st&bHasDefault != 0 {
					return st, false
				}
				return st | bNoDefault, true
			}
			return st, true
		}
		res := flow.Solve(p)
		okOp, okDef := len(res.Exits) > 0, true
		sawDef := false
		for _, e := range res.Exits {
			if e.State&bOp == 0 || e.State&bOp2 != 0 {
				okOp = false
			}
			if e.State&bDef2 != 0 {
				okDef = false
			}
			if e.State&bDef != 0 {
				sawDef = true
				if e.State&bNoDefault != 0 {
					okDef = false
				}
			}
		}
		c.Decide(okOp, "once", "compileErrWrapExpr:operand", fd.Pos(), "compileExpr(v.X) exactly once on every path", "the wrapped expression is not lowered exactly once on every path of compileErrWrapExpr: the call is evaluated twice (or not at all) at run time")
		c.Decide(okDef && sawDef, "once", "compileErrWrapExpr:default", fd.Pos(), "compileExpr(v.Default) at most once, only where a default exists", "the default expression is lowered more than once, or on a path where v.Default is nil")
	}
	// ---------- (2) the test
	{
		ok := false
		ast.Inspect(fd.Body, func(n ast.Node) bool {
			call, isCall := n.(*ast.CallExpr)
			if !isCall {
				return true
			}
			sel, isSel := call.Fun.(*ast.SelectorExpr)
			if !isSel || sel.Sel.Name != "CompareNil" || len(call.Args) != 1 {
				return true
			}
			if k := constOf(info, call.Args[0]); k != nil && k.Name() == "NEQ" {
				// receiver chain: …Val(err)
				if inner, isInner := sel.X.(*ast.CallExpr); isInner {
					if s2, is2 := inner.Fun.(*ast.SelectorExpr); is2 && s2.Sel.Name == "Val" && len(inner.Args) == 1 && strings.Contains(core.ExprStr(inner.Args[0]), "err") {
						ok = true
					}
				}
			}
			return true
		})
		c.Decide(ok, "test", "compileErrWrapExpr", fd.Pos(), "if _gop_err != nil", "the emitted test is no longer `_gop_err != nil` (CompareNil(NEQ) on the error variable): the error arm runs on success and the values are returned on failure")
	}
	// ---------- (3) dispatch table, (4) frame
	var dispatch *ast.IfStmt
	var frameIf *ast.IfStmt
	for _, st := range fd.Body.List {
		is, ok := st.(*ast.IfStmt)
		if !ok {
			continue
		}
		cond := nows(core.ExprStr(is.Cond))
		switch {
		case cond == "v.Tok==token.NOT" && is.Else != nil:
			dispatch = is
		case cond == "v.Default==nil" && is.Else == nil:
			frameIf = is
		}
	}
	if dispatch == nil {
		c.Bad("dispatch", "compileErrWrapExpr", fd.Pos(), "the three-way dispatch `if v.Tok == token.NOT {…} else if v.Default == nil {…} else {…}` is no longer present in this form: which arm handles which operator cannot be established")
	} else {
		bang := strings.Contains(nodeText(dispatch.Body), `Ref("panic")`) && !strings.Contains(nodeText(dispatch.Body), "ReturnErr")
		c.Decide(bang, "dispatch", "compileErrWrapExpr:!", dispatch.Pos(), "expr! → panic(err)", "the arm for `expr!` no longer emits a call of the builtin panic on the error")
		el, ok := dispatch.Else.(*ast.IfStmt)
		if !ok || nows(core.ExprStr(el.Cond)) != "v.Default==nil" || el.Else == nil {
			c.Bad("dispatch", "compileErrWrapExpr:?", dispatch.Pos(), "the second test of the dispatch is not `v.Default == nil`")
		} else {
			q := strings.Contains(nodeText(el.Body), "ReturnErr(") && !strings.Contains(nodeText(el.Body), `Ref("panic")`)
			c.Decide(q, "dispatch", "compileErrWrapExpr:?", el.Pos(), "expr? → return the error (ReturnErr)", "the arm for `expr?` no longer emits ReturnErr: the error is not returned from the enclosing function")
			last, _ := el.Else.(*ast.BlockStmt)
			d := last != nil && strings.Contains(nodeText(last), "compileExpr(ctx, v.Default)") && strings.Contains(nodeText(last), "Return(1)")
			c.Decide(d, "dispatch", "compileErrWrapExpr:?:", el.Pos(), "expr?:d → return d", "the arm for `expr?:d` no longer compiles the default and returns it")
		}
		c.Ok("dispatch", "compileErrWrapExpr", dispatch.Pos(), "three-way dispatch on (v.Tok == NOT, v.Default == nil)")
	}
	if frameIf == nil {
		c.Bad("frame-guard", "compileErrWrapExpr", fd.Pos(), "the error is no longer wrapped by errors.NewFrame exactly under `if v.Default == nil`")
	} else {
		c.Ok("frame-guard", "compileErrWrapExpr", frameIf.Pos(), "wrapped exactly when there is no default")
		txt := nows(nodeText(frameIf.Body))
		okFrame := strings.Contains(txt, `Ref("NewFrame")`) && strings.Contains(txt, "Val(sprintAst(pkg.Fset,v.X))") && strings.Contains(txt, "Val(pos.Line)") && strings.Contains(txt, "pos:=pkg.Fset.Position(v.Pos())") && strings.Contains(txt, "Val(relFile(ctx.relBaseDir,pos.Filename))")
		c.Decide(okFrame, "frame", "compileErrWrapExpr", frameIf.Pos(), "NewFrame(err, text of v.X, file, line of v.Pos(), function)", "the frame attached to the error no longer carries the text of the wrapped expression (v.X) and the file/line of the expression's own position")
	}
	// ---------- (4b) a synthesized error-wrap node keeps the operator and the default of the source node: cl may rebuild
	// an ErrWrapExpr (command style `mkdir! "foo"` becomes `mkdir("foo")!`) but only as a copy of the original with X replaced
	nLit := 0
	for _, f := range pk.Syntax {
		file := f
		ast.Inspect(f, func(n ast.Node) bool {
			cl, ok := n.(*ast.CompositeLit)
			if !ok {
				return true
			}
			nt := namedOf(info.TypeOf(cl))
			if nt == nil || nt.Obj().Name() != "ErrWrapExpr" {
				return true
			}
			nLit++
			m := map[string]string{}
			for _, el := range cl.Elts {
				if kv, ok := el.(*ast.KeyValueExpr); ok {
					m[core.ExprStr(kv.Key)] = core.ExprStr(kv.Value)
				}
			}
			okTok := strings.HasSuffix(m["Tok"], ".Tok")
			okDef := strings.HasSuffix(m["Default"], ".Default")
			c.Decide(okTok && okDef, "synth-keeps-operator", "literal:"+enclosingFuncName(file, cl.Pos()), cl.Pos(), "Tok and Default are taken from the source node",
				"cl builds an ast.ErrWrapExpr with Tok `"+m["Tok"]+"` and Default `"+m["Default"]+"` instead of copying them from the node it replaces: `f? args` is lowered as another operator (or loses its default)")
			return true
		})
	}
	// the copy site in compileCallExpr: `ewExpr := *fn; ewExpr.X = …` — only X may be overwritten
	if cc := prog.FuncDecl("./cl", "compileCallExpr"); cc != nil {
		copied, badField := false, ""
		var ew types.Object
		ast.Inspect(cc.Body, func(n ast.Node) bool {
			as, ok := n.(*ast.AssignStmt)
			if !ok || len(as.Lhs) != 1 || len(as.Rhs) != 1 {
				return true
			}
			if st, ok := as.Rhs[0].(*ast.StarExpr); ok {
				if nt := namedOf(info.TypeOf(as.Rhs[0])); nt != nil && nt.Obj().Name() == "ErrWrapExpr" {
					_ = st
					copied = true
					ew = identObj(info, as.Lhs[0])
				}
			}
			if sel, ok := as.Lhs[0].(*ast.SelectorExpr); ok && ew != nil && identObj(info, sel.X) == ew && sel.Sel.Name != "X" {
				badField = sel.Sel.Name
			}
			return true
		})
		c.Decide((copied || nLit > 0) && badField == "", "synth-keeps-operator", "compileCallExpr", cc.Pos(), "the command-style rewrite copies the node and replaces only X", "the command-style rewrite of an error-wrap call no longer keeps the original node's fields (field "+badField+" is overwritten, or the node is not copied): the operator or the default of `f! args` / `f? args` changes")
	}
	// ---------- (4b') once, across overload retries: `expr?` is lowered by statements emitted straight into the enclosing
	// block (CallInlineClosureStart); compileCallExpr retries the next overload by compiling the arguments again, which
	// only resets the operand stack — a `?` inside an argument is then emitted, and evaluated, once per attempt
	if cc := prog.FuncDecl("./cl", "compileCallExpr"); cc != nil {
		par := parentMap(cc)
		inLoop := false
		pos := cc.Pos()
		ast.Inspect(cc.Body, func(n ast.Node) bool {
			call, ok := n.(*ast.CallExpr)
			if !ok {
				return true
			}
			if fn, ok := calleeObj(info, call).(*types.Func); !ok || fn.Name() != "compileCallArgs" {
				return true
			}
			for p := par[call]; p != nil; p = par[p] {
				if _, ok := p.(*ast.ForStmt); ok {
					inLoop = true
					pos = call.Pos()
				}
			}
			return true
		})
		inline := strings.Contains(nodeText(fd.Body), "CallInlineClosureStart(")
		c.Decide(!(inLoop && inline), "once", "compileCallExpr:overload-retry", pos, "arguments are lowered once per call", "compileCallExpr lowers the arguments again for every overload it tries (compileCallArgs inside the retry loop) while `expr?` emits its statements inline into the enclosing block: for `foo(g()?, x => x+1)` whose first overload is rejected, `g()` is emitted — and evaluated — twice (and the first result variable is left unused)")
	}

	// ---------- (4c) binding of the default: the parser reads the default of `?:` as a unary expression and the printer
	// parenthesises it below unary precedence — the two siblings must agree, or `a?:1 * 10` changes meaning
	{
		xprog := c.Load("./parser", "./printer")
		xp, pp := xprog.Pkg("./parser"), xprog.Pkg("./printer")
		parsesUnary, printsUnary := false, false
		if xp != nil {
			if fd := core.FindFuncDecl(xp, "parser.parseErrWrapExpr"); fd != nil {
				ast.Inspect(fd.Body, func(n ast.Node) bool {
					as, ok := n.(*ast.AssignStmt)
					if !ok || len(as.Rhs) != 1 || len(as.Lhs) == 0 || !strings.HasSuffix(core.ExprStr(as.Lhs[0]), ".Default") {
						return true
					}
					if call, ok := as.Rhs[0].(*ast.CallExpr); ok {
						if sel, ok := call.Fun.(*ast.SelectorExpr); ok && sel.Sel.Name == "parseUnaryExpr" {
							parsesUnary = true
						}
					}
					return true
				})
			}
		}
		if pp != nil {
			if fd := core.FindFuncDecl(pp, "printer.expr1"); fd != nil {
				ast.Inspect(fd.Body, func(n ast.Node) bool {
					if call, ok := n.(*ast.CallExpr); ok && len(call.Args) >= 2 && strings.HasSuffix(core.ExprStr(call.Args[0]), ".Default") {
						if k := constOf(pp.TypesInfo, call.Args[1]); k != nil && k.Name() == "UnaryPrec" {
							printsUnary = true
						}
					}
					return true
				})
			}
		}
		c.Decide(parsesUnary && printsUnary, "default-binding", "parser/printer", 0, "the default of `?:` is a unary expression for the parser and for the printer", "the parser and the printer no longer agree that the default of `expr?:d` is a unary expression (parser.parseErrWrapExpr must read it with parseUnaryExpr, printer.expr1 prints it at token.UnaryPrec): `atoi(s)?:1 * 10` is read as `atoi(s)?:(1*10)` or re-printed with another meaning")
	}

	// ---------- (5) expr? in global scope rejected first
	{
		first := -1
		guard := -1
		for i, st := range fd.Body.List {
			txt := nodeText(st)
			if guard < 0 && strings.Contains(txt, "types.Universe") && strings.Contains(txt, "panic(") {
				guard = i
			}
			if first < 0 && strings.Contains(txt, "compileExpr(") {
				first = i
			}
		}
		c.Decide(guard >= 0 && first > guard, "global-guard", "compileErrWrapExpr", fd.Pos(), "`expr?` at package level is rejected before lowering", "`expr?` outside a function is no longer rejected before the operand is lowered")
	}
}

// nodeText renders a node compactly (types.ExprString for expressions, recursively for statements).
func nodeText(n ast.Node) string {
	var sb strings.Builder
	ast.Inspect(n, func(m ast.Node) bool {
		switch x := m.(type) {
		case *ast.AssignStmt:
			sb.WriteString(stmtStr(x) + ";")
			return false
		case *ast.ExprStmt:
			sb.WriteString(core.ExprStr(x.X) + ";")
			return false
		case *ast.IfStmt:
			sb.WriteString("if " + core.ExprStr(x.Cond) + ";")
		case *ast.ReturnStmt:
			for _, r := range x.Results {
				sb.WriteString("return " + core.ExprStr(r) + ";")
			}
		}
		return true
	})
	return sb.String()
}
