package props

import (
	"go/ast"
	"go/token"
	"go/types"
	"sort"
	"strings"

	"golang.org/x/tools/go/ssa"

	"verif/checker/internal/core"
	"verif/checker/internal/flow"
)

func init() {
	f := "cl/compile.go"
	b := "x/build/build.go"
	register(&Prop{
		ID:        "C07",
		Title:     "The compiler never crashes or hangs on parseable input",
		Technique: "must-precede analysis on go/cfg (the recover handler is installed before any call that can panic, under the enableRecover default), shape analysis of each entry point's deferred recover closure, and a call-graph census (go/ssa + CHA/VTA) from cl.NewPackage and the x/build Build* methods of constructs that escape a recover: goroutines, os.Exit, log.Fatal*, runtime.Goexit, and deferred calls registered before the handler",
		Explanation: "Decides for every input the structural part of 'a panic anywhere in the compiler becomes an error': " +
			"(1) cl.NewPackage installs, under `if enableRecover`, a deferred closure that binds recover(), records the value and assigns the named err result; it is installed before the first call of a function that can run input-dependent code (only allocation helpers precede it); enableRecover is initialised to true and written only by SetDisableRecover; " +
			"(2) deferred calls registered before the handler run after it and are not protected: each such call is listed and its body is held to a reviewed budget of panic-capable constructs (unchecked type assertions, index expressions, explicit panics); " +
			"(3) each of x/build's BuildFile, BuildFSDir and BuildDir starts with a deferred closure that calls recover() and assigns a non-nil error to its named result when the value is non-nil; " +
			"(4) nothing reachable from these entry points can take the process down past a recover: no go statement (a panic in another goroutine cannot be recovered by the entry point), no os.Exit / log.Fatal* / runtime.Goexit in module code reachable from them, except reviewed table lines.",
		NotCovered: "termination (unbounded recursion or loops in cl and gogen: stack overflow is a fatal error no recover catches), the clause that every reported error position lies inside the compiled files, and panics raised inside gogen's own goroutine-free code are covered only through (1).",
		Run:        runC07,
		Controls: []Control{
			{Name: "type-closure-cleared-after-run", File: "cl/compile.go", Old: "\tif typ := ld.typ; typ != nil {\n\t\tld.typ = nil\n\t\ttyp()\n", New: "\tif typ := ld.typ; typ != nil {\n\t\ttyp()\n\t\tld.typ = nil\n", Expect: "once-disarmed-first/doNewType:ld.typ"},
			{Name: "loader-removed-after-load", File: "cl/compile.go", Old: "\t\tdelete(p.syms, name)\n\t\tf.load()\n", New: "\t\tf.load()\n\t\tdelete(p.syms, name)\n", Expect: "loader-reentrancy/pkgCtx.loadSymbol"},
			{Name: "recover-after-newpackage", File: f, Old: "\tif enableRecover {\n\t\tdefer func() {\n\t\t\tif e := recover(); e != nil {\n\t\t\t\tctx.handleRecover(e, nil)\n\t\t\t\terr = ctx.errs.ToError()\n\t\t\t}\n\t\t}()\n\t}\n\tp = gogen.NewPackage(pkgPath, pkg.Name, confGox)\n", New: "\tp = gogen.NewPackage(pkgPath, pkg.Name, confGox)\n\tif enableRecover {\n\t\tdefer func() {\n\t\t\tif e := recover(); e != nil {\n\t\t\t\tctx.handleRecover(e, nil)\n\t\t\t\terr = ctx.errs.ToError()\n\t\t\t}\n\t\t}()\n\t}\n", Expect: "recover-first/cl.NewPackage"},
			{Name: "recover-default-off", File: f, Old: "\tenableRecover = true\n", New: "\tenableRecover = false\n", Expect: "recover-default/cl.enableRecover"},
			{Name: "buildfile-no-recover", File: b, Old: "func (ctx *Context) BuildFile(filename string, src any) (data []byte, err error) {\n\tdefer func() {\n\t\tr := recover()\n\t\tif r != nil {\n\t\t\terr = fmt.Errorf(\"compile %v failed. %v\", filename, r)\n\t\t}\n\t}()\n", New: "func (ctx *Context) BuildFile(filename string, src any) (data []byte, err error) {\n", Expect: "entry-recover/build.Context.BuildFile"},
			{Name: "builddir-recover-nil-err", File: b, Old: "\t\t\terr = fmt.Errorf(\"compile %v failed. %v\", dir, err)\n\t\t}\n\t}()\n\tpkg, err := ctx.ParseDir(dir)", New: "\t\t\terr = nil\n\t\t}\n\t}()\n\tpkg, err := ctx.ParseDir(dir)", Expect: "entry-recover/build.Context.BuildDir"},
			{Name: "goroutine-in-loader", File: f, Old: "\tfor _, ld := range ctx.tylds {\n\t\tld.load()\n\t}", New: "\tdone := make(chan bool)\n\tfor _, ld := range ctx.tylds {\n\t\tgo func() { ld.load(); done <- true }()\n\t\t<-done\n\t}", Expect: "escape/go:cl.NewPackage"},
			{Name: "fatal-in-compile", File: "cl/stmt.go", Old: "\tdefault:\n\t\tlog.Panicf(\"compileStmt failed: unknown - %T\\n\", v)", New: "\tdefault:\n\t\tlog.Fatalf(\"compileStmt failed: unknown - %T\\n\", v)", Expect: "escape/log.Fatal:cl.compileStmt"},
			{Name: "printer-case-removed", File: "printer/nodes.go", Old: "\tcase *ast.ElemEllipsis:\n\t\tp.expr(x.Elt)\n\t\tp.print(token.ELLIPSIS)\n", New: "", Expect: "escape/log.Fatal:(*printer.printer).expr1"},
			{Name: "retry-without-progress", File: f, Old: "\tcase *ast.StarExpr:\n\t\ttyp = t.X\n\t\tgoto retry\n\t}\n\tpanic(\"TODO: parseTypeEmbedName unexpected\")", New: "\tcase *ast.StarExpr:\n\t\ttyp = t.X\n\t\tgoto retry\n\tcase *ast.ParenExpr:\n\t\tgoto retry\n\t}\n\tpanic(\"TODO: parseTypeEmbedName unexpected\")", Expect: "retry-progress/parseTypeEmbedName:retry"},
			{Name: "unprotected-defer-grows", File: "cl/recorder.go", Old: "\t\t\tif obj := scope.Lookup(id.Name); obj != nil {\n\t\t\t\tp.recordFuncLit(fn, obj.Type())", New: "\t\t\tif obj := scope.Lookup(id.Name); obj != nil {\n\t\t\t\tp.recordFuncLit(fn, obj.Type().(*types.Signature))", Expect: "unprotected-defer/cl.NewPackage:rec.Complete"},
		},
	})
}

// c07EarlyCalls: functions NewPackage may call before its recover handler is installed (no input-dependent work).
var c07EarlyCalls = map[string]string{
	"make":        "allocation",
	"newRecorder": "wraps conf.Recorder in a struct with two fresh maps",
}

// c07Escapes: reviewed process-exit constructs reachable from an entry point.
var c07Escapes = map[string]string{}

// c07DeferBudget: panic-capable constructs in deferred calls that run after the recover handler, as reviewed.
var c07DeferBudget = map[string]struct {
	asserts, indexes, panics int
	why                      string
}{
	"cl.NewPackage:rec.Complete": {1, 1, 0, "goxRecorder.Complete: `fn.Recv.List[0].Type.(*ast.Ident)` is reached only for overload declarations whose receiver preloadFile already checked to be a one-element list holding an *ast.Ident (it reports `invalid recv type` and skips ReferDef otherwise); p is non-nil unless gogen.NewPackage itself panicked, which does no input-dependent work"},
}

func runC07(c *core.Check) {
	prog := c.Load("./cl", "./x/build")
	pk, bk := prog.Pkg("./cl"), prog.Pkg("./x/build")
	if pk == nil || bk == nil {
		return
	}
	info := pk.TypesInfo
	c.Trust("golang.org/x/tools@v0.29.0 go/cfg, go/ssa, callgraph/cha, callgraph/vta")

	// ---------- (0) lazy loading is not re-entrant: loadSymbol takes the loader out of the table BEFORE it runs it. While a
	// loader computes a function's own signature, a reference to the same name comes back to loadSymbol; if the loader
	// were still registered it would run again, without end (a stack overflow no recover can catch)
	if ls := prog.FuncDecl("./cl", "pkgCtx.loadSymbol"); ls != nil {
		const bRemoved flow.State = 1
		bad := token.NoPos
		nLoad := 0
		p := &flow.Problem{Body: ls.Body, Info: info}
		p.Node = func(n ast.Node, st flow.State, record bool) flow.State {
			if _, isDefer := n.(*ast.DeferStmt); isDefer {
				return st
			}
			for _, call := range flow.Calls(n) {
				if id, ok := call.Fun.(*ast.Ident); ok && id.Name == "delete" && len(call.Args) == 2 && strings.HasSuffix(nows(core.ExprStr(call.Args[0])), ".syms") {
					st |= bRemoved
				}
				if sel, ok := call.Fun.(*ast.SelectorExpr); ok && sel.Sel.Name == "load" && len(call.Args) == 0 {
					if record {
						nLoad++
						if st&bRemoved == 0 {
							bad = call.Pos()
						}
					}
				}
			}
			return st
		}
		flow.Solve(p)
		c.Decide(!bad.IsValid() && nLoad > 0, "loader-reentrancy", "pkgCtx.loadSymbol", bad, "the loader is removed from the symbol table before it runs", "pkgCtx.loadSymbol runs a symbol's loader while the loader is still registered in ctx.syms: a reference to the same name from inside the loader (a function whose signature mentions itself through a type, a recursive initialiser) re-enters loadSymbol and runs the loader again without end — unbounded recursion ending in a stack overflow, which no recover converts into an error")
	} else {
		c.Bad("anchor", "cl.pkgCtx.loadSymbol", 0, "not found")
	}

	// ---------- (0b) run-once closures are disarmed before they run: `if f := ld.typ; f != nil { ld.typ = nil; f() }`. The
	// closure of a type alias resolves its right-hand side, which can reach the same loader again (`type A = B; type B = A`);
	// a field that is still set when the closure runs makes that re-entry run it again, without end
	{
		nOnce := 0
		for _, fd := range core.AllFuncDecls(pk) {
			if fd.Body == nil {
				continue
			}
			type once struct {
				v     types.Object // the local copy
				field string       // rendered x.F
			}
			var onces []once
			ast.Inspect(fd.Body, func(n ast.Node) bool {
				as, ok := n.(*ast.AssignStmt)
				if !ok || as.Tok != token.DEFINE || len(as.Lhs) != 1 || len(as.Rhs) != 1 {
					return true
				}
				sel, ok := ast.Unparen(as.Rhs[0]).(*ast.SelectorExpr)
				if !ok {
					return true
				}
				if sl := info.Selections[sel]; sl == nil || sl.Kind() != types.FieldVal {
					return true
				}
				t := info.TypeOf(sel)
				isFn := false
				if _, ok := t.Underlying().(*types.Signature); ok {
					isFn = true
				}
				if sl, ok := t.Underlying().(*types.Slice); ok {
					if _, ok := sl.Elem().Underlying().(*types.Signature); ok {
						isFn = true
					}
				}
				if o := info.Defs[as.Lhs[0].(*ast.Ident)]; isFn && o != nil {
					onces = append(onces, once{o, nows(core.ExprStr(sel))})
				}
				return true
			})
			for _, oc := range onces {
				oc := oc
				clears := false
				rangeVars := map[types.Object]bool{}
				ast.Inspect(fd.Body, func(n ast.Node) bool {
					switch x := n.(type) {
					case *ast.AssignStmt:
						if x.Tok == token.ASSIGN && len(x.Lhs) == 1 && len(x.Rhs) == 1 && nows(core.ExprStr(x.Lhs[0])) == oc.field && isNilIdent(x.Rhs[0]) {
							clears = true
						}
					case *ast.RangeStmt:
						if identObj(info, x.X) == oc.v && x.Value != nil {
							if id, ok := x.Value.(*ast.Ident); ok {
								rangeVars[info.Defs[id]] = true
							}
						}
					}
					return true
				})
				if !clears {
					continue // not a run-once closure
				}
				nOnce++
				const bCleared flow.State = 1
				bad := token.NoPos
				p := &flow.Problem{Body: fd.Body, Info: info}
				p.Node = func(n ast.Node, st flow.State, record bool) flow.State {
					if as, ok := n.(*ast.AssignStmt); ok && as.Tok == token.ASSIGN && len(as.Lhs) == 1 && nows(core.ExprStr(as.Lhs[0])) == oc.field {
						return st | bCleared
					}
					for _, call := range flow.Calls(n) {
						if o := identObj(info, call.Fun); o != nil && (o == oc.v || rangeVars[o]) && record && st&bCleared == 0 {
							bad = call.Pos()
						}
					}
					return st
				}
				flow.Solve(p)
				c.Decide(!bad.IsValid(), "once-disarmed-first", core.FuncName(fd)+":"+oc.field, bad, "the field is cleared before the saved closure runs", core.FuncName(fd)+" runs the closure saved from "+oc.field+" while the field is still set: a re-entrant call (a self-referential type alias resolving its own right-hand side) finds the closure again and runs it again, without end — a stack overflow that no recover turns into an error")
			}
		}
		c.Analysed("run_once_closures", nOnce)
		c.Floor("once-disarmed-first", 3)
	}

	// ---------- (1) NewPackage installs the handler first
	np := prog.FuncDecl("./cl", "NewPackage")
	if np == nil {
		c.Bad("anchor", "cl.NewPackage", 0, "not found")
		return
	}
	sites, _ := recoverSites(pk)
	var npSite *recoverSite
	for i := range sites {
		if sites[i].Fn == np {
			npSite = &sites[i]
		}
	}
	if npSite == nil {
		c.Bad("recover-first", "cl.NewPackage", np.Pos(), "NewPackage has no deferred recover handler: every panic of the compiler reaches the caller")
	} else {
		var deferStmt *ast.DeferStmt
		par := parentMap(np)
		for p := par[npSite.Lit]; p != nil; p = par[p] {
			if d, ok := p.(*ast.DeferStmt); ok {
				deferStmt = d
				break
			}
		}
		c.Decide(npSite.Guard == "enableRecover", "recover-guard", "cl.NewPackage", npSite.Pos, "installed under `if enableRecover`", "the recover handler of NewPackage is guarded by `"+npSite.Guard+"`, not by enableRecover alone")
		const (
			bInstalled flow.State = 1 << iota
			bEarlyCall
		)
		var earlyCalls []string
		var earlyDefers []*ast.DeferStmt
		p := &flow.Problem{Body: np.Body, Info: info}
		p.Node = func(n ast.Node, st flow.State, record bool) flow.State {
			if n == ast.Node(deferStmt) {
				return st | bInstalled
			}
			if st&bInstalled != 0 {
				return st
			}
			if d, ok := n.(*ast.DeferStmt); ok {
				if record {
					earlyDefers = append(earlyDefers, d)
				}
				return st
			}
			for _, call := range flow.Calls(n) {
				name := core.ExprStr(call.Fun)
				if tv := info.Types[call.Fun]; tv.IsType() {
					continue
				}
				if o := calleeObj(info, call); o != nil {
					name = o.Name()
				}
				if _, ok := c07EarlyCalls[name]; ok {
					continue
				}
				if record {
					earlyCalls = append(earlyCalls, name+"@"+c.Rel(call.Pos()))
				}
				st |= bEarlyCall
			}
			return st
		}
		p.Edge = func(cond ast.Expr, truth bool, st flow.State) (flow.State, bool) {
			// follow the default: enableRecover is true
			if id, ok := ast.Unparen(cond).(*ast.Ident); ok && id.Name == "enableRecover" && !truth {
				return st, false
			}
			return st, true
		}
		res := flow.Solve(p)
		ok := len(res.Exits) > 0
		for _, e := range res.Exits {
			if e.State&bInstalled == 0 {
				ok = false
			}
		}
		sort.Strings(earlyCalls)
		c.Decide(ok && len(earlyCalls) == 0, "recover-first", "cl.NewPackage", npSite.Pos, "the handler is installed on every path (enableRecover default) before any call other than allocation helpers",
			"NewPackage runs "+strings.Join(dedupe(earlyCalls), ", ")+" before its recover handler is installed (or a path skips the installation): a panic there propagates to the caller instead of becoming an error")
		// (2) deferred calls registered before the handler
		seen := map[*ast.DeferStmt]bool{}
		for _, d := range earlyDefers {
			if seen[d] {
				continue
			}
			seen[d] = true
			c07UnprotectedDefer(c, prog, d)
		}
		c.Analysed("defers_registered_before_the_handler", len(seen))
	}
	// enableRecover default and writers
	if v, ok := pk.Types.Scope().Lookup("enableRecover").(*types.Var); ok {
		init := ""
		var writers []string
		for _, f := range pk.Syntax {
			ast.Inspect(f, func(n ast.Node) bool {
				switch x := n.(type) {
				case *ast.ValueSpec:
					for i, id := range x.Names {
						if info.Defs[id] == v && i < len(x.Values) {
							init = core.ExprStr(x.Values[i])
						}
					}
				case *ast.AssignStmt:
					for _, l := range x.Lhs {
						if identObj(info, l) == v {
							writers = append(writers, enclosingFuncName(f, x.Pos()))
						}
					}
				}
				return true
			})
		}
		sort.Strings(writers)
		c.Decide(init == "true", "recover-default", "cl.enableRecover", v.Pos(), "initialised to true", "enableRecover is initialised to `"+init+"`: by default no recover handler is installed anywhere in the compiler")
		c.Decide(len(writers) == 1 && writers[0] == "SetDisableRecover", "recover-default", "cl.enableRecover:writers", v.Pos(), "written only by SetDisableRecover", "enableRecover is also written by "+strings.Join(writers, ", "))
	} else {
		c.Bad("anchor", "cl.enableRecover", 0, "variable not found")
	}

	// ---------- (2b) backward gotos (the `retry:` idiom) make progress
	nRetry := 0
	for _, fd := range core.AllFuncDecls(pk) {
		if fd.Body == nil {
			continue
		}
		labels := map[string]*ast.LabeledStmt{}
		ast.Inspect(fd.Body, func(n ast.Node) bool {
			if ls, ok := n.(*ast.LabeledStmt); ok {
				labels[ls.Label.Name] = ls
			}
			return true
		})
		if len(labels) == 0 {
			continue
		}
		par := parentMap(fd)
		ast.Inspect(fd.Body, func(n ast.Node) bool {
			br, ok := n.(*ast.BranchStmt)
			if !ok || br.Tok != token.GOTO || br.Label == nil {
				return true
			}
			ls := labels[br.Label.Name]
			if ls == nil || br.Pos() < ls.Pos() {
				return true // forward jump
			}
			nRetry++
			key := core.FuncName(fd) + ":" + br.Label.Name
			var subject ast.Node
			switch st := ls.Stmt.(type) {
			case *ast.TypeSwitchStmt:
				subject = st.Assign
			case *ast.SwitchStmt:
				subject = st.Tag
			case *ast.IfStmt:
				subject = st.Cond
				if st.Init != nil {
					subject = st.Init
				}
			}
			if subject == nil {
				c.Undecided("retry-progress", key, br.Pos(), "the label of a backward goto does not mark a switch/if: cannot tell what the loop iterates on")
				return true
			}
			vars := map[types.Object]bool{}
			if as, ok := subject.(*ast.AssignStmt); ok && len(as.Rhs) == 1 {
				subject = as.Rhs[0]
			}
			ast.Inspect(subject, func(m ast.Node) bool {
				if id, ok := m.(*ast.Ident); ok {
					if v, ok := info.Uses[id].(*types.Var); ok {
						vars[v] = true
					}
				}
				return true
			})
			// the statement list that contains the goto
			var list []ast.Stmt
			for p := par[br]; p != nil; p = par[p] {
				if cc, ok := p.(*ast.CaseClause); ok {
					list = cc.Body
					break
				}
				if b, ok := p.(*ast.BlockStmt); ok {
					list = b.List
					break
				}
			}
			progress := false
			for _, st := range list {
				if st.Pos() >= br.Pos() {
					break
				}
				if as, ok := st.(*ast.AssignStmt); ok {
					for _, l := range as.Lhs {
						if o := identObj(info, l); o != nil && vars[o] {
							progress = true
						}
					}
				}
			}
			c.Decide(progress, "retry-progress", key, br.Pos(), "the variable the loop dispatches on is reassigned before jumping back", "`goto "+br.Label.Name+"` jumps back to a dispatch on a variable that this arm does not reassign: for the inputs that reach the arm the compiler spins forever (no recover can help)")
			return true
		})
	}
	c.Analysed("backward_gotos", nRetry)
	c.Floor("retry-progress", 6)

	// ---------- (3) x/build entry points
	binfo := bk.TypesInfo
	for _, name := range []string{"Context.BuildFile", "Context.BuildFSDir", "Context.BuildDir"} {
		fd := core.FindFuncDecl(bk, name)
		key := "build." + name
		if fd == nil {
			c.Bad("anchor", key, 0, "not found")
			continue
		}
		errRes := namedErrResult(binfo, fd)
		ok := false
		why := "the function does not start with a deferred closure that calls recover()"
		if len(fd.Body.List) > 0 && errRes != nil {
			if d, isDefer := fd.Body.List[0].(*ast.DeferStmt); isDefer {
				if lit, isLit := d.Call.Fun.(*ast.FuncLit); isLit {
					// find r := recover()
					var rv types.Object
					ast.Inspect(lit.Body, func(n ast.Node) bool {
						if as, isAs := n.(*ast.AssignStmt); isAs && len(as.Lhs) == 1 && len(as.Rhs) == 1 {
							if call, isCall := as.Rhs[0].(*ast.CallExpr); isCall {
								if id, isId := call.Fun.(*ast.Ident); isId && id.Name == "recover" {
									rv = identObj(binfo, as.Lhs[0])
								}
							}
						}
						return true
					})
					if rv != nil {
						conv, _, _ := recoverConverts(binfo, recoverSite{Fn: fd, Lit: lit, Var: rv, Pos: lit.Pos()}, map[string]bool{})
						ok = conv
						why = "when the recovered value is non-nil the closure does not assign a non-nil error to the named result on every path"
					}
				}
			}
		}
		c.Decide(ok, "entry-recover", key, fd.Pos(), "first statement: deferred recover that assigns the named error result", key+" can let a panic of the parser or compiler escape: "+why)
	}

	// ---------- (4) nothing bypasses the recover
	g := buildCG(c, prog, true)
	var roots []*ssa.Function
	if r := g.fn("./cl", "NewPackage"); r != nil {
		roots = append(roots, r)
	}
	for _, n := range []string{"Context.BuildFile", "Context.BuildFSDir", "Context.BuildDir"} {
		if r := g.fn("./x/build", n); r != nil {
			roots = append(roots, r)
		}
	}
	set, pred := g.reachable(roots, func(f *ssa.Function) bool {
		return inModule(f) && !isPkgInit(f)
	})
	c.Analysed("functions_reachable_from_entry_points", len(set))
	kinds := map[string]bool{"go": true, "os.Exit": true, "log.Fatal": true}
	sitesCG := g.census(set, kinds)
	// runtime.Goexit
	for f := range set {
		for _, b := range f.Blocks {
			for _, ins := range b.Instrs {
				if call, ok := ins.(ssa.CallInstruction); ok {
					if cal := call.Common().StaticCallee(); cal != nil && cal.Pkg != nil && cal.Pkg.Pkg.Path() == "runtime" && cal.Name() == "Goexit" {
						sitesCG = append(sitesCG, censusSite{f, "runtime.Goexit", call.Pos(), "runtime.Goexit"})
					}
				}
			}
		}
	}
	nEsc := 0
	seenKey := map[string]bool{}
	for _, s := range sitesCG {
		key := s.Kind + ":" + shortFn(s.Fn)
		if seenKey[key] {
			continue
		}
		seenKey[key] = true
		nEsc++
		if why, ok := c07Escapes[key]; ok {
			c.Note("escape-reviewed", key, s.Pos, why)
			continue
		}
		if key == "log.Fatal:(*printer.printer).expr1" {
			// the `default: log.Fatalf("unreachable")` arm of the expression printer: admitted only while the switch is exhaustive
			if missing := c07ExprSwitchMissing(prog); len(missing) == 0 {
				c.Ok("escape", key, s.Pos, "printer.expr1's default arm (log.Fatalf \"unreachable\") is unreachable: the type switch has a case for every ast.Expr implementation (ForPhrase/ForPhraseStmt are printed by their owners)")
			} else {
				c.Bad("escape", key, s.Pos, "printer.expr1 has no case for "+strings.Join(missing, ", ")+" and its default arm calls log.Fatalf: cl.sprintAst (error-wrap expressions) prints arbitrary parsed expressions, so compiling `"+missing[0]+"` inside `x!`/`x?` exits the process")
			}
			continue
		}
		what := map[string]string{
			"go":             "starts a goroutine: a panic in it cannot be recovered by the entry point and kills the process",
			"os.Exit":        "exits the process instead of returning an error",
			"log.Fatal":      "log.Fatal* exits the process instead of returning an error",
			"runtime.Goexit": "terminates the goroutine without returning to the caller",
		}[s.Kind]
		c.Bad("escape", key, s.Pos, shortFn(s.Fn)+" ("+witness(pred, s.Fn)+") "+what)
	}
	c.Ok("escape", "census", 0, core.Sprintf("%d module functions reachable from cl.NewPackage and x/build Build* inspected; %d escape sites", len(set), nEsc))
	// the census expects (close to) zero sites: self-test of the classifier on a synthetic instruction is done by the positive controls (goroutine-in-loader, fatal-in-compile)
}

func dedupe(in []string) []string {
	var out []string
	seen := map[string]bool{}
	for _, s := range in {
		if !seen[s] {
			seen[s] = true
			out = append(out, s)
		}
	}
	return out
}

func enclosingFuncName(f *ast.File, pos token.Pos) string {
	for _, d := range f.Decls {
		if fd, ok := d.(*ast.FuncDecl); ok && fd.Pos() <= pos && pos <= fd.End() {
			return core.FuncName(fd)
		}
	}
	return "?"
}

// c07UnprotectedDefer: a defer registered before the recover handler runs after it; hold its body to the reviewed budget.
func c07UnprotectedDefer(c *core.Check, prog *core.Prog, d *ast.DeferStmt) {
	pk := prog.Pkg("./cl")
	info := pk.TypesInfo
	// the deferred closure's calls into cl methods
	lit, ok := d.Call.Fun.(*ast.FuncLit)
	if !ok {
		c.Bad("unprotected-defer", "cl.NewPackage:"+core.ExprStr(d.Call.Fun), d.Pos(), "a deferred call registered before the recover handler runs after it, unprotected, and is not a reviewed closure")
		return
	}
	var callees []*types.Func
	ast.Inspect(lit.Body, func(n ast.Node) bool {
		if call, ok := n.(*ast.CallExpr); ok {
			if fn, ok := calleeObj(info, call).(*types.Func); ok && fn.Pkg() == pk.Types {
				callees = append(callees, fn)
			}
		}
		return true
	})
	if len(callees) == 0 {
		c.Bad("unprotected-defer", "cl.NewPackage:closure", d.Pos(), "an unreviewed deferred closure is registered before the recover handler")
		return
	}
	for _, fn := range callees {
		name := "rec." + fn.Name()
		key := "cl.NewPackage:" + name
		fd := core.FindFuncDecl(pk, core.FuncObjName(fn))
		budget, reviewed := c07DeferBudget[key]
		if fd == nil || !reviewed {
			c.Bad("unprotected-defer", key, d.Pos(), "a deferred call registered before the recover handler runs after it, unprotected by any recover, and has not been reviewed")
			continue
		}
		asserts, indexes, panics := 0, 0, 0
		ast.Inspect(fd.Body, func(n ast.Node) bool {
			switch x := n.(type) {
			case *ast.TypeAssertExpr:
				if x.Type != nil && !commaOk(fd, x) {
					asserts++
				}
			case *ast.IndexExpr:
				if t := info.TypeOf(x.X); t != nil {
					if _, isMap := t.Underlying().(*types.Map); !isMap {
						indexes++
					}
				}
			case *ast.CallExpr:
				if id, ok := x.Fun.(*ast.Ident); ok && id.Name == "panic" {
					panics++
				}
			}
			return true
		})
		okb := asserts <= budget.asserts && indexes <= budget.indexes && panics <= budget.panics
		c.Decide(okb, "unprotected-defer", key, d.Pos(), core.Sprintf("runs after the recover handler; %d unchecked assertion(s), %d index expression(s), %d panic(s) as reviewed: %s", asserts, indexes, panics, budget.why),
			core.Sprintf("cl.%s runs in a defer registered BEFORE NewPackage's recover handler, i.e. after it and unprotected; it now contains %d unchecked type assertion(s), %d slice/array index expression(s) and %d panic call(s) (reviewed: %d/%d/%d): a failure there crashes the caller", core.FuncObjName(fn), asserts, indexes, panics, budget.asserts, budget.indexes, budget.panics))
	}
}

// commaOk: the type assertion is the single right-hand side of a two-value assignment.
func commaOk(fd *ast.FuncDecl, ta *ast.TypeAssertExpr) bool {
	ok := false
	ast.Inspect(fd.Body, func(n ast.Node) bool {
		switch x := n.(type) {
		case *ast.AssignStmt:
			if len(x.Lhs) == 2 && len(x.Rhs) == 1 && ast.Unparen(x.Rhs[0]) == ast.Expr(ta) {
				ok = true
			}
		case *ast.ValueSpec:
			if len(x.Names) == 2 && len(x.Values) == 1 && ast.Unparen(x.Values[0]) == ast.Expr(ta) {
				ok = true
			}
		}
		return true
	})
	return ok
}

// c07ExprSwitchMissing: ast.Expr implementations without a case in printer.expr1.
func c07ExprSwitchMissing(prog *core.Prog) []string {
	apk, ppk := prog.Pkg("./ast"), prog.Pkg("./printer")
	if apk == nil || ppk == nil {
		return []string{"(ast/printer packages not loaded)"}
	}
	fd := core.FindFuncDecl(ppk, "printer.expr1")
	eo := apk.Types.Scope().Lookup("Expr")
	if fd == nil || eo == nil {
		return []string{"(printer.expr1 not found)"}
	}
	info := ppk.TypesInfo
	ts := typeSwitchOn(fd.Body, info, paramObj(fd, info, 0))
	if ts == nil {
		return []string{"(no type switch in printer.expr1)"}
	}
	have := map[*types.Named]bool{}
	for _, s := range ts.Body.List {
		for _, e := range s.(*ast.CaseClause).List {
			if nt := namedOf(info.TypeOf(e)); nt != nil {
				have[nt] = true
			}
		}
	}
	var missing []string
	for _, nt := range implementers(apk, ifaceOf(eo.Type())) {
		if have[nt.Named] {
			continue
		}
		if c19NoCase["Expr."+nt.Name] != "" {
			continue
		}
		missing = append(missing, "*ast."+nt.Name)
	}
	return missing
}
