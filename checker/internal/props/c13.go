package props

import (
	"go/ast"
	"go/constant"
	"go/token"
	"go/types"
	"strings"

	"golang.org/x/tools/go/ssa"

	"verif/checker/internal/core"
	"verif/checker/internal/flow"
)

func init() {
	pi, pp := "parser/interface.go", "parser/parser.go"
	register(&Prop{
		ID:        "C13",
		Title:     "The parser never panics or hangs and reports sorted errors",
		Technique: "entry-point recover/sort discipline on the AST, call-graph census of explicit panics reachable from every exported parser function, sub-parser error-propagation rule, and the advance() progress-guard shape",
		Explanation: "Decides for every input the structural conditions of 'no panic escapes, errors are sorted, a nil error means no Bad nodes': (a) every function that owns a parser value and runs it (parseFile, ParseExprFrom, ParseExprEx) installs, before initialising/parsing, a deferred closure that recovers, re-panics only values that are not `bailout`, sorts p.errors and assigns the error result from it; " +
			"(b) every explicit panic/log.Panic/log.Fatal/os.Exit reachable (CHA call graph, module functions) from any exported function of package parser is either panic(bailout{}) or a table line with a reason, and every call site of the internal `assert` helper lies in a reviewed function; " +
			"(c) every sub-parser (a second value of type parser, or a call of ParseExprEx / tpl.ParseEx from inside a parse method) has its error list appended to the owning parser's list — in a deferred closure when the sub-parser can bail out; " +
			"(d) parser.error raises bailout only through the 10-error limit, and parser.advance returns only under its syncPos/syncCnt guard while its loop consumes a token per iteration.",
		NotCovered: "implicit panics (nil dereference, index, failed type assertion) inside the recursive descent, and general termination of the descent beyond advance(); nilaway/staticcheck were run once as cross-reference (DESIGN §7).",
		Run:        runC13,
		Controls: []Control{
			{Name: "entry-no-sort", File: pi, Old: "\t\tp.errors.Sort()\n\t\terr = p.errors\n\t}()", New: "\t\terr = p.errors\n\t}()", Expect: "entry/ParseExprEx:sorted"},
			{Name: "entry-swallows-foreign-panic", File: pi, Old: "\t\tif e := recover(); e != nil {\n\t\t\t// resume same panic if it's not a bailout\n\t\t\tif _, ok := e.(bailout); !ok {\n\t\t\t\tpanic(e)\n\t\t\t}\n\t\t}\n\n\t\t// set result values", New: "\t\tif e := recover(); e != nil {\n\t\t\t_ = e\n\t\t}\n\n\t\t// set result values", Expect: "entry/parseFile:recover"},
			{Name: "entry-defer-after-parse", File: pi, Old: "\t// parse source\n\tp.init(fset, filename, text, mode)\n\tf = p.parseFile()\n", New: "", Old2: "\tvar p parser\n\tdefer func() {\n\t\tif e := recover(); e != nil {\n\t\t\t// resume same panic if it's not a bailout\n\t\t\tif _, ok := e.(bailout); !ok {\n\t\t\t\tpanic(e)\n\t\t\t}\n\t\t}\n\n\t\t// set result values", New2: "\tvar p parser\n\tp.init(fset, filename, text, mode)\n\tf = p.parseFile()\n\tdefer func() {\n\t\tif e := recover(); e != nil {\n\t\t\t// resume same panic if it's not a bailout\n\t\t\tif _, ok := e.(bailout); !ok {\n\t\t\t\tpanic(e)\n\t\t\t}\n\t\t}\n\n\t\t// set result values", Expect: "entry/parseFile:order"},
			{Name: "todo-panic-back", File: pp, Old: "\t\t\t\tp.error(list[1].Pos(), \"invalid comprehension: too many elements\")", New: "\t\t\t\tlog.Panicln(\"TODO: invalid comprehension: too may elements.\")", Expect: "panic-census/(*parser.parser).parseElementListOrComprehension:log.Panic"},
			{Name: "plain-panic-in-descent", File: pp, Old: "\t\tp.error(pos, \"too many variables in for..in: 1 or 2 is required\")", New: "\t\tpanic(fmt.Sprint(\"too many variables in for..in at \", pos))", Expect: "panic-census/(*parser.parser).parseForPhraseStmtPart:panic"},
			{Name: "subparser-errors-dropped", File: pp, Old: "\tdefer func() { p.errors = append(p.errors, sp.errors...) }()\n", New: "", Expect: "subparser-errors/parser.domainTextLitEx"},
			{Name: "subparser-errors-not-deferred", File: pp, Old: "\tdefer func() { p.errors = append(p.errors, sp.errors...) }()\n", New: "", Old2: "\tsp.expect(token.SEMICOLON)\n", New2: "\tsp.expect(token.SEMICOLON)\n\tp.errors = append(p.errors, sp.errors...)\n", Expect: "subparser-errors/parser.domainTextLitEx"},
			{Name: "exprex-errors-dropped", File: pp, Old: "\tif err != nil {\n\t\tp.errors = append(p.errors, err...)\n\t\texpr = &ast.BadExpr{From: off, To: end}\n\t}", New: "\tif err != nil {\n\t\texpr = &ast.BadExpr{From: off, To: end}\n\t}", Expect: "subparser-errors/parser.stringLitExpr"},
			{Name: "list-loop-without-eof", File: pp, Old: "\tfor p.tok != token.RBRACK && p.tok != token.EOF {", New: "\tfor p.tok != token.RBRACK {", Expect: "loop-eof/parser.parseTypeInstance"},
			{Name: "comment-second-byte-unguarded", File: pp, Old: "\tif len(p.lit) > 1 && p.lit[1] == '*' {", New: "\tif p.lit[1] == '*' {", Expect: "lit-index/parser.consumeComment:p.lit[1]"},
			{Name: "advance-no-guard", File: pp, Old: "\t\t\tif p.pos == p.syncPos && p.syncCnt < 10 {\n\t\t\t\tp.syncCnt++\n\t\t\t\treturn\n\t\t\t}", New: "\t\t\tif p.pos == p.syncPos {\n\t\t\t\treturn\n\t\t\t}", Expect: "progress/parser.advance"},
			{Name: "scope-not-closed-on-path", File: pp, Old: "\tpos := p.expect(token.FOR)\n\tp.openScope()\n\tdefer p.closeScope()\n\n\tvar s1, s2, s3 ast.Stmt", New: "\tpos := p.expect(token.FOR)\n\tp.openScope()\n\n\tvar s1, s2, s3 ast.Stmt", Expect: "scope-pairing/parser.parseForStmt"},
			{Name: "lambda-without-label-scope", File: pp, Old: "\t\t\tp.openLabelScope()\n\t\t\tbody = p.parseBlockStmt()\n\t\t\tp.closeLabelScope()\n", New: "\t\t\tbody = p.parseBlockStmt()\n", Expect: "closure-label-scope/parser.parseLambdaExpr"},
			{Name: "tuple-without-End", File: pp, Old: "func (p *tupleExpr) End() token.Pos { return p.closing + 1 }\n", New: "", Expect: "nil-embedded-iface/parser.tupleExpr"},
			{Name: "new-assert-site", File: pp, Old: "\tcall := p.parseCallExpr(\"go\")\n", New: "\tcall := p.parseCallExpr(\"go\")\n\tassert(call != nil, \"nil call\")\n", Expect: "assert-site/parser.parseGoStmt"},
		},
	})
}

var c13Allowed = map[string]string{
	"(*parser.parser).error:panic":                    "panic(bailout{}) — the early-termination signal every entry point recovers (argument type checked below)",
	"parser.parseFile$1:panic":                        "re-panic of a non-bailout value inside the entry point's own recover closure",
	"parser.ParseExprFrom$1:panic":                    "re-panic of a non-bailout value inside the entry point's own recover closure",
	"parser.ParseExprEx$1:panic":                      "re-panic of a non-bailout value inside the entry point's own recover closure",
	"parser.parseFile:panic":                          "API misuse by the calling program (nil FileSet), not reachable from input bytes",
	"parser.assert:panic":                             "internal-invariant helper inherited from go/parser; its call sites are censused separately (assert-site)",
	"(*scanner.Scanner).Init:panic":                   "file size ≠ len(src): the parser always registers the file with len(src) (parser.init / initSub)",
	"(*parser.parser).parseArrayTypeOrSliceLit:panic": "default arm of a switch over the `state` parameter; every caller passes one of the three state constants",
	"parser.packIndexExpr:panic":                      "len(exprs)==0 arm; all three callers pass a non-empty list (parseTypeInstance returns early on len(list)==0; parseArrayFieldOrTypeInstance and parseIndexOrSliceOrInstance append at least index[0])",
}

var c13AssertFns = map[string]string{
	"parser.declare":             "ident.Obj == nil before declaring (as in go/parser)",
	"parser.shortVarDecl":        "ident.Obj == nil (as in go/parser)",
	"parser.tryResolve":          "ident.Obj == nil (as in go/parser)",
	"parser.parseParameterList":  "parameter types non-nil (as in go/parser)",
	"parser.parsePrimaryExprEx":  "type switch guard cannot be an identifier (as in go/parser)",
	"parser.parsePrimaryExpr":    "type switch guard cannot be an identifier (as in go/parser)",
	"parser.parseTypeAssertion":  "as in go/parser",
	"parser.parseFile":           "scope balance after a file without errors (as in go/parser)",
	"parser.parseOperand":        "as in go/parser",
	"parser.parseFuncDeclOrCall": "as in go/parser",
}

func runC13(c *core.Check) {
	prog := c.Load("./parser")
	pk := prog.Pkg("./parser")
	if pk == nil {
		return
	}
	deadStateRule(c, pk) // no unexported field is read without a writer (a cache flag never set, a saved value never saved)
	info := pk.TypesInfo
	parserT := prog.NamedType("./parser", "parser")
	bailoutT := prog.NamedType("./parser", "bailout")
	if parserT == nil || bailoutT == nil {
		return
	}
	fErrors := fieldVar(parserT, "errors")
	isErrorsOf := func(e ast.Expr, owner types.Object) bool {
		sel, ok := ast.Unparen(e).(*ast.SelectorExpr)
		if !ok {
			return false
		}
		s := info.Selections[sel]
		return s != nil && s.Obj() == fErrors && (owner == nil || identObj(info, sel.X) == owner)
	}

	// ---------- (a) entry points: every function that declares a parser value at top level
	c.Floor("entry", 9)
	nEntries := 0
	for _, fd := range core.AllFuncDecls(pk) {
		if fd.Recv != nil {
			continue
		}
		var pv types.Object
		var declPos token.Pos
		for _, s := range fd.Body.List {
			if ds, ok := s.(*ast.DeclStmt); ok {
				if gd, ok := ds.Decl.(*ast.GenDecl); ok {
					for _, sp := range gd.Specs {
						if vs, ok := sp.(*ast.ValueSpec); ok && len(vs.Names) == 1 {
							if o := info.Defs[vs.Names[0]]; o != nil && namedOf(o.Type()) == parserT {
								if _, isPtr := o.Type().(*types.Pointer); !isPtr {
									pv, declPos = o, ds.Pos()
								}
							}
						}
					}
				}
			}
		}
		if pv == nil {
			continue
		}
		nEntries++
		name := core.FuncName(fd)
		var def *ast.DeferStmt
		var firstUse token.Pos
		for _, s := range fd.Body.List {
			if d, ok := s.(*ast.DeferStmt); ok && def == nil {
				if _, ok := d.Call.Fun.(*ast.FuncLit); ok {
					def = d
				}
				continue
			}
			if s.Pos() > declPos && !firstUse.IsValid() {
				ast.Inspect(s, func(n ast.Node) bool {
					if call, ok := n.(*ast.CallExpr); ok {
						if sel, ok := call.Fun.(*ast.SelectorExpr); ok && identObj(info, sel.X) == pv && !firstUse.IsValid() {
							firstUse = call.Pos()
						}
					}
					return true
				})
			}
		}
		if def == nil {
			c.Bad("entry", name+":recover", fd.Pos(), "this function owns a parser value but has no deferred recover closure: a bailout (or any panic) escapes to the caller")
			continue
		}
		c.Decide(!firstUse.IsValid() || def.Pos() < firstUse, "entry", name+":order", def.Pos(), "the recover is installed before the parser is initialised or run",
			"the parser is initialised/run before the deferred recover is installed: a bailout raised during that time escapes")
		fl := def.Call.Fun.(*ast.FuncLit)
		hasRecover, rePanicGuarded, sorted, assigns := false, true, false, false
		var errRes types.Object
		if fd.Type.Results != nil {
			for _, f := range fd.Type.Results.List {
				for _, nm := range f.Names {
					if o := info.Defs[nm]; o != nil && (o.Type().String() == "error" || strings.HasSuffix(o.Type().String(), "ErrorList")) {
						errRes = o
					}
				}
			}
		}
		par := parentMap(fl)
		ast.Inspect(fl.Body, func(n ast.Node) bool {
			switch x := n.(type) {
			case *ast.CallExpr:
				if id, ok := x.Fun.(*ast.Ident); ok {
					switch id.Name {
					case "recover":
						hasRecover = true
					case "panic":
						// must be under `if _, ok := e.(bailout); !ok`
						guarded := false
						for p := par[n]; p != nil; p = par[p] {
							if ifs, ok := p.(*ast.IfStmt); ok {
								if as, ok := ifs.Init.(*ast.AssignStmt); ok && len(as.Rhs) == 1 {
									if ta, ok := ast.Unparen(as.Rhs[0]).(*ast.TypeAssertExpr); ok && ta.Type != nil && namedOf(info.TypeOf(ta.Type)) == bailoutT {
										if u, ok := ast.Unparen(ifs.Cond).(*ast.UnaryExpr); ok && u.Op == token.NOT && len(as.Lhs) == 2 && identObj(info, u.X) == identObj(info, as.Lhs[1]) {
											guarded = true
										}
									}
								}
							}
						}
						if !guarded {
							rePanicGuarded = false
						}
					}
				}
				if sel, ok := x.Fun.(*ast.SelectorExpr); ok && sel.Sel.Name == "Sort" && isErrorsOf(sel.X, pv) {
					// must be at the top level of the closure (every path)
					if es, ok := par[n].(*ast.ExprStmt); ok && par[es] == ast.Node(fl.Body) {
						sorted = true
					}
				}
			case *ast.AssignStmt:
				for i, l := range x.Lhs {
					if identObj(info, l) == errRes && errRes != nil && i < len(x.Rhs) && par[n] == ast.Node(fl.Body) {
						ok := false
						ast.Inspect(x.Rhs[i], func(m ast.Node) bool {
							if e, isE := m.(ast.Expr); isE && isErrorsOf(e, pv) {
								ok = true
							}
							return true
						})
						if ok {
							assigns = true
						}
					}
				}
			}
			return true
		})
		// the re-panic must exist (foreign panics are not to be swallowed) and be guarded
		hasRePanic := false
		ast.Inspect(fl.Body, func(n ast.Node) bool {
			if call, ok := n.(*ast.CallExpr); ok {
				if id, ok := call.Fun.(*ast.Ident); ok && id.Name == "panic" {
					hasRePanic = true
				}
			}
			return true
		})
		c.Decide(hasRecover && rePanicGuarded && hasRePanic, "entry", name+":recover", fl.Pos(), "recovers; re-panics exactly the values that are not bailout",
			"the deferred closure must call recover() and re-panic exactly when the value is not a `bailout` (guard `_, ok := e.(bailout); !ok`): otherwise a genuine crash is swallowed into a partial result, or the bailout itself escapes")
		c.Decide(sorted && assigns, "entry", name+":sorted", fl.Pos(), "p.errors.Sort() and err = p.errors on every exit",
			"the deferred closure does not, on every path, sort p.errors and assign the error result from it: the error list comes back unsorted or a parse with errors returns a nil error")
	}
	c.Analysed("entry_points", nEntries)

	// ---------- (b) census
	g := buildCG(c, prog, c.Tier == "thorough")
	var roots []*ssa.Function
	for _, fd := range core.AllFuncDecls(pk) {
		if fd.Recv == nil && ast.IsExported(fd.Name.Name) {
			if f := g.fn("./parser", fd.Name.Name); f != nil {
				roots = append(roots, f)
			}
		}
	}
	c.Analysed("exported_entry_functions", len(roots))
	set, pred := g.reachable(roots, func(f *ssa.Function) bool { return inModule(f) })
	c.Analysed("reachable_module_functions", len(set))
	c.Floor("panic-census", 7)
	for _, s := range g.census(set, map[string]bool{"panic": true, "log.Panic": true, "log.Fatal": true, "os.Exit": true, "go": true}) {
		key := shortFn(s.Fn) + ":" + s.Kind
		if why, ok := c13Allowed[key]; ok {
			if key == "(*parser.parser).error:panic" && !strings.Contains(s.Text, "bailout") {
				c.Bad("panic-census", key, s.Pos, "parser.error panics with something that is not bailout{}: the entry points re-panic it")
				continue
			}
			c.Ok("panic-census", key, s.Pos, why)
			continue
		}
		c.Bad("panic-census", key, s.Pos, "an explicit "+s.Kind+" ("+s.Text+") is reachable from the parser's entry points ("+witness(pred, s.Fn)+") and is not a bailout: the entry points re-panic it, so some input makes Parse* panic instead of returning an error list")
	}
	// assert call sites
	assertObj := pk.Types.Scope().Lookup("assert")
	for _, fd := range core.AllFuncDecls(pk) {
		n := 0
		var pos token.Pos
		ast.Inspect(fd.Body, func(m ast.Node) bool {
			if call, ok := m.(*ast.CallExpr); ok && calleeObj(info, call) == assertObj && assertObj != nil {
				n++
				pos = call.Pos()
			}
			return true
		})
		if n == 0 {
			continue
		}
		key := "parser." + fd.Name.Name
		if why, ok := c13AssertFns[key]; ok {
			c.Ok("assert-site", key, pos, why)
		} else {
			c.Bad("assert-site", key, pos, "a new call of the panicking `assert` helper inside the descent: unless the condition is an invariant for EVERY input, some input makes Parse* panic")
		}
	}

	// ---------- (c) sub-parsers
	parseExprEx := pk.Types.Scope().Lookup("ParseExprEx")
	for _, fd := range core.AllFuncDecls(pk) {
		if fd.Recv == nil || core.RecvName(fd) != "parser" || len(fd.Recv.List[0].Names) == 0 {
			continue
		}
		recv := info.Defs[fd.Recv.List[0].Names[0]]
		name := "parser." + fd.Name.Name
		// (i) a second parser value
		var sub types.Object
		ast.Inspect(fd.Body, func(n ast.Node) bool {
			if vs, ok := n.(*ast.ValueSpec); ok {
				for _, nm := range vs.Names {
					if o := info.Defs[nm]; o != nil && namedOf(o.Type()) == parserT {
						sub = o
					}
				}
			}
			return true
		})
		if sub != nil {
			deferred := false
			for _, s := range fd.Body.List {
				d, ok := s.(*ast.DeferStmt)
				if !ok {
					continue
				}
				ast.Inspect(d, func(n ast.Node) bool {
					if as, ok := n.(*ast.AssignStmt); ok && len(as.Lhs) == 1 && len(as.Rhs) == 1 && isErrorsOf(as.Lhs[0], recv) {
						if call, ok := ast.Unparen(as.Rhs[0]).(*ast.CallExpr); ok && len(call.Args) == 2 && call.Ellipsis.IsValid() && isErrorsOf(call.Args[0], recv) && isErrorsOf(call.Args[1], sub) {
							deferred = true
						}
					}
					return true
				})
			}
			c.Decide(deferred, "subparser-errors", name, fd.Pos(), "the sub-parser's errors are appended to the owner's list in a deferred closure (also when the sub-parser bails out)",
				"this method runs a second parser value but does not append its error list to the owner's p.errors in a deferred closure: syntax errors found by the sub-parser are lost (ParseFile returns a nil error for a tree with Bad nodes), at the latest when the sub-parser bails out after 10 errors")
		}
		// (ii) calls of ParseExprEx / tpl.ParseEx
		ast.Inspect(fd.Body, func(n ast.Node) bool {
			as, ok := n.(*ast.AssignStmt)
			if !ok || len(as.Rhs) != 1 || len(as.Lhs) != 2 {
				return true
			}
			call, ok := ast.Unparen(as.Rhs[0]).(*ast.CallExpr)
			if !ok {
				return true
			}
			callee := calleeObj(info, call)
			isSub := callee == parseExprEx && parseExprEx != nil
			if fn, ok := callee.(*types.Func); ok && fn.Name() == "ParseEx" && fn.Pkg() != nil && strings.HasSuffix(fn.Pkg().Path(), "tpl/parser") {
				isSub = true
			}
			if !isSub {
				return true
			}
			errv := identObj(info, as.Lhs[1])
			appended := false
			ast.Inspect(fd.Body, func(m ast.Node) bool {
				if a2, ok := m.(*ast.AssignStmt); ok && len(a2.Lhs) == 1 && len(a2.Rhs) == 1 && isErrorsOf(a2.Lhs[0], recv) {
					if c2, ok := ast.Unparen(a2.Rhs[0]).(*ast.CallExpr); ok && len(c2.Args) == 2 && isErrorsOf(c2.Args[0], recv) && identObj(info, c2.Args[1]) == errv && errv != nil {
						appended = true
					}
				}
				return true
			})
			c.Decide(appended, "subparser-errors", name, call.Pos(), "the error list returned by the nested parse is appended to p.errors",
				"the error list returned by a nested ParseExprEx/tpl.ParseEx is not appended to p.errors: the outer parse reports success although the nested source had syntax errors")
			return true
		})
	}
	c.Floor("subparser-errors", 3)

	// ---------- (d) error limit and advance
	if efd := prog.FuncDecl("./parser", "parser.error"); efd != nil {
		ok := false
		ast.Inspect(efd.Body, func(n ast.Node) bool {
			if call, ok2 := n.(*ast.CallExpr); ok2 {
				if id, isId := call.Fun.(*ast.Ident); isId && id.Name == "panic" && len(call.Args) == 1 {
					if cl, isCl := ast.Unparen(call.Args[0]).(*ast.CompositeLit); isCl && namedOf(info.TypeOf(cl)) == bailoutT {
						ok = true
					}
				}
			}
			return true
		})
		c.Decide(ok, "error-limit", "parser.error", efd.Pos(), "bails out with bailout{}", "parser.error no longer raises bailout{}")
	}
	if afd := prog.FuncDecl("./parser", "parser.advance"); afd != nil {
		var loop *ast.ForStmt
		for _, s := range afd.Body.List {
			if f, ok := s.(*ast.ForStmt); ok {
				loop = f
			}
		}
		good, why := loop != nil, "advance has no loop"
		if loop != nil {
			postNext := false
			if es, ok := loop.Post.(*ast.ExprStmt); ok {
				if call, ok := es.X.(*ast.CallExpr); ok {
					if sel, ok := call.Fun.(*ast.SelectorExpr); ok && sel.Sel.Name == "next" {
						postNext = true
					}
				}
			}
			condEOF := loop.Cond != nil && strings.Contains(core.ExprStr(loop.Cond), "EOF")
			// every return inside the loop is guarded by a condition on syncPos; the bounded-retry guard compares syncCnt with a constant
			retOK, cntGuard := true, false
			par := parentMap(loop)
			ast.Inspect(loop.Body, func(n ast.Node) bool {
				if r, ok := n.(*ast.ReturnStmt); ok {
					guarded := false
					for p := par[r]; p != nil; p = par[p] {
						if ifs, ok := p.(*ast.IfStmt); ok && strings.Contains(core.ExprStr(ifs.Cond), "syncPos") {
							guarded = true
							cs := strings.ReplaceAll(core.ExprStr(ifs.Cond), " ", "")
							if strings.Contains(cs, "==p.syncPos") && strings.Contains(cs, "syncCnt<") {
								cntGuard = true
							}
							if strings.Contains(cs, "==p.syncPos") && !strings.Contains(cs, "syncCnt<") {
								retOK = false // returning without progress and without the retry bound
							}
						}
					}
					if !guarded {
						retOK = false
					}
				}
				return true
			})
			good = postNext && condEOF && retOK && cntGuard
			why = "parser.advance must consume a token per iteration (post: p.next()), stop at EOF, and return without progress only under the bounded `p.pos == p.syncPos && p.syncCnt < N` guard: otherwise two callers that both refuse to advance loop forever"
		}
		c.Decide(good, "progress", "parser.advance", afd.Pos(), "token-per-iteration loop; returns only under the syncPos/syncCnt guard", why)
	}
	// ---------- (d2) token loops stop at EOF: p.next() makes no progress at EOF, so a loop that keeps going there never
	// ends. Every conditional loop of the parser that looks at the current token either tests `p.tok != token.EOF` or only
	// tests the token positively (`p.tok == token.COMMA`), which is false at EOF. A loop driven by a helper such as
	// atComma (true for every token other than `,` and the closing token — EOF included) needs the EOF test itself.
	nLoops := 0
	for _, fd := range core.AllFuncDecls(pk) {
		if fd.Body == nil {
			continue
		}
		seen := map[string]int{}
		ast.Inspect(fd.Body, func(n ast.Node) bool {
			fs, ok := n.(*ast.ForStmt)
			if !ok || fs.Cond == nil {
				return true
			}
			kind := eofBound(fs.Cond)
			if kind == "not-a-token-loop" {
				return true
			}
			nLoops++
			key := core.FuncName(fd)
			seen[key]++
			if seen[key] > 1 {
				key = core.Sprintf("%s#%d", key, seen[key])
			}
			c.Decide(kind == "bounded", "loop-eof", key, fs.Pos(), "the loop condition is false at EOF", "the condition of this token loop (`"+core.ExprStr(fs.Cond)+"`) is not false at end of input: it neither tests `p.tok != token.EOF` nor consists of positive token tests only, and p.next() makes no progress at EOF — an input that ends inside this construct makes the parser loop forever")
			return true
		})
	}
	c.Analysed("token_loops", nLoops)
	c.Floor("loop-eof", 20)

	// ---------- (d3) constant indexes into the current token's text: p.lit[k] with k >= 1 must be guarded by a length test
	// (a comment token may be a single `#`); p.lit[0] is fine for tokens that always have text (comments, strings)
	nIdx := 0
	for _, fd := range core.AllFuncDecls(pk) {
		if fd.Body == nil {
			continue
		}
		par := parentMap(fd)
		ast.Inspect(fd.Body, func(n ast.Node) bool {
			ix, ok := n.(*ast.IndexExpr)
			if !ok || nows(core.ExprStr(ix.X)) != "p.lit" {
				return true
			}
			tv := info.Types[ix.Index]
			if tv.Value == nil {
				return true
			}
			k, _ := constant.Int64Val(tv.Value)
			nIdx++
			key := core.Sprintf("%s:p.lit[%d]", core.FuncName(fd), k)
			if k == 0 {
				c.Ok("lit-index", key, ix.Pos(), "index 0 of a token that always has text")
				return true
			}
			// guarded: an enclosing condition (or the left operand of the && that holds the index) tests len(p.lit) > k
			guarded := false
			for p := par[ast.Node(ix)]; p != nil; p = par[p] {
				var cond ast.Expr
				switch x := p.(type) {
				case *ast.BinaryExpr:
					if x.Op == token.LAND {
						cond = x.X
					}
				case *ast.IfStmt:
					cond = x.Cond
				}
				if cond != nil && strings.Contains(nows(core.ExprStr(cond)), "len(p.lit)>") {
					guarded = true
				}
			}
			c.Decide(guarded, "lit-index", key, ix.Pos(), "guarded by a length test", core.Sprintf("p.lit[%d] is read without a `len(p.lit) > %d` guard: a one-byte `#` comment (or another short token text) makes ParseFile panic with index out of range", k, k))
			return true
		})
	}
	c.Analysed("constant_indexes_into_token_text", nIdx)
	c.Floor("lit-index", 2)

	// ---------- (e) scope pairing: an unbalanced scope trips assert("unbalanced scopes") at the end of parseFile
	scopePairing(c, prog)
}

// eofBound classifies a loop condition of the parser: "bounded" (false at EOF), "unbounded", or "not-a-token-loop".
func eofBound(cond ast.Expr) string {
	mentionsTok, callsParser := false, false
	ast.Inspect(cond, func(n ast.Node) bool {
		switch x := n.(type) {
		case *ast.SelectorExpr:
			if id, ok := x.X.(*ast.Ident); ok && id.Name == "p" && x.Sel.Name == "tok" {
				mentionsTok = true
			}
		case *ast.CallExpr:
			if sel, ok := x.Fun.(*ast.SelectorExpr); ok {
				if id, ok := sel.X.(*ast.Ident); ok && id.Name == "p" {
					callsParser = true
				}
			}
		}
		return true
	})
	if !mentionsTok && !callsParser {
		return "not-a-token-loop"
	}
	// falseAtEOF: the expression cannot hold when p.tok == EOF
	var falseAtEOF func(e ast.Expr) bool
	isTok := func(e ast.Expr) bool {
		sel, ok := ast.Unparen(e).(*ast.SelectorExpr)
		if !ok {
			return false
		}
		id, ok := sel.X.(*ast.Ident)
		return ok && id.Name == "p" && sel.Sel.Name == "tok"
	}
	isEOF := func(e ast.Expr) bool { return strings.HasSuffix(core.ExprStr(e), "token.EOF") }
	falseAtEOF = func(e ast.Expr) bool {
		e = ast.Unparen(e)
		be, ok := e.(*ast.BinaryExpr)
		if !ok {
			return false
		}
		switch be.Op {
		case token.LAND:
			return falseAtEOF(be.X) || falseAtEOF(be.Y)
		case token.LOR:
			return falseAtEOF(be.X) && falseAtEOF(be.Y)
		case token.NEQ:
			return isTok(be.X) && isEOF(be.Y)
		case token.EQL:
			return isTok(be.X) && !isEOF(be.Y) // a positive test against another token
		}
		return false
	}
	if falseAtEOF(cond) {
		return "bounded"
	}
	// `name0 != nil || <bounded>`: a one-shot flag the body clears (reviewed idiom of parseParameterList)
	if be, ok := ast.Unparen(cond).(*ast.BinaryExpr); ok && be.Op == token.LOR {
		if x, ok := ast.Unparen(be.X).(*ast.BinaryExpr); ok && x.Op == token.NEQ && core.ExprStr(x.Y) == "nil" && falseAtEOF(be.Y) {
			return "bounded"
		}
	}
	return "unbounded"
}

// c13ScopeNet: functions whose net scope effect is deliberately non-zero (function -> net, reason).
var c13ScopeNet = map[string]struct {
	net int
	why string
}{
	"parser.parseBody": {-1, "closes the function scope that its caller created with ast.NewScope and that parseBody itself installs by assignment (p.topScope = scope)"},
}

func scopePairing(c *core.Check, prog *core.Prog) {
	pk := prog.Pkg("./parser")
	info := pk.TypesInfo
	parserT := prog.NamedType("./parser", "parser")
	open, closeM := findMethod(parserT, "openScope"), findMethod(parserT, "closeScope")
	openL, closeL := findMethod(parserT, "openLabelScope"), findMethod(parserT, "closeLabelScope")
	if open == nil || closeM == nil {
		c.Bad("anchor", "parser.openScope/closeScope", 0, "scope helpers not found")
		return
	}
	// state layout: bits 0-2 depth(+2 bias), 3-5 deferred closes, 6-8 label depth(+2), 9-11 deferred label closes, 12 overflow
	get := func(st flow.State, sh uint) int { return int(st>>sh) & 7 }
	set := func(st flow.State, sh uint, v int) flow.State {
		if v < 0 || v > 7 {
			return st | 1<<12
		}
		return st&^(7<<sh) | flow.State(v)<<sh
	}
	n := 0
	for _, fd := range core.AllFuncDecls(pk) {
		uses := false
		ast.Inspect(fd.Body, func(m ast.Node) bool {
			if call, ok := m.(*ast.CallExpr); ok {
				switch calleeObj(info, call) {
				case open, closeM, openL, closeL:
					uses = true
				}
			}
			return true
		})
		if !uses || core.RecvName(fd) != "parser" {
			continue
		}
		switch fd.Name.Name {
		case "openScope", "closeScope", "openLabelScope", "closeLabelScope":
			continue
		}
		n++
		p := &flow.Problem{Body: fd.Body, Info: info, Init: 2 | 2<<6}
		p.Node = func(nd ast.Node, st flow.State, record bool) flow.State {
			if d, ok := nd.(*ast.DeferStmt); ok {
				switch calleeObj(info, d.Call) {
				case closeM:
					st = set(st, 3, get(st, 3)+1)
				case closeL:
					st = set(st, 9, get(st, 9)+1)
				}
				return st
			}
			if as, ok := nd.(*ast.AssignStmt); ok && len(as.Lhs) == 1 && len(as.Rhs) == 1 {
				// p.topScope = ast.NewScope(p.topScope) opens a scope by hand
				if sel, ok := ast.Unparen(as.Lhs[0]).(*ast.SelectorExpr); ok && sel.Sel.Name == "topScope" {
					if call, ok := ast.Unparen(as.Rhs[0]).(*ast.CallExpr); ok {
						if fn, ok := calleeObj(info, call).(*types.Func); ok && fn.Name() == "NewScope" {
							st = set(st, 0, get(st, 0)+1)
						}
					}
				}
			}
			for _, call := range flow.Calls(nd) {
				switch calleeObj(info, call) {
				case open:
					st = set(st, 0, get(st, 0)+1)
				case closeM:
					st = set(st, 0, get(st, 0)-1)
				case openL:
					st = set(st, 6, get(st, 6)+1)
				case closeL:
					st = set(st, 6, get(st, 6)-1)
				}
			}
			return st
		}
		res := flow.Solve(p)
		name := "parser." + fd.Name.Name
		want := 0
		if e, ok := c13ScopeNet[name]; ok {
			want = e.net
		}
		bad := token.NoPos
		got := 0
		for _, e := range res.Exits {
			net := get(e.State, 0) - 2 - get(e.State, 3)
			netL := get(e.State, 6) - 2 - get(e.State, 9)
			if e.State&(1<<12) != 0 || net != want || netL != 0 {
				bad, got = e.Pos, net
			}
		}
		c.Decide(!bad.IsValid(), "scope-pairing", name, bad, core.Sprintf("every exit leaves the scope depth changed by %d", want),
			core.Sprintf("an exit of this method leaves the identifier/label scope depth changed by %d instead of %d (an openScope without its closeScope on that path, or the reverse): parseFile's assert(\"unbalanced scopes\") then panics, or later identifiers resolve in the wrong scope", got, want))
	}
	c.Floor("scope-pairing", 8)
	c.Analysed("functions_with_scope_calls", n)

	// a block parsed as the body of a closure needs its own label scope: parseBranchStmt records labels in
	// p.targetStack[len-1], which does not exist for a closure at package level
	blockM := findMethod(parserT, "parseBlockStmt")
	for _, fd := range core.AllFuncDecls(pk) {
		if fd.Name.Name != "parseLambdaExpr" || core.RecvName(fd) != "parser" {
			continue
		}
		ok, seen := true, false
		p := &flow.Problem{Body: fd.Body, Info: info, Init: 2 << 6}
		p.Node = func(nd ast.Node, st flow.State, record bool) flow.State {
			for _, call := range flow.Calls(nd) {
				switch calleeObj(info, call) {
				case openL:
					st = set(st, 6, get(st, 6)+1)
				case closeL:
					st = set(st, 6, get(st, 6)-1)
				case blockM:
					if record {
						seen = true
						if get(st, 6) <= 2 {
							ok = false
						}
					}
				}
			}
			return st
		}
		flow.Solve(p)
		if seen {
			c.Decide(ok, "closure-label-scope", "parser.parseLambdaExpr", fd.Pos(), "the lambda block is parsed inside its own label scope",
				"a lambda block is parsed without an enclosing openLabelScope: a labelled break/continue/goto inside a lambda at package level indexes p.targetStack[-1] and panics out of ParseFile")
		}
	}

	// a struct that embeds an interface only to satisfy it (the embedded value is never set) must declare every
	// exported method of that interface itself: the promoted ones dereference nil
	for _, name := range pk.Types.Scope().Names() {
		tn, ok := pk.Types.Scope().Lookup(name).(*types.TypeName)
		if !ok {
			continue
		}
		nt, ok := tn.Type().(*types.Named)
		if !ok {
			continue
		}
		st, ok := nt.Underlying().(*types.Struct)
		if !ok {
			continue
		}
		for i := 0; i < st.NumFields(); i++ {
			f := st.Field(i)
			iface, isIface := types.Unalias(f.Type()).Underlying().(*types.Interface)
			if !f.Embedded() || !isIface {
				continue
			}
			if len(fieldStores(prog.Root, f)) > 0 {
				continue // the embedded value is provided somewhere
			}
			missing := ""
			for j := 0; j < iface.NumMethods(); j++ {
				m := iface.Method(j)
				if !m.Exported() {
					continue
				}
				declared := false
				for k := 0; k < nt.NumMethods(); k++ {
					if nt.Method(k).Name() == m.Name() {
						declared = true
					}
				}
				if !declared {
					missing += " " + m.Name()
				}
			}
			c.Decide(missing == "", "nil-embedded-iface", "parser."+name, tn.Pos(), "declares every exported method of the interface it embeds without a value",
				"this struct embeds interface "+f.Name()+" but no literal ever sets it, and it does not declare"+missing+": calling the promoted method on a value that reaches error recovery dereferences nil and panics out of ParseFile")
		}
	}

}
