package props

import (
	"go/ast"
	"go/token"
	"go/types"
	"strings"

	"verif/checker/internal/core"
	"verif/checker/internal/flow"
)

func init() {
	f := "x/xgoprojs/proj.go"
	register(&Prop{
		ID:        "C35",
		Title:     "Project arguments are partitioned in order",
		Technique: "slice-complementarity and loop-shape rules on ParseOne, path-sensitive flag/ground-truth analysis of ParseAll on go/cfg",
		Explanation: "Decides for every argument list that (1) each successful return of ParseOne hands back a consumed prefix and a `next` suffix that are complementary slices of its input (args[:n]/args[n:] with the same n, or args[0]/args[1:]), and the project kind returned is the one whose predicate (isFile / isLocal) was established on that path; " +
			"(2) the file run is extended exactly while the next argument is a file (the loop condition is the bounds test and isFile(args[n]) and nothing else, n starts at 1 and only n++ changes it) — maximal runs; " +
			"(3) ParseAll appends every project returned by ParseOne exactly once, in order, and continues with exactly `next`; (4) ErrMixedFilesProj is returned on exactly those paths on which both a *FilesProj and a non-files project were seen (ground truth taken from the type test on each returned project).",
		NotCovered: "the character-level definitions of isFile/isLocal themselves.",
		Run:        runC35,
		Controls: []Control{
			{Name: "skip-arg", File: f, Old: "return &DirProj{Dir: arg}, args[1:], nil", New: "return &DirProj{Dir: arg}, args[2:], nil", Expect: "partition/ParseOne:DirProj"},
			{Name: "files-overlap", File: f, Old: "return &FilesProj{Files: args[:n]}, args[n:], nil", New: "return &FilesProj{Files: args[:n]}, args[n-1:], nil", Expect: "partition/ParseOne:FilesProj"},
			{Name: "run-not-maximal", File: f, Old: "for n < len(args) && isFile(args[n]) {", New: "for n < len(args) && isFile(args[n]) && filepath.Dir(args[n]) == filepath.Dir(arg) {", Expect: "maximal-run/ParseOne"},
			{Name: "run-too-greedy", File: f, Old: "for n < len(args) && isFile(args[n]) {", New: "for n < len(args) {", Expect: "maximal-run/ParseOne"},
			{Name: "wrong-kind", File: f, Old: "\tif isLocal(arg) {\n\t\treturn &DirProj{Dir: arg}, args[1:], nil\n\t}\n\treturn &PkgPathProj{Path: arg}, args[1:], nil", New: "\tif isLocal(arg) {\n\t\treturn &PkgPathProj{Path: arg}, args[1:], nil\n\t}\n\treturn &DirProj{Dir: arg}, args[1:], nil", Expect: "kind/ParseOne"},
			{Name: "mixed-fail-fast", File: f, Old: "\t\tif _, ok := proj.(*FilesProj); ok {\n\t\t\thasFiles = true\n\t\t} else {", New: "\t\tif _, ok := proj.(*FilesProj); ok {\n\t\t\tif len(projs) > 0 {\n\t\t\t\treturn nil, ErrMixedFilesProj\n\t\t\t}\n\t\t\thasFiles = true\n\t\t} else {", Expect: "mixed-error/ParseAll"},
			{Name: "flags-swapped", File: f, Old: "\t\t\thasFiles = true\n\t\t} else {\n\t\t\thasNotFiles = true", New: "\t\t\thasFiles = true\n\t\t} else {\n\t\t\thasFiles = true", Expect: "mixed-error/ParseAll"},
			{Name: "mixed-or", File: f, Old: "if hasFiles && hasNotFiles {", New: "if hasFiles || hasNotFiles {", Expect: "mixed-error/ParseAll"},
			{Name: "append-skipped", File: f, Old: "\t\tprojs = append(projs, proj)\n", New: "\t\tif hasNotFiles {\n\t\t\tprojs = append(projs, proj)\n\t\t}\n", Expect: "accumulate/ParseAll"},
			{Name: "no-advance", File: f, Old: "\t\targs = next\n", New: "\t\targs = next[:len(next):len(next)]\n\t\t_ = next\n", Expect: "accumulate/ParseAll"},
		},
	})
}

func runC35(c *core.Check) {
	prog := c.Load("./x/xgoprojs")
	pk := prog.Pkg("./x/xgoprojs")
	if pk == nil {
		return
	}
	info := pk.TypesInfo
	c.Trust("golang.org/x/tools@v0.29.0 go/cfg")
	one := prog.FuncDecl("./x/xgoprojs", "ParseOne")
	all := prog.FuncDecl("./x/xgoprojs", "ParseAll")
	if one == nil || all == nil {
		return
	}
	isFileObj, isLocalObj := pk.Types.Scope().Lookup("isFile"), pk.Types.Scope().Lookup("isLocal")
	filesT, dirT, pkgT := prog.NamedType("./x/xgoprojs", "FilesProj"), prog.NamedType("./x/xgoprojs", "DirProj"), prog.NamedType("./x/xgoprojs", "PkgPathProj")
	mixedErr := pk.Types.Scope().Lookup("ErrMixedFilesProj")
	if isFileObj == nil || isLocalObj == nil || filesT == nil || dirT == nil || pkgT == nil || mixedErr == nil {
		c.Bad("anchor", "xgoprojs members", one.Pos(), "isFile/isLocal/FilesProj/DirProj/PkgPathProj/ErrMixedFilesProj not all found")
		return
	}
	args := paramObj(one, info, 0)

	// ---------- ParseOne: first-argument alias
	firstAlias := map[types.Object]bool{} // variables that are exactly args[0]
	ast.Inspect(one.Body, func(n ast.Node) bool {
		if as, ok := n.(*ast.AssignStmt); ok && len(as.Lhs) == 1 && len(as.Rhs) == 1 {
			if ix, ok := ast.Unparen(as.Rhs[0]).(*ast.IndexExpr); ok && identObj(info, ix.X) == args {
				if tv := info.Types[ix.Index]; tv.Value != nil && tv.Value.String() == "0" {
					if o := identObj(info, as.Lhs[0]); o != nil {
						firstAlias[o] = true
					}
				}
			}
		}
		return true
	})
	isFirst := func(e ast.Expr) bool {
		if o := identObj(info, e); o != nil && firstAlias[o] {
			return true
		}
		if ix, ok := ast.Unparen(e).(*ast.IndexExpr); ok && identObj(info, ix.X) == args {
			if tv := info.Types[ix.Index]; tv.Value != nil && tv.Value.String() == "0" {
				return true
			}
		}
		return false
	}
	sliceOf := func(e ast.Expr) (lo, hi string, ok bool) { // args[lo:hi]
		se, isSl := ast.Unparen(e).(*ast.SliceExpr)
		if !isSl || identObj(info, se.X) != args || se.Max != nil {
			return "", "", false
		}
		if se.Low != nil {
			lo = core.ExprStr(se.Low)
		}
		if se.High != nil {
			hi = core.ExprStr(se.High)
		}
		return lo, hi, true
	}

	// path facts for the kind rule
	const (
		bIsFile flow.State = 1 << iota
		bNotFile
		bIsLocal
		bNotLocal
	)
	type retObs struct {
		ret *ast.ReturnStmt
		st  flow.State
	}
	var rets []retObs
	p := &flow.Problem{Body: one.Body, Info: info}
	p.Node = func(n ast.Node, st flow.State, record bool) flow.State {
		if r, ok := n.(*ast.ReturnStmt); ok && record {
			rets = append(rets, retObs{r, st})
		}
		return st
	}
	p.Edge = func(cond ast.Expr, truth bool, st flow.State) (flow.State, bool) {
		call, ok := ast.Unparen(cond).(*ast.CallExpr)
		if !ok || len(call.Args) != 1 || !isFirst(call.Args[0]) {
			return st, true
		}
		switch calleeObj(info, call) {
		case isFileObj:
			if truth {
				return st | bIsFile, true
			}
			return st | bNotFile, true
		case isLocalObj:
			if truth {
				return st | bIsLocal, true
			}
			return st | bNotLocal, true
		}
		return st, true
	}
	res := flow.Solve(p)
	c.Analysed("cfg_blocks_ParseOne", res.Blocks)
	c.Floor("partition", 3)
	kindBad := ""
	var kindPos token.Pos
	for _, r := range rets {
		if len(r.ret.Results) != 3 {
			continue
		}
		if id, ok := ast.Unparen(r.ret.Results[0]).(*ast.Ident); ok && id.Name == "nil" {
			continue // the empty-input error return
		}
		e := ast.Unparen(r.ret.Results[0])
		if u, ok := e.(*ast.UnaryExpr); ok && u.Op == token.AND {
			e = u.X
		}
		cl, ok := e.(*ast.CompositeLit)
		if !ok {
			c.Undecided("partition", "ParseOne:?", r.ret.Pos(), "a successful return does not build its project with a composite literal")
			continue
		}
		nt := namedOf(info.TypeOf(cl))
		name := "?"
		if nt != nil {
			name = nt.Obj().Name()
		}
		var val ast.Expr
		if len(cl.Elts) == 1 {
			if kv, ok := cl.Elts[0].(*ast.KeyValueExpr); ok {
				val = kv.Value
			} else {
				val = cl.Elts[0]
			}
		}
		nlo, nhi, nok := sliceOf(r.ret.Results[1])
		good := false
		switch nt {
		case filesT:
			lo, hi, ok := sliceOf(val)
			good = ok && nok && lo == "" && hi != "" && nlo == hi && nhi == ""
			if r.st&bIsFile == 0 {
				kindBad, kindPos = "a *FilesProj is returned on a path where isFile(args[0]) was not established", r.ret.Pos()
			}
		case dirT, pkgT:
			good = val != nil && isFirst(val) && nok && nlo == "1" && nhi == ""
			if nt == dirT && (r.st&bIsLocal == 0 || r.st&bNotFile == 0) {
				kindBad, kindPos = "a *DirProj is returned on a path where !isFile && isLocal was not established", r.ret.Pos()
			}
			if nt == pkgT && (r.st&bNotLocal == 0 || r.st&bNotFile == 0) {
				kindBad, kindPos = "a *PkgPathProj is returned on a path where !isFile && !isLocal was not established", r.ret.Pos()
			}
		}
		c.Decide(good, "partition", "ParseOne:"+name, r.ret.Pos(), "consumed part and next are complementary slices of args",
			"the consumed arguments and `next` are not complementary slices of the input (args[:n]/args[n:] with one n, or args[0]/args[1:]): an argument is dropped, duplicated or reordered")
	}
	c.Decide(kindBad == "", "kind", "ParseOne", kindPos, "each project kind is returned under its own predicate", kindBad)

	// ---------- maximal run loop
	var loop *ast.ForStmt
	ast.Inspect(one.Body, func(n ast.Node) bool {
		if f, ok := n.(*ast.ForStmt); ok && loop == nil {
			loop = f
		}
		return true
	})
	if loop == nil {
		c.Undecided("maximal-run", "ParseOne", one.Pos(), "no run-extension loop found")
	} else {
		var conj []ast.Expr
		var split func(e ast.Expr)
		split = func(e ast.Expr) {
			if be, ok := ast.Unparen(e).(*ast.BinaryExpr); ok && be.Op == token.LAND {
				split(be.X)
				split(be.Y)
				return
			}
			conj = append(conj, e)
		}
		if loop.Cond != nil {
			split(loop.Cond)
		}
		var nVar types.Object
		bound, pred, other := false, false, 0
		for _, e := range conj {
			if be, ok := ast.Unparen(e).(*ast.BinaryExpr); ok && be.Op == token.LSS {
				if call, ok := ast.Unparen(be.Y).(*ast.CallExpr); ok && len(call.Args) == 1 && identObj(info, call.Args[0]) == args {
					if id, ok := call.Fun.(*ast.Ident); ok && id.Name == "len" {
						nVar = identObj(info, be.X)
						bound = true
						continue
					}
				}
			}
			if call, ok := ast.Unparen(e).(*ast.CallExpr); ok && calleeObj(info, call) == isFileObj && len(call.Args) == 1 {
				if ix, ok := ast.Unparen(call.Args[0]).(*ast.IndexExpr); ok && identObj(info, ix.X) == args && nVar != nil && identObj(info, ix.Index) == nVar {
					pred = true
					continue
				}
			}
			other++
		}
		bodyOK := len(loop.Body.List) == 1 && loop.Init == nil && loop.Post == nil
		if bodyOK {
			inc, ok := loop.Body.List[0].(*ast.IncDecStmt)
			bodyOK = ok && inc.Tok == token.INC && identObj(info, inc.X) == nVar
		}
		startOK := false
		if nVar != nil {
			ast.Inspect(one.Body, func(n ast.Node) bool {
				if as, ok := n.(*ast.AssignStmt); ok && as.Tok == token.DEFINE {
					for i, l := range as.Lhs {
						if info.Defs[l.(*ast.Ident)] == nVar && i < len(as.Rhs) {
							if tv := info.Types[as.Rhs[i]]; tv.Value != nil && tv.Value.String() == "1" {
								startOK = true
							}
						}
					}
				}
				return true
			})
		}
		c.Decide(bound && pred && other == 0 && bodyOK && startOK, "maximal-run", "ParseOne", loop.Pos(), "the run grows from 1 exactly while n < len(args) && isFile(args[n])",
			core.Sprintf("the file run must start at 1 and be extended exactly while the next argument is a file (bounds=%v isFile(args[n])=%v extra-conditions=%d body-is-n++=%v start-at-1=%v): otherwise adjacent file arguments are split into several files projects or non-files are swallowed", bound, pred, other, bodyOK, startOK))
	}

	// ---------- ParseAll
	aargs := paramObj(all, info, 0)
	var projVar, nextVar, okVar types.Object
	var projsVar types.Object
	if all.Type.Results != nil && len(all.Type.Results.List) > 0 && len(all.Type.Results.List[0].Names) > 0 {
		projsVar = info.Defs[all.Type.Results.List[0].Names[0]]
	}
	oneObj := pk.Types.Scope().Lookup("ParseOne")
	ast.Inspect(all.Body, func(n ast.Node) bool {
		as, ok := n.(*ast.AssignStmt)
		if !ok || len(as.Rhs) != 1 {
			return true
		}
		if call, ok := ast.Unparen(as.Rhs[0]).(*ast.CallExpr); ok && calleeObj(info, call) == oneObj && len(as.Lhs) == 3 {
			projVar, nextVar = identObj(info, as.Lhs[0]), identObj(info, as.Lhs[1])
		}
		if ta, ok := ast.Unparen(as.Rhs[0]).(*ast.TypeAssertExpr); ok && len(as.Lhs) == 2 && ta.Type != nil {
			if namedOf(info.TypeOf(ta.Type)) == filesT && projVar != nil && identObj(info, ta.X) == projVar {
				okVar = identObj(info, as.Lhs[1])
			}
		}
		return true
	})
	if projVar == nil || nextVar == nil || projsVar == nil {
		c.Undecided("accumulate", "ParseAll", all.Pos(), "cannot identify proj/next/projs variables")
		return
	}
	flagVars := map[types.Object]flow.State{}
	const (
		sawF flow.State = 1 << iota
		sawNF
		varA // first flag variable true
		varB
		called
		appended
		advanced
		lost
		pendingKind // a project was parsed whose kind was not yet classified
	)
	// flags: boolean locals assigned `true`
	ast.Inspect(all.Body, func(n ast.Node) bool {
		if as, ok := n.(*ast.AssignStmt); ok && len(as.Lhs) == 1 && len(as.Rhs) == 1 {
			if id, ok := ast.Unparen(as.Rhs[0]).(*ast.Ident); ok && id.Name == "true" {
				if o := identObj(info, as.Lhs[0]); o != nil {
					if _, have := flagVars[o]; !have {
						if len(flagVars) == 0 {
							flagVars[o] = varA
						} else if len(flagVars) == 1 {
							flagVars[o] = varB
						}
					}
				}
			}
		}
		return true
	})
	ap := &flow.Problem{Body: all.Body, Info: info}
	ap.Node = func(n ast.Node, st flow.State, record bool) flow.State {
		for _, call := range flow.Calls(n) {
			if calleeObj(info, call) == oneObj {
				if st&called != 0 && (st&appended == 0 || st&advanced == 0) {
					st |= lost
				}
				// the argument must be exactly args...
				if !(len(call.Args) == 1 && identObj(info, call.Args[0]) == aargs && call.Ellipsis.IsValid()) {
					st |= lost
				}
				st = (st | called | pendingKind) &^ (appended | advanced)
			}
		}
		if as, ok := n.(*ast.AssignStmt); ok && len(as.Lhs) == 1 && len(as.Rhs) == 1 {
			l := identObj(info, as.Lhs[0])
			if l == projsVar {
				good := false
				if call, ok := ast.Unparen(as.Rhs[0]).(*ast.CallExpr); ok && len(call.Args) == 2 && !call.Ellipsis.IsValid() {
					if id, ok := call.Fun.(*ast.Ident); ok && id.Name == "append" && identObj(info, call.Args[0]) == projsVar && identObj(info, call.Args[1]) == projVar {
						good = true
					}
				}
				if good && st&appended == 0 {
					st |= appended
				} else {
					st |= lost
				}
			}
			if l == aargs {
				if identObj(info, as.Rhs[0]) == nextVar && st&advanced == 0 {
					st |= advanced
				} else {
					st |= lost
				}
			}
			if b, ok := flagVars[l]; ok {
				if id, ok := ast.Unparen(as.Rhs[0]).(*ast.Ident); ok && id.Name == "true" {
					st |= b
				} else {
					st &^= b
				}
			}
		}
		return st
	}
	ap.Edge = func(cond ast.Expr, truth bool, st flow.State) (flow.State, bool) {
		e := ast.Unparen(cond)
		if okVar != nil && identObj(info, e) == okVar {
			st &^= pendingKind
			if truth {
				return st | sawF, true
			}
			return st | sawNF, true
		}
		// conjunctions / disjunctions of the flag variables
		var eval func(e ast.Expr) (val, known bool)
		eval = func(e ast.Expr) (bool, bool) {
			e = ast.Unparen(e)
			if b, ok := flagVars[identObj(info, e)]; ok && identObj(info, e) != nil {
				return st&b != 0, true
			}
			if be, ok := e.(*ast.BinaryExpr); ok && (be.Op == token.LAND || be.Op == token.LOR) {
				x, kx := eval(be.X)
				y, ky := eval(be.Y)
				if kx && ky {
					if be.Op == token.LAND {
						return x && y, true
					}
					return x || y, true
				}
			}
			if u, ok := e.(*ast.UnaryExpr); ok && u.Op == token.NOT {
				x, k := eval(u.X)
				return !x, k
			}
			return false, false
		}
		if v, known := eval(e); known {
			return st, v == truth
		}
		return st, true
	}
	ares := flow.Solve(ap)
	c.Analysed("cfg_blocks_ParseAll", ares.Blocks)
	accBad, mixBad := "", ""
	var accPos, mixPos token.Pos
	for _, ex := range ares.Exits {
		if ex.State&lost != 0 {
			accBad, accPos = "a project returned by ParseOne is not appended exactly once before the next ParseOne call, or the next call does not continue with exactly `next`", ex.Pos
		}
		isMixed := false
		if ex.Ret != nil {
			for _, r := range ex.Ret.Results {
				if identObj(info, r) == mixedErr {
					isMixed = true
				}
			}
		}
		truth := ex.State&sawF != 0 && ex.State&sawNF != 0
		if isMixed != truth {
			mixPos = ex.Pos
			if isMixed {
				mixBad = "ErrMixedFilesProj is returned on a path on which files and non-files projects were NOT both seen"
			} else {
				mixBad = "an exit without ErrMixedFilesProj is reachable on a path on which both a files project and a non-files project were seen"
			}
		}
		if ex.State&pendingKind != 0 && ex.State&called != 0 {
			// the last ParseOne failed (error path) — fine; a successful one must have been classified
		}
	}
	// the loop must not be able to spin without classification/append: covered by `lost`
	c.Decide(accBad == "", "accumulate", "ParseAll", accPos, "every parsed project is appended once, in order; parsing continues with next", accBad)
	c.Decide(mixBad == "", "mixed-error", "ParseAll", mixPos, "ErrMixedFilesProj ⇔ a *FilesProj and a non-files project were both returned by ParseOne", mixBad+" (ground truth: the `proj.(*FilesProj)` test on every project)")
	if okVar == nil {
		c.Bad("mixed-error", "ParseAll", all.Pos(), "no `proj.(*FilesProj)` type test found: nothing distinguishes files projects from the others")
	}
	_ = strings.TrimSpace
}
