package props

import (
	"go/ast"
	"go/token"
	"go/types"
	"sort"
	"strings"

	"golang.org/x/tools/go/packages"

	"verif/checker/internal/core"
)

// c24Classifier: the hoisting classifier isFuncDecl decides, from the token that follows `func (…)`, whether the chunk
// is a method declaration (hoisted) or a function literal (a statement). The parser (parseFuncDeclOrCall) continues a
// declaration after the receiver on: an identifier, `.` (overload declaration `func (T).name = (…)`) and every
// overloadable operator (`func (a T) + (b T) T`). The rule evaluates isFuncDecl's own statements once per token of that
// set — startWith(words, X) is true exactly for X == the token — and demands `true`; for `{` (`func (x int) { … }()`,
// the parser's function-literal arm) it demands `false`.
func c24Classifier(c *core.Check, prog *core.Prog, pk, xpk *packages.Package) {
	fd := core.FindFuncDecl(pk, "isFuncDecl")
	if fd == nil || fd.Body == nil {
		c.Bad("anchor", "formatutil.isFuncDecl", 0, "classifier not found")
		return
	}
	info := pk.TypesInfo
	words := paramObj(fd, info, 0)
	// the parser's continuation set
	var cont []string
	if ops := xpk.Types.Scope().Lookup("overloadOps"); ops != nil {
		for _, f := range xpk.Syntax {
			ast.Inspect(f, func(n ast.Node) bool {
				vs, ok := n.(*ast.ValueSpec)
				if !ok || len(vs.Names) != 1 || xpk.TypesInfo.Defs[vs.Names[0]] != ops || len(vs.Values) != 1 {
					return true
				}
				if cl, ok := vs.Values[0].(*ast.CompositeLit); ok {
					for _, el := range cl.Elts {
						if kv, ok := el.(*ast.KeyValueExpr); ok {
							if sel, ok := kv.Key.(*ast.SelectorExpr); ok {
								cont = append(cont, sel.Sel.Name)
							}
						}
					}
				}
				return false
			})
		}
	}
	if len(cont) < 20 {
		c.Undecided("classifier", "parser.overloadOps", fd.Pos(), "the parser's table of overloadable operators was not found as a keyed array literal")
		return
	}
	cont = append(cont, "IDENT", "PERIOD")
	sort.Strings(cont)

	// locate `if startWith(words, token.LPAREN) { words = seekAfter(…); REST }` followed by TAIL
	var recvIf *ast.IfStmt
	var tail []ast.Stmt
	for i, s := range fd.Body.List {
		if is, ok := s.(*ast.IfStmt); ok && is.Init == nil && is.Else == nil {
			if tok, ok := c24StartWith(info, is.Cond, words); ok && tok == "LPAREN" {
				recvIf, tail = is, fd.Body.List[i+1:]
				break
			}
		}
	}
	if recvIf == nil || len(recvIf.Body.List) == 0 {
		c.Undecided("classifier", "isFuncDecl:receiver-arm", fd.Pos(), "no `if startWith(words, token.LPAREN) { … }` arm found: the classifier's decision after a receiver cannot be evaluated")
		return
	}
	first, ok := recvIf.Body.List[0].(*ast.AssignStmt)
	if !ok || len(first.Lhs) != 1 || identObj(info, first.Lhs[0]) != words || !strings.Contains(nows(core.ExprStr(first.Rhs[0])), "seekAfter(words[1:],token.RPAREN,token.LPAREN)") {
		c.Undecided("classifier", "isFuncDecl:receiver-arm", recvIf.Pos(), "the receiver arm does not start by skipping the balanced parameter list (words = seekAfter(words[1:], token.RPAREN, token.LPAREN))")
		return
	}
	stmts := append(append([]ast.Stmt{}, recvIf.Body.List[1:]...), tail...)
	eval := func(tok string) (result, decided bool) {
		var evalExpr func(e ast.Expr) (bool, bool)
		evalExpr = func(e ast.Expr) (bool, bool) {
			switch x := ast.Unparen(e).(type) {
			case *ast.Ident:
				if x.Name == "true" || x.Name == "false" {
					return x.Name == "true", true
				}
			case *ast.UnaryExpr:
				if x.Op == token.NOT {
					v, ok := evalExpr(x.X)
					return !v, ok
				}
			case *ast.BinaryExpr:
				if x.Op == token.LAND || x.Op == token.LOR {
					a, ok1 := evalExpr(x.X)
					b, ok2 := evalExpr(x.Y)
					if x.Op == token.LAND {
						return a && b, ok1 && ok2
					}
					return a || b, ok1 && ok2
				}
			case *ast.CallExpr:
				if t, ok := c24StartWith(info, x, words); ok {
					return t == tok, true
				}
			}
			return false, false
		}
		var run func(list []ast.Stmt) (ret, returned, ok bool)
		run = func(list []ast.Stmt) (bool, bool, bool) {
			for _, s := range list {
				switch x := s.(type) {
				case *ast.ReturnStmt:
					if len(x.Results) != 1 {
						return false, false, false
					}
					v, ok := evalExpr(x.Results[0])
					return v, true, ok
				case *ast.IfStmt:
					if x.Init != nil {
						return false, false, false
					}
					cv, ok := evalExpr(x.Cond)
					if !ok {
						return false, false, false
					}
					var branch []ast.Stmt
					if cv {
						branch = x.Body.List
					} else if x.Else != nil {
						switch e := x.Else.(type) {
						case *ast.BlockStmt:
							branch = e.List
						case *ast.IfStmt:
							branch = []ast.Stmt{e}
						}
					}
					if r, returned, ok := run(branch); !ok || returned {
						return r, returned, ok
					}
				case *ast.BlockStmt:
					if r, returned, ok := run(x.List); !ok || returned {
						return r, returned, ok
					}
				default:
					return false, false, false
				}
			}
			return false, false, true
		}
		r, returned, ok := run(stmts)
		return r, ok && returned
	}
	n := 0
	for _, tok := range cont {
		r, ok := eval(tok)
		if !ok {
			c.Undecided("classifier", "after-receiver:"+tok, recvIf.Pos(), "isFuncDecl's statements after the receiver could not be evaluated for this token (only if/return over startWith(words, token.X) are interpreted)")
			continue
		}
		n++
		c.Decide(r, "classifier", "after-receiver:"+tok, recvIf.Pos(), "func (…) "+tok+" … is classified as a declaration, as the parser does", "isFuncDecl classifies `func (recv) "+tok+" …` as a statement, but the parser continues a method / overload declaration on this token (parseFuncDeclOrCall): the declaration is left among the statements, so function declarations no longer all precede them (and a declaration after a statement is a syntax error for SourceEx)")
	}
	if r, ok := eval("LBRACE"); ok {
		c.Decide(!r, "classifier", "after-receiver:LBRACE", recvIf.Pos(), "func (…) { … }() is a statement", "isFuncDecl classifies `func (params) { … }()` — a function literal call, a statement — as a declaration: it is hoisted above the statements that precede it")
	} else {
		c.Undecided("classifier", "after-receiver:LBRACE", recvIf.Pos(), "could not be evaluated")
	}
	c.Analysed("classifier_tokens_evaluated", n)
}

// c24StartWith recognises startWith(words, token.X) and returns X.
func c24StartWith(info *types.Info, e ast.Expr, words types.Object) (string, bool) {
	call, ok := ast.Unparen(e).(*ast.CallExpr)
	if !ok || len(call.Args) != 2 {
		return "", false
	}
	if fn, ok := calleeObj(info, call).(*types.Func); !ok || fn.Name() != "startWith" {
		return "", false
	}
	if identObj(info, call.Args[0]) != words {
		return "", false
	}
	if sel, ok := call.Args[1].(*ast.SelectorExpr); ok {
		return sel.Sel.Name, true
	}
	return "", false
}
