package props

import (
	"go/ast"
	"go/token"
	"go/types"

	"verif/checker/internal/core"
	"verif/checker/internal/flow"
)

func init() {
	m, cl := "tpl/matcher/match.go", "tpl/cl/compile.go"
	register(&Prop{
		ID:        "C28",
		Title:     "Grammar matching always terminates",
		Technique: "loop-progress path rule on go/cfg for every unbounded loop around Matcher.Match in tpl/matcher, left-recursion-detection coverage and recover-extent rules on tpl/cl.NewEx, restore-on-all-paths rule on Var.First",
		Explanation: "Decides for every grammar and input the structural conditions of termination: (1) in every condition-less `for` loop of package tpl/matcher that re-invokes a Matcher's Match, no path returns to that call site without having passed the false edge of a `consumed == 0` test on the previous call's count (every way round the loop either consumed input or left the loop) — including the dynamic-error path; " +
			"(2) cl.NewEx invokes Var.First — the only place left recursion is detected — for EVERY declared rule (a loop over the rule declarations or over the rules map), inside the extent of its recover, not only for rules that contain a choice or are reachable through the first set of doc; " +
			"(3) Var.First clears Elem as its re-entrancy mark, panics with RecursiveError when it finds the mark, and restores Elem on every returning path.",
		NotCovered: "a bound on the running time of well-formed grammars, recursion that is not left recursion but makes no progress through a nullable prefix at run time (First treats a nullable prefix statically), and user RetProcs that never return.",
		Run:        runC28,
		Controls: []Control{
			{Name: "repeat0-no-progress-test", File: m, Old: "\t\tsrc = src[n1:]\n\t\tif n1 == 0 { // nothing consumed: matching again would never end\n\t\t\tresult = rets\n\t\t\treturn\n\t\t}\n", New: "\t\tsrc = src[n1:]\n", Expect: "loop-progress/gRepeat0.Match"},
			{Name: "repeat1-progress-only-on-success", File: m, Old: "\t\trets = append(rets, ret1)\n\t\tn += n1\n\t\tif n1 == 0 { // nothing consumed: matching again would never end\n\t\t\tresult = rets\n\t\t\treturn\n\t\t}\n\t}\n}", New: "\t\trets = append(rets, ret1)\n\t\tn += n1\n\t\tif n1 == 0 && err1 == nil { // nothing consumed: matching again would never end\n\t\t\tresult = rets\n\t\t\treturn\n\t\t}\n\t}\n}", Expect: "loop-progress/gRepeat1.Match"},
			{Name: "first-only-for-doc", File: cl, Old: "\t\tfor _, f := range files {\n\t\t\tfor _, decl := range f.Decls {\n\t\t\t\tif decl, ok := decl.(*ast.Rule); ok {\n\t\t\t\t\trules[decl.Name.Name].First(nil)\n\t\t\t\t}\n\t\t\t}\n\t\t}", New: "\t\tdoc.First(nil)", Expect: "leftrec-coverage/NewEx"},
			{Name: "first-check-removed", File: cl, Old: "\t\t\t\t\trules[decl.Name.Name].First(nil)\n", New: "\t\t\t\t\t_ = rules[decl.Name.Name]\n", Expect: "leftrec-coverage/NewEx"},
			{Name: "first-before-recover", File: cl, Old: "\tif doc == nil {\n\t\terr = ErrNoDocFound\n\t\treturn\n\t}\n", New: "\tif doc == nil {\n\t\terr = ErrNoDocFound\n\t\treturn\n\t}\n\tfor _, v := range rules {\n\t\tv.First(nil)\n\t}\n", Expect: "leftrec-coverage/NewEx"},
			{Name: "first-no-restore", File: m, Old: "\t\tfirst, mayEmpty = elem.First(in)\n\t\tp.Elem = elem\n", New: "\t\tfirst, mayEmpty = elem.First(in)\n", Expect: "first-guard/Var.First"},
			{Name: "first-no-mark", File: m, Old: "\t\tp.Elem = nil // to stop recursion\n", New: "", Expect: "first-guard/Var.First"},
		},
	})
}

func runC28(c *core.Check) {
	prog := c.Load("./tpl/matcher", "./tpl/cl")
	mpk, clpk := prog.Pkg("./tpl/matcher"), prog.Pkg("./tpl/cl")
	if mpk == nil || clpk == nil {
		return
	}
	c.Trust("golang.org/x/tools@v0.29.0 go/cfg")
	info := mpk.TypesInfo
	matcherT := prog.Lookup("./tpl/matcher", "Matcher")
	if matcherT == nil {
		return
	}
	mIface := ifaceOf(matcherT.Type())
	if mIface == nil {
		c.Bad("anchor", "matcher.Matcher", matcherT.Pos(), "not an interface")
		return
	}
	isMatchCall := func(call *ast.CallExpr) bool {
		sel, ok := ast.Unparen(call.Fun).(*ast.SelectorExpr)
		if !ok || sel.Sel.Name != "Match" {
			return false
		}
		t := info.TypeOf(sel.X)
		return t != nil && (types.Implements(t, mIface) || types.Implements(types.NewPointer(t), mIface))
	}

	// ---------- (1) loop progress
	c.Floor("loop-progress", 2)
	nLoops := 0
	for _, fd := range core.AllFuncDecls(mpk) {
		// call sites of Match inside condition-less for loops
		type site struct {
			call *ast.CallExpr
			cnt  types.Object // variable receiving the consumed count
		}
		var sites []site
		par := parentMap(fd)
		ast.Inspect(fd.Body, func(n ast.Node) bool {
			call, ok := n.(*ast.CallExpr)
			if !ok || !isMatchCall(call) {
				return true
			}
			inLoop := false
			for p := par[n]; p != nil; p = par[p] {
				if f, ok := p.(*ast.ForStmt); ok && f.Cond == nil {
					inLoop = true
				}
				if _, ok := p.(*ast.FuncLit); ok {
					break
				}
			}
			if !inLoop {
				return true
			}
			var cnt types.Object
			if as, ok := par[n].(*ast.AssignStmt); ok && len(as.Rhs) == 1 && len(as.Lhs) >= 1 {
				cnt = identObj(info, as.Lhs[0])
			}
			sites = append(sites, site{call, cnt})
			return true
		})
		if len(sites) == 0 {
			continue
		}
		nLoops++
		name := core.FuncName(fd)
		bit := func(i int) (seen, prog flow.State) { return 1 << (2 * i), 1 << (2*i + 1) }
		const lostBit flow.State = 1 << 40
		p := &flow.Problem{Body: fd.Body, Info: info}
		p.Node = func(n ast.Node, st flow.State, record bool) flow.State {
			for _, call := range flow.Calls(n) {
				for i, s := range sites {
					if s.call != call {
						continue
					}
					seen, progress := bit(i)
					if st&seen != 0 && st&progress == 0 {
						st |= lostBit
					}
					st = (st | seen) &^ progress
				}
			}
			return st
		}
		p.Edge = func(cond ast.Expr, truth bool, st flow.State) (flow.State, bool) {
			var walk func(e ast.Expr, truth bool)
			walk = func(e ast.Expr, truth bool) {
				be, ok := ast.Unparen(e).(*ast.BinaryExpr)
				if !ok {
					return
				}
				if (be.Op == token.LAND && truth) || (be.Op == token.LOR && !truth) {
					walk(be.X, truth)
					walk(be.Y, truth)
					return
				}
				lit, ok := ast.Unparen(be.Y).(*ast.BasicLit)
				if !ok || lit.Value != "0" {
					return
				}
				for i, s := range sites {
					if s.cnt == nil || identObj(info, be.X) != s.cnt {
						continue
					}
					_, progress := bit(i)
					positive := false
					switch be.Op {
					case token.EQL, token.LEQ: // n == 0 / n <= 0 : false edge ⇒ consumed
						positive = !truth
					case token.NEQ, token.GTR: // n != 0 / n > 0 : true edge ⇒ consumed
						positive = truth
					}
					if positive {
						st |= progress
					}
				}
			}
			walk(cond, truth)
			return st, true
		}
		lost := false
		res := flow.Solve(p)
		for _, e := range res.Exits {
			if e.State&lostBit != 0 {
				lost = true
			}
		}
		// a loop without any exit never produces an exit state: look at every reachable vector instead
		if !lost {
			p2 := *p
			p2.Node = func(n ast.Node, st flow.State, record bool) flow.State {
				st = p.Node(n, st, record)
				if record && st&lostBit != 0 {
					lost = true
				}
				return st
			}
			flow.Solve(&p2)
		}
		c.AddAnalysed("cfg_blocks", res.Blocks)
		c.Decide(!lost, "loop-progress", name, sites[0].call.Pos(), "every way back to the inner Match call passes a `consumed != 0` edge",
			"a path leads back to the inner Match call of this unbounded loop without a test that the previous iteration consumed input: an operand that matches the empty input (or fails with a dynamic error) without consuming anything is matched forever and Parse never returns")
	}
	c.Analysed("unbounded_match_loops", nLoops)

	// ---------- (3) Var.First
	if vf := prog.FuncDecl("./tpl/matcher", "Var.First"); vf != nil {
		varT := prog.NamedType("./tpl/matcher", "Var")
		fElem := fieldVar(varT, "Elem")
		fieldIs := func(e ast.Expr) bool {
			sel, ok := ast.Unparen(e).(*ast.SelectorExpr)
			if !ok {
				return false
			}
			s := info.Selections[sel]
			return s != nil && s.Obj() == fElem
		}
		const (
			bCleared flow.State = 1 << iota
			bRestored
			bRecursed
		)
		panics := false
		p := &flow.Problem{Body: vf.Body, Info: info}
		p.Node = func(n ast.Node, st flow.State, record bool) flow.State {
			if as, ok := n.(*ast.AssignStmt); ok {
				for i, l := range as.Lhs {
					if fieldIs(l) && i < len(as.Rhs) {
						if id, ok := ast.Unparen(as.Rhs[i]).(*ast.Ident); ok && id.Name == "nil" {
							st = (st | bCleared) &^ bRestored
						} else {
							st |= bRestored
						}
					}
				}
			}
			for _, call := range flow.Calls(n) {
				if sel, ok := call.Fun.(*ast.SelectorExpr); ok && sel.Sel.Name == "First" {
					if st&bCleared == 0 {
						st |= bRecursed // recursing without the mark set
					}
				}
				if id, ok := call.Fun.(*ast.Ident); ok && id.Name == "panic" && len(call.Args) == 1 {
					if cl, ok := ast.Unparen(call.Args[0]).(*ast.CompositeLit); ok {
						if n := namedOf(info.TypeOf(cl)); n != nil && n.Obj().Name() == "RecursiveError" {
							panics = true
						}
					}
				}
			}
			return st
		}
		res := flow.Solve(p)
		ok := panics && fElem != nil
		why := "Var.First does not panic with RecursiveError when it finds its re-entrancy mark"
		for _, e := range res.Exits {
			if e.State&bCleared != 0 && e.State&bRestored == 0 {
				ok, why = false, "a returning path of Var.First leaves Elem nil: the next First/Match on this rule reports a bogus recursion or dereferences nil"
			}
			if e.State&bRecursed != 0 {
				ok, why = false, "Var.First descends into its element without first clearing Elem (the re-entrancy mark): left recursion makes First recurse until the stack overflows instead of raising RecursiveError"
			}
		}
		c.Decide(ok, "first-guard", "Var.First", vf.Pos(), "marks, recurses, restores; panics with RecursiveError on re-entry", why)
	}

	// ---------- (2) coverage in cl.NewEx
	nfd := prog.FuncDecl("./tpl/cl", "NewEx")
	if nfd == nil {
		return
	}
	cinfo := clpk.TypesInfo
	firstM := findMethod(prog.NamedType("./tpl/matcher", "Var"), "First")
	var deferEnd token.Pos
	for _, s := range nfd.Body.List {
		if d, ok := s.(*ast.DeferStmt); ok {
			ast.Inspect(d, func(n ast.Node) bool {
				if call, ok := n.(*ast.CallExpr); ok {
					if id, ok := call.Fun.(*ast.Ident); ok && id.Name == "recover" && !deferEnd.IsValid() {
						deferEnd = d.End()
					}
				}
				return true
			})
		}
	}
	// rules map: the local of type map[string]*matcher.Var
	var rulesVar types.Object
	ast.Inspect(nfd.Body, func(n ast.Node) bool {
		if as, ok := n.(*ast.AssignStmt); ok && as.Tok == token.DEFINE {
			for _, l := range as.Lhs {
				if o := identObj(cinfo, l); o != nil {
					if m, ok := types.Unalias(o.Type()).Underlying().(*types.Map); ok {
						if n := namedOf(m.Elem()); n != nil && n.Obj().Name() == "Var" {
							rulesVar = o
						}
					}
				}
			}
		}
		return true
	})
	covered, early := false, false
	par := parentMap(nfd)
	ast.Inspect(nfd.Body, func(n ast.Node) bool {
		call, ok := n.(*ast.CallExpr)
		if !ok || calleeObj(cinfo, call) != firstM || firstM == nil {
			return true
		}
		sel := call.Fun.(*ast.SelectorExpr)
		// receiver: rules[<rule name>] inside a loop over the rule declarations, or the value of `range rules`
		all := false
		recv := ast.Unparen(sel.X)
		var loops []ast.Node
		for p := par[n]; p != nil; p = par[p] {
			if r, ok := p.(*ast.RangeStmt); ok {
				loops = append(loops, r)
			}
		}
		if ix, ok := recv.(*ast.IndexExpr); ok && identObj(cinfo, ix.X) == rulesVar && rulesVar != nil {
			// index must be the name of the rule declaration being iterated: X.Name.Name with X bound by a type assertion/switch to *ast.Rule over f.Decls
			overDecls := false
			for _, l := range loops {
				r := l.(*ast.RangeStmt)
				if s, ok := ast.Unparen(r.X).(*ast.SelectorExpr); ok && s.Sel.Name == "Decls" {
					overDecls = true
				}
			}
			if overDecls && len(loops) >= 2 {
				all = true
			}
		} else if o := identObj(cinfo, recv); o != nil {
			for _, l := range loops {
				r := l.(*ast.RangeStmt)
				if identObj(cinfo, r.X) == rulesVar && rulesVar != nil && identObj(cinfo, r.Value) == o {
					all = true
				}
			}
		}
		if all {
			if deferEnd.IsValid() && call.Pos() > deferEnd {
				covered = true
			} else {
				early = true
			}
		}
		return true
	})
	why := "NewEx does not call Var.First for every declared rule (a loop over the rule declarations or over the rules map): left recursion is only detected for rules that contain a choice or lie in the first set of another visited rule; a rule such as `tail = tail IDENT` referenced after a terminal is accepted and overflows the stack when matched"
	if early {
		why = "the loop that visits every rule's first set runs before NewEx installed its deferred recover: the RecursiveError panic escapes to the caller"
	}
	c.Decide(covered && !early, "leftrec-coverage", "NewEx", nfd.Pos(), "every declared rule's first set is visited inside the recover extent", why)
}
