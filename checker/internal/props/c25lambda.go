package props

import (
	"go/ast"
	"go/token"
	"go/types"
	"strings"

	"golang.org/x/tools/go/packages"

	"verif/checker/internal/core"
)

// c25LambdaArity: the compiler accepts an expression lambda `x => e1, e2` for a function type only when it has
// exactly one expression per result (cl.checkLambdaFuncType: len(l.Rhs) != t.Results().Len() is an error). The
// formatter turns `func(…) (R1, R2) { return … }` into that form, so every *ast.LambdaExpr it builds must be built
// under the guard len(<the Rhs it uses>) == <result count of the literal>; otherwise `return f(x)` forwarding several
// values becomes a lambda the compiler rejects.
func c25LambdaArity(c *core.Check, fpk, cpk *packages.Package) {
	finfo := fpk.TypesInfo
	// compiler side: the rejection is still there
	if chk := core.FindFuncDecl(cpk, "checkLambdaFuncType"); chk != nil {
		has := strings.Contains(nows(nodeTextAll(chk.Body)), "len(l.Rhs)!=t.Results().Len()")
		c.Decide(has, "lambda-arity", "cl.checkLambdaFuncType", chk.Pos(), "the compiler requires one expression per result", "cl.checkLambdaFuncType no longer rejects an expression lambda whose expression count differs from the result count: the formatter's guard below is compared against a requirement that is gone (re-derive the rule)")
	} else {
		c.Bad("anchor", "cl.checkLambdaFuncType", 0, "not found")
	}
	n := 0
	for _, fd := range core.AllFuncDecls(fpk) {
		if fd.Body == nil {
			continue
		}
		var stack []ast.Node
		ast.Inspect(fd.Body, func(nd ast.Node) bool {
			if nd == nil {
				stack = stack[:len(stack)-1]
				return true
			}
			stack = append(stack, nd)
			cl, ok := nd.(*ast.CompositeLit)
			if !ok {
				return true
			}
			nt := namedOf(finfo.TypeOf(cl))
			if nt == nil || nt.Obj().Name() != "LambdaExpr" {
				return true
			}
			var rhs ast.Expr
			for _, el := range cl.Elts {
				if kv, ok := el.(*ast.KeyValueExpr); ok {
					if id, ok := kv.Key.(*ast.Ident); ok && id.Name == "Rhs" {
						rhs = kv.Value
					}
				}
			}
			n++
			key := core.FuncName(fd)
			if rhs == nil {
				c.Bad("lambda-arity", key, cl.Pos(), "an *ast.LambdaExpr is built without a keyed Rhs: the expression count cannot be related to the result count")
				return true
			}
			want := "len(" + nows(core.ExprStr(rhs)) + ")=="
			// conditions of the enclosing if statements whose THEN branch contains the literal
			guarded := false
			for i := len(stack) - 2; i >= 0 && !guarded; i-- {
				is, ok := stack[i].(*ast.IfStmt)
				if !ok || i+1 >= len(stack) || stack[i+1] != ast.Node(is.Body) {
					continue
				}
				for _, conj := range conjuncts(is.Cond) {
					if be, ok := ast.Unparen(conj).(*ast.BinaryExpr); ok && be.Op == token.EQL {
						txt := nows(core.ExprStr(be))
						if strings.HasPrefix(txt, want) && c25IsResultCount(finfo, fd, be.Y) {
							guarded = true
						}
					}
				}
			}
			c.Decide(guarded, "lambda-arity", key, cl.Pos(), "built only under len(Rhs) == number of results", key+" builds an expression lambda (*ast.LambdaExpr) on a path not guarded by `len("+core.ExprStr(rhs)+") == <result count from checkResult>`: a function literal whose single return statement forwards a multi-value call (`return strconv.Atoi(s)`) becomes `s => strconv.atoi(s)`, which the compiler rejects for a two-result function type")
			return true
		})
	}
	c.Analysed("lambda_expr_construction_sites", n)
}

// c25IsResultCount: the identifier is the first result of checkResult(<literal>.Type.Results) in this function.
func c25IsResultCount(info *types.Info, fd *ast.FuncDecl, e ast.Expr) bool {
	obj := identObj(info, e)
	if obj == nil {
		return false
	}
	found := false
	ast.Inspect(fd.Body, func(n ast.Node) bool {
		as, ok := n.(*ast.AssignStmt)
		if !ok || len(as.Rhs) != 1 || len(as.Lhs) < 1 {
			return true
		}
		if id, ok := as.Lhs[0].(*ast.Ident); ok && (info.Defs[id] == obj || info.Uses[id] == obj) {
			if call, ok := as.Rhs[0].(*ast.CallExpr); ok {
				if fn, ok := calleeObj(info, call).(*types.Func); ok && fn.Name() == "checkResult" && len(call.Args) == 1 && strings.HasSuffix(nows(core.ExprStr(call.Args[0])), ".Type.Results") {
					found = true
				}
			}
		}
		return true
	})
	return found
}

// nodeTextAll renders every statement and expression of a body (for substring tests on small routines).
func nodeTextAll(n ast.Node) string {
	var sb strings.Builder
	ast.Inspect(n, func(m ast.Node) bool {
		if e, ok := m.(ast.Expr); ok {
			sb.WriteString(core.ExprStr(e) + ";")
		}
		return true
	})
	return sb.String()
}
