package props

import (
	"go/ast"
	"go/token"
	"sort"
	"strconv"
	"strings"
)

// exprLevSummary interprets a parser function structurally (branches are evaluated from the state at their entry;
// after a branching statement the state of the first branch that falls through is kept) and records at which
// expression level — p.exprLev relative to the level at entry ("+1", "0", "-1") or absolute after `p.exprLev = -1`
// ("=-1") — each sub-parser method is called. `p.exprLev = saved` restores the level recorded by `saved := p.exprLev`.
type levState struct {
	abs bool
	v   int
}

func (l levState) String() string {
	if l.abs {
		return "=" + strconv.Itoa(l.v)
	}
	if l.v > 0 {
		return "+" + strconv.Itoa(l.v)
	}
	return strconv.Itoa(l.v)
}

func (l levState) shift(by levState) levState {
	// the level inside a helper called at level `by`, where the helper is at `l` relative to its own entry
	if l.abs {
		return l
	}
	return levState{abs: by.abs, v: by.v + l.v}
}

type levCall struct {
	name string
	at   levState
}

func exprLevCalls(fd *ast.FuncDecl) []levCall {
	if fd == nil || fd.Body == nil {
		return nil
	}
	var out []levCall
	saved := map[string]levState{}
	isLev := func(e ast.Expr) bool {
		sel, ok := ast.Unparen(e).(*ast.SelectorExpr)
		return ok && sel.Sel.Name == "exprLev"
	}
	record := func(n ast.Node, cur levState) {
		if n == nil {
			return
		}
		ast.Inspect(n, func(m ast.Node) bool {
			switch x := m.(type) {
			case *ast.FuncLit:
				return false
			case *ast.CallExpr:
				if sel, ok := x.Fun.(*ast.SelectorExpr); ok {
					if id, ok := sel.X.(*ast.Ident); ok && id.Name == "p" {
						name := sel.Sel.Name
						if strings.HasPrefix(name, "parse") || strings.HasPrefix(name, "try") {
							out = append(out, levCall{name, cur})
						}
					}
				}
			}
			return true
		})
	}
	var stmts func(list []ast.Stmt, cur levState) (levState, bool)
	var stmt func(s ast.Stmt, cur levState) (levState, bool)
	merge := func(entry levState, results []levState, term []bool, exhaustive bool) (levState, bool) {
		all := true
		var first *levState
		for i := range results {
			if !term[i] {
				all = false
				if first == nil {
					r := results[i]
					first = &r
				}
			}
		}
		if exhaustive && all && len(results) > 0 {
			return entry, true
		}
		if first != nil && exhaustive {
			return *first, false
		}
		if first != nil && !exhaustive {
			// a branch may be skipped: the fall-through state is the entry state when it agrees, else the branch's
			return entry, false
		}
		return entry, false
	}
	stmt = func(s ast.Stmt, cur levState) (levState, bool) {
		switch x := s.(type) {
		case nil:
			return cur, false
		case *ast.BlockStmt:
			return stmts(x.List, cur)
		case *ast.LabeledStmt:
			return stmt(x.Stmt, cur)
		case *ast.IncDecStmt:
			if isLev(x.X) {
				if x.Tok == token.INC {
					cur.v++
				} else {
					cur.v--
				}
			}
			return cur, false
		case *ast.AssignStmt:
			record(x, cur)
			if len(x.Lhs) == 1 && len(x.Rhs) == 1 {
				if id, ok := x.Lhs[0].(*ast.Ident); ok && isLev(x.Rhs[0]) {
					saved[id.Name] = cur
				} else if isLev(x.Lhs[0]) {
					switch r := x.Rhs[0].(type) {
					case *ast.Ident:
						if sv, ok := saved[r.Name]; ok {
							cur = sv
						}
					case *ast.UnaryExpr:
						if bl, ok := r.X.(*ast.BasicLit); ok && r.Op == token.SUB {
							v, _ := strconv.Atoi(bl.Value)
							cur = levState{abs: true, v: -v}
						}
					case *ast.BasicLit:
						v, _ := strconv.Atoi(r.Value)
						cur = levState{abs: true, v: v}
					}
				}
			}
			return cur, false
		case *ast.ReturnStmt:
			record(x, cur)
			return cur, true
		case *ast.BranchStmt:
			return cur, x.Tok != token.FALLTHROUGH
		case *ast.IfStmt:
			cur, _ = stmt(x.Init, cur)
			record(x.Cond, cur)
			r1, t1 := stmts(x.Body.List, cur)
			if x.Else == nil {
				if !t1 && r1 != cur {
					// the branch changes the level and falls through: keep the entry level (the common idiom is inc…dec inside)
				}
				return cur, false
			}
			r2, t2 := stmt(x.Else, cur)
			return merge(cur, []levState{r1, r2}, []bool{t1, t2}, true)
		case *ast.ForStmt:
			cur, _ = stmt(x.Init, cur)
			record(x.Cond, cur)
			stmts(x.Body.List, cur)
			stmt(x.Post, cur)
			return cur, false
		case *ast.RangeStmt:
			record(x.X, cur)
			stmts(x.Body.List, cur)
			return cur, false
		case *ast.SwitchStmt:
			cur, _ = stmt(x.Init, cur)
			record(x.Tag, cur)
			return clauses(x.Body, cur, stmts, record, merge)
		case *ast.TypeSwitchStmt:
			cur, _ = stmt(x.Init, cur)
			record(x.Assign, cur)
			return clauses(x.Body, cur, stmts, record, merge)
		case *ast.DeferStmt, *ast.GoStmt:
			return cur, false
		default:
			record(s, cur)
			if es, ok := s.(*ast.ExprStmt); ok {
				if call, ok := es.X.(*ast.CallExpr); ok {
					if id, ok := call.Fun.(*ast.Ident); ok && id.Name == "panic" {
						return cur, true
					}
				}
			}
			return cur, false
		}
	}
	stmts = func(list []ast.Stmt, cur levState) (levState, bool) {
		for _, s := range list {
			var t bool
			cur, t = stmt(s, cur)
			if t {
				return cur, true
			}
		}
		return cur, false
	}
	stmts(fd.Body.List, levState{})
	return out
}

func clauses(body *ast.BlockStmt, cur levState,
	stmts func([]ast.Stmt, levState) (levState, bool),
	record func(ast.Node, levState),
	merge func(levState, []levState, []bool, bool) (levState, bool)) (levState, bool) {
	var rs []levState
	var ts []bool
	hasDefault := false
	for _, c := range body.List {
		cc, ok := c.(*ast.CaseClause)
		if !ok {
			continue
		}
		if cc.List == nil {
			hasDefault = true
		}
		for _, e := range cc.List {
			record(e, cur)
		}
		r, t := stmts(cc.Body, cur)
		rs = append(rs, r)
		ts = append(ts, t)
	}
	return merge(cur, rs, ts, hasDefault)
}

// canonCallee folds the XGo variants of a go/parser sub-parser onto the Go name.
func canonCallee(name string) string {
	n := name
	for _, suf := range []string{"Ex", "OrMapComprehension", "OrComprehension", "OrType", "OrSliceLit"} {
		n = strings.TrimSuffix(n, suf)
	}
	n = strings.TrimSuffix(n, "Ex")
	return strings.ToLower(n)
}

func levSets(calls []levCall) map[string]map[string]bool {
	out := map[string]map[string]bool{}
	for _, c := range calls {
		k := canonCallee(c.name)
		if out[k] == nil {
			out[k] = map[string]bool{}
		}
		out[k][c.at.String()] = true
	}
	return out
}

func levSummaryString(m map[string]map[string]bool) string {
	var ks []string
	for k, v := range m {
		ks = append(ks, k+"@"+setStr(v))
	}
	sort.Strings(ks)
	return strings.Join(ks, " ")
}

func setStr(v map[string]bool) string {
	var ls []string
	for l := range v {
		ls = append(ls, l)
	}
	sort.Strings(ls)
	return strings.Join(ls, ",")
}
