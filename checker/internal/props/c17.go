package props

import (
	"go/ast"
	"go/constant"
	"go/token"
	"go/types"
	"sort"
	"strings"

	"golang.org/x/tools/go/packages"

	"verif/checker/internal/core"
	"verif/checker/internal/flow"
)

func init() {
	register(&Prop{
		ID:        "C17",
		Title:     "Every AST node's span is exact and nested",
		Technique: "closing-delimiter width rule: End() return expressions of package ast checked against the token that the parser records in each position field (value-origin through parser.expect*), with the token spellings read from token.tokens",
		Explanation: "Decides for every node kind and every input the structural part of 'End is the offset just after the last token': for each End() method of package ast, every returned expression of the form n.F or n.F + k, where F is a token.Pos field, is compared with the token the parser stores in F (derived from the parser itself: F receives the result of p.expect(K)/expect2(K)/expectClosing(K), directly or through a local); End must add exactly len(K's spelling). " +
			"Also: Pos() methods never add an offset to a recorded position, and a node type's End never returns a bare token position of a closing delimiter. End covers the last part (rule end-last-field): for every node type the End method it actually has (own or promoted) mentions the last syntactic field the struct declares. It also skips none of the child fields declared after the first one it considers (rule end-trailing-field; reviewed: File.Imports/Comments, ForPhrase.Init), and every node literal in the parser sets the position fields that the type's Pos()/End() return unconditionally (rule span-field-set; an assignment elsewhere in the parser counts). Prefixed literals (rule prefixed-literal-end): BasicLit.End adds the prefix length for the kinds whose scanner literal starts at the quote (the c and py string prefixes). End positions (rules end-not-next-token, end-after-last-token): a field that End() returns as it is (LambdaExpr.Last, ImportSpec.EndPos) is never given p.pos — where the NEXT token starts — and is computed from a value after which, on every path, the parser consumes no further token before building the node.",
		NotCovered: "that the parser records each position at the right token, nesting/ordering of children, End() methods that delegate to a child, and the re-parse clause.",
		Run:        runC17,
		Controls: []Control{
			{Name: "EnvExpr-no-width", File: "ast/ast_gop.go", Old: "\t\treturn p.Rbrace + 1\n\t}\n\treturn p.Name.End()", New: "\t\treturn p.Rbrace\n\t}\n\treturn p.Name.End()", Expect: "end-width/EnvExpr.Rbrace"},
			{Name: "SliceLit-width-2", File: "ast/ast_gop.go", Old: "func (p *SliceLit) End() token.Pos {\n\treturn p.Rbrack + 1", New: "func (p *SliceLit) End() token.Pos {\n\treturn p.Rbrack + 2", Expect: "end-width/SliceLit.Rbrack"},
			{Name: "ElemEllipsis-width-1", File: "ast/ast_gop.go", Old: "\treturn p.Ellipsis + 3\n}", New: "\treturn p.Ellipsis + 1\n}", Expect: "end-width/ElemEllipsis.Ellipsis"},
			{Name: "CallExpr-no-width", File: "ast/ast.go", Old: "func (x *CallExpr) End() token.Pos {\n\tif x.NoParenEnd != token.NoPos {\n\t\treturn x.NoParenEnd\n\t}\n\treturn x.Rparen + 1", New: "func (x *CallExpr) End() token.Pos {\n\tif x.NoParenEnd != token.NoPos {\n\t\treturn x.NoParenEnd\n\t}\n\treturn x.Rparen", Expect: "end-width/CallExpr.Rparen"},
			{Name: "lambda-last-is-next-token", File: "parser/parser.go", Old: "\t\t\tlast = rhs[0].End()\n", New: "\t\t\tlast = p.pos\n", Expect: "end-not-next-token/LambdaExpr.Last@parser.parseLambdaExpr"},
			{Name: "lambda-paren-outside-span", File: "parser/parser.go", Old: "\t\t\tlast = p.expect(token.RPAREN) + 1\n", New: "\t\t\tp.expect(token.RPAREN)\n\t\t\tlast = rhs[len(rhs)-1].End()\n", Expect: "end-after-last-token/LambdaExpr.Last@parser.parseLambdaExpr"},
			{Name: "slicelit-index-without-brackets", File: "parser/parser.go", Old: "return &ast.IndexExpr{X: slice, Lbrack: lbrack, Index: len, Rbrack: rbrack}, resultSliceOp", New: "return &ast.IndexExpr{X: slice, Lbrack: lbrack, Index: len}, resultSliceOp", Expect: "span-field-set/IndexExpr.Rbrack@parser.parseArrayTypeOrSliceLit"},
			{Name: "valuespec-end-skips-tag", File: "ast/ast.go", Old: "\tif s.Tag != nil {\n\t\treturn s.Tag.End()\n\t}\n", New: "", Expect: "end-trailing-field/ValueSpec.Tag"},
			{Name: "forphrasestmt-promoted-end", File: "ast/ast_gop.go", Old: "func (p *ForPhraseStmt) End() token.Pos {", New: "func (p *ForPhraseStmt) end() token.Pos {", Expect: "end-last-field/ForPhraseStmt.Body"},
			{Name: "lambda-last-from-End", File: "parser/parser.go", Old: "\t\t\tlast = rhs[0].End()\n", New: "\t\t\tlast = rhs[0].End() + 1\n", Expect: "parser-pos-arith/parser.parseLambdaExpr"},
			{Name: "cmd-call-ends-at-next-token", File: "parser/parser.go", Old: "\t\tcase len(list) > 0:\n\t\t\tnoParenEnd = list[len(list)-1].End()\n\t\tdefault:", New: "\t\tcase len(list) > 0:\n\t\t\tnoParenEnd = p.pos\n\t\tdefault:", Expect: "end-next-token/parser.parseCallOrConversion"},
			{Name: "Pos-offset", File: "ast/ast_gop.go", Old: "func (p *SliceLit) Pos() token.Pos {\n\treturn p.Lbrack", New: "func (p *SliceLit) Pos() token.Pos {\n\treturn p.Lbrack + 1", Expect: "pos-exact/SliceLit"},
		},
	})
}

// c17SpanFieldReviewed: node literals in the parser that leave a span position unset on purpose (Type.Field@func).
var c17SpanFieldReviewed = map[string]string{}

// c17EndAfterReviewed: end positions computed from an operand after which tokens are consumed, reviewed.
var c17EndAfterReviewed = map[string]string{
	"CallExpr.NoParenEnd@parser.parseCallOrConversion": "the tokens consumed after the last argument are `...` (then the ellipsis arm, ellipsis + 3, is taken instead — the rule does not correlate the two switches) and the separating comma, after which the loop parses another argument or reports an error; the finer rule end-next-token covers this site",
}

// c17EndStoreReviewed: stores of p.pos into an end-position field, reviewed (key Type.Field@parserFunc).
var c17EndStoreReviewed = map[string]string{}

// c17EndSkipReviewed: child fields declared after the first field End() looks at that End() rightly ignores.
var c17EndSkipReviewed = map[string]string{
	"File.Imports":   "a view of the import specs that are already among Decls, not a further part of the file",
	"File.Comments":  "the list of all comment groups of the file (also reachable from the nodes they belong to), not a trailing part",
	"ForPhrase.Init": "the init statement of `for x <- xs if init; cond` exists only together with Cond, which follows it and is what End() returns",
}

// c17EndLastReviewed: node types whose End() deliberately ignores the last declared field.
var c17EndLastReviewed = map[string]string{}

func runC17(c *core.Check) {
	prog := c.Load("./ast", "./parser", "./token", "./scanner")
	apk, ppk, tpk := prog.Pkg("./ast"), prog.Pkg("./parser"), prog.Pkg("./token")
	if apk == nil || ppk == nil || tpk == nil {
		return
	}
	info := apk.TypesInfo
	tt := readTokenTable(tpk, "tokens", "Token")
	if len(tt.Spelling) < 60 {
		c.Bad("anchor", "token.tokens", tt.Pos, "token spelling table not found or too small")
		return
	}
	c.Analysed("token_spellings", len(tt.Spelling))
	parserT := prog.NamedType("./parser", "parser")
	if parserT == nil {
		return
	}
	expectFns := map[types.Object]bool{}
	for _, n := range []string{"expect", "expect2", "expectClosing"} {
		if m := findMethod(parserT, n); m != nil {
			expectFns[m] = true
		}
	}
	if len(expectFns) < 2 {
		c.Bad("anchor", "parser.expect*", parserT.Obj().Pos(), "expect helpers not found")
		return
	}
	pinfo := ppk.TypesInfo

	// tokenOfValue resolves the token whose position an expression of the parser holds.
	var tokenOfValue func(fn *ast.FuncDecl, e ast.Expr, depth int) (*types.Const, bool)
	tokenOfValue = func(fn *ast.FuncDecl, e ast.Expr, depth int) (*types.Const, bool) {
		e = ast.Unparen(e)
		if call, ok := e.(*ast.CallExpr); ok {
			if expectFns[calleeObj(pinfo, call)] && len(call.Args) >= 1 {
				if k := constOf(pinfo, call.Args[0]); k != nil {
					return k, true
				}
			}
			return nil, false
		}
		if id, ok := e.(*ast.Ident); ok && fn != nil && depth > 0 {
			obj := pinfo.Uses[id]
			if obj == nil {
				return nil, false
			}
			var found *types.Const
			ok := true
			n := 0
			ast.Inspect(fn.Body, func(m ast.Node) bool {
				as, isAs := m.(*ast.AssignStmt)
				if !isAs {
					return true
				}
				for i, l := range as.Lhs {
					if identObj(pinfo, l) != obj {
						continue
					}
					n++
					if len(as.Rhs) != len(as.Lhs) {
						ok = false
						continue
					}
					k, r := tokenOfValue(fn, as.Rhs[i], depth-1)
					if !r {
						ok = false
					} else if found != nil && found != k {
						// different tokens of equal width are fine
						if len(tt.Spelling[found]) != len(tt.Spelling[k]) {
							ok = false
						}
					} else {
						found = k
					}
				}
				return true
			})
			if n > 0 && ok && found != nil {
				return found, true
			}
		}
		return nil, false
	}

	isPosField := func(v *types.Var) bool {
		if v == nil || !v.IsField() {
			return false
		}
		n, ok := types.Unalias(v.Type()).(*types.Named)
		return ok && n.Obj().Name() == "Pos" && n.Obj().Pkg() != nil && strings.HasSuffix(n.Obj().Pkg().Path(), "/token")
	}
	fieldOf := func(e ast.Expr, recv types.Object) *types.Var {
		sel, ok := ast.Unparen(e).(*ast.SelectorExpr)
		if !ok || identObj(info, sel.X) != recv {
			return nil
		}
		if s := info.Selections[sel]; s != nil {
			v, _ := s.Obj().(*types.Var)
			if isPosField(v) {
				return v
			}
		}
		return nil
	}

	// ---------- a position field that an End() method returns as it is must hold the end of the node's last token; the
	// parser's current position p.pos is the START of the NEXT token (blanks and comments lie in between)
	for _, fd := range core.AllFuncDecls(ppk) {
		if fd.Body == nil {
			continue
		}
		ast.Inspect(fd.Body, func(n ast.Node) bool {
			kv, ok := n.(*ast.KeyValueExpr)
			if !ok || core.ExprStr(kv.Key) != "NoParenEnd" {
				return true
			}
			o := identObj(pinfo, kv.Value)
			if o == nil {
				return true
			}
			key := core.FuncName(fd)
			defs := varDefs(pinfo, fd, o)
			fromEnd, barePos, bareInDefault := 0, 0, true
			par := parentMap(fd)
			ast.Inspect(fd.Body, func(m ast.Node) bool {
				as, ok := m.(*ast.AssignStmt)
				if !ok || len(as.Lhs) != 1 || identObj(pinfo, as.Lhs[0]) != o || len(as.Rhs) != 1 {
					return true
				}
				r := nows(core.ExprStr(as.Rhs[0]))
				switch {
				case strings.HasSuffix(r, ".End()") || strings.Contains(r, "+"):
					fromEnd++
				case r == "p.pos":
					barePos++
					if cc, ok := par[as].(*ast.CaseClause); !ok || cc.List != nil {
						bareInDefault = false
					}
				}
				return true
			})
			_ = defs
			c.Decide(fromEnd > 0 && (barePos == 0 || bareInDefault), "end-next-token", key, kv.Pos(), "NoParenEnd is taken from the end of the call's last token (p.pos only as the fallback arm)",
				"CallExpr.NoParenEnd — which CallExpr.End() returns as it is — is assigned the parser's current position: that is where the NEXT token starts, so the span of `println a   // hi` includes the blanks before the comment")
			return true
		})
	}

	docs := fieldDocs(apk)
	c.Floor("end-width", 22)
	resolved, unresolved := 0, 0
	nEnd := 0
	var fds []*ast.FuncDecl
	for _, fd := range core.AllFuncDecls(apk) {
		if fd.Recv != nil && (fd.Name.Name == "End" || fd.Name.Name == "Pos") && len(fd.Recv.List[0].Names) == 1 {
			fds = append(fds, fd)
		}
	}
	sort.Slice(fds, func(i, j int) bool { return core.FuncName(fds[i]) < core.FuncName(fds[j]) })
	for _, fd := range fds {
		recv := info.Defs[fd.Recv.List[0].Names[0]]
		tname := core.RecvName(fd)
		if fd.Name.Name == "Pos" {
			bad := token.NoPos
			ast.Inspect(fd.Body, func(n ast.Node) bool {
				r, ok := n.(*ast.ReturnStmt)
				if !ok || len(r.Results) != 1 {
					return true
				}
				if be, ok := ast.Unparen(r.Results[0]).(*ast.BinaryExpr); ok && (be.Op == token.ADD || be.Op == token.SUB) {
					if fieldOf(be.X, recv) != nil {
						bad = r.Pos()
					}
				}
				return true
			})
			c.Decide(!bad.IsValid(), "pos-exact", tname, bad, "", "Pos() adds an offset to a recorded token position: the span does not start at the node's first token")
			continue
		}
		nEnd++
		ast.Inspect(fd.Body, func(n ast.Node) bool {
			r, ok := n.(*ast.ReturnStmt)
			if !ok || len(r.Results) != 1 {
				return true
			}
			e := ast.Unparen(r.Results[0])
			var f *types.Var
			k := int64(0)
			if be, ok := e.(*ast.BinaryExpr); ok && be.Op == token.ADD {
				if f = fieldOf(be.X, recv); f != nil {
					tv := info.Types[be.Y]
					if tv.Value == nil || tv.Value.Kind() != constant.Int {
						return true // e.g. TokPos + len(Tok.String()): computed width
					}
					k, _ = constant.Int64Val(tv.Value)
				}
			} else {
				f = fieldOf(e, recv)
			}
			if f == nil {
				return true
			}
			sites := fieldStores([]*packages.Package{ppk}, f)
			var widths []int
			var toks []string
			all := len(sites) > 0
			for _, s := range sites {
				// only stores into THIS node type count (fields are per struct, so this holds by identity)
				tok, ok := tokenOfValue(s.Fn, s.Value, 3)
				if !ok {
					all = false
					continue
				}
				widths = append(widths, len(tt.Spelling[tok]))
				toks = append(toks, tok.Name())
			}
			key := tname + "." + f.Name()
			_ = all
			if k == 0 && quotedToken(docs[f]) == "" {
				// a bare position returned as End: only a field DOCUMENTED as the position of a token
				// is required to add that token's width (BadExpr.To, LambdaExpr.Last … are end positions)
				return true
			}
			if len(widths) == 0 {
				// second oracle: the field's own documentation, e.g. `// position of "}"`
				if q := quotedToken(docs[f]); q != "" {
					resolved++
					c.Decide(int64(len(q)) == k, "end-width", key, r.Pos(), core.Sprintf("the field is documented as the position of %q (%d bytes); End adds %d", q, len(q), k),
						core.Sprintf("%s is documented as the position of %q (%d byte(s) wide) but End() returns that position + %d: the node's span ends %d byte(s) off its last token", key, q, len(q), k, int64(len(q))-k))
					return true
				}
				unresolved++
				if k != 0 {
					c.Note("end-width-unresolved", key, r.Pos(), core.Sprintf("End adds %d; the token stored by the parser could not be derived (%d store sites)", k, len(sites)))
				}
				return true
			}
			w := widths[0]
			same := true
			for _, x := range widths {
				if x != w {
					same = false
				}
			}
			resolved++
			if !same {
				c.Undecided("end-width", key, r.Pos(), core.Sprintf("the parser stores tokens of different widths %v in this field", toks))
				return true
			}
			c.Decide(int64(w) == k, "end-width", key, r.Pos(), core.Sprintf("parser stores the position of %s (%d bytes); End adds %d", toks[0], w, k),
				core.Sprintf("the parser stores in %s the position of token %s (spelling %d byte(s) wide) but End() returns that position + %d: the node's span ends %d byte(s) off its last token", key, toks[0], w, k, int64(w)-k))
			return true
		})
	}
	// ---------- End() takes the node's LAST part into account: the last syntactic field of the struct (child node, node
	// list or token position, in declaration = source order; trailing comments excluded) is mentioned by the End method
	// that the type actually has — a promoted End of an embedded node knows nothing of the fields declared after it
	{
		nodeI := ifaceOf(apk.Types.Scope().Lookup("Node").Type())
		nLast := 0
		for _, name := range apk.Types.Scope().Names() {
			tn, ok := apk.Types.Scope().Lookup(name).(*types.TypeName)
			if !ok || nodeI == nil {
				continue
			}
			st, ok := tn.Type().Underlying().(*types.Struct)
			if !ok || !types.Implements(types.NewPointer(tn.Type()), nodeI) {
				continue
			}
			var last *types.Var
			for i := 0; i < st.NumFields(); i++ {
				f := st.Field(i)
				if f.Name() == "Comment" || f.Name() == "Doc" {
					continue
				}
				if isASTNodeType(f.Type()) || isNodeSlice(f.Type()) || f.Type().String() == "github.com/goplus/xgo/token.Pos" {
					last = f
				}
			}
			if last == nil {
				continue
			}
			obj, _, _ := types.LookupFieldOrMethod(types.NewPointer(tn.Type()), true, apk.Types, "End")
			m, ok := obj.(*types.Func)
			if !ok {
				continue
			}
			fd := core.FindFuncDecl(apk, core.FuncObjName(m))
			if fd == nil || fd.Body == nil {
				continue
			}
			nLast++
			key := tn.Name() + "." + last.Name()
			mentions := false
			ast.Inspect(fd.Body, func(n ast.Node) bool {
				if sel, ok := n.(*ast.SelectorExpr); ok {
					if s := info.Selections[sel]; s != nil && s.Obj() == last {
						mentions = true
					}
				}
				return true
			})
			// … and skips none of the parts that may come after the earliest one it considers: ValueSpec.End looking at
			// Values, Type and Names but not at the Tag declared between them leaves a tagged field's tag outside the spec
			{
				mentioned := map[*types.Var]bool{}
				ast.Inspect(fd.Body, func(n ast.Node) bool {
					if sel, ok := n.(*ast.SelectorExpr); ok {
						if s := info.Selections[sel]; s != nil {
							if fv, ok := s.Obj().(*types.Var); ok {
								mentioned[fv] = true
							}
						}
					}
					return true
				})
				first := -1
				for i := 0; i < st.NumFields(); i++ {
					if mentioned[st.Field(i)] {
						first = i
						break
					}
				}
				for i := first + 1; first >= 0 && i < st.NumFields(); i++ {
					f := st.Field(i)
					if f.Name() == "Comment" || f.Name() == "Doc" || !(isASTNodeType(f.Type()) || isNodeSlice(f.Type())) {
						continue
					}
					k2 := tn.Name() + "." + f.Name()
					if why, ok := c17EndSkipReviewed[k2]; ok {
						if mentioned[f] {
							c.Bad("end-trailing-field", k2, fd.Pos(), "listed as a reviewed exception but End() mentions the field now: remove the stale entry")
						} else {
							c.Note("end-trailing-field", k2, fd.Pos(), "reviewed: "+why)
						}
						continue
					}
					c.Decide(mentioned[f], "end-trailing-field", k2, fd.Pos(), "considered by End()", "the End method of *ast."+tn.Name()+" ("+core.FuncName(fd)+") considers fields declared before "+k2+" but not "+k2+" itself: when that child is the node's last part it lies outside the node's span")
				}
			}
			if why, ok := c17EndLastReviewed[key]; ok {
				if mentions {
					c.Bad("end-last-field", key, fd.Pos(), "listed as a reviewed exception but End() mentions the field now: remove the stale entry")
				} else {
					c.Note("end-last-field", key, fd.Pos(), "reviewed: "+why)
				}
				continue
			}
			c.Decide(mentions, "end-last-field", key, fd.Pos(), "End() ("+core.FuncName(fd)+") takes the last field into account", "the End method of *ast."+tn.Name()+" is "+core.FuncName(fd)+", which never looks at "+key+" — the last part of the node in the source: the node's span stops before it (and the child lies outside its parent's span)")
		}
		c.Analysed("node_types_with_end_checked", nLast)
		c.Floor("end-last-field", 60)
		c.Floor("end-trailing-field", 15)
	}

	// ---------- every node the parser builds carries the positions its span is computed from: a position field that Pos() or
	// End() of the type returns on its final, unconditional return is set by every composite literal of that type in the
	// parser (or assigned in the same function). `&ast.IndexExpr{X: s, Index: i}` without Rbrack ends at offset 1.
	{
		need := map[*types.Named][]*types.Var{}
		for _, fd := range fds {
			if len(fd.Body.List) == 0 {
				continue
			}
			recv := info.Defs[fd.Recv.List[0].Names[0]]
			last, ok := fd.Body.List[len(fd.Body.List)-1].(*ast.ReturnStmt)
			if !ok || len(last.Results) != 1 {
				continue
			}
			e := ast.Unparen(last.Results[0])
			if be, ok := e.(*ast.BinaryExpr); ok {
				e = ast.Unparen(be.X)
			}
			f := fieldOf(e, recv)
			if f == nil || f.Type().String() != "github.com/goplus/xgo/token.Pos" {
				continue
			}
			if nt := namedOf(derefType(recv.Type())); nt != nil {
				need[nt] = append(need[nt], f)
			}
		}
		nLit := 0
		// a field assigned anywhere in the parser counts as set (a helper builds the node, its caller adds the position:
		// `stmt.For = pos`, `mce.Lpos, mce.Rpos = …`)
		assigned := map[*types.Var]bool{}
		for _, fd := range core.AllFuncDecls(ppk) {
			if fd.Body == nil {
				continue
			}
			ast.Inspect(fd.Body, func(n ast.Node) bool {
				if as, ok := n.(*ast.AssignStmt); ok {
					for _, l := range as.Lhs {
						if sel, ok := ast.Unparen(l).(*ast.SelectorExpr); ok {
							if sl := pinfo.Selections[sel]; sl != nil {
								if fv, ok := sl.Obj().(*types.Var); ok {
									assigned[fv] = true
								}
							}
						}
					}
				}
				return true
			})
		}
		for _, fd := range core.AllFuncDecls(ppk) {
			if fd.Body == nil {
				continue
			}
			ast.Inspect(fd.Body, func(n ast.Node) bool {
				cl, ok := n.(*ast.CompositeLit)
				if !ok {
					return true
				}
				nt := namedOf(pinfo.TypeOf(cl))
				if nt == nil || len(need[nt]) == 0 || len(cl.Elts) == 0 {
					return true
				}
				if _, keyed := cl.Elts[0].(*ast.KeyValueExpr); !keyed {
					return true
				}
				set := map[string]bool{}
				for _, el := range cl.Elts {
					if kv, ok := el.(*ast.KeyValueExpr); ok {
						if id, ok := kv.Key.(*ast.Ident); ok {
							set[id.Name] = true
						}
					}
				}
				for _, f := range need[nt] {
					nLit++
					key := nt.Obj().Name() + "." + f.Name() + "@" + core.FuncName(fd)
					okSet := set[f.Name()] || assigned[f]
					if why, rev := c17SpanFieldReviewed[key]; rev {
						if okSet {
							c.Bad("span-field-set", key, cl.Pos(), "listed as a reviewed exception but the field is set now: remove the stale entry")
						} else {
							c.Note("span-field-set", key, cl.Pos(), "reviewed: "+why)
						}
						continue
					}
					c.Decide(okSet, "span-field-set", key, cl.Pos(), "the literal sets the position its span is computed from", core.FuncName(fd)+" builds an *ast."+nt.Obj().Name()+" without "+f.Name()+", the position "+nt.Obj().Name()+"'s Pos()/End() returns: the node's span starts or ends at offset 0/1 instead of at its own token")
				}
				return true
			})
		}
		c.Analysed("span_position_literal_checks", nLit)
		c.Floor("span-field-set", 100)
	}

	// ---------- a field documented as the position of a token (`Rbrace token.Pos // position of "}"`) is never given the END of
	// something: End() of the node adds the token's width to it, so the span would reach past the node's last byte
	{
		nTok := 0
		for _, name := range apk.Types.Scope().Names() {
			tn, ok := apk.Types.Scope().Lookup(name).(*types.TypeName)
			if !ok {
				continue
			}
			st, ok := tn.Type().Underlying().(*types.Struct)
			if !ok {
				continue
			}
			for i := 0; i < st.NumFields(); i++ {
				f := st.Field(i)
				if f.Type().String() != "github.com/goplus/xgo/token.Pos" || quotedToken(docs[f]) == "" {
					continue
				}
				for _, site := range fieldStores([]*packages.Package{ppk}, f) {
					if site.Fn == nil || site.Value == nil {
						continue
					}
					nTok++
					vals := []ast.Expr{site.Value}
					if o := identObj(pinfo, site.Value); o != nil {
						if ds := defsOf(pinfo, site.Fn.Body)[o]; len(ds) > 0 {
							vals = ds
						}
					}
					fromEnd := false
					for _, v := range vals {
						if call, ok := ast.Unparen(v).(*ast.CallExpr); ok && len(call.Args) == 0 {
							if sel, ok := call.Fun.(*ast.SelectorExpr); ok && sel.Sel.Name == "End" {
								fromEnd = true
							}
						}
					}
					if !fromEnd {
						continue // the common case (p.pos, p.expect(…)) is not enumerated
					}
					key := tn.Name() + "." + f.Name() + "@" + core.FuncName(site.Fn)
					c.Bad("token-pos-from-end", key, site.Pos, core.FuncName(site.Fn)+" stores the END of a child in "+tn.Name()+"."+f.Name()+", which is documented as the position of "+quotedToken(docs[f])+" and to which "+tn.Name()+".End() adds that token's width: the node's span reaches one byte past its last token (past the end of the file when the node is last)")
				}
			}
		}
		c.Ok("token-pos-from-end", "census", 0, core.Sprintf("%d stores into fields documented as token positions examined", nTok))
	}

	// ---------- prefixed literals: for c"…" and py"…" the scanner's literal text starts at the quote (the prefix letters are
	// consumed as an identifier first) while the token position is that of the prefix; BasicLit.End = ValuePos + len(Value)
	// must add the prefix length for exactly those kinds
	if spk := prog.Pkg("./scanner"); spk != nil {
		prefixed := map[string]int{} // token kind → prefix length
		if scan := core.FindFuncDecl(spk, "Scanner.Scan"); scan != nil {
			ast.Inspect(scan.Body, func(n ast.Node) bool {
				is, ok := n.(*ast.IfStmt)
				if !ok {
					return true
				}
				// if <lit == "py" …> && s.ch == '"' { s.next(); tok = token.K; lit = s.scanString() }
				cond := nows(core.ExprStr(is.Cond))
				if !strings.Contains(cond, "lit==") || !strings.Contains(cond, "s.ch=='\"'") {
					return true
				}
				plen := 0
				for _, q := range []string{`lit=="py"`, `lit=="c"`} {
					if strings.Contains(cond, q) {
						plen = len(q) - len(`lit==""`)
					}
				}
				kind, rescans := "", false
				for _, st := range is.Body.List {
					if as, ok := st.(*ast.AssignStmt); ok && len(as.Lhs) == 1 && len(as.Rhs) == 1 {
						l, r := core.ExprStr(as.Lhs[0]), nows(core.ExprStr(as.Rhs[0]))
						if l == "tok" && strings.HasPrefix(r, "token.") {
							kind = strings.TrimPrefix(r, "token.")
						}
						if l == "lit" && r == "s.scanString()" {
							rescans = true
						}
					}
				}
				if kind != "" && rescans && plen > 0 {
					prefixed[kind] = plen
				}
				return true
			})
		}
		if len(prefixed) < 2 {
			c.Undecided("prefixed-literal-end", "scanner.Scan", 0, "the prefixed string arms (c\"…\", py\"…\") were not found in Scanner.Scan in the expected shape")
		}
		endFD := core.FindFuncDecl(apk, "BasicLit.End")
		for kind, plen := range prefixed {
			okKind := false
			if endFD != nil {
				ast.Inspect(endFD.Body, func(n ast.Node) bool {
					cc, ok := n.(*ast.CaseClause)
					if !ok {
						return true
					}
					for _, e := range cc.List {
						if nows(core.ExprStr(e)) == "token."+kind {
							added := 0
							for _, st := range cc.Body {
								switch x := st.(type) {
								case *ast.IncDecStmt:
									if x.Tok == token.INC {
										added++
									}
								case *ast.AssignStmt:
									if x.Tok == token.ADD_ASSIGN && len(x.Rhs) == 1 {
										if tv := info.Types[x.Rhs[0]]; tv.Value != nil {
											if k, ok := constant.Int64Val(tv.Value); ok {
												added += int(k)
											}
										}
									}
								}
							}
							if added == plen {
								okKind = true
							}
						}
					}
					return true
				})
			}
			c.Decide(okKind, "prefixed-literal-end", "BasicLit:"+kind, 0, core.Sprintf("End adds the %d prefix byte(s) the literal text does not contain", plen), core.Sprintf("the scanner returns a %s token whose literal text starts at the quote while its position is that of the %d-byte prefix, but BasicLit.End() does not add %d for this kind: the literal's span ends %d byte(s) before its closing quote", kind, plen, plen, plen))
		}
	}

	// ---------- a field that End() returns as it is (an END position: LambdaExpr.Last, CallExpr.NoParenEnd, ImportSpec.EndPos
	// …) is never given the parser's current position: p.pos is where the NEXT token starts, so blanks and comments
	// after the node's last token would be inside its span
	{
		nBare := 0
		for _, fd := range fds {
			if fd.Name.Name != "End" {
				continue
			}
			recv := info.Defs[fd.Recv.List[0].Names[0]]
			tname := core.RecvName(fd)
			if strings.HasPrefix(tname, "Bad") {
				continue // error nodes span "up to where the parser got"
			}
			ast.Inspect(fd.Body, func(n ast.Node) bool {
				r, ok := n.(*ast.ReturnStmt)
				if !ok || len(r.Results) != 1 {
					return true
				}
				f := fieldOf(ast.Unparen(r.Results[0]), recv)
				if f == nil || f.Type().String() != "github.com/goplus/xgo/token.Pos" || quotedToken(docs[f]) != "" {
					return true
				}
				// END positions only (by name: Last, EndPos …); a start position such as Ident.NamePos is rightly p.pos.
				// CallExpr.NoParenEnd has its own, finer rule (end-next-token: p.pos is allowed in the fallback arm).
				if !(strings.Contains(f.Name(), "End") || f.Name() == "Last") || f.Name() == "NoParenEnd" {
					return true
				}
				for _, site := range fieldStores([]*packages.Package{ppk}, f) {
					if site.Fn == nil || site.Value == nil {
						continue
					}
					nBare++
					key := tname + "." + f.Name() + "@" + core.FuncName(site.Fn)
					vals := []ast.Expr{site.Value}
					if o := identObj(pinfo, site.Value); o != nil {
						if ds := defsOf(pinfo, site.Fn.Body)[o]; len(ds) > 0 {
							vals = ds
						}
					}
					bad := false
					for _, v := range vals {
						if sel, ok := ast.Unparen(v).(*ast.SelectorExpr); ok && sel.Sel.Name == "pos" {
							if s := pinfo.Selections[sel]; s != nil && s.Kind() == types.FieldVal {
								bad = true
							}
						}
					}
					if why, ok := c17EndStoreReviewed[key]; ok {
						if bad {
							c.Note("end-not-next-token", key, site.Pos, "reviewed: "+why)
						} else {
							c.Bad("end-not-next-token", key, site.Pos, "listed as a reviewed exception but the store no longer uses p.pos: remove the stale entry")
						}
						continue
					}
					c.Decide(!bad, "end-not-next-token", key, site.Pos, "the end position is taken from the node's own last token", core.FuncName(site.Fn)+" stores the parser's current position (p.pos — the start of the NEXT token) in "+tname+"."+f.Name()+", which "+tname+".End() returns as it is: blanks and comments between the node's last token and the next one fall inside its span")
				}
				return true
			})
		}
		c.Analysed("end_position_store_sites", nBare)
		c.Floor("end-not-next-token", 1)
	}

	// ---------- an END position (Last, NoParenEnd, EndPos) is computed after the node's last token has been consumed: on no
	// path does the parser consume a token (p.next, p.expect*, a parse* routine) between the last assignment of the
	// value stored in the field and the construction of the node. `Last: rhs[n-1].End()` evaluated after
	// `p.expect(token.RPAREN)` leaves the `)` outside the lambda.
	{
		nAfter := 0
		for _, fd := range core.AllFuncDecls(ppk) {
			if fd.Body == nil {
				continue
			}
			type site struct {
				lit  *ast.CompositeLit
				key  string
				root types.Object // the variable the stored value is computed from
			}
			var sites []site
			ast.Inspect(fd.Body, func(n ast.Node) bool {
				cl, ok := n.(*ast.CompositeLit)
				if !ok {
					return true
				}
				nt := namedOf(pinfo.TypeOf(cl))
				if nt == nil || nt.Obj().Pkg() != apk.Types {
					return true
				}
				for _, el := range cl.Elts {
					kv, ok := el.(*ast.KeyValueExpr)
					if !ok {
						continue
					}
					id, ok := kv.Key.(*ast.Ident)
					if !ok || !(id.Name == "Last" || id.Name == "NoParenEnd" || id.Name == "EndPos") {
						continue
					}
					if t := pinfo.TypeOf(kv.Value); t == nil || t.String() != "github.com/goplus/xgo/token.Pos" {
						continue // RangeExpr.Last is an operand, not a position
					}
					var root types.Object
					ast.Inspect(kv.Value, func(m ast.Node) bool {
						if x, ok := m.(*ast.Ident); ok && root == nil {
							if v, ok := pinfo.Uses[x].(*types.Var); ok && !v.IsField() && v.Pkg() == ppk.Types && v.Parent() != ppk.Types.Scope() {
								if recvOf(fd, pinfo) != v {
									root = v
								}
							}
						}
						return true
					})
					if root != nil {
						sites = append(sites, site{cl, nt.Obj().Name() + "." + id.Name + "@" + core.FuncName(fd), root})
					}
				}
				return true
			})
			for _, st := range sites {
				st := st
				nAfter++
				// the variables the end value is computed from: the root itself and, one level down, the locals mentioned on
				// the right-hand side of its assignments (last = rhs[n-1].End() → rhs)
				vars := []types.Object{st.root}
				idx := map[types.Object]uint{st.root: 0}
				localsIn := func(e ast.Expr) []types.Object {
					var out []types.Object
					ast.Inspect(e, func(m ast.Node) bool {
						if x, ok := m.(*ast.Ident); ok {
							if v, ok := pinfo.Uses[x].(*types.Var); ok && !v.IsField() && v.Parent() != ppk.Types.Scope() && v != recvOf(fd, pinfo) {
								out = append(out, v)
							}
						}
						return true
					})
					return out
				}
				ast.Inspect(fd.Body, func(n ast.Node) bool {
					as, ok := n.(*ast.AssignStmt)
					if !ok || len(as.Lhs) != len(as.Rhs) {
						return true
					}
					for i, l := range as.Lhs {
						if identObj(pinfo, l) == st.root {
							for _, v := range localsIn(as.Rhs[i]) {
								if _, seen := idx[v]; !seen && len(vars) < 8 {
									idx[v] = uint(len(vars))
									vars = append(vars, v)
								}
							}
						}
					}
					return true
				})
				// bit i: a token was consumed since vars[i] was last assigned; bit 16: the root was assigned on this path
				const bAssigned flow.State = 1 << 16
				all := flow.State(1)<<uint(len(vars)) - 1
				bad := token.NoPos
				p := &flow.Problem{Body: fd.Body, Info: pinfo}
				p.Node = func(n ast.Node, s flow.State, record bool) flow.State {
					// order inside one CFG node: calls first, then the assignment of their results
					for _, call := range flow.Calls(n) {
						if sel, ok := call.Fun.(*ast.SelectorExpr); ok {
							if fn, ok := pinfo.Uses[sel.Sel].(*types.Func); ok && fn.Pkg() == ppk.Types && isParserRecv(fn) {
								nm := fn.Name()
								if nm == "next" || strings.HasPrefix(nm, "expect") || strings.HasPrefix(nm, "parse") || nm == "advance" {
									s |= all
								}
							}
						}
					}
					if as, isAssign := n.(*ast.AssignStmt); isAssign {
						for i, l := range as.Lhs {
							o := identObj(pinfo, l)
							k, tracked := idx[o]
							if !tracked {
								continue
							}
							if o == st.root && len(as.Lhs) == len(as.Rhs) {
								// the root inherits the staleness of what it is computed from
								stale := false
								for _, v := range localsIn(as.Rhs[i]) {
									if j, ok := idx[v]; ok && v != st.root && s&(1<<j) != 0 {
										stale = true
									}
								}
								s &^= 1
								if stale {
									s |= 1
								}
								s |= bAssigned
								continue
							}
							s &^= 1 << k
							if o == st.root {
								s |= bAssigned
							}
						}
					}
					if record {
						found := false
						ast.Inspect(n, func(m ast.Node) bool {
							if m == ast.Node(st.lit) {
								found = true
							}
							return !found
						})
						// a path on which the value was never assigned builds some other node (the end variable is still zero)
						if found && s&1 != 0 && s&bAssigned != 0 {
							bad = st.lit.Pos()
						}
					}
					return s
				}
				flow.Solve(p)
				if why, ok := c17EndAfterReviewed[st.key]; ok {
					if bad.IsValid() {
						c.Note("end-after-last-token", st.key, bad, "reviewed: "+why)
					} else {
						c.Bad("end-after-last-token", st.key, st.lit.Pos(), "listed as a reviewed exception but no token is consumed after the value any more: remove the stale entry")
					}
					continue
				}
				c.Decide(!bad.IsValid(), "end-after-last-token", st.key, bad, "no token is consumed between computing the end position and building the node", core.FuncName(fd)+" builds the node with an end position computed from `"+st.root.Name()+"` although, on some path, the parser consumed further tokens after that value (or the operand it is taken from) was last assigned: those tokens (a closing parenthesis, say) belong to the node but lie outside its span")
			}
		}
		c.Analysed("end_position_literals", nAfter)
		c.Floor("end-after-last-token", 1)
	}

	// ---------- the parser never manufactures a token position from a child's End()
	nArith := 0
	for _, fd := range core.AllFuncDecls(ppk) {
		fdefs := defsOf(pinfo, fd.Body)
		isEnd := func(e ast.Expr) bool {
			e = ast.Unparen(e)
			if call, ok := e.(*ast.CallExpr); ok {
				if sel, ok := call.Fun.(*ast.SelectorExpr); ok && sel.Sel.Name == "End" && len(call.Args) == 0 {
					return true
				}
			}
			if o := identObj(pinfo, e); o != nil {
				ds := fdefs[o]
				if len(ds) == 0 {
					return false
				}
				for _, d := range ds {
					if call, ok := ast.Unparen(d).(*ast.CallExpr); ok {
						if sel, ok := call.Fun.(*ast.SelectorExpr); ok && sel.Sel.Name == "End" && len(call.Args) == 0 {
							continue
						}
					}
					return false
				}
				return true
			}
			return false
		}
		ast.Inspect(fd.Body, func(n ast.Node) bool {
			switch x := n.(type) {
			case *ast.BinaryExpr:
				if (x.Op == token.ADD || x.Op == token.SUB) && isEnd(x.X) {
					if tv := pinfo.Types[x.Y]; tv.Value != nil {
						nArith++
						c.Bad("parser-pos-arith", core.FuncName(fd), x.Pos(), "the parser derives a position by adding a constant to a child's End(): that is only the position of the next token when nothing (blanks, comments, newlines) lies in between — for other layouts the recorded position, and every span built on it, is off")
					}
				}
			case *ast.IncDecStmt:
				if isEnd(x.X) {
					nArith++
					c.Bad("parser-pos-arith", core.FuncName(fd), x.Pos(), "the parser increments a position taken from a child's End() to reach the next token: wrong whenever blanks or comments lie in between")
				}
			case *ast.AssignStmt:
				if (x.Tok == token.ADD_ASSIGN || x.Tok == token.SUB_ASSIGN) && len(x.Lhs) == 1 && isEnd(x.Lhs[0]) {
					nArith++
					c.Bad("parser-pos-arith", core.FuncName(fd), x.Pos(), "the parser adjusts a position taken from a child's End() by a constant")
				}
			}
			return true
		})
	}
	if nArith == 0 {
		c.Ok("parser-pos-arith", "parser", 0, "no position in package parser is computed as <child>.End() ± constant (positions come from the scanner)")
	}
	c.Analysed("end_methods", nEnd)
	c.Analysed("end_returns_resolved", resolved)
	c.Analysed("end_returns_unresolved", unresolved)
}

// quotedToken extracts X from a field comment of the form `position of "X" …`.
func quotedToken(doc string) string {
	i := strings.Index(doc, "position of ")
	if i < 0 {
		return ""
	}
	rest := doc[i+len("position of "):]
	if len(rest) < 3 {
		return ""
	}
	q := rest[0]
	if q != '"' && q != '\'' && q != '`' {
		return ""
	}
	j := strings.IndexByte(rest[1:], q)
	if j <= 0 {
		return ""
	}
	tok := rest[1 : 1+j]
	// "position of ':' or token.NoPos" style alternatives are fine; "X or Y" with different widths are not decidable
	after := rest[1+j+1:]
	if strings.HasPrefix(strings.TrimSpace(after), "or \"") || strings.HasPrefix(strings.TrimSpace(after), "or '") {
		return ""
	}
	return tok
}

// recvOf returns the receiver variable of a method declaration.
func recvOf(fd *ast.FuncDecl, info *types.Info) types.Object {
	if fd.Recv == nil || len(fd.Recv.List) == 0 || len(fd.Recv.List[0].Names) == 0 {
		return nil
	}
	return info.Defs[fd.Recv.List[0].Names[0]]
}

// isParserRecv: a method of the parser type.
func isParserRecv(fn *types.Func) bool {
	sig, ok := fn.Type().(*types.Signature)
	if !ok || sig.Recv() == nil {
		return false
	}
	nt := namedOf(derefType(sig.Recv().Type()))
	return nt != nil && nt.Obj().Name() == "parser"
}
