package props

import (
	"go/ast"
	"go/constant"
	"go/token"
	"go/types"
	"strings"

	"golang.org/x/tools/go/packages"
	"golang.org/x/tools/go/ssa"

	"verif/checker/internal/core"
	"verif/checker/internal/flow"
)

func init() {
	register(&Prop{
		ID:        "C27",
		Title:     "Grammar compilation never panics",
		Technique: "table-index bound analysis (dominating guard vs. array length from go/types) in tpl/token and token, call-graph panic census from tpl.New/NewEx/FromFile/cl.NewEx, and recover-extent/handler rules on cl.NewEx",
		Explanation: "Decides for every grammar text that (1) every index of a token spelling table by a Token value is dominated by a strict bound that go/types proves to be ≤ the array's length (`i < len(table)`, `i < C`/`i <= C` with the constant checked against the array length, or a constant-bounded loop); " +
			"(2) every explicit panic/log.Panic/log.Fatal/os.Exit and unchecked type assertion reachable (CHA call graph, module functions) from tpl.New, tpl.NewEx, tpl.FromFile and tpl/cl.NewEx is either the RecursiveError raised by Var.First — and every call of NewEx that can reach Var.First comes after NewEx installed its deferred recover — or a table line with a reason; " +
			"(3) NewEx's recover handler re-panics only non-RecursiveError values, always sets err, and does not dereference a captured pointer variable that starts out nil.",
		NotCovered: "implicit panics (nil dereference, slice bounds) in code that is not table indexing, e.g. lit[1:len(lit)-1] on literals (screened by the TPL parser's own errors), and panics raised by user RetProcs.",
		Run:        runC27,
		Controls: []Control{
			{Name: "len-bound-inclusive", File: "tpl/token/token.go", Old: "if tok > ' ' && tok < Token(len(tokens)) {", New: "if tok > ' ' && tok <= Token(len(tokens)) {", Expect: "index-bound/tpl/token.Token.Len"},
			{Name: "bound-by-marker-const", File: "tpl/token/token.go", Old: "if tok > ' ' && tok < Token(len(tokens)) {", New: "if tok > ' ' && tok <= operator_end {", Expect: "index-bound/tpl/token.Token.Len"},
			{Name: "string-unguarded", File: "tpl/token/token.go", Old: "\tif tok < Token(len(tokens)) {\n\t\ts = tokens[tok]\n\t}", New: "\ts = tokens[tok]", Expect: "index-bound/tpl/token.Token.String"},
			{Name: "xgo-token-string-unguarded", File: "token/token.go", Old: "if 0 <= tok && tok < Token(len(tokens)) {", New: "if tok < Token(len(tokens)) {", Expect: "index-bound/token.Token.String"},
			{Name: "recover-after-conflicts", File: "tpl/cl/compile.go", Old: "\tdefer func() {\n\t\tif e := recover(); e != nil {", New: "\tfor _, item := range ctx.choices {\n\t\titem.m.CheckConflicts(func(firsts [][]any, i, at int) {})\n\t}\n\tdefer func() {\n\t\tif e := recover(); e != nil {", Expect: "recover-extent/tpl/cl.NewEx"},
			{Name: "handler-derefs-nil-var", File: "tpl/cl/compile.go", Old: "\tdefer func() {\n\t\tif e := recover(); e != nil {\n\t\t\tswitch e := e.(type) {\n\t\t\tcase matcher.RecursiveError:\n\t\t\t\tctx.addError(e.Pos, e.Error())", New: "\tvar cur *ast.Choice\n\tdefer func() {\n\t\tif e := recover(); e != nil {\n\t\t\tswitch e := e.(type) {\n\t\t\tcase matcher.RecursiveError:\n\t\t\t\tctx.addError(cur.Pos(), e.Error())", Expect: "recover-handler/tpl/cl.NewEx"},
			{Name: "new-panic-in-compile", File: "tpl/cl/compile.go", Old: "\t\t\t\tctx.addErrorf(expr.Pos(), \"invalid token %v\", expr.Op)\n\t\t\t}\n\t\t}\n\tcase *ast.BinaryExpr:", New: "\t\t\t\tpanic(\"invalid unary operator\")\n\t\t\t}\n\t\t}\n\tcase *ast.BinaryExpr:", Expect: "panic-census/tpl/cl.compileExpr:panic"},
			{Name: "handler-swallows-err", File: "tpl/cl/compile.go", Old: "\t\terr = ctx.errs.ToError()\n\t}()", New: "\t}()", Expect: "recover-handler/tpl/cl.NewEx"},
		},
	})
}

// panicTable: reachable explicit panics that are not input-driven, one reason each (key = function:kind).
var c27Allowed = map[string]string{
	"(*tpl/matcher.Var).First:panic":          "RecursiveError: the left-recursion signal, recovered by cl.NewEx (extent checked by recover-extent)",
	"tpl/cl.NewEx$1:panic":                    "re-panic of a non-RecursiveError value inside NewEx's own recover handler (by design: foreign panics are not swallowed)",
	"tpl.retProcs:panic":                      "API misuse by the calling PROGRAM (odd number of retProc params), not reachable from grammar text",
	"tpl.retProcs:typeassert":                 "API misuse by the calling program (rule name param is not a string), not reachable from grammar text",
	"tpl/matcher.hasConflictToken:panic":      "default arm over first-set elements; First implementations only ever put token.Token and *MatchToken into first sets",
	"tpl/matcher.hasConflictMatchToken:panic": "same: first sets contain only token.Token and *MatchToken",
	"tpl/matcher.hasConflictMe:panic":         "same: first sets contain only token.Token and *MatchToken",
}

func runC27(c *core.Check) {
	prog := c.Load("./tpl", "./tpl/cl", "./tpl/token", "./token", "./tpl/matcher")
	deadStateRule(c, prog.Pkg("./tpl"), prog.Pkg("./tpl/cl")) // no unexported field is read without a writer

	// ---------- (1) index bounds
	c.Floor("index-bound", 4)
	for _, path := range []string{"./tpl/token", "./token"} {
		pk := prog.Pkg(path)
		if pk == nil {
			continue
		}
		indexBounds(c, pk, strings.TrimPrefix(path, "./"))
	}

	// ---------- (2) census
	g := buildCG(c, prog, c.Tier == "thorough")
	roots := []*ssa.Function{g.fn("./tpl", "New"), g.fn("./tpl", "NewEx"), g.fn("./tpl", "FromFile"), g.fn("./tpl/cl", "NewEx")}
	set, pred := g.reachable(roots, func(f *ssa.Function) bool { return inModule(f) })
	c.Analysed("reachable_module_functions", len(set))
	c.Floor("panic-census", 5)
	for _, s := range g.census(set, map[string]bool{"panic": true, "log.Panic": true, "log.Fatal": true, "os.Exit": true, "typeassert": true, "go": true}) {
		key := shortFn(s.Fn) + ":" + s.Kind
		if why, ok := c27Allowed[key]; ok {
			c.Ok("panic-census", key, s.Pos, why)
		} else {
			c.Bad("panic-census", key, s.Pos, "an explicit "+s.Kind+" is reachable from grammar compilation ("+witness(pred, s.Fn)+") and is not a reviewed exception: a malformed grammar can crash the caller instead of yielding an error list")
		}
	}

	// ---------- recover extent & handler on cl.NewEx
	clpk := prog.Pkg("./tpl/cl")
	mpk := prog.Pkg("./tpl/matcher")
	nfd := prog.FuncDecl("./tpl/cl", "NewEx")
	if clpk == nil || mpk == nil || nfd == nil {
		return
	}
	info := clpk.TypesInfo
	var def *ast.DeferStmt
	for _, s := range nfd.Body.List {
		if d, ok := s.(*ast.DeferStmt); ok {
			if fl, ok := d.Call.Fun.(*ast.FuncLit); ok {
				hasRec := false
				ast.Inspect(fl, func(n ast.Node) bool {
					if call, ok := n.(*ast.CallExpr); ok {
						if id, ok := call.Fun.(*ast.Ident); ok && id.Name == "recover" {
							hasRec = true
						}
					}
					return true
				})
				if hasRec && def == nil {
					def = d
				}
			}
		}
	}
	if def == nil {
		c.Bad("recover-extent", "tpl/cl.NewEx", nfd.Pos(), "NewEx has no top-level deferred recover: the RecursiveError panic of Var.First escapes to the caller")
		return
	}
	// which callees (from NewEx's call sites) can reach Var.First?
	first := g.fn("./tpl/matcher", "Var.First")
	newEx := g.fn("./tpl/cl", "NewEx")
	early := token.NoPos
	nSites := 0
	if first != nil && newEx != nil {
		reachFirst := map[*ssa.Function]bool{}
		var can func(f *ssa.Function, depth int) bool
		memo := map[*ssa.Function]int{}
		can = func(f *ssa.Function, depth int) bool {
			if f == first {
				return true
			}
			if v, ok := memo[f]; ok {
				return v == 1
			}
			memo[f] = 0
			if n := g.graph.Nodes[f]; n != nil && inModule(f) {
				for _, e := range n.Out {
					if e.Callee.Func != nil && can(e.Callee.Func, depth+1) {
						memo[f] = 1
						return true
					}
				}
			}
			return false
		}
		if n := g.graph.Nodes[newEx]; n != nil {
			for _, e := range n.Out {
				if e.Callee.Func == nil || e.Site == nil {
					continue
				}
				if can(e.Callee.Func, 0) {
					reachFirst[e.Callee.Func] = true
					nSites++
					if e.Site.Pos() < def.End() {
						early = e.Site.Pos()
					}
				}
			}
		}
	}
	c.Analysed("NewEx_call_sites_reaching_Var.First", nSites)
	c.Decide(!early.IsValid() && nSites > 0, "recover-extent", "tpl/cl.NewEx", early, "every call of NewEx that can reach Var.First (RecursiveError) comes after the deferred recover is installed",
		"a call that can reach Var.First (which panics with RecursiveError on a left-recursive grammar) is executed before NewEx installs its deferred recover: the panic escapes to the caller of tpl.New")

	// handler shape
	fl := def.Call.Fun.(*ast.FuncLit)
	setsErr, rePanicsOnlyDefault, derefNilVar := false, true, ""
	var errObj types.Object
	if nfd.Type.Results != nil {
		for _, f := range nfd.Type.Results.List {
			for _, nm := range f.Names {
				if info.Defs[nm].Type().String() == "error" {
					errObj = info.Defs[nm]
				}
			}
		}
	}
	// err must be assigned at the top level of the handler (on every path)
	for _, s := range fl.Body.List {
		if as, ok := s.(*ast.AssignStmt); ok {
			for _, l := range as.Lhs {
				if identObj(info, l) == errObj && errObj != nil {
					setsErr = true
				}
			}
		}
	}
	par := parentMap(fl)
	ast.Inspect(fl.Body, func(n ast.Node) bool {
		call, ok := n.(*ast.CallExpr)
		if !ok {
			return true
		}
		if id, ok := call.Fun.(*ast.Ident); ok && id.Name == "panic" {
			// must sit in the default clause of the type switch on the recovered value
			inDefault := false
			for p := par[n]; p != nil; p = par[p] {
				if cc, ok := p.(*ast.CaseClause); ok {
					inDefault = cc.List == nil
					break
				}
			}
			if !inDefault {
				rePanicsOnlyDefault = false
			}
		}
		// dereference of a captured, nil-initialised pointer variable
		if sel, ok := call.Fun.(*ast.SelectorExpr); ok {
			if o, ok := identObj(info, sel.X).(*types.Var); ok && !o.IsField() && !(fl.Pos() <= o.Pos() && o.Pos() < fl.End()) {
				if zeroInitPointer(info, nfd, o) {
					derefNilVar = o.Name()
				}
			}
		}
		return true
	})
	ast.Inspect(fl.Body, func(n ast.Node) bool {
		if sel, ok := n.(*ast.SelectorExpr); ok {
			if s := info.Selections[sel]; s != nil && s.Kind() == types.FieldVal {
				if o, ok := identObj(info, sel.X).(*types.Var); ok && !o.IsField() && !(fl.Pos() <= o.Pos() && o.Pos() < fl.End()) && zeroInitPointer(info, nfd, o) {
					derefNilVar = o.Name()
				}
			}
		}
		return true
	})
	why := ""
	switch {
	case !setsErr:
		why = "the handler does not assign the error result on every path: a recovered RecursiveError is turned into a nil error"
	case !rePanicsOnlyDefault:
		why = "the handler re-panics for a RecursiveError (or outside the default arm)"
	case derefNilVar != "":
		why = "the handler dereferences the captured variable `" + derefNilVar + "`, which is declared without a value (nil) and only assigned later: if the panic is raised before that assignment the handler itself panics with a nil dereference and the error is lost"
	}
	c.Decide(why == "", "recover-handler", "tpl/cl.NewEx", fl.Pos(), "sets err, re-panics only foreign values, touches no nil-initialised captured pointer", why)
	_ = flow.Calls
}

// zeroInitPointer: o is a local of fd declared as `var o *T` / interface without initial value (or assigned nil at declaration).
func zeroInitPointer(info *types.Info, fd *ast.FuncDecl, o *types.Var) bool {
	switch types.Unalias(o.Type()).Underlying().(type) {
	case *types.Pointer, *types.Interface, *types.Map, *types.Signature:
	default:
		return false
	}
	found := false
	ast.Inspect(fd.Body, func(n ast.Node) bool {
		if vs, ok := n.(*ast.ValueSpec); ok {
			for i, nm := range vs.Names {
				if info.Defs[nm] == o {
					if i >= len(vs.Values) {
						found = true
					} else if id, ok := vs.Values[i].(*ast.Ident); ok && id.Name == "nil" {
						found = true
					}
				}
			}
		}
		return true
	})
	return found
}

// indexBounds checks every index of a package-level array by a non-constant value.
func indexBounds(c *core.Check, pk *packages.Package, label string) {
	info := pk.TypesInfo
	for _, fd := range core.AllFuncDecls(pk) {
		fd := fd
		type site struct {
			ix  *ast.IndexExpr
			arr *types.Var
			n   int64
			idx types.Object
		}
		var sites []site
		ast.Inspect(fd.Body, func(n ast.Node) bool {
			ix, ok := n.(*ast.IndexExpr)
			if !ok {
				return true
			}
			v, ok := identObj(info, ix.X).(*types.Var)
			if !ok || v.Parent() != pk.Types.Scope() {
				return true
			}
			at, ok := types.Unalias(v.Type()).Underlying().(*types.Array)
			if !ok {
				return true
			}
			if tv := info.Types[ix.Index]; tv.Value != nil {
				return true // constant index: checked by the compiler
			}
			sites = append(sites, site{ix, v, at.Len(), identObj(info, ix.Index)})
			return true
		})
		if len(sites) == 0 {
			continue
		}
		// facts: per index variable, "upper bound proven" and "lower bound proven or unsigned"
		const (
			bUpper flow.State = 1 << iota
			bLower
		)
		for _, s := range sites {
			s := s
			key := label + "." + core.FuncName(fd)
			if s.idx == nil {
				c.Undecided("index-bound", key, s.ix.Pos(), "a token table is indexed by a compound expression")
				continue
			}
			unsigned := false
			if b, ok := types.Unalias(s.idx.Type()).Underlying().(*types.Basic); ok && b.Info()&types.IsUnsigned != 0 {
				unsigned = true
			}
			// upper bound value an expression denotes, relative to the array length: returns (bound, ok)
			boundOf := func(e ast.Expr) (int64, bool) {
				e = ast.Unparen(e)
				if call, ok := e.(*ast.CallExpr); ok && len(call.Args) == 1 {
					// Token(len(tokens)) or len(tokens)
					inner := ast.Unparen(call.Args[0])
					if id, ok := call.Fun.(*ast.Ident); ok && id.Name == "len" && identObj(info, inner) == s.arr {
						return s.n, true
					}
					if ic, ok := inner.(*ast.CallExpr); ok && len(ic.Args) == 1 {
						if id, ok := ic.Fun.(*ast.Ident); ok && id.Name == "len" && identObj(info, ic.Args[0]) == s.arr {
							return s.n, true
						}
					}
				}
				if tv := info.Types[e]; tv.Value != nil && tv.Value.Kind() == constant.Int {
					return constant.Int64Val(tv.Value)
				}
				return 0, false
			}
			var at []flow.State
			p := &flow.Problem{Body: fd.Body, Info: info}
			p.Node = func(n ast.Node, st flow.State, record bool) flow.State {
				if record {
					ast.Inspect(n, func(m ast.Node) bool {
						if m == ast.Node(s.ix) {
							at = append(at, st)
						}
						return true
					})
				}
				for _, o := range flow.AssignedVars(n, info) {
					if o != s.idx {
						continue
					}
					switch x := n.(type) {
					case *ast.IncDecStmt:
						if x.Tok == token.INC {
							st &^= bUpper // growing keeps the lower bound
						} else {
							st &^= bLower
						}
						continue
					case *ast.AssignStmt:
						st &^= bUpper | bLower
						for i, l := range x.Lhs {
							if identObj(info, l) == s.idx && i < len(x.Rhs) && len(x.Lhs) == len(x.Rhs) {
								if tv := info.Types[x.Rhs[i]]; tv.Value != nil && tv.Value.Kind() == constant.Int {
									if v, ok := constant.Int64Val(tv.Value); ok {
										if v >= 0 {
											st |= bLower
										}
										if v < s.n {
											st |= bUpper
										}
									}
								}
							}
						}
						continue
					}
					st &^= bUpper | bLower
				}
				return st
			}
			var edge func(e ast.Expr, truth bool, st flow.State) flow.State
			edge = func(e ast.Expr, truth bool, st flow.State) flow.State {
				e = ast.Unparen(e)
				be, ok := e.(*ast.BinaryExpr)
				if !ok {
					return st
				}
				if be.Op == token.LAND && truth {
					return edge(be.Y, true, edge(be.X, true, st))
				}
				if be.Op == token.LOR && !truth {
					return edge(be.Y, false, edge(be.X, false, st))
				}
				x, y, op := be.X, be.Y, be.Op
				if identObj(info, y) == s.idx && identObj(info, x) != s.idx { // C <= i  ⇒  i >= C
					x, y = y, x
					switch op {
					case token.LSS:
						op = token.GTR
					case token.LEQ:
						op = token.GEQ
					case token.GTR:
						op = token.LSS
					case token.GEQ:
						op = token.LEQ
					}
				}
				if identObj(info, x) != s.idx {
					return st
				}
				if !truth { // negate
					switch op {
					case token.LSS:
						op = token.GEQ
					case token.LEQ:
						op = token.GTR
					case token.GTR:
						op = token.LEQ
					case token.GEQ:
						op = token.LSS
					default:
						return st
					}
				}
				b, ok := boundOf(y)
				if !ok {
					return st
				}
				switch op {
				case token.LSS: // i < b
					if b <= s.n {
						st |= bUpper
					}
				case token.LEQ: // i <= b
					if b < s.n {
						st |= bUpper
					}
				case token.GEQ:
					if b >= 0 {
						st |= bLower
					}
				case token.GTR:
					if b >= -1 {
						st |= bLower
					}
				}
				return st
			}
			p.Edge = func(cond ast.Expr, truth bool, st flow.State) (flow.State, bool) { return edge(cond, truth, st), true }
			flow.Solve(p)
			ok := len(at) > 0
			for _, st := range at {
				if st&bUpper == 0 || (!unsigned && st&bLower == 0) {
					ok = false
				}
			}
			c.Decide(ok, "index-bound", key, s.ix.Pos(), core.Sprintf("%s[%s] is dominated by a bound ≤ the array length %d (and ≥ 0)", s.arr.Name(), s.idx.Name(), s.n),
				core.Sprintf("%s[%s] (array of %d elements) is reachable without a dominating strict bound that is ≤ %d%s: a token value outside the table (e.g. a single-byte literal in a grammar) makes this index panic", s.arr.Name(), s.idx.Name(), s.n, s.n, map[bool]string{true: "", false: " and a lower bound ≥ 0"}[unsigned]))
		}
	}
}
