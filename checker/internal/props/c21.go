package props

import (
	"go/ast"
	"go/token"
	"sort"
	"strings"

	"verif/checker/internal/core"
)

func init() {
	f := "printer/printer.go"
	register(&Prop{
		ID:        "C21",
		Title:     "Formatting keeps every comment, in order",
		Technique: "clone-equivalence (alpha-renaming, constant folding) of the printer's comment machinery with its sibling go/printer, hash-pinned reviewed deviations, and structural rules on the comment cursor: every group is taken exactly once by nextComment, every comment of a group is written in list order, and the final flush runs past the end of the file",
		Explanation: "Decides the structural part of 'every comment of the input appears once and in order': XGo's printer is a fork of go/printer, so the claim is established through agreement with that sibling plus the few facts the property itself consists of. " +
			"(1) the routines that decide where comments go — commentBefore, nextComment, flush, writeCommentPrefix/Suffix, writeWhitespace, setComment, … — are alpha-equivalent to go/printer's; (2) the routines that differ were reviewed against go/printer and are pinned in the reviewed form: intersperseComments and writeComment are go/printer's without Go 1.19's doc-comment reformatting and //go:build bookkeeping (XGo prints comment text verbatim), the others differ in spelling only; " +
			"(3) independent of the sibling: the comment cursor p.cindex only moves forward by one group at a time (nextComment is its only writer); intersperseComments writes every comment of the current group in list order and then advances; Config.fprint flushes with a position beyond every source position (infinity) after printing the node, so no pending comment is left behind; printNode hands the file's complete comment list to the cursor.",
		NotCovered: "comments that sit inside a construct the XGo-specific node printers skip (a comment is written when the next printed token's position passes it; a node printed without positions delays, but does not drop, comments), and re-indentation of /* */ comment text by stripCommonPrefix (go/printer's behaviour).",
		Run:        runC21,
		Controls: []Control{
			{Name: "format-result-from-shared-buffer", File: "format/internal.go", Old: "\t\tvar buf bytes.Buffer\n\t\terr := cfg.Fprint(&buf, fset, file)\n", New: "\t\tbuf := sharedBuf\n\t\tbuf.Reset()\n\t\terr := cfg.Fprint(buf, fset, file)\n", Old2: "// format formats the given package file originally obtained from src", New2: "var sharedBuf = new(bytes.Buffer)\n\n// format formats the given package file originally obtained from src", Expect: "own-buffer/format"},
			{Name: "skip-line-comments-in-group", File: f, Old: "\t\tfor _, c := range p.comment.List {\n\t\t\tp.writeCommentPrefix(p.posFor(c.Pos()), next, last, tok)\n\t\t\tp.writeComment(c)\n\t\t\tlast = c\n\t\t}", New: "\t\tfor _, c := range p.comment.List {\n\t\t\tif last != nil && c.Text[1] == '/' && len(c.Text) == 2 {\n\t\t\t\tcontinue\n\t\t\t}\n\t\t\tp.writeCommentPrefix(p.posFor(c.Pos()), next, last, tok)\n\t\t\tp.writeComment(c)\n\t\t\tlast = c\n\t\t}", Expect: "comment-cursor/intersperseComments:every-comment"},
			{Name: "cursor-skips-group", File: f, Old: "\t\tc := p.comments[p.cindex]\n\t\tp.cindex++\n", New: "\t\tc := p.comments[p.cindex]\n\t\tp.cindex += 2\n", Expect: "clone/printer.nextComment"},
			{Name: "no-final-flush", File: f, Old: "\tp.flush(token.Position{Offset: infinity, Line: infinity}, token.EOF)\n", New: "", Expect: "comment-cursor/fprint:final-flush"},
			{Name: "file-comments-not-used", File: f, Old: "\t\t// use ast.File comments, if any\n\t\tp.comments = n.Comments\n", New: "\t\t// use ast.File comments, if any\n\t\tp.comments = n.Comments[:len(n.Comments)/2]\n", Expect: "deviation/printer.printNode"},
			{Name: "comment-before-off-by-one", File: f, Old: "\treturn p.commentOffset < next.Offset && (!p.impliedSemi || !p.commentNewline)", New: "\treturn p.commentOffset+1 < next.Offset && (!p.impliedSemi || !p.commentNewline)", Expect: "clone/printer.commentBefore"},
		},
	})
}

var c21Clones = []string{"printer.commentBefore", "printer.commentSizeBefore", "printer.commentsHaveNewline", "printer.containsLinebreak", "printer.flush", "printer.nextComment", "printer.setComment", "printer.setLineComment", "printer.writeCommentPrefix", "printer.writeCommentSuffix", "printer.writeWhitespace", "printer.writeIndent", "printer.writeByte", "trimmer.Write", "trimmer.resetSpace", "commonPrefix", "trimRight", "isBlank", "getDoc", "getLastComment", "Fprint", "Config.Fprint", "printer.recordLine", "printer.posFor", "printer.lineFor", "printer.writeString"}

var c21Deviations = map[string]struct{ hash, why string }{
	"printer.intersperseComments": {"8a51ca68", "go/printer's loop without Go 1.19's formatDocComment rewriting (XGo predates it): every comment of the group is written verbatim in list order"},
	"printer.writeComment":        {"2d6fb4d7", "go/printer's routine without the //go:build and // +build bookkeeping (p.goBuild / p.plusBuild)"},
	"stripCommonPrefix":           {"c5ba272e", "same algorithm spelled with strings.Index instead of strings.Cut (pre-Go 1.18 form)"},
	"printer.printNode":           {"b3212dcc", "no initial p.print(pmode(0)) and returns nil instead of the source-position error of newer go/printer; the comment-list selection (CommentedNode range, File.Comments) is go/printer's"},
	"Config.fprint":               {"8ae4f3fb", "no printer pool and no fixGoBuildLines pass; otherwise go/printer's: printNode, impliedSemi reset, final flush at infinity, trimmer/tabwriter"},
	"printer.print":               {"8d876a0b", "adds a token.Pos argument case (set the position of the next item), the c\"…\"/py\"…\" prefix of a BasicLit's text, and the panic text; the comment hand-over (flush before the next token) is go/printer's"},
}

func runC21(c *core.Check) {
	prog := c.Load("./printer", "go/printer", "./format", "./x/format")
	x, g := prog.Pkg("./printer"), prog.Pkg("go/printer")
	if x == nil || g == nil {
		return
	}
	deadStateRule(c, x)
	// the formatted text (with its comments) handed to the caller is the caller's own
	c.Analysed("returned_buffer_sites", ownBufferRule(c, "own-buffer", x, prog.Pkg("./format"), prog.Pkg("./x/format")))
	c.Floor("own-buffer", 2)
	c.Trust("the Go 1.23.5 standard library source of go/printer as the reference sibling")
	c.Assume("go/printer writes every comment it is given exactly once and in order (the property is established relative to that sibling)", "alpha-equivalence to the reference is a sufficient condition for agreement; a reported divergence means 'agreement can no longer be established', not 'behaviour differs'")

	for _, name := range c21Clones {
		xf, gf := core.FindFuncDecl(x, name), core.FindFuncDecl(g, name)
		if xf == nil || gf == nil {
			c.Bad("clone", name, 0, "function missing on one side (renamed or removed): agreement with go/printer cannot be established for it")
			continue
		}
		c.Decide(normFunc(x, xf) == normFunc(g, gf), "clone", name, xf.Pos(), "alpha-equivalent to go/printer."+name, "unverified divergence from go/printer: this routine of the comment machinery is no longer an alpha-equivalent clone of the reference; that comments are still placed (and none skipped) can no longer be established by comparison")
	}
	c.Floor("clone", 22)
	var dn []string
	for n := range c21Deviations {
		dn = append(dn, n)
	}
	sort.Strings(dn)
	for _, name := range dn {
		xf := core.FindFuncDecl(x, name)
		if xf == nil {
			c.Bad("deviation", name, 0, "reviewed function no longer exists")
			continue
		}
		h := hash8(normFunc(x, xf))
		d := c21Deviations[name]
		c.Decide(h == d.hash, "deviation", name, xf.Pos(), "reviewed deviation, unchanged since review ("+h+"): "+d.why,
			"this routine deviates from go/printer and was reviewed in the form with hash "+d.hash+"; it now hashes to "+h+": the new form has not been compared with go/printer (unverified divergence on the path every comment takes)")
	}

	// ---------- (3) the cursor, independent of the sibling
	info := x.TypesInfo
	printerT := prog.NamedType("./printer", "printer")
	if printerT == nil {
		return
	}
	fCindex := fieldVar(prog.NamedType("./printer", "commentInfo"), "cindex")
	var writers []string
	for _, fd := range core.AllFuncDecls(x) {
		if fd.Body == nil {
			continue
		}
		ast.Inspect(fd.Body, func(n ast.Node) bool {
			var target ast.Expr
			switch s := n.(type) {
			case *ast.AssignStmt:
				for _, l := range s.Lhs {
					if sel, ok := l.(*ast.SelectorExpr); ok && info.Selections[sel] != nil && info.Selections[sel].Obj() == fCindex {
						target = l
					}
				}
			case *ast.IncDecStmt:
				if sel, ok := s.X.(*ast.SelectorExpr); ok && info.Selections[sel] != nil && info.Selections[sel].Obj() == fCindex {
					target = s.X
					if s.Tok != token.INC {
						writers = append(writers, core.FuncName(fd)+"(--)")
					}
				}
			}
			if target != nil {
				writers = append(writers, core.FuncName(fd))
			}
			return true
		})
	}
	sort.Strings(writers)
	okWriters := len(writers) > 0
	for _, w := range writers {
		if w != "printer.nextComment" && w != "printer.setComment" {
			okWriters = false
		}
	}
	c.Decide(okWriters, "comment-cursor", "cindex-writers", 0, "p.cindex is advanced only by nextComment (cindex++); setComment (clone of go/printer's, used only when a node is printed with its own doc comment and no file comment list) restarts a one-element list", "the comment cursor p.cindex is written by "+strings.Join(writers, ", ")+": a group can be skipped or visited twice")
	if ic := core.FindFuncDecl(x, "printer.intersperseComments"); ic != nil {
		ok := false
		ast.Inspect(ic.Body, func(n ast.Node) bool {
			rs, isRange := n.(*ast.RangeStmt)
			if !isRange || nows(core.ExprStr(rs.X)) != "p.comment.List" {
				return true
			}
			// every iteration writes the comment: a top-level p.writeComment(c), no continue/break/return before it
			for _, st := range rs.Body.List {
				if es, isExpr := st.(*ast.ExprStmt); isExpr && nows(core.ExprStr(es.X)) == "p.writeComment("+core.ExprStr(rs.Value)+")" {
					ok = true
					break
				}
				if _, isExpr := st.(*ast.ExprStmt); !isExpr {
					if _, isAssign := st.(*ast.AssignStmt); !isAssign {
						break // a branching statement precedes the write
					}
				}
			}
			return true
		})
		c.Decide(ok, "comment-cursor", "intersperseComments:every-comment", ic.Pos(), "every comment of the group is written, in list order", "intersperseComments no longer writes every comment of p.comment.List unconditionally in a forward range: some comments of a group are dropped")
		advances := strings.Contains(nows(nodeText(ic.Body)), "p.nextComment();")
		c.Decide(advances, "comment-cursor", "intersperseComments:advance", ic.Pos(), "advances to the next group after writing one", "intersperseComments no longer advances the cursor after writing a group")
	}
	if fp := core.FindFuncDecl(x, "Config.fprint"); fp != nil {
		txt := nows(nodeText(fp.Body))
		i, j := strings.Index(txt, "p.printNode(node)"), strings.Index(txt, "p.flush(token.Position{…},token.EOF)")
		if j < 0 {
			j = strings.Index(txt, "p.flush(")
		}
		inf := false
		ast.Inspect(fp.Body, func(n ast.Node) bool {
			if call, ok := n.(*ast.CallExpr); ok && nows(core.ExprStr(call.Fun)) == "p.flush" && len(call.Args) == 2 {
				if cl, ok := call.Args[0].(*ast.CompositeLit); ok {
					for _, el := range cl.Elts {
						if kv, ok := el.(*ast.KeyValueExpr); ok && core.ExprStr(kv.Key) == "Offset" && core.ExprStr(kv.Value) == "infinity" {
							inf = true
						}
					}
				}
			}
			return true
		})
		c.Decide(i >= 0 && j > i && inf, "comment-cursor", "fprint:final-flush", fp.Pos(), "after the node, flush(Offset: infinity, EOF) writes every remaining comment", "Config.fprint no longer flushes with a position beyond every source position after printing the node: comments after the last token are lost")
	}
}
