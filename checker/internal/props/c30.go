package props

import (
	"go/ast"
	"go/token"
	"go/types"
	"strings"

	"verif/checker/internal/core"
)

func init() {
	f := "tpl/tpl.go"
	register(&Prop{
		ID:        "C30",
		Title:     "TPL result helpers fold lists left to right",
		Technique: "value-origin shape analysis of tpl.List/ListOp/RangeOp and BinaryExpr*/BinaryOp* on the type-checked AST: loop direction, accumulator/operand slots, element indices, recursion targets and result allocation",
		Explanation: "Decides for every match result of R % sep that: List/ListOp build a FRESH slice of len(tail)+1, put in[0] (through fn) at index 0 and the R part (index 1 of each (sep, R) pair) of tail element i at index i+1 by an ascending range; RangeOp calls fn on in[0] first and then on each tail element's R part in order; " +
			"BinaryExprR/NR and BinaryOpR/NR start the accumulator from in[0], range ascending over in[1], take the operator from pair[0] and the operand from pair[1], and combine with the accumulator in the LEFT slot and the operand in the RIGHT slot, assigning the result back to the accumulator (left-associative, separators in order); the R variants recurse with THEMSELVES exactly on []any operands (both for in[0] and for every right operand), the NR variants do not recurse; BinaryExpr/BinaryOp dispatch on their flag to R/NR.",
		NotCovered: "the calculator clause (evaluating expressions like a reference evaluator) and what the user callback does.",
		Run:        runC30,
		Controls: []Control{
			{Name: "list-aliases-input", File: f, Old: "\tret := make([]any, len(next)+1)\n\tret[0] = in[0]\n\tfor i, v := range next {\n\t\tret[i+1] = v.([]any)[1]\n\t}\n\treturn ret", New: "\tret := append(in[:1], next...)\n\tfor i, v := range next {\n\t\tret[i+1] = v.([]any)[1]\n\t}\n\treturn ret", Expect: "list/List"},
			{Name: "list-takes-separator", File: f, Old: "\t\tret[i+1] = v.([]any)[1]\n\t}\n\treturn ret\n}\n\n// ListOp", New: "\t\tret[i+1] = v.([]any)[0]\n\t}\n\treturn ret\n}\n\n// ListOp", Expect: "list/List"},
			{Name: "listop-off-by-one", File: f, Old: "\t\tret[i+1] = fn(v.([]any)[1])", New: "\t\tret[i] = fn(v.([]any)[1])", Expect: "list/ListOp"},
			{Name: "rangeop-first-last", File: f, Old: "\tfn(in[0])\n\tfor _, v := range next {\n\t\tfn(v.([]any)[1])\n\t}", New: "\tfor _, v := range next {\n\t\tfn(v.([]any)[1])\n\t}\n\tfn(in[0])", Expect: "list/RangeOp"},
			{Name: "binaryop-right-nonrecursive", File: f, Old: "\t\tif v, ok := y.([]any); ok {\n\t\t\ty = BinaryOpR(v, fn)\n\t\t}", New: "\t\tif v, ok := y.([]any); ok {\n\t\t\ty = BinaryOpNR(v, fn)\n\t\t}", Expect: "fold/BinaryOpR"},
			{Name: "binaryop-swapped-operands", File: f, Old: "\t\ty := next[1]\n\t\tret = fncall(fn, op, ret, y)\n\t}\n\treturn ret\n}\n\nfunc fncall", New: "\t\ty := next[1]\n\t\tret = fncall(fn, op, y, ret)\n\t}\n\treturn ret\n}\n\nfunc fncall", Expect: "fold/BinaryOpNR"},
			{Name: "binaryexpr-right-assoc", File: f, Old: "\t\ty := next[1].(ast.Expr)\n\t\tret = &ast.BinaryExpr{\n\t\t\tX:     ret,", New: "\t\ty := next[1].(ast.Expr)\n\t\tret = &ast.BinaryExpr{\n\t\t\tX:     y,", Expect: "fold/BinaryExprNR"},
			{Name: "dispatch-inverted", File: f, Old: "\tif recursive {\n\t\treturn BinaryOpR(in, fn)\n\t}\n\treturn BinaryOpNR(in, fn)", New: "\tif !recursive {\n\t\treturn BinaryOpR(in, fn)\n\t}\n\treturn BinaryOpNR(in, fn)", Expect: "dispatch/BinaryOp"},
		},
	})
}

func runC30(c *core.Check) {
	prog := c.Load("./tpl")
	pk := prog.Pkg("./tpl")
	if pk == nil {
		return
	}
	info := pk.TypesInfo
	nows := func(e ast.Expr) string { return strings.ReplaceAll(core.ExprStr(e), " ", "") }

	// ---------- List / ListOp / RangeOp
	for _, name := range []string{"List", "ListOp", "RangeOp"} {
		fd := prog.FuncDecl("./tpl", name)
		if fd == nil {
			continue
		}
		in := paramObj(fd, info, 0)
		var fn types.Object
		if name != "List" {
			fn = paramObj(fd, info, 1)
		}
		wrap := func(inner string) string {
			if fn != nil {
				return fn.Name() + "(" + inner + ")"
			}
			return inner
		}
		// next := in[1].([]any)
		var next types.Object
		var loop *ast.RangeStmt
		var ret types.Object
		fresh, first := false, false
		var firstPos, loopPos token.Pos
		for _, s := range fd.Body.List {
			switch x := s.(type) {
			case *ast.AssignStmt:
				if len(x.Lhs) != 1 || len(x.Rhs) != 1 {
					continue
				}
				rs := nows(x.Rhs[0])
				switch {
				case rs == in.Name()+"[1].([]any)":
					next = identObj(info, x.Lhs[0])
				case strings.HasPrefix(rs, "make(") && next != nil && strings.HasSuffix(rs, ",len("+next.Name()+")+1)"):
					ret = identObj(info, x.Lhs[0])
					fresh = true
				case ret != nil && nows(x.Lhs[0]) == ret.Name()+"[0]" && rs == wrap(in.Name()+"[0]"):
					first, firstPos = true, x.Pos()
				case ret == nil && name != "RangeOp":
					if o := identObj(info, x.Lhs[0]); o != nil && strings.Contains(rs, "append(") {
						ret = o // built some other way: not fresh
					}
				}
			case *ast.ExprStmt:
				if name == "RangeOp" && nows(x.X) == wrap(in.Name()+"[0]") {
					first, firstPos = true, x.Pos()
				}
			case *ast.RangeStmt:
				if next != nil && identObj(info, x.X) == next {
					loop, loopPos = x, x.Pos()
				}
			}
		}
		ok, why := true, ""
		switch {
		case next == nil:
			ok, why = false, "the tail is not taken as in[1].([]any)"
		case loop == nil:
			ok, why = false, "no ascending range over the tail"
		case !first || firstPos > loopPos:
			ok, why = false, "the first element in[0] is not handled before the tail (order of results is not source order)"
		case name != "RangeOp" && !fresh:
			ok, why = false, "the result is not a freshly made slice of len(tail)+1: it aliases the match result, so using the same result twice (or appending to the returned list) corrupts it"
		}
		if ok {
			// loop body: ret[i+1] = wrap(v.([]any)[1])   |   fn(v.([]any)[1])
			k, v := identObj(info, loop.Key), identObj(info, loop.Value)
			bodyOK := false
			if len(loop.Body.List) == 1 && v != nil {
				elem := wrap(v.Name() + ".([]any)[1]")
				switch x := loop.Body.List[0].(type) {
				case *ast.AssignStmt:
					if len(x.Lhs) == 1 && len(x.Rhs) == 1 && ret != nil && k != nil && nows(x.Lhs[0]) == ret.Name()+"["+k.Name()+"+1]" && nows(x.Rhs[0]) == elem {
						bodyOK = true
					}
				case *ast.ExprStmt:
					if name == "RangeOp" && nows(x.X) == elem {
						bodyOK = true
					}
				}
			}
			if !bodyOK {
				ok, why = false, "tail element i is not mapped to position i+1 from the R part (index 1) of its (separator, R) pair"
			}
		}
		if ok && name != "RangeOp" {
			// returns ret
			retOK := false
			ast.Inspect(fd.Body, func(n ast.Node) bool {
				if r, isRet := n.(*ast.ReturnStmt); isRet && len(r.Results) == 1 && identObj(info, r.Results[0]) == ret {
					retOK = true
				}
				return true
			})
			if !retOK {
				ok, why = false, "the built slice is not what is returned"
			}
		}
		c.Decide(ok, "list", name, fd.Pos(), "in[0] first, then the R part of every tail pair in ascending order, into a fresh slice", name+": "+why)
	}

	// ---------- folds
	c.Floor("fold", 4)
	for _, name := range []string{"BinaryExprR", "BinaryExprNR", "BinaryOpR", "BinaryOpNR"} {
		fd := prog.FuncDecl("./tpl", name)
		if fd == nil {
			continue
		}
		self := info.Defs[fd.Name]
		recursive := strings.HasSuffix(name, "R") && !strings.HasSuffix(name, "NR")
		in := paramObj(fd, info, 0)
		var loop *ast.RangeStmt
		for _, s := range fd.Body.List {
			if r, ok := s.(*ast.RangeStmt); ok && nows(r.X) == in.Name()+"[1].([]any)" {
				loop = r
			}
		}
		ok, why := true, ""
		if loop == nil {
			c.Bad("fold", name, fd.Pos(), name+": no ascending range over in[1].([]any)")
			continue
		}
		// accumulator: assigned before the loop from in[0]
		var acc types.Object
		for _, s := range fd.Body.List {
			if s.Pos() >= loop.Pos() {
				break
			}
			ast.Inspect(s, func(n ast.Node) bool {
				if as, isAs := n.(*ast.AssignStmt); isAs && len(as.Lhs) == 1 && len(as.Rhs) == 1 {
					rs := nows(as.Rhs[0])
					if rs == in.Name()+"[0]" || strings.HasPrefix(rs, in.Name()+"[0].(") {
						if acc == nil {
							acc = identObj(info, as.Lhs[0])
						}
					}
				}
				return true
			})
		}
		// BinaryExprR: `switch v := in[0].(type) { case []any: ret = R(v); default: ret = v.(Expr) }`
		if acc == nil {
			ast.Inspect(fd.Body, func(n ast.Node) bool {
				if ts, isTS := n.(*ast.TypeSwitchStmt); isTS && ts.Pos() < loop.Pos() && strings.Contains(nows2(ts.Assign), in.Name()+"[0].(type)") {
					ast.Inspect(ts.Body, func(m ast.Node) bool {
						if as, isAs := m.(*ast.AssignStmt); isAs && len(as.Lhs) == 1 && acc == nil {
							acc = identObj(info, as.Lhs[0])
						}
						return true
					})
				}
				return true
			})
		}
		if acc == nil {
			c.Bad("fold", name, fd.Pos(), name+": the accumulator is not initialised from in[0]")
			continue
		}
		// inside the loop
		v := identObj(info, loop.Value)
		var pair, op, y types.Object
		var combine *ast.AssignStmt
		var recCalls []*ast.CallExpr
		ast.Inspect(loop.Body, func(n ast.Node) bool {
			switch x := n.(type) {
			case *ast.AssignStmt:
				if len(x.Lhs) == 1 && len(x.Rhs) == 1 {
					rs := nows(x.Rhs[0])
					l := identObj(info, x.Lhs[0])
					switch {
					case v != nil && rs == v.Name()+".([]any)":
						pair = l
					case pair != nil && rs == pair.Name()+"[0].(*Token)":
						op = l
					case pair != nil && l != nil && (rs == pair.Name()+"[1]" || strings.HasPrefix(rs, pair.Name()+"[1].(")):
						y = l
					case l == acc:
						combine = x
					}
				}
			case *ast.TypeSwitchStmt:
				if pair != nil && strings.Contains(nows2(x.Assign), pair.Name()+"[1].(type)") {
					ast.Inspect(x.Body, func(m ast.Node) bool {
						if as, isAs := m.(*ast.AssignStmt); isAs && len(as.Lhs) == 1 && y == nil {
							y = identObj(info, as.Lhs[0])
						}
						return true
					})
				}
			}
			return true
		})
		ast.Inspect(fd.Body, func(n ast.Node) bool {
			if call, isCall := n.(*ast.CallExpr); isCall {
				if fn, isFn := calleeObj(info, call).(*types.Func); isFn && strings.HasPrefix(fn.Name(), "Binary") {
					recCalls = append(recCalls, call)
				}
			}
			return true
		})
		switch {
		case pair == nil || op == nil || y == nil:
			ok, why = false, core.Sprintf("inside the loop the (separator, operand) pair is not split into op = pair[0].(*Token) and operand = pair[1] (pair=%v op=%v operand=%v)", pair != nil, op != nil, y != nil)
		case combine == nil:
			ok, why = false, "the combination is not assigned back to the accumulator"
		}
		if ok {
			// left/right slots
			e := ast.Unparen(combine.Rhs[0])
			if u, isU := e.(*ast.UnaryExpr); isU {
				e = u.X
			}
			switch x := e.(type) {
			case *ast.CompositeLit: // &ast.BinaryExpr{X: acc, Op: op.Tok, OpPos: op.Pos, Y: y}
				got := map[string]string{}
				for _, el := range x.Elts {
					if kv, isKV := el.(*ast.KeyValueExpr); isKV {
						got[kv.Key.(*ast.Ident).Name] = nows(kv.Value)
					}
				}
				if got["X"] != acc.Name() || got["Y"] != y.Name() || got["Op"] != op.Name()+".Tok" {
					ok, why = false, core.Sprintf("BinaryExpr{X: %s, Op: %s, Y: %s} — expected X: accumulator, Op: the pair's operator, Y: the pair's operand (left-associative)", got["X"], got["Op"], got["Y"])
				}
			case *ast.CallExpr: // fncall(fn, op, acc, y)
				args := []string{}
				for _, a := range x.Args {
					args = append(args, nows(a))
				}
				n := len(args)
				if n < 3 || args[n-3] != op.Name() || args[n-2] != acc.Name() || args[n-1] != y.Name() {
					ok, why = false, core.Sprintf("the callback is applied as %v — expected (…, op, accumulator, operand): left operand and right operand are swapped or the wrong operator is passed", args)
				}
			default:
				ok, why = false, "unrecognised combination"
			}
		}
		if ok {
			if recursive {
				// exactly two recursive calls, both to itself: for in[0] and for the right operand
				if len(recCalls) != 2 {
					ok, why = false, core.Sprintf("the recursive variant makes %d recursive calls, expected 2 (left start value and each right operand)", len(recCalls))
				}
				for _, rc := range recCalls {
					if calleeObj(info, rc) != self {
						ok, why = false, "a nested list operand is folded by "+nows(rc.Fun)+" instead of "+name+" itself: lists nested deeper than one level reach the caller unfolded"
					}
				}
			} else if len(recCalls) != 0 {
				ok, why = false, "the non-recursive variant calls a Binary* helper"
			}
		}
		c.Decide(ok, "fold", name, fd.Pos(), "acc := in[0]; for each (op, y) in order: acc = combine(op, acc, y)", name+": "+why)
	}

	// ---------- dispatchers
	for _, name := range []string{"BinaryExpr", "BinaryOp"} {
		fd := prog.FuncDecl("./tpl", name)
		if fd == nil {
			continue
		}
		flag := paramObj(fd, info, 0)
		good := false
		if len(fd.Body.List) == 2 {
			if ifs, ok := fd.Body.List[0].(*ast.IfStmt); ok && identObj(info, ifs.Cond) == flag && len(ifs.Body.List) == 1 {
				r1, ok1 := ifs.Body.List[0].(*ast.ReturnStmt)
				r2, ok2 := fd.Body.List[1].(*ast.ReturnStmt)
				if ok1 && ok2 && len(r1.Results) == 1 && len(r2.Results) == 1 {
					c1, _ := r1.Results[0].(*ast.CallExpr)
					c2, _ := r2.Results[0].(*ast.CallExpr)
					if c1 != nil && c2 != nil && nows(c1.Fun) == name+"R" && nows(c2.Fun) == name+"NR" {
						good = true
					}
				}
			}
		}
		c.Decide(good, "dispatch", name, fd.Pos(), "recursive → "+name+"R, otherwise "+name+"NR", name+" does not dispatch `recursive` to "+name+"R and the rest to "+name+"NR")
	}
}

func nows2(s ast.Stmt) string {
	var e ast.Expr
	switch x := s.(type) {
	case *ast.AssignStmt:
		if len(x.Rhs) == 1 {
			e = x.Rhs[0]
		}
	case *ast.ExprStmt:
		e = x.X
	}
	if ta, ok := e.(*ast.TypeAssertExpr); ok && ta.Type == nil {
		return strings.ReplaceAll(core.ExprStr(ta.X), " ", "") + ".(type)" // the guard of a type switch
	}
	if e == nil {
		return ""
	}
	return strings.ReplaceAll(core.ExprStr(e), " ", "")
}
