// Package props wires the rule kernels to the constructs of goplus/gop, one file per property.
package props

import (
	"sort"

	"verif/checker/internal/core"
)

// Control is a positive control: one instance of a rule broken by a source
// substitution applied as a go/packages overlay (no copy of the tree is written).
// If Old no longer occurs exactly once in File the control is skipped: it then
// says nothing about the property, only that the control needs updating.
type Control struct {
	Name   string
	File   string // repo-relative
	Old    string
	New    string
	Expect string // obligation key that must come out violated or undecided
	Old2   string // optional second substitution in the same file
	New2   string
}

type Prop struct {
	ID          string
	Title       string
	Technique   string
	Explanation string // clause decided
	NotCovered  string
	Run         func(c *core.Check)
	Controls    []Control
}

var Registry = map[string]*Prop{}

func register(p *Prop) { Registry[p.ID] = p }

func IDs() []string {
	var ids []string
	for id := range Registry {
		ids = append(ids, id)
	}
	sort.Strings(ids)
	return ids
}
