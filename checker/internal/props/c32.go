package props

import (
	"sort"

	"verif/checker/internal/core"
)

func init() {
	f := "tpl/scanner/scanner.go"
	register(&Prop{
		ID:        "C32",
		Title:     "The TPL scanner tokenises like the XGo scanner",
		Technique: "clone equivalence of the duplicated scanning routines (tpl/scanner vs scanner), operator-trie and semicolon-insertion table agreement on the shared spellings, token tables joined by spelling; reviewed deviations pinned by hash",
		Explanation: "tpl/scanner duplicates the XGo scanner. Agreement on ALL inputs built from shared lexemes is established for every routine that is an alpha-equivalent clone of its XGo sibling (identical code ⇒ identical boundaries and literals), and table-compared for Scan: the spelling sets of the two operator switches differ only by the reviewed TPL-only operators, every shared spelling denotes in both token tables the token with that very spelling, and the semicolon-insertion flag after every shared spelling agrees. " +
			"Deliberate differences (no keywords, result struct, '#' comments in their own routine, raw strings/CR handling) are reviewed deviations pinned by hash.",
		NotCovered: "lexemes only one scanner has (`**`, `@`; XGo keywords, py\"…\"/c\"…\" strings), and comment text normalisation (carriage returns).",
		Run:        runC32,
		Controls: []Control{
			{Name: "tpl-number-suffix-edit", File: f, Old: "\t\tcase \"r\":\n\t\t\ttok = token.RAT", New: "\t\tcase \"r\", \"R\":\n\t\t\ttok = token.RAT", Expect: "clone/Scanner.scanNumber"},
			{Name: "tpl-escape-edit", File: f, Old: "\tcase 'a', 'b', 'f', 'n', 'r', 't', 'v', '\\\\', quote:", New: "\tcase 'a', 'b', 'e', 'f', 'n', 'r', 't', 'v', '\\\\', quote:", Expect: "clone/Scanner.scanEscape"},
			{Name: "tpl-arrow-dropped", File: f, Old: "\t\t\tif s.ch == '-' { // <-\n\t\t\t\ts.next()\n\t\t\t\tt.Tok = token.ARROW\n\t\t\t} else if s.ch == '>' {", New: "\t\t\tif s.ch == '>' {", Expect: "shared-spelling/<-"},
			{Name: "tpl-semi-after-rparen-lost", File: f, Old: "\t\t\ts.nParen--\n\t\t\tinsertSemi = true\n", New: "\t\t\ts.nParen--\n", Expect: "semi/)"},
			{Name: "tpl-new-operator", File: f, Old: "\t\tcase '@':\n\t\t\tt.Tok = token.AT\n", New: "\t\tcase '@':\n\t\t\tt.Tok = token.AT\n\t\t\tif s.ch == '@' {\n\t\t\t\ts.next()\n\t\t\t\tt.Tok = token.POW\n\t\t\t}\n", Expect: "only-one-scanner/@@"},
			{Name: "tpl-whitespace-edit", File: f, Old: "for s.ch == ' ' || s.ch == '\\t' || s.ch == '\\n' && !s.insertSemi || s.ch == '\\r' {", New: "for s.ch == ' ' || s.ch == '\\t' || s.ch == '\\n' && !s.insertSemi {", Expect: "clone/Scanner.skipWhitespace"},
		},
	})
}

var c32Clones = []string{"Scanner.digits", "Scanner.findLineEnd", "Scanner.next", "Scanner.peek", "Scanner.scanEscape", "Scanner.scanIdentifier", "Scanner.scanNumber", "Scanner.scanRune", "Scanner.scanString", "Scanner.skipWhitespace", "Scanner.switch2", "Scanner.switch3", "Scanner.switch4", "digitVal", "invalidSep", "isDecimal", "isHex", "litname", "lower", "Scanner.Init", "Scanner.InitEx", "Scanner.error", "Scanner.errorf"}

var c32Deviations = map[string]struct{ hash, why string }{
	"Scanner.scanComment":   {"e39dda16", "only the // and /* forms ('#' comments have their own routine scanSharpComment); no line directives"},
	"Scanner.scanRawString": {"d3d9c6f0", "identical except for the one-argument stripCR call"},
	"isLetter":              {"484b649b", "same predicate: 'a'..'z' || 'A'..'Z' spelled out instead of lower(ch), 0x80 instead of utf8.RuneSelf"},
	"isDigit":               {"3861b723", "same predicate: '0'..'9' spelled out instead of isDecimal, 0x80 instead of utf8.RuneSelf"},
	"stripCR":               {"9fb1674d", "strips every \\r (the XGo/Go variant keeps the \\r of `*\\r/` inside a general comment): differs only in comment TEXT containing *\\r/, not in token boundaries"},
	"Scanner.tokSEMICOLON":  {"e1c08dc3", "same body; differs only in the token constant's package"},
}

var c32OnlyOne = map[string]string{
	"**": "TPL-only operator POW", "@": "TPL-only token AT",
}

const c32ScanResidual = "e7b7ff31"

func runC32(c *core.Check) {
	prog := c.Load("./scanner", "./tpl/scanner", "./token", "./tpl/token")
	x, t := prog.Pkg("./scanner"), prog.Pkg("./tpl/scanner")
	xtok, ttok := prog.Pkg("./token"), prog.Pkg("./tpl/token")
	if x == nil || t == nil || xtok == nil || ttok == nil {
		return
	}
	c.Assume("alpha-equivalence to the XGo sibling is a sufficient condition for agreement; a reported divergence means 'agreement can no longer be established'")
	c.Floor("clone", 20)
	for _, name := range c32Clones {
		xf, tf := core.FindFuncDecl(x, name), core.FindFuncDecl(t, name)
		if xf == nil || tf == nil {
			c.Bad("clone", name, 0, "function missing on one side (renamed or removed): agreement between the two scanners cannot be established for it")
			continue
		}
		c.Decide(normFunc(x, xf) == normFunc(t, tf), "clone", name, tf.Pos(), "alpha-equivalent to scanner."+name,
			"unverified divergence: tpl/scanner."+name+" is no longer an alpha-equivalent clone of the XGo scanner's routine; that the two scanners put token boundaries and literals at the same places can no longer be established by comparison")
	}
	var dn []string
	for n := range c32Deviations {
		dn = append(dn, n)
	}
	sort.Strings(dn)
	for _, name := range dn {
		tf := core.FindFuncDecl(t, name)
		if tf == nil {
			c.Bad("deviation", name, 0, "reviewed function no longer exists")
			continue
		}
		h := hash8(normFunc(t, tf))
		d := c32Deviations[name]
		c.Decide(h == d.hash, "deviation", name, tf.Pos(), "reviewed deviation, unchanged since review ("+h+"): "+d.why,
			"reviewed in the form with hash "+d.hash+", now "+h+": the new form has not been compared with the XGo scanner (unverified divergence)")
	}

	xt := extractTrie(x, core.FindFuncDecl(x, "Scanner.Scan"))
	tt := extractTrie(t, core.FindFuncDecl(t, "Scanner.Scan"))
	if ts := core.FindFuncDecl(t, "Scanner.Scan"); ts != nil && tt != nil {
		h := scanResidualHash(t, ts, tt)
		c.Decide(h == c32ScanResidual, "deviation", "Scanner.Scan:non-operator-parts", ts.Pos(), "reviewed ("+h+"): same prologue (pending unit after skipWhitespace, position minus len(unitVal)), literal/comment/EOF arms and epilogue as the XGo scanner, written against the result struct; no keywords",
			"the non-operator parts of tpl/scanner's Scan (pending-unit prologue, identifier/number arms, literal/comment/EOF/newline arms, epilogue) were reviewed against the XGo scanner in the form with hash "+c32ScanResidual+" and now hash to "+h+": unverified divergence (e.g. a UNIT token positioned before instead of after skipping whitespace)")
	}
	if xt == nil || tt == nil {
		c.Undecided("trie", "extract", 0, "cannot extract the operator switch of one of the Scan functions")
		return
	}
	xtab, ttab := readTokenTable(xtok, "tokens", "Token"), readTokenTable(ttok, "tokens", "Token")
	spell := func(tab *tokenTable, name string) string {
		for k, s := range tab.Spelling {
			if k.Name() == name {
				return s
			}
		}
		return ""
	}
	all := map[string]bool{}
	for k := range xt.Ops {
		all[k] = true
	}
	for k := range tt.Ops {
		all[k] = true
	}
	var keys []string
	for k := range all {
		keys = append(keys, k)
	}
	sort.Strings(keys)
	c.Floor("shared-spelling", 50)
	for _, sp := range keys {
		xe, inX := xt.Ops[sp]
		te, inT := tt.Ops[sp]
		if inX != inT {
			if why, ok := c32OnlyOne[sp]; ok {
				c.Note("only-one-scanner", sp, 0, why)
			} else if sharesPrefixLexeme(sp, xt, tt) {
				c.Bad("shared-spelling", sp, 0, core.Sprintf("%q is one token for one scanner (xgo=%v tpl=%v) and several for the other: inputs built from shared lexemes get different token boundaries", sp, inX, inT))
			} else {
				c.Bad("only-one-scanner", sp, 0, core.Sprintf("%q is recognised by only one of the two scanners (xgo=%v tpl=%v) and is not a reviewed single-scanner operator", sp, inX, inT))
			}
			continue
		}
		// both: each side's token must be spelled sp in its own table
		good := spell(xtab, xe.Tok) == sp && spell(ttab, te.Tok) == sp
		c.Decide(good, "shared-spelling", sp, tt.ArmPos[sp[:1]], xe.Tok+" / "+te.Tok, core.Sprintf("for %q the scanners yield %s (XGo) and %s (TPL) whose table spellings are %q and %q", sp, xe.Tok, te.Tok, spell(xtab, xe.Tok), spell(ttab, te.Tok)))
		c.Decide(xe.InsertSemi == te.InsertSemi, "semi", sp, tt.ArmPos[sp[:1]], "insertSemi="+xe.InsertSemi, core.Sprintf("after %q the XGo scanner sets insertSemi=%s, the TPL scanner %s: inserted semicolons differ", sp, xe.InsertSemi, te.InsertSemi))
	}
	for sp := range xt.Special {
		if sp == "EOF" {
			continue
		}
		c.Decide(tt.Special[sp], "special-arm", sp, 0, "", "the XGo scanner has a literal/comment arm for this character, the TPL scanner treats it as an operator")
	}
}

// sharesPrefixLexeme: sp starts with a spelling both scanners know (so it can appear in inputs made of shared lexemes).
func sharesPrefixLexeme(sp string, a, b *scanTrie) bool {
	for i := 1; i < len(sp); i++ {
		_, ina := a.Ops[sp[:i]]
		_, inb := b.Ops[sp[:i]]
		_, resta := a.Ops[sp[i:]]
		_, restb := b.Ops[sp[i:]]
		if ina && inb && resta && restb {
			return true
		}
	}
	return false
}
