package props

import (
	"go/ast"

	"verif/checker/internal/core"
)

// lowerFieldsFor applies the field-coverage rule (checkFieldsRead) to the given XGo-only node kinds: every
// syntax-bearing field the parser sets on such a node is read by the code of package cl that lowers it — the case of
// the dispatcher (compileStmt / compileExpr) or a routine the node is handed to, three calls deep.
func lowerFieldsFor(c *core.Check, kinds map[string]bool, derived map[string]string) int {
	prog := c.Load("./cl", "./parser", "./ast")
	pk, xpk, apk := prog.Pkg("./cl"), prog.Pkg("./parser"), prog.Pkg("./ast")
	if pk == nil || xpk == nil || apk == nil {
		return 0
	}
	info := pk.TypesInfo
	nodeI := ifaceOf(apk.Types.Scope().Lookup("Node").Type())
	if nodeI == nil {
		return 0
	}
	n := 0
	for _, d := range []string{"compileStmt", "compileExpr"} {
		fd := prog.FuncDecl("./cl", d)
		if fd == nil {
			continue
		}
		ts := typeSwitchOn(fd.Body, info, paramObj(fd, info, 1))
		if ts == nil {
			continue
		}
		for _, s := range ts.Body.List {
			cc := s.(*ast.CaseClause)
			if len(cc.List) != 1 || info.Implicits[cc] == nil {
				continue
			}
			nt := namedOf(info.TypeOf(cc.List[0]))
			if nt == nil || nt.Obj().Pkg() != apk.Types || !kinds[nt.Obj().Name()] {
				continue
			}
			n++
			checkFieldsRead(c, pk, xpk, nodeI, nt, cc, info.Implicits[cc], fieldReadRule{prefix: "lower", verb: "lowers", omitted: map[string]string{}, derived: derived, compareIsUse: true})
		}
	}
	return n
}
