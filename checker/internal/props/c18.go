package props

import (
	"go/ast"
	"go/token"
	"go/types"
	"sort"
	"strings"

	"golang.org/x/tools/go/packages"

	"verif/checker/internal/core"
)

var calleeObj = core.Callee

func init() {
	register(&Prop{
		ID:        "C18",
		Title:     "AST traversal visits every node exactly once",
		Technique: "type-switch exhaustiveness and per-case field-coverage analysis of ast.Walk over the type-checked node universe",
		Explanation: "Decides, for ALL trees at once, that ast.Walk (and Inspect through it) has a case for every type implementing ast.Node, " +
			"walks every Node-typed field (and every node the parser stores in any-typed carriers) of each node type exactly once, in struct (source) order, " +
			"guards documented-nil-able pointer fields, calls v.Visit(node) before and v.Visit(nil) after the children on every path. " +
			"The node universe is finite and enumerated completely from go/types.",
		NotCovered: "that struct declaration order equals source order for every node type (repo convention), and trees that violate the documented nil-ness of fields.",
		Run:        runC18,
		Controls: []Control{
			{Name: "recv-walked-unless-class", File: "ast/walk.go", Old: "\t\t\tif n.Recv != nil {\n\t\t\t\tWalk(v, n.Recv)\n", New: "\t\t\tif n.Recv != nil && !n.IsClass {\n\t\t\t\tWalk(v, n.Recv)\n", Expect: "walk-guard/FuncDecl.Recv"},
			{Name: "drop-case-RangeExpr", File: "ast/walk.go", Old: "case *RangeExpr:\n\t\tif n.First != nil {\n\t\t\tWalk(v, n.First)\n\t\t}", New: "case *rangeExprX:\n\t\tif n.First != nil {\n\t\t\tWalk(v, n.First)\n\t\t}", Expect: "load/github.com/goplus/xgo/ast"},
			{Name: "drop-field-SliceExpr.Max", File: "ast/walk.go", Old: "if n.Max != nil {\n\t\t\tWalk(v, n.Max)\n\t\t}", New: "", Expect: "walk-field/SliceExpr.Max"},
			{Name: "double-walk-BinaryExpr.X", File: "ast/walk.go", Old: "Walk(v, n.X)\n\t\tWalk(v, n.Y)", New: "Walk(v, n.X)\n\t\tWalk(v, n.X)\n\t\tWalk(v, n.Y)", Expect: "walk-field/BinaryExpr.X"},
			{Name: "swap-order-KeyValueExpr", File: "ast/walk.go", Old: "Walk(v, n.Key)\n\t\tWalk(v, n.Value)\n\n\t// Types", New: "Walk(v, n.Value)\n\t\tWalk(v, n.Key)\n\n\t// Types", Expect: "walk-order/KeyValueExpr"},
			{Name: "drop-nilguard-IfStmt.Else", File: "ast/walk.go", Old: "if n.Else != nil {\n\t\t\tWalk(v, n.Else)\n\t\t}", New: "Walk(v, n.Else)", Expect: "walk-nilguard/IfStmt.Else"},
			{Name: "else-walked-only-with-init", File: "ast/walk.go", Old: "\t\tWalk(v, n.Body)\n\t\tif n.Else != nil {\n\t\t\tWalk(v, n.Else)\n\t\t}", New: "\t\tWalk(v, n.Body)\n\t\tif n.Else != nil && n.Init != nil {\n\t\t\tWalk(v, n.Else)\n\t\t}", Expect: "walk-operand-path/Walk:IfStmt.Else"},
			{Name: "drop-visit-nil", File: "ast/walk.go", Old: "\tv.Visit(nil)\n}", New: "}", Expect: "walk-post/Visit(nil)"},
			{Name: "early-return-in-case", File: "ast/walk.go", Old: "case *ParenExpr:\n\t\tWalk(v, n.X)", New: "case *ParenExpr:\n\t\tWalk(v, n.X)\n\t\treturn", Expect: "walk-post/Visit(nil)"},
			{Name: "drop-case-EnvExpr", File: "ast/walk.go", Old: "\tcase *EnvExpr:\n\t\tWalk(v, n.Name)\n", New: "", Expect: "walk-case/EnvExpr"},
		},
	})
}

// walkOmissions lists Node-typed fields that Walk deliberately does not visit, one reason each.
var walkOmissions = map[string]string{
	"File.Imports":     "alias list of the ImportSpecs already reachable through Decls (same rule as go/ast)",
	"File.Comments":    "all comments of the file; those attached to nodes are visited through Doc/Comment fields (same rule as go/ast)",
	"File.ShadowEntry": "pointer to a FuncDecl that is also an element of Decls; walking it would visit that node twice",
	"Package.GoFiles":  "go/ast trees of the package's Go files: foreign node kinds (go/ast.*), not part of the XGo tree that Walk's switch covers",
}

// walkGuards lists the only non-nil-test conditions under which a child may be walked (field -> normalised condition).
var walkGuards = map[string]string{
	"File.Name":     "!n.NoPkgDecl", // the flag is DEFINED as "the package name is synthesized, not in the source"
	"FuncDecl.Doc":  "!n.Shadow",    // a shadow entry shares the header of the function it shadows
	"FuncDecl.Recv": "!n.Shadow",
	"FuncDecl.Name": "!n.Shadow",
	"FuncDecl.Type": "!n.Shadow",
}

// c18OperandReviewed: cases of Walk in which a flag of the node, not a nil test, decides that a child is not visited.
var c18OperandReviewed = map[string]string{
	"Walk:File.Name":     "NoPkgDecl: the file has no package clause and Name is the synthetic `main` the parser filled in, not source",
	"Walk:FuncDecl.Doc":  "Shadow: the synthetic main/init entry of a file with top-level statements has no header in the source; only its body (the statements) is",
	"Walk:FuncDecl.Recv": "Shadow entry (see Doc)",
	"Walk:FuncDecl.Name": "Shadow entry (see Doc)",
	"Walk:FuncDecl.Type": "Shadow entry (see Doc)",
}

type walkTarget struct {
	path  string // n.F, n.F.G, n.F.(*T).G
	kind  string // node | list | anylist
	field *types.Var
	owner string // type name for the obligation key
	label string // key suffix
	order int
	doc   string
}

type walkAnalysis struct {
	c         *core.Check
	prog      *core.Prog
	pk        *packages.Package
	info      *types.Info
	node      *types.Interface
	walkObj   types.Object
	listObj   types.Object
	alias     map[types.Object]string
	qual      types.Qualifier
	fieldDoc  map[*types.Var]string
	guards    map[string]bool
	guardedAt map[token.Pos]map[string]bool
	condStack []string
}

func runC18(c *core.Check) {
	c.Trust("go/ast type switch semantics")
	prog := c.Load("./ast", "./parser")
	pk := prog.Pkg("./ast")
	if pk == nil {
		return
	}
	nodeObj := prog.Lookup("./ast", "Node")
	walkFD := prog.FuncDecl("./ast", "Walk")
	inspectFD := prog.FuncDecl("./ast", "Inspect")
	if nodeObj == nil || walkFD == nil || inspectFD == nil {
		return
	}
	node := ifaceOf(nodeObj.Type())
	if node == nil {
		c.Bad("anchor", "ast.Node", nodeObj.Pos(), "ast.Node is not an interface")
		return
	}
	w := &walkAnalysis{c: c, prog: prog, pk: pk, info: pk.TypesInfo, node: node,
		walkObj: pk.Types.Scope().Lookup("Walk"), listObj: pk.Types.Scope().Lookup("walkList"),
		qual: func(p *types.Package) string {
			if p == pk.Types {
				return ""
			}
			return p.Name()
		},
		fieldDoc: fieldDocs(pk),
	}
	universe := implementers(pk, node)
	c.Analysed("node_universe", len(universe))
	c.Floor("walk-case", 68)
	nOC, nOO := opCoverCases(c, pk, "walk-operand-path", func(fd *ast.FuncDecl) bool { return fd.Name.Name == "Walk" }, c18OperandReviewed)
	c.Floor("walk-operand-path", 100)
	c.Analysed("walk_operand_path_cases", nOC)
	c.Analysed("walk_operand_path_operands", nOO)
	c.Floor("walk-field", 120)
	c.Exhaustive()

	nodeParam := paramObj(walkFD, w.info, 1)
	visParam := paramObj(walkFD, w.info, 0)
	ts := typeSwitchOn(walkFD.Body, w.info, nodeParam)
	if ts == nil {
		c.Undecided("walk-shape", "Walk type switch", walkFD.Pos(), "no type switch over the node parameter found in Walk")
		return
	}

	// case coverage
	caseOf := map[*types.Named]*ast.CaseClause{}
	multi := map[*types.Named]bool{}
	hasDefaultPanic := false
	for _, st := range ts.Body.List {
		cc := st.(*ast.CaseClause)
		if cc.List == nil {
			hasDefaultPanic = true
			continue
		}
		for _, te := range cc.List {
			if n := namedOf(w.info.TypeOf(te)); n != nil {
				caseOf[n] = cc
				multi[n] = len(cc.List) > 1
			}
		}
	}
	_ = hasDefaultPanic
	for _, u := range universe {
		cc := caseOf[u.Named]
		if cc == nil {
			c.Bad("walk-case", u.Name, u.Obj.Pos(), "type implements ast.Node but Walk has no case for it: Walk/Inspect reach the default branch (panic) on any tree containing this node")
			continue
		}
		c.Ok("walk-case", u.Name, cc.Pos(), "")
		w.checkCase(u, cc, multi[u.Named])
	}

	// pre/post visit and Inspect
	w.checkPrePost(walkFD, ts, visParam, nodeParam)
	viaWalk := false
	ast.Inspect(inspectFD.Body, func(n ast.Node) bool {
		if call, ok := n.(*ast.CallExpr); ok && calleeObj(w.info, call) == w.walkObj {
			viaWalk = true
		}
		return true
	})
	c.Decide(viaWalk, "walk-post", "Inspect->Walk", inspectFD.Pos(), "Inspect delegates to Walk", "Inspect does not call Walk: the traversal guarantees established for Walk do not carry over")
}

func fieldDocs(pk *packages.Package) map[*types.Var]string {
	out := map[*types.Var]string{}
	for _, f := range pk.Syntax {
		ast.Inspect(f, func(n ast.Node) bool {
			st, ok := n.(*ast.StructType)
			if !ok {
				return true
			}
			for _, fl := range st.Fields.List {
				txt := ""
				if fl.Comment != nil {
					txt = fl.Comment.Text()
				}
				if fl.Doc != nil {
					txt += " " + fl.Doc.Text()
				}
				for _, nm := range fl.Names {
					if v, ok := pk.TypesInfo.Defs[nm].(*types.Var); ok {
						out[v] = txt
					}
				}
			}
			return true
		})
	}
	return out
}

// targets enumerates what a case for struct st must walk.
func (w *walkAnalysis) targets(owner string, st *types.Struct, prefix, label string, depth int, out *[]walkTarget) {
	for i := 0; i < st.NumFields(); i++ {
		f := st.Field(i)
		p := prefix + "." + f.Name()
		l := label + "." + f.Name()
		switch k := nodeKind(f.Type(), w.node); {
		case k != "":
			*out = append(*out, walkTarget{path: p, kind: k, field: f, owner: owner, label: l, order: len(*out), doc: w.fieldDoc[f]})
		case isAnySlice(f.Type()):
			*out = append(*out, walkTarget{path: p, kind: "anylist", field: f, owner: owner, label: l, order: len(*out)})
		case isEmptyInterface(f.Type()):
			w.anyTargets(owner, f, p, l, depth, out)
		default:
			// auxiliary carrier struct declared in the same package
			if n := namedOf(f.Type()); n != nil && n.Obj().Pkg() == w.pk.Types && depth > 0 {
				if _, isPtr := types.Unalias(f.Type()).(*types.Pointer); isPtr {
					if s := structOf(f.Type()); s != nil && w.carriesNodes(s, 2) {
						w.targets(owner, s, p, l, depth-1, out)
					}
				}
			}
		}
	}
}

func isAnySlice(t types.Type) bool {
	s, ok := types.Unalias(t).(*types.Slice)
	return ok && isEmptyInterface(s.Elem())
}

func (w *walkAnalysis) carriesNodes(st *types.Struct, depth int) bool {
	for i := 0; i < st.NumFields(); i++ {
		f := st.Field(i)
		if nodeKind(f.Type(), w.node) != "" || isAnySlice(f.Type()) {
			return true
		}
		if depth > 0 {
			if _, isPtr := types.Unalias(f.Type()).(*types.Pointer); isPtr {
				if n := namedOf(f.Type()); n != nil && n.Obj().Pkg() == w.pk.Types {
					if s := structOf(f.Type()); s != nil && w.carriesNodes(s, depth-1) {
						return true
					}
				}
			}
		}
	}
	return false
}

// anyTargets resolves what the parser stores in an `any`-typed field and requires those to be walked.
func (w *walkAnalysis) anyTargets(owner string, f *types.Var, p, l string, depth int, out *[]walkTarget) {
	ppk := w.prog.Pkg("./parser")
	if ppk == nil {
		return
	}
	sites := fieldStores([]*packages.Package{ppk}, f)
	seen := map[string]bool{}
	for _, s := range sites {
		ts, unknown := storedTypes(w.prog.Pkgs, s.Pkg, s.Fn, s.Value, 4)
		if unknown {
			w.c.Undecided("walk-any", owner+l[len(owner):], s.Pos, "cannot resolve the dynamic types the parser stores in this any-typed field")
		}
		for _, t := range ts {
			str := types.TypeString(t, w.qual)
			if seen[str] {
				continue
			}
			seen[str] = true
			n := namedOf(t)
			if n == nil || n.Obj().Pkg() != w.pk.Types {
				w.c.Note("walk-any", owner+l[len(owner):]+".("+str+")", s.Pos, "foreign tree stored by the parser (not an XGo ast.Node); Walk cannot descend into it — reasoned omission")
				continue
			}
			if nodeKind(t, w.node) != "" {
				*out = append(*out, walkTarget{path: p + ".(" + str + ")", kind: "node", field: f, owner: owner, label: l + ".(" + str + ")", order: len(*out)})
				continue
			}
			if st := structOf(t); st != nil && w.carriesNodes(st, 2) {
				w.targets(owner, st, p+".("+str+")", l+".("+str+")", depth-1, out)
			}
		}
	}
	w.c.AddAnalysed("parser_store_sites_followed", len(sites))
}

type walkedUse struct {
	path  string
	pos   token.Pos
	call  *ast.CallExpr
	conds []string // enclosing non-nil-test conditions, normalised
}

func (w *walkAnalysis) checkCase(u nodeType, cc *ast.CaseClause, multi bool) {
	st, _ := u.Named.Underlying().(*types.Struct)
	if st == nil {
		return
	}
	var tg []walkTarget
	w.targets(u.Name, st, "n", u.Name, 2, &tg)
	if multi {
		for _, t := range tg {
			if _, om := walkOmissions[t.label]; om {
				continue
			}
			w.c.Bad("walk-field", t.label, cc.Pos(), "node type shares a multi-type case (children cannot be reached there) but has a child field")
		}
		return
	}
	caseVar := w.info.Implicits[cc]
	w.alias = map[types.Object]string{}
	if caseVar != nil {
		w.alias[caseVar] = "n"
	}
	var uses []walkedUse
	guards := map[string]bool{} // paths compared against nil in an enclosing if
	var guardStack []string
	var visit func(n ast.Node)
	visitList := func(l []ast.Stmt) {
		for _, s := range l {
			visit(s)
		}
	}
	visit = func(n ast.Node) {
		switch x := n.(type) {
		case nil:
		case *ast.BlockStmt:
			visitList(x.List)
		case *ast.IfStmt:
			if x.Init != nil {
				visit(x.Init)
			}
			g := w.nilGuarded(x.Cond)
			guardStack = append(guardStack, g...)
			w.scanExpr(x.Cond, &uses, guardStack)
			cond := ""
			if len(g) == 0 && !w.isCommaOk(x) {
				cond = w.normCond(x.Cond)
				w.condStack = append(w.condStack, cond)
			} else if len(g) > 0 {
				// `n.Recv != nil && !n.IsClass`: the conjuncts that are not nil tests are conditions like any other
				var rest []string
				for _, cj := range conjuncts(x.Cond) {
					if len(w.nilGuarded(cj)) == 0 {
						rest = append(rest, w.normCond(cj))
					}
				}
				if len(rest) > 0 {
					cond = strings.Join(rest, " && ")
					w.condStack = append(w.condStack, cond)
				}
			}
			visit(x.Body)
			guardStack = guardStack[:len(guardStack)-len(g)]
			if cond != "" {
				w.condStack[len(w.condStack)-1] = "!(" + cond + ")"
			}
			visit(x.Else)
			if cond != "" {
				w.condStack = w.condStack[:len(w.condStack)-1]
			}
		case *ast.AssignStmt:
			for _, r := range x.Rhs {
				w.scanExpr(r, &uses, guardStack)
			}
			if x.Tok == token.DEFINE && len(x.Rhs) == 1 {
				if id, ok := x.Lhs[0].(*ast.Ident); ok {
					if obj := w.info.Defs[id]; obj != nil {
						if p := w.path(x.Rhs[0]); p != "" {
							w.alias[obj] = p
						}
					}
				}
			}
		case *ast.RangeStmt:
			if p := w.path(x.X); p != "" {
				if id, ok := x.Value.(*ast.Ident); ok && x.Tok == token.DEFINE {
					if obj := w.info.Defs[id]; obj != nil {
						w.alias[obj] = p + "[]"
					}
				}
			}
			visit(x.Body)
		case *ast.ForStmt:
			visit(x.Body)
		case *ast.TypeSwitchStmt:
			if x.Init != nil {
				visit(x.Init)
			}
			sp := ""
			if subj := typeSwitchSubject(x); subj != nil {
				sp = w.path(subj)
			}
			for _, s := range x.Body.List {
				c2 := s.(*ast.CaseClause)
				if obj := w.info.Implicits[c2]; obj != nil && sp != "" && len(c2.List) == 1 {
					w.alias[obj] = sp + ".(" + types.TypeString(w.info.TypeOf(c2.List[0]), w.qual) + ")"
				}
				visitList(c2.Body)
			}
		case *ast.SwitchStmt:
			if x.Init != nil {
				visit(x.Init)
			}
			for _, s := range x.Body.List {
				visitList(s.(*ast.CaseClause).Body)
			}
		case *ast.ExprStmt:
			w.scanExpr(x.X, &uses, guardStack)
		case *ast.DeclStmt, *ast.EmptyStmt, *ast.BranchStmt, *ast.IncDecStmt:
		case *ast.ReturnStmt:
			for _, r := range x.Results {
				w.scanExpr(r, &uses, guardStack)
			}
		default:
			w.c.Undecided("walk-shape", u.Name, n.Pos(), "statement form not understood inside a Walk case")
		}
	}
	w.guards = guards
	visitList(cc.Body)

	count := map[string][]walkedUse{}
	for _, us := range uses {
		count[us.path] = append(count[us.path], us)
	}
	covered := map[string]bool{}
	var order []struct {
		idx int
		pos token.Pos
	}
	for _, t := range tg {
		if r, om := walkOmissions[t.label]; om {
			if n := w.usesFor(t, count, covered); len(n) == 0 {
				w.c.Note("walk-omission", t.label, cc.Pos(), r)
				continue
			}
		}
		us := w.usesFor(t, count, covered)
		switch {
		case len(us) == 0:
			what := "child field is never walked: nodes stored there are invisible to Walk/Inspect"
			if t.kind == "anylist" {
				what = "[]any carrier is never ranged over with a Node assertion: embedded expressions are invisible to Walk/Inspect"
			}
			w.c.Bad("walk-field", t.label, cc.Pos(), what)
		case len(us) > 1:
			w.c.Bad("walk-field", t.label, us[1].pos, "child field is walked more than once in its case")
		default:
			w.c.Ok("walk-field", t.label, us[0].pos, "")
			for _, cond := range us[0].conds {
				if walkGuards[t.label] == cond {
					w.c.Ok("walk-guard", t.label, us[0].pos, "reviewed guard "+cond)
				} else {
					w.c.Bad("walk-guard", t.label, us[0].pos, "this child is walked only under the condition `"+cond+"`, which is neither a nil test of the child nor a reviewed guard: trees for which the condition is false while the child is present lose that child in Walk/Inspect (and vice versa)")
				}
			}
			order = append(order, struct {
				idx int
				pos token.Pos
			}{t.order, us[0].pos})
			// nil guard for documented nil-able single nodes
			if t.kind == "node" && nilableDoc(t.doc) {
				w.c.Decide(w.guardedAt[us[0].pos][t.path], "walk-nilguard", t.label, us[0].pos, "", "field is documented as possibly nil but is walked without a nil test: Walk would be invoked on a nil child")
			}
		}
	}
	// source order = struct declaration order
	inOrder := sort.SliceIsSorted(order, func(i, j int) bool { return order[i].pos < order[j].pos })
	byPos := append(order[:0:0], order...)
	sort.Slice(byPos, func(i, j int) bool { return byPos[i].pos < byPos[j].pos })
	mono := true
	for i := 1; i < len(byPos); i++ {
		if byPos[i].idx < byPos[i-1].idx {
			mono = false
		}
	}
	_ = inOrder
	if len(order) > 1 {
		w.c.Decide(mono, "walk-order", u.Name, cc.Pos(), "", "children are not walked in struct-declaration (source) order")
	}
	// walked paths that correspond to no target
	for p, us := range count {
		if !covered[p] {
			w.c.Note("walk-extra", u.Name+strings.TrimPrefix(p, "n"), us[0].pos, "Walk descends here but nothing the type system or the parser puts a node there")
		}
	}
}

func nilableDoc(doc string) bool {
	d := strings.ToLower(doc)
	return strings.Contains(d, "or nil") || strings.Contains(d, "may be nil") || strings.Contains(d, "can be nil")
}

func (w *walkAnalysis) usesFor(t walkTarget, count map[string][]walkedUse, covered map[string]bool) []walkedUse {
	var out []walkedUse
	for p, us := range count {
		ok := false
		switch t.kind {
		case "node":
			ok = p == t.path
		case "list":
			ok = p == t.path || p == t.path+"[]" || p == t.path+"[][]"
		case "anylist":
			if strings.HasPrefix(p, t.path+"[].(") {
				ok = true
			}
		}
		if ok {
			covered[p] = true
			out = append(out, us...)
		}
	}
	sort.Slice(out, func(i, j int) bool { return out[i].pos < out[j].pos })
	return out
}

// path renders an expression rooted at the case variable as a field path, "" otherwise.
func (w *walkAnalysis) path(e ast.Expr) string {
	switch x := ast.Unparen(e).(type) {
	case *ast.Ident:
		if obj := w.info.Uses[x]; obj != nil {
			return w.alias[obj]
		}
	case *ast.SelectorExpr:
		if p := w.path(x.X); p != "" {
			return p + "." + x.Sel.Name
		}
	case *ast.TypeAssertExpr:
		if p := w.path(x.X); p != "" && x.Type != nil {
			return p + ".(" + types.TypeString(w.info.TypeOf(x.Type), w.qual) + ")"
		}
	case *ast.IndexExpr:
		if p := w.path(x.X); p != "" {
			return p + "[]"
		}
	}
	return ""
}

// nilGuarded returns the paths that cond establishes as non-nil (p != nil, conjunctions).
func (w *walkAnalysis) nilGuarded(cond ast.Expr) []string {
	switch x := ast.Unparen(cond).(type) {
	case *ast.BinaryExpr:
		if x.Op == token.LAND {
			return append(w.nilGuarded(x.X), w.nilGuarded(x.Y)...)
		}
		if x.Op == token.NEQ {
			if id, ok := ast.Unparen(x.Y).(*ast.Ident); ok && id.Name == "nil" {
				if p := w.path(x.X); p != "" {
					return []string{p}
				}
			}
		}
	case *ast.Ident: // `ok` of a comma-ok assertion guards the asserted alias
		return nil
	}
	return nil
}

func (w *walkAnalysis) scanExpr(e ast.Expr, uses *[]walkedUse, guardStack []string) {
	ast.Inspect(e, func(n ast.Node) bool {
		call, ok := n.(*ast.CallExpr)
		if !ok {
			return true
		}
		callee := calleeObj(w.info, call)
		if (callee == w.walkObj || callee == w.listObj) && callee != nil && len(call.Args) == 2 {
			if p := w.path(call.Args[1]); p != "" {
				*uses = append(*uses, walkedUse{p, call.Pos(), call, append([]string(nil), w.condStack...)})
				if w.guardedAt == nil {
					w.guardedAt = map[token.Pos]map[string]bool{}
				}
				g := map[string]bool{}
				for _, s := range guardStack {
					g[s] = true
				}
				w.guardedAt[call.Pos()] = g
			}
		}
		return true
	})
}

func (w *walkAnalysis) checkPrePost(fd *ast.FuncDecl, ts *ast.TypeSwitchStmt, vis, node types.Object) {
	c := w.c
	isVisit := func(e ast.Expr, arg func(ast.Expr) bool) bool {
		call, ok := ast.Unparen(e).(*ast.CallExpr)
		if !ok || len(call.Args) != 1 {
			return false
		}
		sel, ok := call.Fun.(*ast.SelectorExpr)
		if !ok || sel.Sel.Name != "Visit" {
			return false
		}
		id, ok := sel.X.(*ast.Ident)
		return ok && w.info.Uses[id] == vis && arg(call.Args[0])
	}
	// pre: some statement before the switch calls v.Visit(node)
	pre := false
	post := false
	stmts := fd.Body.List
	swIdx := -1
	for i, s := range stmts {
		if s == ast.Stmt(ts) {
			swIdx = i
		}
	}
	if swIdx < 0 {
		c.Undecided("walk-shape", "Walk body", fd.Pos(), "the node type switch is not a top-level statement of Walk")
		return
	}
	for _, s := range stmts[:swIdx] {
		ast.Inspect(s, func(n ast.Node) bool {
			if e, ok := n.(ast.Expr); ok && isVisit(e, func(a ast.Expr) bool {
				id, ok := ast.Unparen(a).(*ast.Ident)
				return ok && w.info.Uses[id] == node
			}) {
				pre = true
			}
			return true
		})
	}
	c.Decide(pre, "walk-pre", "Visit(node)", fd.Pos(), "v.Visit(node) precedes the children", "v.Visit(node) is not called before the children are walked (parents before children)")
	// post: v.Visit(nil) after the switch, and no return/goto inside the switch
	for _, s := range stmts[swIdx+1:] {
		if es, ok := s.(*ast.ExprStmt); ok && isVisit(es.X, func(a ast.Expr) bool {
			id, ok := ast.Unparen(a).(*ast.Ident)
			return ok && id.Name == "nil"
		}) {
			post = true
			break
		}
		if _, ok := s.(*ast.ReturnStmt); ok {
			break
		}
	}
	escapes := token.NoPos
	ast.Inspect(ts, func(n ast.Node) bool {
		switch x := n.(type) {
		case *ast.FuncLit:
			return false
		case *ast.ReturnStmt:
			escapes = x.Pos()
		case *ast.BranchStmt:
			if x.Tok == token.GOTO {
				escapes = x.Pos()
			}
		}
		return true
	})
	if !post {
		c.Bad("walk-post", "Visit(nil)", fd.End(), "v.Visit(nil) is not called after the children")
	} else if escapes.IsValid() {
		c.Bad("walk-post", "Visit(nil)", escapes, "a return/goto inside the node switch skips v.Visit(nil) for that node kind")
	} else {
		c.Ok("walk-post", "Visit(nil)", fd.End(), "v.Visit(nil) post-dominates every case of the switch")
	}
}

// isCommaOk: `if e, ok := x.(T); ok` — the condition is the assertion's own ok flag.
func (w *walkAnalysis) isCommaOk(x *ast.IfStmt) bool {
	as, ok := x.Init.(*ast.AssignStmt)
	if !ok || len(as.Lhs) != 2 || len(as.Rhs) != 1 {
		return false
	}
	if _, ok := ast.Unparen(as.Rhs[0]).(*ast.TypeAssertExpr); !ok {
		return false
	}
	id, ok := ast.Unparen(x.Cond).(*ast.Ident)
	return ok && w.info.Uses[id] != nil && w.info.Uses[id] == w.info.Defs[as.Lhs[1].(*ast.Ident)]
}

// normCond renders a condition with the case variable called n.
func (w *walkAnalysis) normCond(e ast.Expr) string {
	s := types.ExprString(e)
	for obj, p := range w.alias {
		if p == "n" && obj != nil {
			s = replaceIdent(s, obj.Name(), "n")
		}
	}
	return strings.ReplaceAll(s, " ", "")
}
