package props

import (
	"go/ast"
	"go/token"
	"go/types"

	"golang.org/x/tools/go/packages"
)

// storeSite is one place where a struct field receives a value.
type storeSite struct {
	Pkg   *packages.Package
	Fn    *ast.FuncDecl // enclosing declaration (nil at package level)
	Value ast.Expr
	Pos   token.Pos
	// Lit is the composite literal when the store is a keyed element of one.
	Lit *ast.CompositeLit
}

// fieldStores finds every composite-literal key and assignment that sets field in the given packages.
func fieldStores(pkgs []*packages.Package, field *types.Var) []storeSite {
	var out []storeSite
	for _, pk := range pkgs {
		for _, f := range pk.Syntax {
			for _, d := range f.Decls {
				fd, _ := d.(*ast.FuncDecl)
				ast.Inspect(d, func(n ast.Node) bool {
					switch x := n.(type) {
					case *ast.CompositeLit:
						for _, el := range x.Elts {
							kv, ok := el.(*ast.KeyValueExpr)
							if !ok {
								continue
							}
							if id, ok := kv.Key.(*ast.Ident); ok && pk.TypesInfo.Uses[id] == field {
								out = append(out, storeSite{pk, fd, kv.Value, kv.Pos(), x})
							}
						}
						// positional struct literal
						if st := structOf(pk.TypesInfo.TypeOf(x)); st != nil && len(x.Elts) > 0 {
							if _, keyed := x.Elts[0].(*ast.KeyValueExpr); !keyed {
								for i, el := range x.Elts {
									if i < st.NumFields() && st.Field(i) == field {
										out = append(out, storeSite{pk, fd, el, el.Pos(), x})
									}
								}
							}
						}
					case *ast.AssignStmt:
						for i, l := range x.Lhs {
							sel, ok := ast.Unparen(l).(*ast.SelectorExpr)
							if !ok {
								continue
							}
							if s := pk.TypesInfo.Selections[sel]; s != nil && s.Obj() == field {
								var v ast.Expr
								if len(x.Rhs) == len(x.Lhs) {
									v = x.Rhs[i]
								} else if len(x.Rhs) == 1 {
									v = x.Rhs[0]
								}
								out = append(out, storeSite{pk, fd, v, x.Pos(), nil})
							}
						}
					}
					return true
				})
			}
		}
	}
	return out
}

// storedTypes over-approximates the dynamic types an interface-typed expression can hold,
// following local variables and the return statements of callees with source (depth-bounded).
// unknown is set when some source cannot be resolved to a concrete type.
func storedTypes(prog map[string]*packages.Package, pk *packages.Package, fn *ast.FuncDecl, e ast.Expr, depth int) (ts []types.Type, unknown bool) {
	e = ast.Unparen(e)
	if e == nil {
		return nil, true
	}
	info := pk.TypesInfo
	if id, ok := e.(*ast.Ident); ok && id.Name == "nil" && info.Uses[id] == types.Universe.Lookup("nil") {
		return nil, false
	}
	t := info.TypeOf(e)
	if t == nil {
		return nil, true
	}
	if _, isIface := types.Unalias(t).Underlying().(*types.Interface); !isIface {
		return []types.Type{t}, false
	}
	if depth <= 0 {
		return nil, true
	}
	switch x := e.(type) {
	case *ast.Ident:
		obj := info.Uses[x]
		if obj == nil || fn == nil {
			return nil, true
		}
		found := false
		ast.Inspect(fn, func(n ast.Node) bool {
			switch s := n.(type) {
			case *ast.AssignStmt:
				for i, l := range s.Lhs {
					lid, ok := l.(*ast.Ident)
					if !ok {
						continue
					}
					if info.Uses[lid] != obj && info.Defs[lid] != obj {
						continue
					}
					found = true
					if len(s.Rhs) == len(s.Lhs) {
						a, u := storedTypes(prog, pk, fn, s.Rhs[i], depth-1)
						ts = append(ts, a...)
						unknown = unknown || u
					} else {
						unknown = true
					}
				}
			case *ast.ValueSpec:
				for i, nm := range s.Names {
					if info.Defs[nm] == obj {
						found = true
						if i < len(s.Values) {
							a, u := storedTypes(prog, pk, fn, s.Values[i], depth-1)
							ts = append(ts, a...)
							unknown = unknown || u
						}
					}
				}
			}
			return true
		})
		if !found {
			unknown = true
		}
		return
	case *ast.CallExpr:
		callee, _ := calleeObj(info, x).(*types.Func)
		if callee == nil || callee.Pkg() == nil {
			return nil, true
		}
		cpk := prog[callee.Pkg().Path()]
		if cpk == nil {
			return nil, true
		}
		var decl *ast.FuncDecl
		for _, f := range cpk.Syntax {
			for _, d := range f.Decls {
				if fd, ok := d.(*ast.FuncDecl); ok && cpk.TypesInfo.Defs[fd.Name] == callee {
					decl = fd
				}
			}
		}
		if decl == nil || decl.Body == nil {
			return nil, true
		}
		var walk func(n ast.Node) bool
		walk = func(n ast.Node) bool {
			switch s := n.(type) {
			case *ast.FuncLit:
				return false
			case *ast.ReturnStmt:
				if len(s.Results) >= 1 && len(s.Results) == decl.Type.Results.NumFields() {
					a, u := storedTypes(prog, cpk, decl, s.Results[0], depth-1)
					ts = append(ts, a...)
					unknown = unknown || u
				} else {
					unknown = true
				}
			}
			return true
		}
		ast.Inspect(decl.Body, walk)
		return
	}
	return nil, true
}
